//! Bounded witness search: runs the REAL crate (a scratch copy of /repo's working tree, public API only) over a finite grid
//! of range texts and versions and checks the property statements themselves.  It never decides a property: it only turns a
//! failed or undecided proof obligation into a concrete failing input (or finds none, within its stated bound).
//!
//! usage: witness <property id>          prints `WITNESS <json>` for the first failing input and exits 1; exits 0 if none
use nodejs_semver::{Identifier, Range, Version, VersionDiff};
use std::cmp::Ordering;
use std::collections::hash_map::DefaultHasher;
use std::hash::{Hash, Hasher};
use std::panic::{catch_unwind, AssertUnwindSafe};

// ------------------------------------------------------------------------------------------------ reference: SemVer 2.0.0 section 11
#[derive(Clone, Debug, PartialEq)]
struct K { ma: u64, mi: u64, pa: u64, pre: Vec<Id> }
#[derive(Clone, Debug, PartialEq)]
enum Id { N(u64), A(String) }

fn key(v: &Version) -> K {
    K { ma: v.major, mi: v.minor, pa: v.patch, pre: v.pre_release.iter().map(|i| match i { Identifier::Numeric(n) => Id::N(*n), Identifier::AlphaNumeric(s) => Id::A(s.clone()) }).collect() }
}
fn id_cmp(a: &Id, b: &Id) -> Ordering {
    match (a, b) {
        (Id::N(x), Id::N(y)) => x.cmp(y),
        (Id::N(_), Id::A(_)) => Ordering::Less,
        (Id::A(_), Id::N(_)) => Ordering::Greater,
        (Id::A(x), Id::A(y)) => x.as_bytes().cmp(y.as_bytes()),
    }
}
fn kcmp(a: &K, b: &K) -> Ordering {
    if a.ma != b.ma { return a.ma.cmp(&b.ma); }
    if a.mi != b.mi { return a.mi.cmp(&b.mi); }
    if a.pa != b.pa { return a.pa.cmp(&b.pa); }
    match (a.pre.is_empty(), b.pre.is_empty()) {
        (true, true) => return Ordering::Equal,
        (true, false) => return Ordering::Greater,
        (false, true) => return Ordering::Less,
        _ => {}
    }
    let mut i = 0;
    loop {
        match (a.pre.get(i), b.pre.get(i)) {
            (None, None) => return Ordering::Equal,
            (None, Some(_)) => return Ordering::Less,
            (Some(_), None) => return Ordering::Greater,
            (Some(x), Some(y)) => { let c = id_cmp(x, y); if c != Ordering::Equal { return c; } }
        }
        i += 1;
    }
}
fn ref_diff(a: &K, b: &K) -> Option<VersionDiff> {
    let c = kcmp(a, b);
    if c == Ordering::Equal { return None; }
    let (hi, lo) = if c == Ordering::Greater { (a, b) } else { (b, a) };
    let (hp, lp) = (!hi.pre.is_empty(), !lo.pre.is_empty());
    if lp && !hp {
        if lo.pa == 0 && lo.mi == 0 { return Some(VersionDiff::Major); }
        if hi.pa != 0 { return Some(VersionDiff::Patch); }
        if hi.mi != 0 { return Some(VersionDiff::Minor); }
        return Some(VersionDiff::Major);
    }
    if a.ma != b.ma { return Some(if hp { VersionDiff::PreMajor } else { VersionDiff::Major }); }
    if a.mi != b.mi { return Some(if hp { VersionDiff::PreMinor } else { VersionDiff::Minor }); }
    if a.pa != b.pa { return Some(if hp { VersionDiff::PrePatch } else { VersionDiff::Patch }); }
    Some(VersionDiff::PreRelease)
}

// ------------------------------------------------------------------------------------------------ reference: npm comparator sets
#[derive(Clone, Copy, Debug, PartialEq)]
enum Op { Lt, Le, Gt, Ge, Eq }
#[derive(Clone, Debug)]
struct Cmp { op: Op, k: K }
type CSet = Vec<Cmp>;
fn k3(a: u64, b: u64, c: u64) -> K { K { ma: a, mi: b, pa: c, pre: vec![] } }
fn k0(a: u64, b: u64, c: u64) -> K { K { ma: a, mi: b, pa: c, pre: vec![Id::N(0)] } }
fn cmp_ok(c: &Cmp, v: &K) -> bool {
    let o = kcmp(v, &c.k);
    match c.op { Op::Lt => o == Ordering::Less, Op::Le => o != Ordering::Greater, Op::Gt => o == Ordering::Greater, Op::Ge => o != Ordering::Less, Op::Eq => o == Ordering::Equal }
}
fn set_within(cs: &CSet, v: &K) -> bool { cs.iter().all(|c| cmp_ok(c, v)) }
fn set_gate(cs: &CSet, v: &K) -> bool { v.pre.is_empty() || cs.iter().any(|c| !c.k.pre.is_empty() && c.k.ma == v.ma && c.k.mi == v.mi && c.k.pa == v.pa) }
fn set_sat(cs: &CSet, v: &K) -> bool { set_within(cs, v) && set_gate(cs, v) }
/// a range = alternatives, each a comparator set
type RefRange = Vec<CSet>;
fn ref_sat(r: &RefRange, v: &K) -> bool { r.iter().any(|cs| set_sat(cs, v)) }
fn ref_within(r: &RefRange, v: &K) -> bool { r.iter().any(|cs| set_within(cs, v)) }

#[derive(Clone, Debug)]
struct Partial { text: &'static str, ma: Option<u64>, mi: Option<u64>, pa: Option<u64>, pre: Vec<Id> }
fn partials() -> Vec<Partial> {
    fn p(text: &'static str, ma: Option<u64>, mi: Option<u64>, pa: Option<u64>, pre: Vec<Id>) -> Partial {
        // node-semver isX cascade: everything after a wildcard is a wildcard
        let mi = if ma.is_some() { mi } else { None };
        let pa = if mi.is_some() { pa } else { None };
        let pre = if pa.is_some() { pre } else { vec![] };
        Partial { text, ma, mi, pa, pre }
    }
    let a = |s: &str| Id::A(s.to_string());
    vec![
        p("*", None, None, None, vec![]), p("x", None, None, None, vec![]),
        p("0", Some(0), None, None, vec![]), p("1", Some(1), None, None, vec![]), p("2", Some(2), None, None, vec![]),
        p("1.x", Some(1), None, None, vec![]), p("0.0", Some(0), Some(0), None, vec![]), p("0.1", Some(0), Some(1), None, vec![]),
        p("1.2", Some(1), Some(2), None, vec![]), p("1.2.x", Some(1), Some(2), None, vec![]), p("1.x.x", Some(1), None, None, vec![]),
        p("0.0.0", Some(0), Some(0), Some(0), vec![]), p("0.0.1", Some(0), Some(0), Some(1), vec![]), p("0.1.2", Some(0), Some(1), Some(2), vec![]),
        p("1.0.0", Some(1), Some(0), Some(0), vec![]), p("1.2.3", Some(1), Some(2), Some(3), vec![]), p("2.0.0", Some(2), Some(0), Some(0), vec![]),
        p("1.2.3-beta", Some(1), Some(2), Some(3), vec![a("beta")]), p("1.2.3-0", Some(1), Some(2), Some(3), vec![Id::N(0)]),
        p("0.0.0-0", Some(0), Some(0), Some(0), vec![Id::N(0)]), p("1.0.0-alpha", Some(1), Some(0), Some(0), vec![a("alpha")]),
        p("2.0.0-rc.1", Some(2), Some(0), Some(0), vec![a("rc"), Id::N(1)]), p("0.0.0-beta", Some(0), Some(0), Some(0), vec![a("beta")]),
        p("1.x.3", Some(1), None, Some(3), vec![]), p("1.2.x-beta", Some(1), Some(2), None, vec![a("beta")]),
        p("1.2.3-1", Some(1), Some(2), Some(3), vec![Id::N(1)]), p("1.x.3-beta", Some(1), None, Some(3), vec![a("beta")]), p("2.x.1-rc.1", Some(2), None, Some(1), vec![a("rc"), Id::N(1)]), p("1.2.*-0", Some(1), Some(2), None, vec![Id::N(0)]),
    ]
}
fn full(p: &Partial) -> K { K { ma: p.ma.unwrap_or(0), mi: p.mi.unwrap_or(0), pa: p.pa.unwrap_or(0), pre: p.pre.clone() } }
fn any_set() -> CSet { vec![Cmp { op: Op::Ge, k: k3(0, 0, 0) }] }
fn null_set() -> CSet { vec![Cmp { op: Op::Lt, k: k0(0, 0, 0) }] }
/// README "X-Ranges" / range.js replaceXRange
fn npm_primitive(op: &str, p: &Partial) -> CSet {
    let c = |op, k| Cmp { op, k };
    match (p.ma, p.mi, p.pa) {
        (None, _, _) => if op == ">" || op == "<" { null_set() } else { any_set() },
        (Some(m), None, _) => match op {
            ">" => vec![c(Op::Ge, k3(m + 1, 0, 0))], ">=" => vec![c(Op::Ge, k3(m, 0, 0))], "<" => vec![c(Op::Lt, k0(m, 0, 0))], "<=" => vec![c(Op::Lt, k0(m + 1, 0, 0))],
            _ => vec![c(Op::Ge, k3(m, 0, 0)), c(Op::Lt, k0(m + 1, 0, 0))],
        },
        (Some(m), Some(n), None) => match op {
            ">" => vec![c(Op::Ge, k3(m, n + 1, 0))], ">=" => vec![c(Op::Ge, k3(m, n, 0))], "<" => vec![c(Op::Lt, k0(m, n, 0))], "<=" => vec![c(Op::Lt, k0(m, n + 1, 0))],
            _ => vec![c(Op::Ge, k3(m, n, 0)), c(Op::Lt, k0(m, n + 1, 0))],
        },
        _ => { let k = full(p); vec![c(match op { ">" => Op::Gt, ">=" => Op::Ge, "<" => Op::Lt, "<=" => Op::Le, _ => Op::Eq }, k)] }
    }
}
fn npm_tilde(p: &Partial) -> CSet {
    let c = |op, k| Cmp { op, k };
    match (p.ma, p.mi, p.pa) {
        (None, _, _) => any_set(),
        (Some(m), None, _) => vec![c(Op::Ge, k3(m, 0, 0)), c(Op::Lt, k0(m + 1, 0, 0))],
        (Some(m), Some(n), None) => vec![c(Op::Ge, k3(m, n, 0)), c(Op::Lt, k0(m, n + 1, 0))],
        (Some(m), Some(n), Some(_)) => vec![c(Op::Ge, full(p)), c(Op::Lt, k0(m, n + 1, 0))],
    }
}
fn npm_caret(p: &Partial) -> CSet {
    let c = |op, k| Cmp { op, k };
    match (p.ma, p.mi, p.pa) {
        (None, _, _) => any_set(),
        (Some(m), None, _) => vec![c(Op::Ge, k3(m, 0, 0)), c(Op::Lt, k0(m + 1, 0, 0))],
        (Some(m), Some(n), None) => if m == 0 { vec![c(Op::Ge, k3(0, n, 0)), c(Op::Lt, k0(0, n + 1, 0))] } else { vec![c(Op::Ge, k3(m, n, 0)), c(Op::Lt, k0(m + 1, 0, 0))] },
        (Some(m), Some(n), Some(q)) => {
            let up = if m == 0 && n == 0 { k0(0, 0, q + 1) } else if m == 0 { k0(0, n + 1, 0) } else { k0(m + 1, 0, 0) };
            vec![c(Op::Ge, full(p)), c(Op::Lt, up)]
        }
    }
}
fn npm_hyphen(f: &Partial, t: &Partial) -> CSet {
    let c = |op, k| Cmp { op, k };
    let mut out = vec![];
    match (f.ma, f.mi, f.pa) {
        (None, _, _) => {}
        (Some(m), None, _) => out.push(c(Op::Ge, k3(m, 0, 0))),
        (Some(m), Some(n), None) => out.push(c(Op::Ge, k3(m, n, 0))),
        _ => out.push(c(Op::Ge, full(f))),
    }
    match (t.ma, t.mi, t.pa) {
        (None, _, _) => {}
        (Some(m), None, _) => out.push(c(Op::Lt, k0(m + 1, 0, 0))),
        (Some(m), Some(n), None) => out.push(c(Op::Lt, k0(m, n + 1, 0))),
        _ => out.push(c(Op::Le, full(t))),
    }
    out
}

/// one comparator text with npm's reading of it
#[derive(Clone, Debug)]
struct Simple { text: String, cs: CSet, hyphen: bool, known_dev: bool }
fn simples() -> Vec<Simple> {
    let ps = partials();
    let mut out = vec![];
    for p in &ps {
        for op in ["", "=", "<", "<=", ">", ">="] {
            // known findings (known_findings.json): `<M` is `<M.0.0` instead of `<M.0.0-0` -- only visible next to a prerelease comparator
            let known_dev = op == "<" && p.ma.is_some() && p.mi.is_none();
            out.push(Simple { text: format!("{}{}", op, p.text), cs: npm_primitive(op, p), hyphen: false, known_dev });
        }
        for t in ["~", "~>"] { out.push(Simple { text: format!("{}{}", t, p.text), cs: npm_tilde(p), hyphen: false, known_dev: false }); }
        // known finding: `^0` has no lower bound `>=0.0.0`
        out.push(Simple { text: format!("^{}", p.text), cs: npm_caret(p), hyphen: false, known_dev: p.ma == Some(0) && p.mi.is_none() });
    }
    let hs = ["*", "1", "1.2", "1.2.3", "2", "2.1", "0.0.0-beta", "1.2.3-beta", "2.0.0-rc.1", "1.x.3"];
    for f in ps.iter().filter(|p| hs.contains(&p.text)) {
        for t in ps.iter().filter(|p| hs.contains(&p.text)) {
            out.push(Simple { text: format!("{} - {}", f.text, t.text), cs: npm_hyphen(f, t), hyphen: true, known_dev: false });
        }
    }
    out
}
/// the range grid: (text, npm reading); conjunctions and alternatives over a reduced set
#[derive(Clone, Debug)]
struct Case { text: String, rr: RefRange }
fn grid(level: u32) -> Vec<Case> {
    let ss = simples();
    let mut out: Vec<Case> = ss.iter().filter(|s| !s.known_dev).map(|s| Case { text: s.text.clone(), rr: vec![s.cs.clone()] }).collect();
    // known-deviating forms alone are fine (the deviation needs a prerelease neighbour)
    out.extend(ss.iter().filter(|s| s.known_dev).map(|s| Case { text: s.text.clone(), rr: vec![s.cs.clone()] }));
    let pick = [">=1.2.3", ">1.0.0", "<2.0.0", "<=1.2.3", "<1.2.3", "^1.2", "~1.2.3", "*", "1.x", ">=1.2.3-beta", "<1.0.0", "^0.1", "<0.0.0-beta", ">=0.0.0", "1.2.3", "<=2.0.0-rc.1", ">=2.0.0", "<=1", ">1", "<1.2.3-beta", ">=1.0.0-alpha", "=1.2.3-beta", "<=0.0.1", ">0.0.0-0", "~0.0", "^0.0.1", "<2.0.0-rc.1", ">=0.5.0"];
    let red: Vec<&Simple> = ss.iter().filter(|s| pick.contains(&s.text.as_str()) && !s.hyphen).collect();
    for a in &red { for b in &red {
        if a.known_dev || b.known_dev { continue; }
        let mut cs = a.cs.clone(); cs.extend(b.cs.clone());
        out.push(Case { text: format!("{} {}", a.text, b.text), rr: vec![cs] });
    } }
    // a few triples at every level (a list whose proper prefix is already empty)
    for a in red.iter().take(9) { for b in red.iter().take(9) { for c in red.iter().skip(19).take(9) {
        if a.known_dev || b.known_dev || c.known_dev { continue; }
        let mut cs = a.cs.clone(); cs.extend(b.cs.clone()); cs.extend(c.cs.clone());
        out.push(Case { text: format!("{} {} {}", a.text, b.text, c.text), rr: vec![cs] });
        let mut cs2 = c.cs.clone(); cs2.extend(a.cs.clone()); cs2.extend(b.cs.clone());
        out.push(Case { text: format!("{} {} {}", c.text, a.text, b.text), rr: vec![cs2] });
    } } }
    if level > 0 {
        for a in &red { for b in &red { for c in red.iter().take(10) {
            let mut cs = a.cs.clone(); cs.extend(b.cs.clone()); cs.extend(c.cs.clone());
            out.push(Case { text: format!("{} {} {}", a.text, b.text, c.text), rr: vec![cs] });
        } } }
    }
    let alts = [">=1.2.3 <1.0.0", "1.2.3", "<1.0.0", "^2", ">=3", "1.x", "1.2.3-alpha", ">=1.0.0 <2.0.0", "5.0.0", ">4", "<=1.0.0", ">=2.0.0", "3.x", "<0.0.0-0", ">=0.0.0-0", "<2.0.0"];
    let mut alt_cases: Vec<Case> = vec![];
    for t in alts {
        // build the reference of a space joined list from its parts
        let parts: Vec<&str> = t.split(' ').collect();
        let mut cs: CSet = vec![];
        let mut ok = true;
        for part in parts { match ss.iter().find(|s| s.text == part) { Some(s) => cs.extend(s.cs.clone()), None => { ok = false; } } }
        if ok { alt_cases.push(Case { text: t.to_string(), rr: vec![cs] }); }
    }
    let extra_pre = [("1.2.3-alpha", Partial { text: "1.2.3-alpha", ma: Some(1), mi: Some(2), pa: Some(3), pre: vec![Id::A("alpha".into())] }),
                     ("5.0.0", Partial { text: "5.0.0", ma: Some(5), mi: Some(0), pa: Some(0), pre: vec![] }),
                     (">4", Partial { text: "4", ma: Some(4), mi: None, pa: None, pre: vec![] }), (">=3", Partial { text: "3", ma: Some(3), mi: None, pa: None, pre: vec![] }),
                     ("3.x", Partial { text: "3.x", ma: Some(3), mi: None, pa: None, pre: vec![] }), ("^2", Partial { text: "2", ma: Some(2), mi: None, pa: None, pre: vec![] })];
    for (t, p) in extra_pre.iter() {
        if alt_cases.iter().any(|c| c.text == *t) { continue; }
        let cs = if t.starts_with(">=") { npm_primitive(">=", p) } else if t.starts_with('>') { npm_primitive(">", p) } else if t.starts_with('^') { npm_caret(p) } else { npm_primitive("", p) };
        alt_cases.push(Case { text: t.to_string(), rr: vec![cs] });
    }
    for (ai, a) in alt_cases.iter().enumerate() { for (bi, b) in alt_cases.iter().enumerate() {
        let mut rr = a.rr.clone(); rr.extend(b.rr.clone());
        out.push(Case { text: format!("{} || {}", a.text, b.text), rr: rr.clone() });
        // every spelling of the separator (Display itself prints `a||b`)
        let seps = ["||", " ||", "|| ", "  ||  "];
        out.push(Case { text: format!("{}{}{}", a.text, seps[(ai + bi) % 4], b.text), rr });
    } }
    // the empty range is `*`
    for t in ["", " ", "1.2.3 || ", " || 1.2.3", "1.2.3 ||  || 2.0.0", "||", "1.2.3 ||", "   || 1.2.3-beta", "<1.0.0 ||   "] {
        let mut rr: RefRange = vec![];
        for part in t.split("||") {
            let part = part.trim();
            if part.is_empty() { rr.push(any_set()); } else if let Some(sm) = ss.iter().find(|s| s.text == part) { rr.push(sm.cs.clone()); }
        }
        out.push(Case { text: t.to_string(), rr });
    }
    // garbage tokens containing a single `|` are dropped like any other garbage
    {
        let find = |t: &str| ss.iter().find(|s| s.text == t).map(|s| s.cs.clone()).unwrap();
        let mut both = find("1.2.3"); both.extend(find("2.0.0"));
        out.push(Case { text: "1.2.3 | 2.0.0".into(), rr: vec![both] });
        let mut c = find(">=1.0.0"); c.extend(find("<2.0.0"));
        out.push(Case { text: ">=1.0.0 a|b <2.0.0".into(), rr: vec![c.clone()] });
        out.push(Case { text: ">=1.0.0 | <2.0.0".into(), rr: vec![c.clone()] });
        out.push(Case { text: "1.2.3 | || <1.0.0".into(), rr: vec![find("1.2.3"), find("<1.0.0")] });
        out.push(Case { text: "<1.0.0 || 1.2.3 |".into(), rr: vec![find("<1.0.0"), find("1.2.3")] });
        out.push(Case { text: ">=1.0.0 <2.0.0||3".into(), rr: vec![c, npm_primitive("", &Partial { text: "3", ma: Some(3), mi: None, pa: None, pre: vec![] })] });
    }
    // loose spellings the crate accepts (C01): blanks after an operator, `v` prefix, leading zeros, prerelease without its hyphen,
    // surrounding blanks, unparseable tokens dropped -- each must read like the canonical spelling
    {
        let find = |t: &str| ss.iter().find(|s| s.text == t).map(|s| s.cs.clone());
        let variants: [(&str, &str); 47] = [
            (">= 1.2.3", ">=1.2.3"), (">=v1.2.3", ">=1.2.3"), ("v1.2.3", "1.2.3"), ("=v1.2.3", "=1.2.3"), ("01.02.03", "1.2.3"), (">=01.02.03", ">=1.2.3"),
            ("1.2.3beta", "1.2.3-beta"), (">=1.2.3beta", ">=1.2.3-beta"), ("<1.2.3beta", "<1.2.3-beta"), ("~ 1.2.3", "~1.2.3"), ("^ 1.2.3", "^1.2.3"), ("~> 1.2.3", "~>1.2.3"),
            ("  1.2.3  ", "1.2.3"), ("v 1.2.3", "1.2.3"), ("^v1.2", "^1.2"), ("~v1.2", "~1.2"), ("<=v2", "<=2"), ("> 1.0.0", ">1.0.0"), ("< 2.0.0", "<2.0.0"), ("<= 1.2.3", "<=1.2.3"),
            ("= 1.2.3", "=1.2.3"), (">=1.2.3-beta", ">=1.2.3-beta"), ("^01.02", "^1.2"), ("~01.2.3", "~1.2.3"), ("1.X", "1.x"), ("1.*", "1.x"), ("1.2.*", "1.2.x"), ("1.2.X", "1.2.x"),
            ("X", "x"), (">=1.X", ">=1.x"), (">=1.2.3-beta+exp.sha.5114f85", ">=1.2.3-beta"), ("1.2.3-beta+b", "1.2.3-beta"), ("<1.2.3-beta+b.1", "<1.2.3-beta"), ("^1.2.3-beta+x", "^1.2.3-beta"), ("~1.2.3-beta+x.y", "~1.2.3-beta"), ("<=1.2.3-0+0", "<=1.2.3-0"), (">=1.2.3-01", ">=1.2.3-1"), ("<1.2.3-01", "<1.2.3-1"), ("1.2.3-01", "1.2.3-1"), ("^1.2.3-01", "^1.2.3-1"), ("~1.2.3-001", "~1.2.3-1"), ("<1.2.X", "<1.2.x"), ("^1.2.X", "^1.2"), ("~1.X", "~1.x"), ("=1.*", "=1.x"), ("1.2.3+build", "1.2.3"), (">=1.2.3+b.1", ">=1.2.3"),
        ];
        for (text, canon) in variants.iter() {
            if let Some(cs) = find(canon) {
                out.push(Case { text: text.to_string(), rr: vec![cs.clone()] });
                out.push(Case { text: format!("{} foo", text), rr: vec![cs.clone()] });
                out.push(Case { text: format!("bar {}", text), rr: vec![cs.clone()] });
                if let Some(c2) = find("<2.0.0") { let mut both = cs.clone(); both.extend(c2); out.push(Case { text: format!("{} junk < 2.0.0", text), rr: vec![both] }); }
                if let Some(c3) = find(">=3") { out.push(Case { text: format!("{}  ||  >= 3", text), rr: vec![cs.clone(), c3] }); }
            }
        }
    }
    // an alternative made only of unparseable tokens carries no comparator and is dropped
    out.push(Case { text: "foo || 1.2.3".into(), rr: vec![npm_primitive("", &partials()[15])] });
    out.push(Case { text: "1.2.3 foo".into(), rr: vec![npm_primitive("", &partials()[15])] });
    // long lists whose LAST member decides (a cap on the number of comparators / alternatives widens or narrows the range)
    for k in [12usize, 30, 70, 150, 300, 700] {
        let ge = |a, b, c| Cmp { op: Op::Ge, k: k3(a, b, c) };
        let lt = |a, b, c| Cmp { op: Op::Lt, k: k3(a, b, c) };
        let mut cs: CSet = (0..k).map(|_| ge(0, 0, 1)).collect(); cs.push(ge(2, 0, 0));
        out.push(Case { text: format!("{}>=2.0.0", ">=0.0.1 ".repeat(k)), rr: vec![cs] });
        let mut cs: CSet = (0..k).map(|_| lt(5, 0, 0)).collect(); cs.push(lt(1, 0, 0));
        out.push(Case { text: format!("{}<1.0.0", "<5.0.0 ".repeat(k)), rr: vec![cs] });
        let mut rr: RefRange = (0..k).map(|_| vec![Cmp { op: Op::Eq, k: k3(0, 0, 1) }]).collect(); rr.push(vec![Cmp { op: Op::Eq, k: k3(3, 0, 0) }]);
        out.push(Case { text: format!("{}3.0.0", "0.0.1 || ".repeat(k)), rr });
    }
    out
}
fn versions() -> Vec<Version> {
    let mut out = vec![];
    for core in ["0.0.0", "0.0.1", "0.0.2", "0.1.0", "0.1.2", "0.2.0", "0.5.0", "1.0.0", "1.0.1", "1.2.0", "1.2.2", "1.2.3", "1.2.4", "1.3.0", "1.9.9", "2.0.0", "2.0.1", "2.1.0", "2.1.3", "3.0.0", "3.1.0", "4.0.0", "4.0.1", "5.0.0"] {
        for pre in ["", "-0", "-1", "-2", "-5", "-alpha", "-alpha.0", "-beta", "-beta.1", "-rc", "-rc.1", "-rc.2", "-Beta"] {
            out.push(vparse(format!("{}{}", core, pre)).unwrap());
        }
    }
    out.push(vparse("1.2.3+build").unwrap());
    out.push(vparse("1.2.3-beta+b.7").unwrap());
    out.push(vparse("900719925474099.0.0").unwrap());
    out.push(vparse("1.900719925474099.900719925474099").unwrap());
    out.push(vparse("2.0.0-0").unwrap());
    out
}

fn fail(prop: &str, check: &str, input: String, detail: String) -> ! {
    let esc = |s: &str| s.replace('\\', "\\\\").replace('"', "\\\"").replace('\t', "\\t").replace('\n', "\\n").replace('\r', "\\r");
    println!("WITNESS {{\"property\":\"{}\",\"check\":\"{}\",\"input\":\"{}\",\"detail\":\"{}\"}}", prop, esc(check), esc(&input), esc(&detail));
    std::process::exit(1)
}


// ------------------------------------------------------------------------------------------------ both ways in
// `Range::parse` / `Version::parse` and `str::parse::<..>()` (FromStr: the README's and serde's way in) must be the same function
static PROP: std::sync::OnceLock<String> = std::sync::OnceLock::new();
fn cur_prop() -> &'static str { PROP.get().map(|s| s.as_str()).unwrap_or("C06") }
fn rparse<S: AsRef<str>>(t: S) -> Result<Range, nodejs_semver::SemverError> {
    let t = t.as_ref();
    let a = Range::parse(t);
    let b = t.parse::<Range>();
    match (&a, &b) {
        (Ok(x), Ok(y)) => if x != y || x.to_string() != y.to_string() { fail(cur_prop(), "str::parse::<Range>() == Range::parse()", format!("`{}`", t), format!("parse: `{}` from_str: `{}`", x, y)) },
        (Err(_), Err(_)) => {}
        _ => fail(cur_prop(), "str::parse::<Range>() == Range::parse()", format!("`{}`", t), format!("parse ok: {} from_str ok: {}", a.is_ok(), b.is_ok())),
    }
    a
}
fn vparse<S: AsRef<str>>(t: S) -> Result<Version, nodejs_semver::SemverError> {
    let t = t.as_ref();
    let a = Version::parse(t);
    let b = t.parse::<Version>();
    match (&a, &b) {
        (Ok(x), Ok(y)) => if x != y || x.build != y.build || x.pre_release != y.pre_release || x.to_string() != y.to_string() { fail(cur_prop(), "str::parse::<Version>() == Version::parse()", format!("`{}`", t), format!("parse: `{}` from_str: `{}`", x, y)) },
        (Err(_), Err(_)) => {}
        _ => fail(cur_prop(), "str::parse::<Version>() == Version::parse()", format!("`{}`", t), format!("parse ok: {} from_str ok: {}", a.is_ok(), b.is_ok())),
    }
    a
}

// ------------------------------------------------------------------------------------------------ C01 / C02 / C03
fn check_npm(prop: &str, level: u32) {
    check_any(prop);
    let vs = versions();
    let ks: Vec<K> = vs.iter().map(key).collect();
    for c in grid(level) {
        match rparse(&c.text) {
            Ok(r) => {
                for (v, k) in vs.iter().zip(&ks) {
                    let got = r.satisfies(v);
                    let want = ref_sat(&c.rr, k);
                    if got != want {
                        fail(prop, "satisfies == npm desugaring", format!("range `{}` version `{}`", c.text, v), format!("crate: {} npm: {} (parsed as `{}`)", got, want, r));
                    }
                    if v.satisfies(&r) != got { fail(prop, "Version::satisfies == Range::satisfies", format!("range `{}` version `{}`", c.text, v), String::new()); }
                }
            }
            Err(_) => {
                // may fail only when there is no valid comparator or nothing could satisfy it
                if let Some((v, _)) = vs.iter().zip(&ks).find(|(_, k)| ref_sat(&c.rr, k)) {
                    fail(prop, "parse fails only when nothing can satisfy", format!("range `{}`", c.text), format!("npm admits `{}`", v));
                }
            }
        }
    }
}


// ------------------------------------------------------------------------------------------------ grammar based random cases (seeded)
struct Rng(u64);
impl Rng {
    fn next(&mut self) -> u64 { let mut x = self.0; x ^= x << 13; x ^= x >> 7; x ^= x << 17; self.0 = x; x }
    fn below(&mut self, n: u64) -> u64 { self.next() % n }
    fn pick<'a, T>(&mut self, xs: &'a [T]) -> &'a T { &xs[self.below(xs.len() as u64) as usize] }
    fn chance(&mut self, pct: u64) -> bool { self.below(100) < pct }
}
fn fmt_id(i: &Id) -> String { match i { Id::N(n) => n.to_string(), Id::A(s) => s.clone() } }
fn fmt_key(k: &K) -> String {
    let mut s = format!("{}.{}.{}", k.ma, k.mi, k.pa);
    if !k.pre.is_empty() { s.push('-'); s.push_str(&k.pre.iter().map(fmt_id).collect::<Vec<_>>().join(".")); }
    s
}
fn gen_num(r: &mut Rng) -> u64 {
    if r.chance(70) { r.below(4) } else { *r.pick(&[5u64, 9, 10, 11, 99, 100, 65535, 4294967295, 4294967296, 900719925474098, 900719925474099]) }
}
fn gen_pre(r: &mut Rng) -> Vec<Id> {
    let n = 1 + if r.chance(85) { r.below(3) } else { 3 + r.below(4) };
    if r.chance(2) { let len = 60 + r.below(120) as usize; return vec![Id::A("q".repeat(len))]; }   // (node rejects versions longer than 256 characters; the crate has no such limit inside ranges: kept out of the search)
    (0..n).map(|_| if r.chance(45) { Id::N(if r.chance(80) { r.below(3) } else { *r.pick(&[10u64, 11, 4294967296, 900719925474100]) }) }
                   else { Id::A(r.pick(&["alpha", "beta", "rc", "a", "b", "x-y", "0a", "a0", "pre-1", "A", "Z9", "abcdefghijklmnopqrstuvwxyz0123456789", "a-b-c-d-e-f", "0123456789a", "X", "x", "v1"]).to_string()) }).collect()
}
/// a number spelled with an optional leading zero (loose mode)
fn spell_num(r: &mut Rng, n: u64) -> String {
    if r.chance(10) { format!("0{}", n) }
    else if r.chance(3) { let w = 18 + r.below(12) as usize; format!("{:0>w$}", n, w = w) }     // loose: any number of leading zeros
    else { n.to_string() }
}
struct GenPartial { text: String, p: Partial }
fn gen_partial(r: &mut Rng) -> GenPartial {
    let wild = |r: &mut Rng| r.pick(&["x", "X", "*"]).to_string();
    let shape = r.below(10);
    let (ma, mi, pa) = (gen_num(r), gen_num(r), gen_num(r));
    let mut text = String::new();
    if r.chance(10) { text.push('v'); }
    let mut p = Partial { text: "", ma: None, mi: None, pa: None, pre: vec![] };
    match shape {
        0 => { if r.chance(30) { let tail = *r.pick(&[".x", ".x.x", ".*", ".*.*", ".1", ".1.2", ".x.3", ".0.0"]); text.push_str(&wild(r)); text.push_str(tail); } else { text.push_str(&wild(r)); } }
        1 => { text.push_str(&spell_num(r, ma)); p.ma = Some(ma); }
        2 => { text.push_str(&format!("{}.{}", spell_num(r, ma), wild(r))); p.ma = Some(ma); }
        3 => { text.push_str(&format!("{}.{}", spell_num(r, ma), spell_num(r, mi))); p.ma = Some(ma); p.mi = Some(mi); }
        4 => { text.push_str(&format!("{}.{}.{}", spell_num(r, ma), spell_num(r, mi), wild(r))); p.ma = Some(ma); p.mi = Some(mi); }
        5 => { text.push_str(&format!("{}.{}.{}", spell_num(r, ma), wild(r), wild(r))); p.ma = Some(ma); }
        _ => {
            text.push_str(&format!("{}.{}.{}", spell_num(r, ma), spell_num(r, mi), spell_num(r, pa)));
            p.ma = Some(ma); p.mi = Some(mi); p.pa = Some(pa);
            if r.chance(45) {
                let pre = gen_pre(r);
                // loose: the hyphen may be left out when the tag starts with a letter
                let starts_alpha = matches!(&pre[0], Id::A(s) if s.as_bytes()[0].is_ascii_alphabetic());
                if !(starts_alpha && r.chance(15)) { text.push('-'); }
                text.push_str(&pre.iter().map(fmt_id).collect::<Vec<_>>().join("."));
                p.pre = pre;
            }
            if r.chance(15) { text.push_str(*r.pick(&["+b", "+build.5", "+0", "+exp.sha.5114f85"])); }
        }
    }
    GenPartial { text, p }
}
struct GenSimple { text: String, cs: CSet }
fn gen_simple(r: &mut Rng) -> GenSimple {
    loop {
        let gp = gen_partial(r);
        let form = r.below(10);
        let blank = *r.pick(&["", "", "", "", "", "", "", " ", " ", "   ", "\t"]);
        let (text, cs, known_dev) = match form {
            0 | 1 => (gp.text.clone(), npm_primitive("", &gp.p), false),
            2 => (format!("~{}{}", blank, gp.text), npm_tilde(&gp.p), false),
            3 => (format!("~>{}{}", blank, gp.text), npm_tilde(&gp.p), false),
            4 => (format!("^{}{}", blank, gp.text), npm_caret(&gp.p), gp.p.ma == Some(0) && gp.p.mi.is_none()),
            _ => { let op = *r.pick(&["=", "<", "<=", ">", ">="]); (format!("{}{}{}", op, blank, gp.text), npm_primitive(op, &gp.p), op == "<" && gp.p.ma.is_some() && gp.p.mi.is_none()) }
        };
        // known findings are kept out of the search
        if known_dev { continue; }
        return GenSimple { text, cs };
    }
}
/// a valid comparator with junk glued to its end: garbage as a whole (a parser that keeps the valid prefix widens the range)
fn gen_glued_garbage(r: &mut Rng) -> String {
    loop {
        let s = gen_simple(r);
        if s.text.contains(' ') || s.text.contains('\t') { continue; }
        return format!("{}{}", s.text, r.pick(&["|x", "|<2.0.0", "!", "_", "@1", ",", "=", "<"]));
    }
}
fn gen_alternative(r: &mut Rng) -> (String, Option<CSet>) {
    if r.chance(12) {
        let (f, t) = (gen_partial(r), gen_partial(r));
        // the hyphen form needs plain partials: no `v`less restrictions, but a leading `v` is fine
        // npm: `\\s+-\\s+` -- any run of blanks on either side
        let (b1, b2) = (*r.pick(&[" ", " ", " ", " ", "  ", "\t", " \t", "   "]), *r.pick(&[" ", " ", " ", " ", "  ", "\t", "\t ", "   "]));
        return (format!("{}{}-{}{}", f.text, b1, b2, t.text), Some(npm_hyphen(&f.p, &t.p)));
    }
    if r.chance(4) { return (r.pick(&["foo", "bar baz", "#", "a|b", "V1.2.3", ">=V1", "1.2.3.4", "^V2", "1.2.3.", "1..2", ">=1.2.3.4", "^1.2.3.4", "~1.2.3.4", ">=1.2.x.4", "1.2.3|x", ">=1.0.0|<2.0.0", "1.x|2.x", "latest", "next", "stable", "canary", "nightly", "lts", "current", "beta", "any", "all", "none"]).to_string(), None); }
    if r.chance(3) { let g = gen_glued_garbage(r); return (g, None); }
    // the empty range is `*` (README grammar: range ::= ... | '')
    if r.chance(3) { return (r.pick(&["", "", " ", "   "]).to_string(), Some(any_set())); }
    let n = 1 + if r.chance(60) { 0 } else if r.chance(85) { 1 + r.below(3) } else if r.chance(92) { 4 + r.below(4) } else { 20 + r.below(30) };
    let mut text = String::new();
    let mut cs: CSet = vec![];
    for i in 0..n {
        if i > 0 { text.push_str(*r.pick(&[" ", " ", " ", " ", " ", "  ", "    ", "\t", " \t "])); }
        if r.chance(6) { text.push_str(*r.pick(&["foo ", "#1 ", "a|b ", "V1.2.3 ", ">=V1 ", "1.2.3.4 ", "~V1.2 ", ">=1.2.3.4 ", "^1.2.3.4 ", "1.2.3|x ", ">=1.0.0|<2.0.0 ", "latest ", "next ", "stable ", "any "])); }
        if r.chance(2) { text.push_str(&gen_glued_garbage(r)); text.push(' '); }
        if r.chance(1) { let n = 200 + r.below(500) as usize; text.push_str(&r.pick(&["z", "#", "1.2.3.4."]).repeat(n)); text.push(' '); }   // one long junk token; what follows still counts
        let s = gen_simple(r);
        text.push_str(&s.text);
        cs.extend(s.cs);
    }
    if r.chance(5) { text.push_str(" junk"); }
    (text, Some(cs))
}
fn gen_range(r: &mut Rng) -> Case {
    let n = 1 + if r.chance(65) { 0 } else if r.chance(85) { 1 + r.below(3) } else if r.chance(92) { 4 + r.below(5) } else { 25 + r.below(50) };
    let mut text = String::new();
    let mut rr: RefRange = vec![];
    for i in 0..n {
        if i > 0 { text.push_str(*r.pick(&[" || ", " || ", "||", " ||", "|| ", "  ||  ", "\t||\t", "   ||"])); }
        let (t, cs) = gen_alternative(r);
        text.push_str(&t);
        if let Some(cs) = cs { rr.push(cs); }
    }
    if r.chance(5) { text = format!(" {} ", text); }
    Case { text, rr }
}
/// versions around every bound of the reference
fn probe_versions(rr: &RefRange, r: &mut Rng) -> Vec<K> {
    let mut out: Vec<K> = vec![k3(0, 0, 0), k0(0, 0, 0), k3(1, 2, 3), k3(900719925474099, 0, 0)];
    for cs in rr { for c in cs {
        let k = &c.k;
        out.push(k.clone());
        out.push(K { pre: vec![], ..k.clone() });
        out.push(K { pre: vec![Id::N(0)], ..k.clone() });
        out.push(K { pre: vec![Id::A("alpha".into())], ..k.clone() });
        out.push(K { pre: vec![Id::A("zz".into())], ..k.clone() });
        if !k.pre.is_empty() { let mut p = k.pre.clone(); p.push(Id::N(0)); out.push(K { pre: p, ..k.clone() }); let mut q = k.pre.clone(); q.pop(); if !q.is_empty() { out.push(K { pre: q, ..k.clone() }); } }
        if k.pa > 0 { out.push(k3(k.ma, k.mi, k.pa - 1)); out.push(K { pa: k.pa - 1, pre: vec![Id::A("rc".into())], ..k.clone() }); }
        if k.pa < 900719925474099 { out.push(k3(k.ma, k.mi, k.pa + 1)); out.push(k0(k.ma, k.mi, k.pa + 1)); }
        if k.mi > 0 { out.push(k3(k.ma, k.mi - 1, 900719925474099)); }
        if k.mi < 900719925474099 { out.push(k3(k.ma, k.mi + 1, 0)); }
        if k.ma > 0 { out.push(k3(k.ma - 1, 900719925474099, 900719925474099)); }
        if k.ma < 900719925474099 { out.push(k3(k.ma + 1, 0, 0)); out.push(k0(k.ma + 1, 0, 0)); }
    } }
    for _ in 0..4 { out.push(K { ma: gen_num(r), mi: gen_num(r), pa: gen_num(r), pre: if r.chance(40) { gen_pre(r) } else { vec![] } }); }
    // the properties quantify over versions with components in [0, MAX_SAFE_INTEGER]
    out.retain(|k| k.ma <= 900719925474099 && k.mi <= 900719925474099 && k.pa <= 900719925474099);
    out
}
fn check_npm_random(prop: &str, seed: u64, n: usize) {
    let mut r = Rng(0x9E3779B97F4A7C15 ^ (seed.wrapping_add(1)).wrapping_mul(0xD1B54A32D192ED03));
    for _ in 0..8 { r.next(); }
    for _ in 0..n {
        let c = gen_range(&mut r);
        let ks = probe_versions(&c.rr, &mut r);
        match rparse(&c.text) {
            Ok(range) => {
                for k in &ks {
                    // build metadata never matters
                    let vt = format!("{}{}", fmt_key(k), if r.chance(80) { "" } else { *r.pick(&["+b", "+zz.9", "+0", "+a"]) });
                    let v = match vparse(&vt) { Ok(v) => v, Err(_) => continue };
                    let got = range.satisfies(&v);
                    let want = ref_sat(&c.rr, k);
                    if got != want { fail(prop, "satisfies == npm desugaring (random case)", format!("range `{}` version `{}`", c.text, vt), format!("crate: {} npm: {} (parsed as `{}`)", got, want, range)); }
                }
            }
            Err(_) => {
                if let Some(k) = ks.iter().find(|k| ref_sat(&c.rr, k)) { fail(prop, "parse fails only when nothing can satisfy (random case)", format!("range `{}`", c.text), format!("npm admits `{}`", fmt_key(k))); }
            }
        }
    }
}
fn dump_random(seed: u64, n: usize) {
    // development aid: print the generated cases as JSON lines (text, versions, expected) for an external oracle
    let mut r = Rng(0x9E3779B97F4A7C15 ^ (seed.wrapping_add(1)).wrapping_mul(0xD1B54A32D192ED03));
    for _ in 0..8 { r.next(); }
    for _ in 0..n {
        let c = gen_range(&mut r);
        let ks = probe_versions(&c.rr, &mut r);
        let vs: Vec<String> = ks.iter().map(|k| format!("[\"{}\",{}]", fmt_key(k), ref_sat(&c.rr, k))).collect();
        println!("{{\"range\":\"{}\",\"versions\":[{}]}}", c.text.replace('\\', "\\\\").replace('"', "\\\"").replace('\t', "\\t"), vs.join(","));
    }
}

// ------------------------------------------------------------------------------------------------ C04 / C16
fn hash_of_slice(v: &[Version]) -> u64 { let mut h = DefaultHasher::new(); v.hash(&mut h); h.finish() }
fn hash_of(v: &Version) -> u64 { let mut h = DefaultHasher::new(); v.hash(&mut h); h.finish() }
/// the reference key of a version text `M.m.p[-pre][+build]`, built from the text itself (not from what the crate parsed)
fn key_of_text(t: &str) -> K {
    let t = t.split('+').next().unwrap();
    // loose: the hyphen before the prerelease may be missing when the tag starts with a letter (`1.2.3alpha`)
    let third_dot = t.match_indices('.').nth(1).map(|(i, _)| i + 1).unwrap();
    let cut = t[third_dot..].find(|c: char| !c.is_ascii_digit()).map(|i| third_dot + i);
    let (core, pre) = match cut { Some(i) => (&t[..i], Some(if t.as_bytes()[i] == b'-' { &t[i + 1..] } else { &t[i..] })), None => (t, None) };
    let n: Vec<u64> = core.split('.').map(|x| x.parse().unwrap()).collect();
    let pre = match pre {
        None => vec![],
        Some(p) => p.split('.').map(|id| if !id.is_empty() && id.bytes().all(|b| b.is_ascii_digit()) { match id.parse::<u64>() { Ok(n) => Id::N(n), Err(_) => Id::A(id.to_string()) } } else { Id::A(id.to_string()) }).collect(),
    };
    K { ma: n[0], mi: n[1], pa: n[2], pre }
}
fn order_texts() -> Vec<String> {
    let mut out = vec![];
    for core in ["0.0.0", "0.0.1", "0.1.0", "1.0.0", "1.0.1", "1.1.0", "1.1.1", "2.0.0", "2.0.1", "2.3.0", "10.0.0"] {
        for pre in ["", "-0", "-1", "-2", "-10", "-a", "-alpha", "-alpha.1", "-alpha.1.0", "-alpha.beta", "-beta", "-beta.2", "-beta.11", "-rc.1", "-rc.1a", "-rc.2", "-rc.10", "--", "-7", "-A", "-a-", "-1a", "-alpha.1a",
                    "alpha", "rc1", "beta.2", "Alpha", "-Beta", "-RC.1", "-rc.1", "-SNAPSHOT", "-aLpHa", "-Z", "-z",
                    "--1", "-rc.-", "-rc.0-", "-01", "-rc.01", "-rc.900719925474100", "-rc.1000000000000000", "-rc.18446744073709551615", "-rc.18446744073709551616", "-900719925474099", "-900719925474100"] {
            for build in ["", "+b", "+build.5"] { out.push(format!("{}{}{}", core, pre, build)); }
        }
    }
    // many identifiers (a copy that keeps only the first few is not the same version)
    // (one-letter identifiers: the whole text has to stay within MAX_LENGTH = 256)
    let many = |n: usize, last: &str| format!("1.0.0-{}{}", vec!["a"; n].join("."), last);
    for t in [many(16, ""), many(17, ""), many(32, ""), many(32, ".b"), many(33, ""), many(64, ""), many(65, ""), many(100, ""), many(100, ".0"), many(101, ""), many(120, ""), many(120, ".z")] { out.push(t); }
    for t in ["1.0.0-rc9", "1.0.0-rc10", "1.0.0-a2", "1.0.0-a10", "1.0.0-x.9", "1.0.0-x.10", "1.0.0-9x", "1.0.0-10x"] { out.push(t.to_string()); }
    for t in ["1.0.0-a.b.c.d.e.f.g.h.i.j.k.l", "1.0.0-a.b.c.d.e.f.g.h.i.j.k", "1.0.0-a.b.c.d.e.f.g.h", "1.0.0-1.2.3.4.5.6.7.8.9.10.11.12.13.14.15.16.17+b.1.2.3.4.5.6.7.8.9.10"] { out.push(t.to_string()); }
    out
}
fn order_versions() -> Vec<Version> {
    let mut out = vec![];
    for core in ["0.0.0", "0.0.1", "0.1.0", "1.0.0", "1.0.1", "1.1.0", "1.1.1", "2.0.0", "2.0.1", "2.3.0", "10.0.0"] {
        for pre in ["", "-0", "-1", "-2", "-10", "-a", "-alpha", "-alpha.1", "-alpha.1.0", "-alpha.beta", "-beta", "-beta.2", "-beta.11", "-rc.1", "-rc.1a", "-rc.2", "-rc.10", "--", "-7", "-A", "-a-", "-1a", "-alpha.1a",
                    "alpha", "rc1", "beta.2", "Alpha", "-Beta", "-RC.1", "-rc.1", "-SNAPSHOT", "-aLpHa", "-Z", "-z",
                    "--1", "-rc.-", "-rc.0-", "-01", "-rc.01", "-rc.900719925474100", "-rc.1000000000000000", "-rc.18446744073709551615", "-rc.18446744073709551616", "-900719925474099", "-900719925474100"] {
            for build in ["", "+b", "+build.5"] {
                if let Ok(v) = vparse(format!("{}{}{}", core, pre, build)) { out.push(v); }
            }
        }
    }
    out
}
fn check_c04() {
    let texts = order_texts();
    let mut vs = vec![];
    let mut ks = vec![];
    for t in &texts {
        match vparse(t) {
            Ok(v) => {
                // the returned fields are exactly the denoted numbers and identifiers (numeric iff all digits and below 2^64)
                let want = key_of_text(t);
                if key(&v) != want { fail("C04", "parsed identifiers are the denoted ones (numeric-looking identifiers become Numeric)", format!("`{}`", t), format!("parsed {:?} expected {:?}", key(&v).pre, want.pre)); }
                vs.push(v); ks.push(want);
            }
            Err(e) => fail("C04", "a well formed version text parses", format!("`{}`", t), e.to_string()),
        }
    }
    for (a, ka) in vs.iter().zip(&ks) { for (b, kb) in vs.iter().zip(&ks) {
        let want = kcmp(ka, kb);
        let got = a.cmp(b);
        if got != want { fail("C04", "cmp == SemVer precedence", format!("`{}` vs `{}`", a, b), format!("crate: {:?} spec: {:?}", got, want)); }
        if a.partial_cmp(b) != Some(got) { fail("C04", "partial_cmp == Some(cmp)", format!("`{}` vs `{}`", a, b), String::new()); }
        if (a == b) != (got == Ordering::Equal) { fail("C04", "== iff Equal", format!("`{}` vs `{}`", a, b), format!("== is {}", a == b)); }
        if got == Ordering::Equal && hash_of(a) != hash_of(b) { fail("C04", "equal versions hash equally", format!("`{}` vs `{}`", a, b), String::new()); }
        if b.cmp(a) != got.reverse() { fail("C04", "antisymmetry", format!("`{}` vs `{}`", a, b), String::new()); }
        // the operators and the provided methods are the same order (an overridden `lt`, `ne`, `max`, ... is what callers run)
        if (a < b) != (got == Ordering::Less) || (a <= b) != (got != Ordering::Greater) || (a > b) != (got == Ordering::Greater) || (a >= b) != (got != Ordering::Less) || (a != b) != (got != Ordering::Equal) {
            fail("C04", "< <= > >= != agree with cmp", format!("`{}` vs `{}`", a, b), format!("cmp: {:?} <:{} <=:{} >:{} >=:{} !=:{}", got, a < b, a <= b, a > b, a >= b, a != b));
        }
        if std::cmp::max(a, b).cmp(a) == Ordering::Less || std::cmp::max(a, b).cmp(b) == Ordering::Less || std::cmp::min(a, b).cmp(a) == Ordering::Greater || std::cmp::min(a, b).cmp(b) == Ordering::Greater
            || a.clone().max(b.clone()).cmp(std::cmp::max(a, b)) != Ordering::Equal || a.clone().min(b.clone()).cmp(std::cmp::min(a, b)) != Ordering::Equal {
            fail("C04", "max / min agree with cmp", format!("`{}` vs `{}`", a, b), String::new());
        }
        if got == Ordering::Equal && (hash_of_slice(std::slice::from_ref(a)) != hash_of_slice(std::slice::from_ref(b))) { fail("C04", "equal versions hash equally inside a slice / Vec", format!("`{}` vs `{}`", a, b), String::new()); }
    } }
    for a in &vs {
        let c = a.clone();
        if c.major != a.major || c.minor != a.minor || c.patch != a.patch || c.pre_release != a.pre_release || c.build != a.build { fail("C04", "clone is the same version (all five fields)", format!("`{}`", a), format!("clone: `{}`", c)); }
    }
    // transitivity on a reduced set (all triples)
    let red: Vec<&Version> = vs.iter().filter(|v| v.build.is_empty() && (v.major == 1 && v.minor == 0 && v.patch == 0 || v.pre_release.is_empty())).collect();
    for a in &red { for b in &red { for c in &red {
        if a.cmp(b) != Ordering::Greater && b.cmp(c) != Ordering::Greater && a.cmp(c) == Ordering::Greater {
            fail("C04", "transitivity", format!("`{}` `{}` `{}`", a, b, c), String::new());
        }
    } } }
    // sort / max / min agree with the order
    let mut sorted: Vec<Version> = red.iter().map(|v| (*v).clone()).collect();
    sorted.sort();
    for w in sorted.windows(2) { if kcmp(&key(&w[0]), &key(&w[1])) == Ordering::Greater { fail("C04", "sort consistent", format!("`{}` before `{}`", w[0], w[1]), String::new()); } }
}
fn check_c16() {
    let texts = order_texts();
    let vs: Vec<Version> = texts.iter().map(|t| vparse(t).unwrap_or_else(|e| fail("C16", "a well formed version text parses", format!("`{}`", t), e.to_string()))).collect();
    let ks: Vec<K> = texts.iter().map(|t| key_of_text(t)).collect();
    for (a, ka) in vs.iter().zip(&ks) { for (b, kb) in vs.iter().zip(&ks) {
        let got = a.diff(b);
        let want = ref_diff(ka, kb);
        if got != want { fail("C16", "diff == node-semver diff", format!("`{}`.diff(`{}`)", a, b), format!("crate: {:?} spec: {:?}", got, want)); }
        if got != b.diff(a) { fail("C16", "symmetric", format!("`{}`.diff(`{}`)", a, b), format!("{:?} vs {:?}", got, b.diff(a))); }
    } }
    // the release type is reported under node-semver's names
    for (d, name) in [(VersionDiff::Major, "major"), (VersionDiff::Minor, "minor"), (VersionDiff::Patch, "patch"), (VersionDiff::PreMajor, "premajor"), (VersionDiff::PreMinor, "preminor"), (VersionDiff::PrePatch, "prepatch"), (VersionDiff::PreRelease, "prerelease")] {
        if d.to_string() != name { fail("C16", "release type names are node-semver's", format!("{:?}", d), format!("printed as `{}`", d)); }
    }
}

// ------------------------------------------------------------------------------------------------ set operations
fn op_ranges() -> Vec<Case> {
    let g = grid(0);
    let pick = ["*", ">=1.2.3", ">1.2.3", "<1.2.3", "<=1.2.3", "1.2.3", ">=1.0.0 <2.0.0", ">1.0.0 <=2.0.0", "<1.0.0", ">1.0.0", ">=1.0.0", "<=1.0.0", "<2.0.0", "<=2.0.0", ">=2.0.0", ">2.0.0",
                "1.x", "^1.2", "~1.2.3", ">=1.2.3-beta", "<1.2.3-beta", "=1.2.3-beta", "1.2.3-beta", "<=2.0.0-rc.1", "<2.0.0-rc.1", ">=1.0.0-alpha", "1.0.0 - 2.0.0", "1.2.3 - 2",
                "1.2.3 || >4", "<1.0.0 || >=2.0.0", "1.x || 3.x", "1.2.3 || 5.0.0", "5.0.0 || 1.2.3", "^2 || >=3", "<=1.0.0 || >=2.0.0", ">=1.0.0 <2.0.0 || 1.2.3-alpha", "1.2.3-alpha || >=1.0.0 <2.0.0",
                "<2.0.0 || >=0.0.0-0", ">=0.0.0-0 || <2.0.0", "2.0.0 || <2.0.0", ">=1.2.3-beta <2.0.0-rc.1", ">0.0.0-0", "<0.0.0-0 || >=2.0.0", ">=1.0.0 <2.0.0 || >4", "1.2.3 - 5.0.0"];
    let mut out: Vec<Case> = g.into_iter().filter(|c| pick.contains(&c.text.as_str())).collect();
    // a few that are not in the grid as such
    for (t, parts) in [(">=1.0.0 <2.0.0", vec![">=1.0.0", "<2.0.0"]), (">1.0.0 <=2.0.0", vec![">1.0.0", "<=2.0.0"]), (">=1.2.3-beta <2.0.0-rc.1", vec![">=1.2.3-beta", "<2.0.0-rc.1"])] {
        if out.iter().any(|c| c.text == t) { continue; }
        let ss = simples();
        let mut cs = vec![];
        for p in parts { cs.extend(ss.iter().find(|s| s.text == p).unwrap().cs.clone()); }
        out.push(Case { text: t.into(), rr: vec![cs] });
    }
    // build metadata never matters: these must behave exactly like their metadata-free twins
    for (t, twin) in [(">=1.2.3+linux", ">=1.2.3"), (">=1.2.3+darwin", ">=1.2.3"), ("<=1.2.3+b.7", "<=1.2.3"), ("1.2.3+exp.sha", "1.2.3"), (">=1.0.0+a <2.0.0+b", ">=1.0.0 <2.0.0")] {
        if let Some(c) = out.iter().find(|c| c.text == twin) { let rr = c.rr.clone(); out.push(Case { text: t.into(), rr }); }
    }
    // tags where one is a prefix of the other (`rc` < `rc.1`), upper-case tags (ASCII order: `Beta` < `alpha`), and texts that admit nothing
    // (they must not parse; if they do, the empty result has to behave like any other range)
    let kp = |pre: &[&str]| K { ma: 1, mi: 0, pa: 0, pre: pre.iter().map(|x| match x.parse::<u64>() { Ok(n) => Id::N(n), Err(_) => Id::A(x.to_string()) }).collect() };
    for (t, op, pre) in [("<=1.0.0-rc", Op::Le, vec!["rc"]), ("<=1.0.0-rc.1", Op::Le, vec!["rc", "1"]), (">=1.0.0-rc.1", Op::Ge, vec!["rc", "1"]), (">1.0.0-rc", Op::Gt, vec!["rc"]), ("<1.0.0-rc.1", Op::Lt, vec!["rc", "1"]),
                         (">=1.0.0-Beta", Op::Ge, vec!["Beta"]), ("<=1.0.0-alpha", Op::Le, vec!["alpha"]), (">=1.0.0-alpha", Op::Ge, vec!["alpha"])] {
        out.push(Case { text: t.into(), rr: vec![vec![Cmp { op, k: kp(&pre) }]] });
    }
    for t in [">=2.0.0 <1.0.0", "<1.0.0 >2.0.0", "3.0.0 - 1.0.0", "2.x - 1.x"] { out.push(Case { text: t.into(), rr: vec![] }); }
    // many alternatives, the last one the only one the version grid can see twice (a cap on the number of alternatives loses it)
    {
        let mut rr: RefRange = (0..70u64).map(|i| vec![Cmp { op: Op::Eq, k: k3(0, 9, i) }]).collect(); rr.push(vec![Cmp { op: Op::Eq, k: k3(5, 0, 0) }]);
        out.push(Case { text: format!("{} || 5.0.0", (0..70).map(|i| format!("0.9.{}", i)).collect::<Vec<_>>().join(" || ")), rr });
    }
    out.dedup_by(|a, b| a.text == b.text);
    out
}
fn exact(v: &Version) -> Range { rparse(format!("{}.{}.{}{}", v.major, v.minor, v.patch, if v.pre_release.is_empty() { String::new() } else { format!("-{}", v.pre_release.iter().map(|i| i.to_string()).collect::<Vec<_>>().join(".")) })).unwrap() }
/// bounds membership observed through the public API: release -> satisfies, otherwise allows_any with the exact version
fn within(r: &Range, v: &Version) -> bool { if v.pre_release.is_empty() { r.satisfies(v) } else { r.allows_any(&exact(v)) } }
fn within_o(r: &Option<Range>, v: &Version) -> bool { match r { Some(x) => within(x, v), None => false } }
fn sat_o(r: &Option<Range>, v: &Version) -> bool { match r { Some(x) => x.satisfies(v), None => false } }
fn show(r: &Option<Range>) -> String { match r { Some(x) => x.to_string(), None => "None".into() } }

fn check_setops(prop: &str) {
    let rs = op_ranges();
    let parsed: Vec<(Case, Range)> = rs.into_iter().filter_map(|c| rparse(&c.text).ok().map(|r| (c, r))).collect();
    let vs = versions();
    let ks: Vec<K> = vs.iter().map(key).collect();
    // the observation itself must agree with the reference on parsed ranges
    for (c, r) in &parsed { for (v, k) in vs.iter().zip(&ks) {
        if within(r, v) != ref_within(&c.rr, k) { fail(prop, "bounds membership of a parsed range", format!("range `{}` version `{}`", c.text, v), format!("observed {} reference {}", within(r, v), ref_within(&c.rr, k))); }
    } }
    for (ca, a) in &parsed { for (cb, b) in &parsed {
        let inp = |v: &Version| format!("A=`{}` B=`{}` v=`{}`", ca.text, cb.text, v);
        let i = a.intersect(b);
        let d = a.difference(b);
        let any = a.allows_any(b);
        match prop {
            "C07" | "C15" | "C09" => {
                let i2 = b.intersect(a);
                for (v, k) in vs.iter().zip(&ks) {
                    let (wa, wb) = (ref_within(&ca.rr, k), ref_within(&cb.rr, k));
                    if within_o(&i, v) != (wa && wb) { fail(prop, "within(A∩B) == within A && within B", inp(v), format!("A∩B = `{}`", show(&i))); }
                    if k.pre.is_empty() && sat_o(&i, v) != (a.satisfies(v) && b.satisfies(v)) { fail(prop, "release: sat(A∩B) == sat A && sat B", inp(v), format!("A∩B = `{}`", show(&i))); }
                    if a.satisfies(v) && b.satisfies(v) && !sat_o(&i, v) { fail(prop, "sat both => sat result", inp(v), format!("A∩B = `{}`", show(&i))); }
                    if sat_o(&i, v) && !(wa && wb && (a.satisfies(v) || b.satisfies(v))) { fail(prop, "sat result => within both and sat one", inp(v), format!("A∩B = `{}`", show(&i))); }
                    if within_o(&i, v) != within_o(&i2, v) || sat_o(&i, v) != sat_o(&i2, v) { fail(prop, "commutative", inp(v), format!("A∩B = `{}` B∩A = `{}`", show(&i), show(&i2))); }
                }
                if i.is_none() { if let Some((v, _)) = vs.iter().zip(&ks).find(|(_, k)| ref_within(&ca.rr, k) && ref_within(&cb.rr, k)) { fail(prop, "None only if nothing within both", inp(v), String::new()); } }
                if any != i.is_some() { fail(prop, "allows_any == intersect.is_some()", format!("A=`{}` B=`{}`", ca.text, cb.text), format!("allows_any {} intersect `{}`", any, show(&i))); }
                if any != b.allows_any(a) { fail(prop, "allows_any symmetric", format!("A=`{}` B=`{}`", ca.text, cb.text), String::new()); }
                if !any { if let Some((v, _)) = vs.iter().zip(&ks).find(|(v, k)| (ref_within(&ca.rr, k) && ref_within(&cb.rr, k)) || (a.satisfies(v) && b.satisfies(v))) { fail(prop, "allows_any false => nothing in both", inp(v), String::new()); } }
            }
            _ => {}
        }
        if prop == "C08" || prop == "C15" || prop == "C10" {
            for (v, k) in vs.iter().zip(&ks) {
                let (wa, wb) = (ref_within(&ca.rr, k), ref_within(&cb.rr, k));
                if within_o(&d, v) != (wa && !wb) { fail(prop, "within(A\\\\B) == within A && !within B", inp(v), format!("A\\\\B = `{}`", show(&d))); }
                if k.pre.is_empty() && sat_o(&d, v) != (a.satisfies(v) && !b.satisfies(v)) { fail(prop, "release: sat(A\\\\B) == sat A && !sat B", inp(v), format!("A\\\\B = `{}`", show(&d))); }
                if wa != (within_o(&i, v) || within_o(&d, v)) || (within_o(&i, v) && within_o(&d, v)) { fail(prop, "A is the disjoint union of A∩B and A\\\\B", inp(v), format!("A∩B = `{}` A\\\\B = `{}`", show(&i), show(&d))); }
            }
            if d.is_none() { if let Some((v, _)) = vs.iter().zip(&ks).find(|(_, k)| ref_within(&ca.rr, k) && !ref_within(&cb.rr, k)) { fail(prop, "None only when nothing of A remains", inp(v), String::new()); } }
        }
        if prop == "C10" {
            let all = a.allows_all(b);
            if cb.rr.len() == 1 && all {
                if let Some((v, _)) = vs.iter().zip(&ks).find(|(_, k)| ref_within(&cb.rr, k) && !ref_within(&ca.rr, k)) { fail(prop, "allows_all => every version of B is in A", inp(v), String::new()); }
                if !any { fail(prop, "allows_all => allows_any", format!("A=`{}` B=`{}`", ca.text, cb.text), String::new()); }
            }
            if ca.rr.len() == 1 && cb.rr.len() == 1 && all != b.difference(a).is_none() { fail(prop, "single alternatives: allows_all == B.difference(A).is_none()", format!("A=`{}` B=`{}`", ca.text, cb.text), format!("allows_all {} B\\\\A `{}`", all, show(&b.difference(a)))); }
            if ca.text == cb.text && !all { fail(prop, "every range allows all of itself", format!("A=`{}`", ca.text), String::new()); }
        }
        if prop == "C15" || prop == "C07" || prop == "C08" {
            // "results remain printable, re-parsable operands": the printed form parses and admits the same versions
            for x in [&i, &d].into_iter().flatten() {
                let t = x.to_string();
                match rparse(&t) {
                    Ok(y) => for v in &vs { if y.satisfies(v) != x.satisfies(v) || within(&y, v) != within(x, v) { fail(prop, "a result prints to a text that parses back to the same set", format!("A=`{}` B=`{}` v=`{}`", ca.text, cb.text, v), format!("result `{}` re-parsed `{}`", t, y)); } },
                    Err(e) => fail(prop, "a result prints to a text that parses", format!("A=`{}` B=`{}`", ca.text, cb.text), format!("result `{}`: {}", t, e)),
                }
            }
        }
        if prop == "C15" {
            // compositions: results fed back as operands
            let dd = match &d { Some(x) => a.difference(x), None => Some(a.clone()) };
            let db = match &d { Some(x) => x.intersect(b), None => None };
            let aa = a.difference(a);
            for v in &vs {
                if within_o(&dd, v) != within_o(&i, v) { fail(prop, "A\\\\(A\\\\B) == A∩B", inp(v), format!("A\\\\B = `{}` A\\\\(A\\\\B) = `{}` A∩B = `{}`", show(&d), show(&dd), show(&i))); }
                if within_o(&db, v) { fail(prop, "(A\\\\B)∩B is empty", inp(v), format!("(A\\\\B)∩B = `{}`", show(&db))); }
                if within_o(&aa, v) { fail(prop, "A\\\\A is empty", inp(v), format!("A\\\\A = `{}`", show(&aa))); }
            }
        }
    } }
    if prop == "C15" || prop == "C07" {
        // associativity / idempotence on a reduced set
        let red: Vec<&(Case, Range)> = parsed.iter().step_by(3).collect();
        for (ca, a) in &red { for (cb, b) in &red { for (cc, c) in &red {
            let l = a.intersect(b).and_then(|x| x.intersect(c));
            let r = b.intersect(c).and_then(|x| a.intersect(&x));
            for v in &vs { if within_o(&l, v) != within_o(&r, v) { fail(prop, "associative", format!("A=`{}` B=`{}` C=`{}` v=`{}`", ca.text, cb.text, cc.text, v), format!("(A∩B)∩C = `{}` A∩(B∩C) = `{}`", show(&l), show(&r))); } }
        } } }
        for (ca, a) in &parsed { let aa = a.intersect(a); for v in &vs { if within_o(&aa, v) != within(a, v) || sat_o(&aa, v) != a.satisfies(v) { fail(prop, "idempotent", format!("A=`{}` v=`{}`", ca.text, v), format!("A∩A = `{}`", show(&aa))); } } }
    }
}

// ------------------------------------------------------------------------------------------------ C11 / C14
fn check_c11(seed: u64) {
    let vs = versions();
    let mut cases = grid(0);
    for t in [">1.0.0 <1.0.1", ">1.0.0 <1.0.1-5", ">0.0.0 <0.0.1-alpha || >=3.0.0", "<0.0.0-0 || >=2.0.0", ">1.0.0 <=1.0.1-0", ">=0.0.0-0 || <2.0.0", "<2.0.0 || >=0.0.0-0", "* || >0.0.0-alpha", ">1.0.0-alpha <1.0.1-5", ">1.2.3-beta", ">1.2.3-beta <1.2.3-beta.1", ">=2.0.0 || >=1.0.0"] {
        cases.push(Case { text: t.into(), rr: vec![] });
    }
    let mut rng = Rng(0x2545F4914F6CDD1D ^ seed.wrapping_add(7).wrapping_mul(0x9E3779B97F4A7C15));
    for _ in 0..1500 { let c = gen_range(&mut rng); cases.push(c); }
    for c in cases {
        let r = match rparse(&c.text) { Ok(r) => r, Err(_) => continue };
        match r.min_version() {
            Some(m) => {
                if !r.satisfies(&m) { fail("C11", "min_version satisfies the range", format!("range `{}`", c.text), format!("min_version `{}`", m)); }
                // ... where "the range" is what the text denotes (npm's reading), when the case carries one
                if !c.rr.is_empty() && m.major <= 900719925474099 && m.minor <= 900719925474099 && m.patch <= 900719925474099 && !ref_sat(&c.rr, &key(&m)) {
                    fail("C11", "min_version satisfies the range as written", format!("range `{}`", c.text), format!("min_version `{}`", m));
                }
                if !c.rr.is_empty() {
                    let mut rr2 = Rng(1);
                    if let Some(k) = probe_versions(&c.rr, &mut rr2).iter().find(|k| ref_sat(&c.rr, k) && kcmp(k, &key(&m)) == Ordering::Less) {
                        fail("C11", "no lower version satisfies the range as written", format!("range `{}`", c.text), format!("min_version `{}` but `{}` satisfies", m, fmt_key(k)));
                    }
                }
                let mut cands: Vec<Version> = vs.clone();
                // versions just below m
                let mut below = m.clone();
                if !below.pre_release.is_empty() { let mut p = below.clone(); p.pre_release.pop(); if !p.pre_release.is_empty() { cands.push(p); } below.pre_release = vec![Identifier::Numeric(0)]; cands.push(below.clone()); }
                else { let mut p = m.clone(); p.pre_release = vec![Identifier::Numeric(0)]; cands.push(p.clone()); p.pre_release = vec![Identifier::AlphaNumeric("zzz".into())]; cands.push(p); }
                if let Some(v) = cands.iter().find(|v| **v < m && r.satisfies(v)) { fail("C11", "no lower version satisfies", format!("range `{}`", c.text), format!("min_version `{}` but `{}` satisfies", m, v)); }
            }
            None => { if let Some(v) = vs.iter().find(|v| r.satisfies(v)) { fail("C11", "None => nothing satisfies", format!("range `{}`", c.text), format!("`{}` satisfies", v)); } }
        }
    }
    // ranges produced by the set operations are ranges too (C11 quantifies over "every range"): complements and intersections of the grid
    let all = rparse("*").unwrap();
    let comp: Vec<Case> = grid(0).into_iter().take(420).collect();
    for c in &comp {
        let r = match rparse(&c.text) { Ok(r) => r, Err(_) => continue };
        for (how, d) in [("`*` minus it", all.difference(&r)), ("`>=1.0.0 <3.0.0-0` and it", rparse(">=1.0.0 <3.0.0-0").unwrap().intersect(&r))] {
            let d = match d { Some(d) => d, None => continue };
            let res = catch_unwind(AssertUnwindSafe(|| d.min_version()));
            let inp = format!("range `{}` ({}) = `{}`", c.text, how, d);
            match res {
                Err(_) => fail("C11", "min_version of a composed range panics", inp, String::new()),
                Ok(Some(m)) => {
                    if !d.satisfies(&m) { fail("C11", "min_version satisfies the (composed) range", inp.clone(), format!("min_version `{}`", m)); }
                    if let Some(v) = vs.iter().find(|v| **v < m && d.satisfies(v)) { fail("C11", "no lower version satisfies the (composed) range", inp, format!("min_version `{}` but `{}` satisfies", m, v)); }
                }
                Ok(None) => if let Some(v) = vs.iter().find(|v| d.satisfies(v)) { fail("C11", "None => nothing satisfies the (composed) range", inp, format!("`{}` satisfies", v)); },
            }
        }
    }
}
fn check_any(prop: &str) {
    // Range::any() is `*`: every release, no prerelease
    let any = Range::any();
    for v in versions() {
        if any.satisfies(&v) != v.pre_release.is_empty() { fail(prop, "Range::any() admits exactly the releases (it is `*`)", format!("version `{}`", v), format!("satisfies = {}", any.satisfies(&v))); }
    }
}
fn check_c14(seed: u64) {
    check_any("C14");
    { let any = Range::any(); let l = vec![vparse("0.0.0-alpha").unwrap(), vparse("0.1.0-rc.1").unwrap()]; if any.max_satisfying(&l).is_some() || any.min_satisfying(&l).is_some() { fail("C14", "never selects a prerelease the range does not admit", "Range::any() on [0.0.0-alpha, 0.1.0-rc.1]".into(), String::new()); } }
    let pool: Vec<Version> = ["1.2.3", "1.2.3-beta.2", "1.2.3-alpha", "1.4.2", "2.3.1", "2.0.0-rc.1", "2.0.0", "1.2.3+build", "0.5.0", "1.2.4", "3.0.0-0", "1.0.0"].iter().map(|s| vparse(s).unwrap()).collect();
    let mut lists: Vec<Vec<Version>> = vec![vec![]];
    for a in &pool { lists.push(vec![a.clone()]); for b in &pool { lists.push(vec![a.clone(), b.clone()]); } }
    for a in pool.iter().take(7) { for b in pool.iter().take(7) { for c in pool.iter().take(7) { lists.push(vec![a.clone(), b.clone(), c.clone()]); } } }
    // long lists in no particular order (a shortcut for "long lists arrive sorted" shows here), placed among the first lists tried
    {
        let big: Vec<Version> = versions().into_iter().step_by(3).collect();
        let mut l1: Vec<Version> = big.iter().rev().cloned().collect(); l1.rotate_left(17);
        let mut l2 = big.clone(); l2.rotate_left(40); l2.swap(0, 5); l2.swap(3, 60);
        let l3: Vec<Version> = pool.iter().cycle().take(20).cloned().collect();
        let l4: Vec<Version> = pool.iter().rev().cycle().take(33).cloned().collect();
        for l in [l1, l2, l3, l4] { lists.insert(1, l); }
    }
    let g = grid(0);
    let mut texts: Vec<String> = ["^2 || >=3", ">=1.2.3-beta", "1.2", "~1.2.3", "*", ">=1.0.0 <2.0.0", "<=1.0.0", "<2.0.0-rc.1", "1.2.3 || >4", "<=2.0.0-rc.1", "<1.2.3", ">=1.2.3 <2.0.0", "1.x", "1.2.3 - 2", ">1.0.0 <=1.2.3", "^1.2"].iter().map(|s| s.to_string()).collect();
    // comparator lists of three (a contradictory prefix followed by something else), every 7th of the grid
    texts.extend(g.iter().filter(|c| c.text.matches(' ').count() == 2 && !c.text.contains(" - ") && !c.text.contains("||")).step_by(7).take(120).map(|c| c.text.clone()));
    let mut rng = Rng(0x2545F4914F6CDD1D ^ seed.wrapping_add(3).wrapping_mul(0x9E3779B97F4A7C15));
    let mut g = g;
    for _ in 0..400 { let c = gen_range(&mut rng); texts.push(c.text.clone()); g.push(c); }
    for t in &texts {
        let t = t.as_str();
        let c = match g.iter().find(|c| c.text == t) { Some(c) => c, None => continue };
        let r = match rparse(t) { Ok(r) => r, Err(_) => continue };
        for l in lists.iter().take(if t.matches(' ').count() == 2 || c.text.len() > 24 { 160 } else { usize::MAX }) {
            for (which, got) in [("max", r.max_satisfying(l)), ("min", r.min_satisfying(l))] {
                // "satisfies" is npm's reading of the range text (and must agree with the crate's own answer)
                let sats: Vec<&Version> = l.iter().filter(|v| ref_sat(&c.rr, &key(v))).collect();
                let inp = format!("range `{}` list {:?} ({}_satisfying)", t, l.iter().map(|v| v.to_string()).collect::<Vec<_>>(), which);
                match got {
                    None => if !sats.is_empty() { fail("C14", "None exactly when no element satisfies", inp, String::new()); },
                    Some(m) => {
                        if !l.iter().any(|x| std::ptr::eq(x, m)) { fail("C14", "result is an element of the slice", inp.clone(), String::new()); }
                        if !ref_sat(&c.rr, &key(m)) || !r.satisfies(m) { fail("C14", "result satisfies the range (never a prerelease the range does not admit)", inp.clone(), format!("got `{}`", m)); }
                        for s in &sats {
                            let o = kcmp(&key(s), &key(m));
                            if (which == "max" && o == Ordering::Greater) || (which == "min" && o == Ordering::Less) { fail("C14", "no satisfying element is more extreme", inp.clone(), format!("got `{}` but `{}` satisfies", m, s)); }
                        }
                    }
                }
            }
        }
    }
}

// ------------------------------------------------------------------------------------------------ C06 / C18
fn touch_error(e: &nodejs_semver::SemverError) {
    let _ = e.input(); let _ = e.offset(); let _ = e.span(); let _ = e.kind(); let _ = e.location(); let _ = e.to_string(); let _ = format!("{:?}", e);
    use miette::Diagnostic;
    let _ = e.code().map(|c| c.to_string()); let _ = e.help().map(|c| c.to_string()); let _ = e.labels().map(|l| l.count()); let _ = e.source_code().is_some();
}
fn check_c06_strings() {
    // every string up to length 4 over an alphabet covering each token class, plus longer hand picked ones
    let alpha: Vec<char> = "10.x*-+ <>=~^|va\u{e9}\"'".chars().collect();
    let mut all: Vec<String> = vec![String::new()];
    let mut frontier: Vec<String> = vec![String::new()];
    for _ in 0..4 {
        let mut next = vec![];
        for s in &frontier { for c in &alpha { let mut t = s.clone(); t.push(*c); next.push(t); } }
        all.extend(next.iter().cloned());
        frontier = next;
    }
    for n in [255usize, 256, 257, 300] {
        for tail in ["\r\n", "  ", " \n", "\t\t", " \r\n ", "\n", "\n\n  "] { all.push(format!("1.2.3-{}{}", "a".repeat(n), tail)); all.push(format!("{}{}", "9".repeat(n), tail)); }
        all.push("1".repeat(n)); all.push(format!("1.2.3-{}", "a".repeat(n))); all.push(format!("{}\u{e9}", "a".repeat(n))); all.push(format!("1.2.3\n{}", "b".repeat(n)));
        all.push(format!("{} || {}", ">=1.2.3 ".repeat(n / 8), "x".repeat(n)));
    }
    for t in ["18446744073709551615", "^18446744073709551615", "~1.18446744073709551615", ">1.18446744073709551615", "1 - 18446744073709551615", "=18446744073709551615", ">0.0.18446744073709551615", "<=18446744073709551615",
              "18446744073709551614.18446744073709551615.0", "900719925474099", "^900719925474099", "~900719925474099.900719925474099", ">900719925474099", "1 - 900719925474099", ">0.0.900719925474099",
              "|", "a|b", "1.2.3 | 2.x", "1.x ||| 2.x", "| |", "1.2.3 |", "|| 1.2.3", "1.2.3 ||", "||", " || ", "1.2.3-", "1.2.3+", "1.2.3-a..b", "1.2.3.4", "1.2.3 foo",
              "1.2.3 \u{a9}", "1.2.3\t\u{a9}", ">=1 \u{a9}", "1.2.3 \u{a9} 2", "1 - \u{a9}", "\u{a9} - 1", "1.2.3 ||\u{a9}", "1.2.3 \u{1F600}", " \u{e9}", "\t\u{e9}x", "1.2.3  \u{e9}",
              "1.2.900719925474100", "1.2.99999999999999999999999", ">=1.2.99999999999999999999999", "1.2.3\n4.5.6", "\n\n1.2", "1.2.3-\u{e9}", ">=\u{e9}", "\u{1F600}", "1.2.3 - ", " - 1.2.3", "1.2.3 - 2.0.0 - 3"] { all.push(t.to_string()); }
    // a multi-byte character at every byte offset up to 300, alone and after a valid prefix
    for n in 0..300usize { all.push(format!("{}\u{e9}", "a".repeat(n))); all.push(format!("1.2.3 {}\u{e9}", "b".repeat(n))); all.push(format!("{}\u{1F600}x", "1".repeat(n))); }
    for t in &all {
        let r = catch_unwind(AssertUnwindSafe(|| {
            match Version::parse(t) { Ok(v) => { let _ = v.to_string(); } Err(e) => touch_error(&e) }
            match Range::parse(t) { Ok(r) => { let _ = r.to_string(); let _ = r.min_version(); } Err(e) => touch_error(&e) }
            match t.parse::<Version>() { Ok(v) => { let _ = v.to_string(); } Err(e) => touch_error(&e) }
            match t.parse::<Range>() { Ok(r) => { let _ = r.to_string(); } Err(e) => touch_error(&e) }
        }));
        if r.is_err() { fail("C06", "parse or an accessor of the returned error panics", format!("{:?}", t), String::new()); }
    }
}
/// "in time roughly linear in the input length": long inputs of every token class must parse within a generous budget
/// (the unmodified code needs a few milliseconds for each of them in this build)
fn check_c06_time() {
    let n = 120000;
    let inputs: Vec<String> = vec![
        format!("1.2.3{}", " ".repeat(n)), " ".repeat(n), "\t".repeat(n), format!("1.2.3 ||{}", " ".repeat(n)), format!("{}1.2.3", " ".repeat(n)), format!("1.2.3{}>=2", " ".repeat(n)),
        format!("^{}1.2.3", " ".repeat(n)), "a".repeat(n), "1".repeat(n), "1.".repeat(n / 2), "|".repeat(n), "||".repeat(n / 2), "1.2.3 ".repeat(n / 6), ">=1.2.3 <2.0.0 || ".repeat(n / 18),
        format!("1.2.3-{}", "a.".repeat(n / 2)), format!("1.2.3-{}", "-".repeat(n)), "x ".repeat(n / 2), "1 - 2 ".repeat(n / 6), "~>".repeat(n / 2), format!("1.2.3+{}", "b.".repeat(n / 2)),
        // all different: 12 000 alternatives, 12 000 comparators, 12 000 identifiers
        (0..12000).map(|i| format!("1.{}.{}", i / 100, i % 100)).collect::<Vec<_>>().join(" || "), (0..12000).map(|i| format!(">={}.{}.0", i / 100, i % 100)).collect::<Vec<_>>().join(" "),
        (0..12000).map(|i| format!("<{}.{}.0 || >{}.{}.5", i / 100, i % 100, i / 100, i % 100)).collect::<Vec<_>>().join("||"), format!("1.2.3-{}", (0..12000).map(|i| i.to_string()).collect::<Vec<_>>().join(".")),
    ];
    for t in inputs {
        let t2 = t.clone();
        let (tx, rx) = std::sync::mpsc::channel();
        std::thread::spawn(move || { let _ = Range::parse(&t2); let _ = Version::parse(&t2); let _ = tx.send(()); });
        if rx.recv_timeout(std::time::Duration::from_secs(8)).is_err() {
            fail("C06", "parsing takes time roughly linear in the input length", format!("{:?}... ({} bytes)", &t[..40.min(t.len())], t.len()), "did not finish within 8 s (the unmodified code needs milliseconds)".into());
        }
    }
}
/// growth: four times the input may not cost much more than four times the time (a quadratic step shows as a factor of 16)
fn check_c06_growth() {
    fn timed(t: &str) -> f64 {
        let mut best = f64::MAX;
        for _ in 0..2 { let t0 = std::time::Instant::now(); let _ = Range::parse(t); let _ = Version::parse(t); best = best.min(t0.elapsed().as_secs_f64()); }
        best
    }
    let fam: Vec<(&str, Box<dyn Fn(usize) -> String>)> = vec![
        ("distinct alternatives", Box::new(|n| (0..n).map(|i| format!("1.{}.{}", i / 100, i % 100)).collect::<Vec<_>>().join(" || "))),
        ("distinct two-sided alternatives", Box::new(|n| (0..n).map(|i| format!(">={}.{}.0 <{}.{}.5", i / 100, i % 100, i / 100, i % 100)).collect::<Vec<_>>().join("||"))),
        ("distinct comparators", Box::new(|n| (0..n).map(|i| format!(">={}.{}.0", i / 100, i % 100)).collect::<Vec<_>>().join(" "))),
        ("distinct prerelease identifiers", Box::new(|n| format!("1.2.3-{}", (0..n).map(|i| format!("a{}", i)).collect::<Vec<_>>().join(".")))),
    ];
    for (name, f) in fam {
        let n = 10000;
        let (a, b) = (f(n), f(4 * n));
        let (ta, tb) = (timed(&a), timed(&b));
        if tb > 9.0 * ta + 0.5 {
            fail("C06", "parsing takes time roughly linear in the input length", format!("{}: {} of them ({} bytes) take {:.3} s, {} of them ({} bytes) take {:.3} s", name, n, a.len(), ta, 4 * n, b.len(), tb), "four times the input costs more than nine times the time".into());
        }
    }
}
fn check_c06() {
    check_c06_strings();
    check_c06_time();
    check_c06_growth();
    let mut texts: Vec<String> = grid(0).into_iter().map(|c| c.text).collect();
    texts.truncate(700);
    for t in ["2.1 - 3.0 || <2.3.2 <1.0 =3.2.1-0", "=3.1.0-0", "<=1", "<=1.x", "<=1.*.*", "<=900719925474099", ">=900719925474099.900719925474099.900719925474099", "<1.0.0-alpha", ">=1.0.0-alpha || >1.0.0-alpha",
              ">1.2.3 <2.0.0", ">=1.2.4-0 <1.5.0", "<1.2.4-0", ">1.2.3", ">=1.2.4-0", "<=1.2.3", ">1.2.3 <1.2.4", ">=1.2.3 <1.2.4-0", ">1.2.3-0 <1.2.3", "<1.2.3-0", ">=1.2.3-0", ">1.2.3-0", "1.2.3-0", ">0.0.0-0 <0.0.1-0"] { texts.push(t.to_string()); }
    let rs: Vec<(String, Range)> = texts.iter().filter_map(|t| catch_unwind(|| Range::parse(t)).unwrap_or_else(|_| fail("C06", "Range::parse panics", format!("`{}`", t), String::new())).ok().map(|r| (t.clone(), r))).collect();
    let vs = order_versions().into_iter().step_by(5).chain(versions().into_iter().step_by(3)).collect::<Vec<_>>();
    for a in &vs { for b in &vs {
        if catch_unwind(AssertUnwindSafe(|| { let _ = a.cmp(b); let _ = a == b; let _ = a.diff(b); })).is_err() { fail("C06", "Version operation panics", format!("`{}` vs `{}`", a, b), String::new()); }
    } }
    let red: Vec<&(String, Range)> = rs.iter().step_by(7).chain(rs.iter().rev().take(26)).collect();
    for (ta, a) in &rs {
        let r = catch_unwind(AssertUnwindSafe(|| { let _ = a.to_string(); let m = a.min_version(); for v in vs.iter().take(40) { let _ = a.satisfies(v); } let _ = a.max_satisfying(&vs); let _ = a.min_satisfying(&vs); m }));
        if r.is_err() { fail("C06", "unary Range operation panics", format!("`{}`", ta), String::new()); }
    }
    let all = rparse("*").unwrap();
    for (ta, a) in &rs {
        // two-step sequences through the universe
        if catch_unwind(AssertUnwindSafe(|| { if let Some(d) = all.difference(a) { let _ = d.min_version(); let _ = d.to_string(); if let Some(dd) = all.difference(&d) { let _ = dd.min_version(); } } })).is_err() { fail("C06", "`*`.difference(A).min_version() panics", format!("A=`{}`", ta), String::new()); }
    }
    for (ta, a) in &red { for (tb, b) in &rs {
        let r = catch_unwind(AssertUnwindSafe(|| {
            let i = a.intersect(b); let d = a.difference(b); let _ = a.allows_all(b); let _ = a.allows_any(b);
            for x in [i, d].iter().flatten() { let _ = x.to_string(); let _ = x.min_version(); let _ = x.difference(a); let _ = x.intersect(b); let _ = b.difference(x).map(|y| y.min_version()); }
        }));
        if r.is_err() { fail("C06", "binary Range operation (or a composition) panics", format!("A=`{}` B=`{}`", ta, tb), String::new()); }
    } }
}
fn check_c18() {
    macro_rules! t {
        ($t:ty, $vals:expr) => {
            for &a in $vals.iter() { for &b in $vals.iter() { for &c in $vals.iter() {
                let v = Version::from((a as $t, b as $t, c as $t));
                let s = format!("{}.{}.{}", a, b, c);
                let p = vparse(&s).unwrap_or_else(|e| fail("C18", "`a.b.c` built by From parses", format!("{} ({})", s, stringify!($t)), e.to_string()));
                if v.major != p.major || v.minor != p.minor || v.patch != p.patch || v.pre_release != p.pre_release || v.build != p.build || v.to_string() != s { fail("C18", "From<(T,T,T)> == parse", format!("{} ({})", s, stringify!($t)), format!("got `{}`", v)); }
                let d = b;
                let v4 = Version::from((a as $t, b as $t, c as $t, d as $t));
                let s4 = format!("{}.{}.{}-{}", a, b, c, d);
                let p4 = vparse(&s4).unwrap_or_else(|e| fail("C18", "`a.b.c-d` built by From parses", format!("{} ({})", s4, stringify!($t)), e.to_string()));
                if v4.major != p4.major || v4.minor != p4.minor || v4.patch != p4.patch || v4.pre_release != p4.pre_release || v4.build != p4.build || v4.to_string() != s4 { fail("C18", "From<(T,T,T,T)> == parse", format!("{} ({})", s4, stringify!($t)), format!("got `{}`", v4)); }
            } } }
        };
    }
    t!(u8, [0u64, 1, 51, 52, 127, 200, 255]); t!(i8, [0u64, 1, 51, 52, 127]);
    t!(u16, [0u64, 1, 255, 13107, 13108, 65535]); t!(i16, [0u64, 1, 255, 13107, 13108, 32767]);
    t!(u32, [0u64, 1, 65536, 858993459, 858993460, 4294967295]); t!(i32, [0u64, 1, 65536, 858993459, 858993460, 2147483647]);
    t!(u64, [0u64, 1, 4294967296, 4294967301, 900719925474099]); t!(i64, [0u64, 1, 4294967296, 4294967301, 900719925474099]);
    t!(usize, [0u64, 1, 4294967296, 4294967301, 900719925474099]); t!(isize, [0u64, 1, 4294967296, 4294967301, 900719925474099]);
}


// ------------------------------------------------------------------------------------------------ C05 (bounded stand-in / witness search)
/// the property statement, read directly: [v|V] blanks* major "." minor "." patch [["-"] ident ("." ident)*] ["+" ident ("." ident)*] blanks* <end>
/// (the optional hyphen, the v prefix and the blanks are the loose spellings the crate accepts); components are non-empty digit runs
/// not above MAX_SAFE_INTEGER, identifiers non-empty runs over [0-9A-Za-z-]; the whole text is at most 256 bytes.  Greedy, left to right.
fn ref_version(t: &str) -> Option<(u64, u64, u64, Vec<Id>, Vec<Id>)> {
    if t.len() > 256 { return None; }
    let c: Vec<char> = t.chars().collect();
    let mut i = 0usize;
    if i < c.len() && (c[i] == 'v' || c[i] == 'V') { i += 1; }
    while i < c.len() && (c[i] == ' ' || c[i] == '\t') { i += 1; }
    fn num(c: &[char], i: &mut usize) -> Option<u64> {
        let st = *i;
        while *i < c.len() && c[*i].is_ascii_digit() { *i += 1; }
        if *i == st { return None; }
        let s: String = c[st..*i].iter().collect();
        let sig = s.trim_start_matches('0');
        let v: u128 = if sig.len() > 30 { u128::MAX } else if sig.is_empty() { 0 } else { sig.parse().ok()? };
        if v > 900_719_925_474_099 { None } else { Some(v as u64) }
    }
    fn ident(c: &[char], i: &mut usize) -> Option<Id> {
        let st = *i;
        while *i < c.len() && (c[*i].is_ascii_alphanumeric() || c[*i] == '-') { *i += 1; }
        if *i == st { return None; }
        let s: String = c[st..*i].iter().collect();
        if s.chars().all(|x| x.is_ascii_digit()) { if let Ok(n) = s.parse::<u64>() { return Some(Id::N(n)); } }
        Some(Id::A(s))
    }
    fn idents(c: &[char], i: &mut usize) -> Option<Vec<Id>> {
        let mut out = vec![ident(c, i)?];
        loop {
            let save = *i;
            if *i < c.len() && c[*i] == '.' { *i += 1; } else { break; }
            match ident(c, i) { Some(x) => out.push(x), None => { *i = save; break; } }
        }
        Some(out)
    }
    let ma = num(&c, &mut i)?;
    if i < c.len() && c[i] == '.' { i += 1; } else { return None; }
    let mi = num(&c, &mut i)?;
    if i < c.len() && c[i] == '.' { i += 1; } else { return None; }
    let pa = num(&c, &mut i)?;
    let mut pre = vec![];
    let mut build = vec![];
    {
        let save = i;
        if i < c.len() && c[i] == '-' { i += 1; }
        match idents(&c, &mut i) { Some(p) => pre = p, None => { i = save; } }
    }
    if i < c.len() && c[i] == '+' {
        let save = i;
        i += 1;
        match idents(&c, &mut i) { Some(b) => build = b, None => { i = save; } }
    }
    while i < c.len() && (c[i] == ' ' || c[i] == '\t') { i += 1; }
    if i != c.len() { return None; }
    Some((ma, mi, pa, pre, build))
}
fn ids_of(v: &[Identifier]) -> Vec<Id> { v.iter().map(|i| match i { Identifier::Numeric(n) => Id::N(*n), Identifier::AlphaNumeric(s) => Id::A(s.clone()) }).collect() }
fn c05_one(t: &str) {
    let got = vparse(t);
    let want = ref_version(t);
    match (&got, &want) {
        (Ok(v), Some((a, b, c, p, bd))) => {
            if v.major != *a || v.minor != *b || v.patch != *c || ids_of(&v.pre_release) != *p || ids_of(&v.build) != *bd {
                fail("C05", "the returned fields are the denoted numbers and identifiers", format!("{:?}", t), format!("parsed as `{}` (pre {:?} build {:?}), the text denotes {}.{}.{} pre {:?} build {:?}", v, v.pre_release, v.build, a, b, c, p, bd));
            }
        }
        (Err(_), None) => {}
        (Ok(v), None) => fail("C05", "Version::parse accepts only whole well-formed version strings", format!("{:?}", t), format!("accepted as `{}` (pre {:?} build {:?})", v, v.pre_release, v.build)),
        (Err(e), Some(_)) => fail("C05", "every string of the canonical shape is accepted", format!("{:?}", t), format!("rejected: {}", e)),
    }
}
fn check_c05(level: u32, seed: u64) {
    // the inputs the statement names
    for t in ["1.2.3.4", "1.2.3 foo", "1.2.3-", "1.2.3+", "1.2.3-a..b", "1.2.3", "v1.2.3", "V 1.2.3 ", "1.2.3-alpha.1+build.5", "01.002.0003", "1.2.3alpha", "1.2.3--", "1.2.3-+b", "1.2.3+b-c", "1.2.3-a+", "1.2.3+a+b", "1.2.3-a-b.c-",
              "900719925474099.0.0", "900719925474100.0.0", "0.0.99999999999999999999", "1.2.3-99999999999999999999", "1.2.3-18446744073709551615", "1.2.3-18446744073709551616", "1.2.3-\u{141}", "1.2.3\u{131}", "1.2.3+\u{141}.1", "1.2.3-a\u{e9}", "\u{661}.2.3",
              "1.2.3\n", "1.2.3\r\n", "\n1.2.3", "1.2.3\u{a0}", "1.2.3 \t ", " \t1.2.3", " v1.2.3", "vv1.2.3", "v\t1.2.3", "1. 2.3", "1.2 .3", "1.2.3 -a", "1.2.3- a", "1.2.3-a .b", "1.2.3+ b", "=1.2.3", "1.2.x", "1.2", "1", "", " ", "v", "1.2.3.", "1.2.3..", ".1.2.3", "1..2.3", "+1.2.3", "-1.2.3", "1.2.3-a.", "1.2.3+a.", "1.2.3-.a", "1.2.3+.a"] {
        c05_one(t);
    }
    for n in [240usize, 249, 250, 251, 252, 256, 257] { c05_one(&format!("1.2.3-{}", "a".repeat(n))); c05_one(&format!("1.2.3{}", " ".repeat(n))); c05_one(&format!("{}1.2.3", " ".repeat(n))); c05_one(&format!("1.2.3+{}", "0.".repeat(n / 2))); }
    // nothing longer than MAX_LENGTH is a version, whatever it is made of
    for n in [257usize, 260, 300, 305, 1000] {
        for fill in ["\n", " ", "\t", "a", "0", ".", "-", "+", "\u{e9}"] {
            let tail = fill.repeat(n);
            c05_one(&format!("1.2.3{}", tail)); c05_one(&format!("{}1.2.3", tail)); c05_one(&format!("1.2.3-{}", tail)); c05_one(&format!("1.2.3+{}", tail));
        }
    }
    // zero padded components of 15..40 digits in each position (a digit-count limit shows here), and numbers at and beyond the word sizes
    // whose low 64 / 32 bits are small (a truncating conversion shows here)
    for w in 15usize..=40 {
        for n in [0u64, 7, 10, 900719925474099] {
            let z = format!("{:0>w$}", n, w = w);
            c05_one(&format!("{}.2.3", z)); c05_one(&format!("1.{}.3", z)); c05_one(&format!("1.2.{}", z)); c05_one(&format!("1.2.3-{}", z)); c05_one(&format!("1.2.3+{}", z)); c05_one(&format!("1.2.{}-a+b", z));
        }
    }
    for big in ["4294967296", "4294967297", "18446744073709551615", "18446744073709551616", "18446744073709551617", "18446744073709551623", "36893488147419103233", "340282366920938463463374607431768211456", "340282366920938463463374607431768211457",
                "340282366920938463463374607431768211461", "900719925474100", "9007199254740991", "9007199254740992", "99999999999999999999", "1000000000000000000000000000000000000000000000000000000000001"] {
        c05_one(&format!("{}.2.3", big)); c05_one(&format!("1.{}.3", big)); c05_one(&format!("1.2.{}", big)); c05_one(&format!("1.2.3-{}", big)); c05_one(&format!("1.2.3+{}", big)); c05_one(&format!("1.2.3-rc.{}", big)); c05_one(&format!("1.2.3+sha.{}.x", big));
    }
    // every string up to length 5 over an alphabet of token classes, alone and after prefixes that reach the later states of the grammar
    let alpha: Vec<char> = "10.-+a vZ\u{141}\t9".chars().collect();
    let maxlen = if level > 0 { 6 } else { 5 };
    let mut frontier: Vec<String> = vec![String::new()];
    let prefixes = ["", "1.2.", "1.2.3", "1.2.3-", "1.2.3-a", "1.2.3+", "1.2.3-a+b", "v "];
    let mut count = 0u64;
    for _ in 0..maxlen {
        let mut next = Vec::with_capacity(frontier.len() * alpha.len());
        for s in &frontier { for c in &alpha { let mut t = s.clone(); t.push(*c); next.push(t); } }
        for s in &next {
            for p in prefixes.iter() {
                if !p.is_empty() && s.chars().count() > 4 { continue; }
                c05_one(&format!("{}{}", p, s));
                count += 1;
            }
        }
        frontier = next;
    }
    // canonical versions with one edit (insert / delete / replace / append), random, seeded
    let mut r = Rng(seed.wrapping_mul(0x9E3779B97F4A7C15) ^ 0xC05);
    let edits: Vec<char> = "10.-+aZ v\t\u{141}x*~^=<>|,;_/\\\n".chars().collect();
    let n = if level > 0 { 200000 } else { 30000 };
    for _ in 0..n {
        let k = K { ma: gen_num(&mut r), mi: gen_num(&mut r), pa: gen_num(&mut r), pre: if r.below(2) == 0 { gen_pre(&mut r) } else { vec![] } };
        let mut t = fmt_key(&k);
        if r.below(2) == 0 { t.push('+'); t.push_str(&gen_pre(&mut r).iter().map(fmt_id).collect::<Vec<_>>().join(".")); }
        c05_one(&t);
        let cs: Vec<char> = t.chars().collect();
        let pos = r.below(cs.len() as u64 + 1) as usize;
        let e = edits[r.below(edits.len() as u64) as usize];
        let mut m: Vec<char> = cs.clone();
        match r.below(4) { 0 => m.insert(pos, e), 1 => { if pos < m.len() { m.remove(pos); } }, 2 => { if pos < m.len() { m[pos] = e; } }, _ => m.push(e) }
        c05_one(&m.iter().collect::<String>());
    }
    let _ = count;
}

// ------------------------------------------------------------------------------------------------ C12 (bounded stand-in / witness search)
/// inputs listed in known_findings.json for the property under search (env VERIF_KNOWN, one per line): a failure on one of them is
/// printed as `KNOWN <json>` and the search goes on; a failure on any other input is a witness
fn known_inputs() -> Vec<String> { std::env::var("VERIF_KNOWN").map(|s| s.split('\n').filter(|x| !x.is_empty()).map(|x| x.to_string()).collect()).unwrap_or_default() }
fn report(prop: &str, check: &str, input: String, detail: String) {
    if known_inputs().iter().any(|k| *k == input) {
        let esc = |s: &str| s.replace('\\', "\\\\").replace('"', "\\\"");
        println!("KNOWN {{\"property\":\"{}\",\"check\":\"{}\",\"input\":\"{}\",\"detail\":\"{}\"}}", prop, esc(check), esc(&input), esc(&detail));
        return;
    }
    fail(prop, check, input, detail)
}
fn c12_one(t: &str) {
    let v = match vparse(t) { Ok(v) => v, Err(_) => return };
    let p = v.to_string();
    if format!("{}", v) != p { report("C12", "to_string() is Display", t.to_string(), format!("`{}` vs `{}`", p, format!("{}", v))); }
    match vparse(&p) {
        Err(e) => report("C12", "the printed form of a parsed version parses back", t.to_string(), format!("printed `{}` ({} bytes) is rejected: {}", if p.len() > 80 { &p[..80] } else { &p }, p.len(), e)),
        Ok(w) => {
            if w.major != v.major || w.minor != v.minor || w.patch != v.patch || w.pre_release != v.pre_release || w.build != v.build {
                report("C12", "parse(print(v)) equals v in all five fields", t.to_string(), format!("printed `{}`, parsed back as {:?}, was {:?}", p, w, v));
            }
            if w.to_string() != p { report("C12", "the printed form is a fixed point", t.to_string(), format!("`{}` then `{}`", p, w)); }
        }
    }
    #[cfg(feature = "serde")]
    match serde_json::to_string(&v) {
        Err(e) => report("C12", "serde: a version serialises", t.to_string(), e.to_string()),
        Ok(j) => {
            if j != format!("\"{}\"", p) { report("C12", "serde: the JSON is exactly the printed string", t.to_string(), format!("json {} printed `{}`", j, p)); }
            if p.len() <= 256 {
                match serde_json::from_str::<Version>(&j) {
                    Err(e) => report("C12", "serde: the JSON deserialises", t.to_string(), e.to_string()),
                    Ok(w) => if w.major != v.major || w.minor != v.minor || w.patch != v.patch || w.pre_release != v.pre_release || w.build != v.build { report("C12", "serde round trip gives the same value", t.to_string(), format!("{:?} vs {:?}", w, v)) },
                }
            }
        }
    }
}
fn check_c12(level: u32, seed: u64) {
    for t in ["1.2.3", "v1.2.3", "V 1.2.3 ", " 1.2.3", "01.002.0003", "1.2.3alpha", "1.2.3-alpha.1+build.5", "1.2.3--", "1.2.3---.-", "1.2.3+-", "1.2.3-01", "1.2.3-0a", "1.2.3-a0.00.0b", "1.2.3+001.1-1", "1.2.3-1e3", "1.2.3-0x10",
              "900719925474099.900719925474099.900719925474099", "1.2.3-900719925474100", "1.2.3-18446744073709551615", "1.2.3-18446744073709551616", "1.2.3-00018446744073709551615", "1.2.3+99999999999999999999999999",
              "1.2.3-A.a.B.b", "1.2.3-rc1.RC1", "0.0.0-0", "0.0.0+0", "1.2.3-a+b+c", "1.2.3+a-b", "1.2.3-a-b+c-d"] {
        c12_one(t);
    }
    // identifiers that look like hashes, dates, uuids
    for id in ["da39a3ee5e6b4b0d3255bfef95601890afd80709", "DA39A3EE5E6B4B0D3255BFEF95601890AFD80709", "0123456789abcdef0123456789abcdef01234567", "e3b0c44298fc1c149afbf4c8996fb92427ae41e4649b934ca495991b7852b855",
               "20261002T093000Z", "550e8400-e29b-41d4-a716-446655440000", "1234567890123456789012345678901234567890", "abcdefghijklmnopqrstuvwxyzABCDEFGHIJKLMNOPQRSTUVWXYZ0123456789-"] {
        c12_one(&format!("1.2.3+{}", id)); c12_one(&format!("1.2.3-{}", id)); c12_one(&format!("1.2.3-rc.{}+sha.{}", id, id));
    }
    // all-digit identifiers that do not fit u64 (kept as text), with and without leading zeros
    for big in ["18446744073709551616", "0018446744073709551616", "00099999999999999999999", "000000000000000000000000000000000001", "0000000000000000000000", "99999999999999999999999999999999999999999"] {
        c12_one(&format!("1.2.3-{}", big)); c12_one(&format!("1.2.3+{}", big)); c12_one(&format!("1.2.3-rc.{}+{}.x", big, big)); c12_one(&format!("1.2.3-{}.{}", big, big));
    }
    // values BUILT from canonical identifiers (not only values the parser returns): numeric identifiers over the whole u64 range,
    // alphanumeric ones that do not look numeric
    for n in [0u64, 1, 9, 10, 4294967295, 4294967296, 900719925474099, 900719925474100, 999999999999999, 1000000000000000, 20261002093000123, 9007199254740991, 9007199254740992, u64::MAX - 1, u64::MAX] {
        for (pre, build) in [(vec![Identifier::Numeric(n)], vec![]), (vec![], vec![Identifier::Numeric(n)]), (vec![Identifier::AlphaNumeric("rc".into()), Identifier::Numeric(n)], vec![Identifier::Numeric(n), Identifier::AlphaNumeric("x-".into())])] {
            let v = Version { major: 1, minor: 2, patch: 3, pre_release: pre.clone(), build: build.clone() };
            let p = v.to_string();
            if format!("{}", v) != p { report("C12", "to_string() is Display", format!("{:?}", v), format!("`{}` vs `{}`", p, format!("{}", v))); }
            match vparse(&p) {
                Err(e) => report("C12", "a version built from canonical identifiers prints to a text that parses", format!("{:?}", v), format!("`{}`: {}", p, e)),
                Ok(w) => if w.major != 1 || w.minor != 2 || w.patch != 3 || w.pre_release != pre || w.build != build { report("C12", "a version built from canonical identifiers round-trips in all five fields", format!("{:?}", v), format!("printed `{}`, parsed back as {:?}", p, w)) },
            }
        }
    }
    for (a, b, c) in [(0u64, 0u64, 0u64), (900719925474099, 0, 900719925474099), (1, 900719925474099, 2)] {
        let v = Version { major: a, minor: b, patch: c, pre_release: vec![Identifier::AlphaNumeric("-".into()), Identifier::AlphaNumeric("0a".into())], build: vec![Identifier::AlphaNumeric("a--b".into())] };
        c12_one(&v.to_string());
        match vparse(v.to_string()) { Ok(w) => if w.pre_release != v.pre_release || w.build != v.build || w.major != a || w.minor != b || w.patch != c { report("C12", "a version built from canonical identifiers round-trips in all five fields", format!("{:?}", v), format!("{:?}", w)) }, Err(e) => report("C12", "a version built from canonical identifiers prints to a text that parses", format!("{:?}", v), e.to_string()) }
    }
    // lengths at the limit: hyphenated (printed = same length) and the one hyphen-less boundary input of the known finding
    for n in [240usize, 249, 250] { c12_one(&format!("1.2.3-{}", "a".repeat(n))); c12_one(&format!("1.2.3+{}", "b".repeat(n))); c12_one(&format!("v 1.2.3-{}", "a.".repeat(n / 2 - 2) + "z")); }
    c12_one(&format!("1.2.3{}", "a".repeat(250)));      // 255 bytes, hyphen-less: prints 256
    c12_one(&format!("1.2.3{}", "a".repeat(251)));      // 256 bytes, hyphen-less: prints 257 (known finding)
    c12_one(&format!("0000000001.2.3{}", "a".repeat(242)));
    // every string up to length 4 after prefixes that make it parse
    let alpha: Vec<char> = "10.-+aZ9".chars().collect();
    let mut frontier: Vec<String> = vec![String::new()];
    for _ in 0..(if level > 0 { 5 } else { 4 }) {
        let mut next = Vec::with_capacity(frontier.len() * alpha.len());
        for s in &frontier { for c in &alpha { let mut t = s.clone(); t.push(*c); next.push(t); } }
        for s in &next { for p in ["1.2.", "1.2.3", "1.2.3-", "1.2.3-a", "1.2.3+", "1.2.3-a+b", "1.2.3-0."] { c12_one(&format!("{}{}", p, s)); } }
        frontier = next;
    }
    // seeded canonical and loosely spelled versions
    let mut r = Rng(seed.wrapping_mul(0x9E3779B97F4A7C15) ^ 0xC12);
    for _ in 0..(if level > 0 { 200000 } else { 30000 }) {
        let k = K { ma: gen_num(&mut r), mi: gen_num(&mut r), pa: gen_num(&mut r), pre: if r.below(2) == 0 { gen_pre(&mut r) } else { vec![] } };
        let mut t = String::new();
        if r.chance(10) { t.push(*r.pick(&['v', 'V'])); if r.chance(50) { t.push(' '); } }
        t.push_str(&format!("{}.{}.{}", spell_num(&mut r, k.ma), spell_num(&mut r, k.mi), spell_num(&mut r, k.pa)));
        if !k.pre.is_empty() { if r.chance(80) || matches!(k.pre[0], Id::N(_)) { t.push('-'); } t.push_str(&k.pre.iter().map(fmt_id).collect::<Vec<_>>().join(".")); }
        if r.below(2) == 0 { t.push('+'); t.push_str(&gen_pre(&mut r).iter().map(fmt_id).collect::<Vec<_>>().join(".")); }
        if r.chance(5) { t.push(' '); }
        c12_one(&t);
    }
}

fn main() {
    let args: Vec<String> = std::env::args().collect();
    let prop = args.get(1).map(|s| s.as_str()).unwrap_or("");
    let level: u32 = args.get(2).and_then(|s| s.parse().ok()).unwrap_or(0);
    let seed: u64 = args.get(3).and_then(|s| s.parse().ok()).unwrap_or(0);
    std::panic::set_hook(Box::new(|_| {}));
    let _ = PROP.set(prop.to_string());
    match prop {
        "C01" | "C02" | "C03" => { check_npm(prop, level); check_npm_random(prop, seed, if level > 0 { 60000 } else { 6000 }); }
        "DUMP" => { dump_random(seed, 400); return; }
        "C05" => check_c05(level, seed),
        "C12" => check_c12(level, seed),
        "C04" => check_c04(),
        "C16" => check_c16(),
        "C07" | "C08" | "C09" | "C10" | "C15" => check_setops(prop),
        "C11" => check_c11(seed),
        "C14" => check_c14(seed),
        "C06" => check_c06(),
        "C18" => check_c18(),
        _ => { eprintln!("no witness search for {}", prop); std::process::exit(3); }
    }
    println!("NO-WITNESS property={} (bounded search finished)", prop);
}
