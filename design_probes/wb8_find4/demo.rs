// find4 demo: NO source change. This program panics on the UNCHANGED crate (and ./check C01 exits 0 on it):
// the reference reader of contracts/rgrammar_spec.rs + the hyphen clause grid encode readings npm does not have.
use nodejs_semver::{Range, Version};
fn main() {
    let v = |s: &str| Version::parse(s).unwrap();
    let mut bad = vec![];
    // (a) a hyphen range without a lower end.  node: new Range(' - 10') throws; {loose:true}: '>=10.0.0 <11.0.0-0'; 5.0.0 is rejected either way
    //     (the crate's own grammar comment says `- 10 -> >=10.0.0 <11.0.0`)
    if let Ok(r) = Range::parse(" - 10") { if r.satisfies(&v("5.0.0")) { bad.push(format!("` - 10` parsed as `{}` admits 5.0.0; npm rejects it (strict: invalid, loose: >=10.0.0 <11.0.0-0)", r)); } }
    // (b) a hyphen range as one comparator among others.  node: strict invalid; loose reads `1 2 >=1.5`, which nothing satisfies
    if let Ok(r) = Range::parse("1 - 2 >=1.5") { if r.satisfies(&v("1.5.0")) { bad.push(format!("`1 - 2 >=1.5` parsed as `{}` admits 1.5.0; npm rejects it in both modes", r)); } }
    if let Ok(r) = Range::parse("1.2.3 - 2.0.0 foo") { if r.satisfies(&v("1.5.0")) { bad.push(format!("`1.2.3 - 2.0.0 foo` parsed as `{}` admits 1.5.0; npm rejects it in both modes", r)); } }
    // (c) blanks: npm splits on /\s+/ and trims; the crate (and ws_char) know ' ' and '\t' only
    if Range::parse("^1.2.3\n").is_err() { bad.push("`^1.2.3\\n` does not parse; npm reads it as ^1.2.3 (satisfies('1.5.0', '^1.2.3\\n') === true)".to_string()); }
    if Range::parse(">=1.2.3\n<2.0.0").is_err() { bad.push("`>=1.2.3\\n<2.0.0` does not parse; npm admits 1.5.0".to_string()); }
    // (d) `=` after another operator: npm's partial may start with [v=\s]*
    if let Ok(r) = Range::parse("> =1.2.3") { if !r.satisfies(&v("2.0.0")) { bad.push(format!("`> =1.2.3` parsed as `{}` rejects 2.0.0; npm reads `>=1.2.3` and admits it", r)); } }
    assert!(bad.is_empty(), "C01: the crate and npm disagree on {} texts:\n  {}", bad.len(), bad.join("\n  "));
}
