#!/usr/bin/env python3
import re,sys
from gen import *
from gen2 import strip_derive, clone_impl, inject
E=[]
pred=strip_derive(item(RNG,r'^enum Predicate'))
bound=strip_derive(item(RNG,r'^enum Bound \{'))
bset=strip_derive(item(RNG,r'^struct BoundSet'))
def pubify(t):
    t=re.sub(r'^(enum|struct) ',r'pub \1 ',t,flags=re.M)
    t=re.sub(r'^(\s+)(upper|lower): ',r'\1pub \2: ',t,flags=re.M)
    return t
pred,bound,bset=map(pubify,(pred,bound,bset))
E+=[pred,clone_impl('Predicate'),bound,clone_impl('Bound'),bset,clone_impl('BoundSet')]
E.append(open('specs_bound.rs').read())
E.append(open('specs_bound_traits.rs').read())
# Predicate::flip, Bound helpers
flip=fn_in_impl(RNG,r'^impl Predicate \{','flip')
E.append('impl Predicate {\n'+inject(flip,'r','''    ensures r == (match self { Predicate::Excluding(v) => Predicate::Including(v), Predicate::Including(v) => Predicate::Excluding(v), Predicate::Unbounded => Predicate::Unbounded })''')+'\n}')
bu=fn_in_impl(RNG,r'^impl Bound \{','upper'); bl=fn_in_impl(RNG,r'^impl Bound \{','lower'); bp=fn_in_impl(RNG,r'^impl Bound \{','predicate')
E.append('impl Bound {\n'+inject(bu,'r','    ensures r == Bound::Upper(Predicate::Unbounded)')+'\n'+inject(bl,'r','    ensures r == Bound::Lower(Predicate::Unbounded)')+'\n'+inject(bp,'r','    ensures r == (match self { Bound::Lower(p) => p, Bound::Upper(p) => p })')+'\n}')
bcmp=fn_in_impl(RNG,r'^impl Ord for Bound \{','cmp'); bpcmp=fn_in_impl(RNG,r'^impl PartialOrd for Bound \{','partial_cmp')
E.append('impl Ord for Bound {\n'+inject(bcmp,'','',proof='reveal(cut_cmp); broadcast use group_ver_order;')+'\n}\nimpl PartialOrd for Bound {\n'+bpcmp+'\n}')

def split_or_guard(text):
    # mechanical rewrite R1: `A | B if g => body` -> two arms (only the one shape present)
    pat=re.compile(r'(\n\s*)(\([^\n]*\))\n\s*\| (\([^\n]*\))\n(\s*if [^\n]*=>)\n(\s*\{\n\s*None\n\s*\})')
    return pat.sub(lambda m: f'{m.group(1)}{m.group(2)}\n{m.group(4)}\n{m.group(5)}{m.group(1)}{m.group(3)}\n{m.group(4)}\n{m.group(5)}',text)

C={}
C['new']=('r','''    requires is_lower(lower), is_upper(upper),
    ensures (r is Some) <==> cut_cmp(cut_of(lower), cut_of(upper)) == Ordering::Less,
            r matches Some(bs) ==> *bs.lower == lower && *bs.upper == upper,''','reveal(cut_cmp); broadcast use group_ver_order;')
C['at_least']=('r','''    ensures r matches Some(bs) && *bs.lower == Bound::Lower(p) && *bs.upper == Bound::Upper(Predicate::Unbounded),''','reveal(cut_cmp);')
C['at_most']=('r','''    ensures r matches Some(bs) && *bs.lower == Bound::Lower(Predicate::Unbounded) && *bs.upper == Bound::Upper(p),''','reveal(cut_cmp);')
C['exact']=('r','''    ensures r matches Some(bs) && *bs.lower == Bound::Lower(Predicate::Including(version)) && *bs.upper == Bound::Upper(Predicate::Including(version)),''','reveal(cut_cmp); broadcast use group_ver_order;')
C['satisfies']=('r','''    requires bs_wf(*self),
    ensures r == sat(*self, *version),''','broadcast use group_ver_order;')
C['allows_all']=('r','''    requires bs_wf(*self), bs_wf(*other),
    ensures r == (cut_cmp(cut_of(*self.lower), cut_of(*other.lower)) != Ordering::Greater && cut_cmp(cut_of(*other.upper), cut_of(*self.upper)) != Ordering::Greater),
            r ==> forall|v: Version| within(*other, v) ==> within(*self, v),''','''broadcast use group_ver_order;
        assert forall|v: Version| (cut_cmp(cut_of(*self.lower), cut_of(*other.lower)) != Ordering::Greater && cut_cmp(cut_of(*other.upper), cut_of(*self.upper)) != Ordering::Greater) && within(*other, v) implies within(*self, v) by {
            lemma_cut_mono_above(cut_of(*self.lower), cut_of(*other.lower), v);
            lemma_cut_mono_below(cut_of(*other.upper), cut_of(*self.upper), v);
        }''')
C['allows_any']=('r','''    requires bs_wf(*self), bs_wf(*other),
    ensures r == (cut_cmp(cut_of(*self.lower), cut_of(*other.upper)) == Ordering::Less && cut_cmp(cut_of(*other.lower), cut_of(*self.upper)) == Ordering::Less),
            !r ==> forall|v: Version| !(within(*self, v) && within(*other, v)),''','''broadcast use group_ver_order;
        assert forall|v: Version| within(*self, v) && within(*other, v) implies (cut_cmp(cut_of(*self.lower), cut_of(*other.upper)) == Ordering::Less && cut_cmp(cut_of(*other.lower), cut_of(*self.upper)) == Ordering::Less) by {
            lemma_cut_between(cut_of(*self.lower), cut_of(*other.upper), v);
            lemma_cut_between(cut_of(*other.lower), cut_of(*self.upper), v);
        }
        lemma_cut_total(cut_of(*other.upper), cut_of(*self.lower));
        lemma_cut_total(cut_of(*self.upper), cut_of(*other.lower));''')
C['intersect']=('r','''    requires bs_wf(*self), bs_wf(*other),
    ensures (r is Some) <==> (cut_cmp(cut_of(*self.lower), cut_of(*other.upper)) == Ordering::Less && cut_cmp(cut_of(*other.lower), cut_of(*self.upper)) == Ordering::Less),
            r matches Some(b) ==> bs_wf(b)
                && *b.lower == (if bound_cmp(*self.lower, *other.lower) == Ordering::Greater { *self.lower } else { *other.lower })
                && *b.upper == (if bound_cmp(*self.upper, *other.upper) == Ordering::Greater { *other.upper } else { *self.upper }),
            r matches Some(b) ==> forall|v: Version| #![trigger within(b, v)] (within(b, v) <==> (within(*self, v) && within(*other, v))),
            r is None ==> forall|v: Version| #![trigger within(*self, v), within(*other, v)] !(within(*self, v) && within(*other, v)),''','''
        let cl = cut_of(*self.lower); let cu = cut_of(*self.upper); let ol = cut_of(*other.lower); let ou = cut_of(*other.upper);
        lemma_cut4(cl, cu, ol, ou);
        assert forall|v: Version| #![trigger within(*self, v), within(*other, v)] within(*self, v) && within(*other, v) implies cut_cmp(cl, ou) == Ordering::Less && cut_cmp(ol, cu) == Ordering::Less by {
            lemma_cut_between(cl, ou, v); lemma_cut_between(ol, cu, v);
        }
        assert forall|v: Version| #![trigger above(cl, v), above(ol, v)] (above(cl, v) && above(ol, v)) <==> above(if cut_cmp(cl, ol) == Ordering::Greater { cl } else { ol }, v) by {
            if cut_cmp(cl, ol) == Ordering::Greater { if above(cl, v) { lemma_cut_mono_above(ol, cl, v); } } else { if above(ol, v) { lemma_cut_mono_above(cl, ol, v); } }
        }
        assert forall|v: Version| #![trigger below(cu, v), below(ou, v)] (below(cu, v) && below(ou, v)) <==> below(if cut_cmp(cu, ou) == Ordering::Greater { ou } else { cu }, v) by {
            if cut_cmp(cu, ou) == Ordering::Greater { if below(ou, v) { lemma_cut_mono_below(ou, cu, v); } } else { if below(cu, v) { lemma_cut_mono_below(cu, ou, v); } }
        }
''')
C['difference']=('r','''    requires bs_wf(*self), bs_wf(*other),
    ensures ({
        let cl = cut_of(*self.lower); let cu = cut_of(*self.upper); let ol = cut_of(*other.lower); let ou = cut_of(*other.upper);
        let overlap = cut_cmp(cl, ou) == Ordering::Less && cut_cmp(ol, cu) == Ordering::Less;
        let left = cut_cmp(cl, ol) == Ordering::Less;
        let right = cut_cmp(ou, cu) == Ordering::Less;
        &&& (r is None) <==> (overlap && !left && !right)
        &&& r matches Some(vs) ==> {
            &&& forall|k: int| 0 <= k < vs@.len() ==> bs_wf(#[trigger] vs@[k])
            &&& !overlap ==> vs@.len() == 1 && vs@[0] == *self
            &&& overlap && left && right ==> vs@.len() == 2 && cut_of(*vs@[0].lower) == cl && cut_of(*vs@[0].upper) == ol && cut_of(*vs@[1].lower) == ou && cut_of(*vs@[1].upper) == cu
            &&& overlap && left && !right ==> vs@.len() == 1 && cut_of(*vs@[0].lower) == cl && cut_of(*vs@[0].upper) == ol
            &&& overlap && !left && right ==> vs@.len() == 1 && cut_of(*vs@[0].lower) == ou && cut_of(*vs@[0].upper) == cu
        }
    }),''','''lemma_cut4(cut_of(*self.lower), cut_of(*self.upper), cut_of(*other.lower), cut_of(*other.upper));
        lemma_cut_inf(cut_of(*self.lower)); lemma_cut_inf(cut_of(*self.upper)); lemma_cut_inf(cut_of(*other.lower)); lemma_cut_inf(cut_of(*other.upper));
        assert forall|a: Bound, b: Bound| #![trigger bound_eq(a, b)] bound_eq(a, b) <==> (cut_cmp(cut_of(a), cut_of(b)) == Ordering::Equal && is_lower(a) == is_lower(b)) by { lemma_bound_eq_cut(a, b); }
''')
fns=[]
for name,(ret,contract,proof) in C.items():
    t=fn_in_impl(RNG,r'^impl BoundSet \{',name)
    t=split_or_guard(t)
    fns.append(inject(t,ret,contract,proof))
E.append('impl BoundSet {\n'+'\n\n'.join(fns)+'\n}')
open('extra.rs','w').write('\n'.join(E))
