const semver=require('/usr/lib/node_modules/npm/node_modules/semver');
const c=require('./cases.json');
const out={};
for (const r of c.ranges){ let rr; try{ rr=new semver.Range(r,{loose:true}); }catch(e){ out[r]=null; continue;} out[r]=c.versions.map(v=>rr.test(v)?1:0).join(''); }
require('fs').writeFileSync('node.json',JSON.stringify(out));
