use nodejs_semver::{Range,Version};
fn main(){
    let c: serde_json::Value = serde_json::from_str(&std::fs::read_to_string("cases.json").unwrap()).unwrap();
    let vers: Vec<Version> = c["versions"].as_array().unwrap().iter().map(|v| Version::parse(v.as_str().unwrap()).unwrap()).collect();
    let mut out = serde_json::Map::new();
    for r in c["ranges"].as_array().unwrap(){
        let r=r.as_str().unwrap();
        match Range::parse(r){
            Ok(rr)=>{ let s:String=vers.iter().map(|v| if rr.satisfies(v){'1'}else{'0'}).collect(); out.insert(r.to_string(), serde_json::json!({"bits":s,"disp":rr.to_string()})); }
            Err(e)=>{ out.insert(r.to_string(), serde_json::json!({"err":e.to_string()})); }
        }
    }
    std::fs::write("rust.json", serde_json::to_string(&out).unwrap()).unwrap();
}
