#![feature(allocator_api)]
#![allow(unused_imports)]
use vstd::prelude::*;
use vstd::std_specs::cmp::*;
use std::cmp::Ordering;
verus! {

pub enum Identifier { Numeric(u64), AlphaNumeric(String) }

pub open spec fn flip(o: Ordering) -> Ordering {
    match o { Ordering::Less => Ordering::Greater, Ordering::Equal => Ordering::Equal, Ordering::Greater => Ordering::Less }
}
pub open spec fn int_cmp(a: int, b: int) -> Ordering {
    if a < b { Ordering::Less } else if a == b { Ordering::Equal } else { Ordering::Greater }
}

// Rust: String/str Ord is lexicographic by bytes == by code points (UTF-8 is order preserving)
pub open spec fn str_cmp(a: Seq<char>, b: Seq<char>) -> Ordering
    decreases a.len()
{
    if a.len() == 0 && b.len() == 0 { Ordering::Equal }
    else if a.len() == 0 { Ordering::Less }
    else if b.len() == 0 { Ordering::Greater }
    else if a[0] != b[0] { int_cmp(a[0] as int, b[0] as int) }
    else { str_cmp(a.drop_first(), b.drop_first()) }
}

pub proof fn lemma_str_refl(a: Seq<char>) ensures str_cmp(a, a) == Ordering::Equal decreases a.len()
{ if a.len() > 0 { lemma_str_refl(a.drop_first()); } }

pub proof fn lemma_str_eq(a: Seq<char>, b: Seq<char>) requires str_cmp(a, b) == Ordering::Equal ensures a =~= b decreases a.len()
{
    if a.len() > 0 && b.len() > 0 {
        lemma_str_eq(a.drop_first(), b.drop_first());
        assert(a =~= seq![a[0]] + a.drop_first());
        assert(b =~= seq![b[0]] + b.drop_first());
    }
}
pub proof fn lemma_str_flip(a: Seq<char>, b: Seq<char>) ensures str_cmp(a, b) == flip(str_cmp(b, a)) decreases a.len()
{ if a.len() > 0 && b.len() > 0 { lemma_str_flip(a.drop_first(), b.drop_first()); } }

pub proof fn lemma_str_trans(a: Seq<char>, b: Seq<char>, c: Seq<char>)
    requires str_cmp(a, b) != Ordering::Greater, str_cmp(b, c) != Ordering::Greater
    ensures str_cmp(a, c) != Ordering::Greater,
            (str_cmp(a, b) == Ordering::Less || str_cmp(b, c) == Ordering::Less) ==> str_cmp(a, c) == Ordering::Less
    decreases a.len()
{
    if a.len() > 0 && b.len() > 0 && c.len() > 0 {
        lemma_str_trans(a.drop_first(), b.drop_first(), c.drop_first());
    }
}

pub open spec fn ident_cmp(a: Identifier, b: Identifier) -> Ordering {
    match (a, b) {
        (Identifier::Numeric(x), Identifier::Numeric(y)) => int_cmp(x as int, y as int),
        (Identifier::Numeric(_), Identifier::AlphaNumeric(_)) => Ordering::Less,
        (Identifier::AlphaNumeric(_), Identifier::Numeric(_)) => Ordering::Greater,
        (Identifier::AlphaNumeric(x), Identifier::AlphaNumeric(y)) => str_cmp(x@, y@),
    }
}

pub open spec fn pre_cmp(a: Seq<Identifier>, b: Seq<Identifier>) -> Ordering
    decreases a.len()
{
    if a.len() == 0 && b.len() == 0 { Ordering::Equal }
    else if a.len() == 0 { Ordering::Less }
    else if b.len() == 0 { Ordering::Greater }
    else if ident_cmp(a[0], b[0]) != Ordering::Equal { ident_cmp(a[0], b[0]) }
    else { pre_cmp(a.drop_first(), b.drop_first()) }
}

pub proof fn lemma_ident_flip(a: Identifier, b: Identifier) ensures ident_cmp(a, b) == flip(ident_cmp(b, a))
{ match (a, b) { (Identifier::AlphaNumeric(x), Identifier::AlphaNumeric(y)) => lemma_str_flip(x@, y@), _ => {} } }

pub proof fn lemma_ident_refl(a: Identifier) ensures ident_cmp(a, a) == Ordering::Equal
{ match a { Identifier::AlphaNumeric(x) => lemma_str_refl(x@), _ => {} } }

pub proof fn lemma_ident_trans(a: Identifier, b: Identifier, c: Identifier)
    requires ident_cmp(a, b) != Ordering::Greater, ident_cmp(b, c) != Ordering::Greater
    ensures ident_cmp(a, c) != Ordering::Greater,
            (ident_cmp(a, b) == Ordering::Less || ident_cmp(b, c) == Ordering::Less) ==> ident_cmp(a, c) == Ordering::Less
{
    match (a, b, c) {
        (Identifier::AlphaNumeric(x), Identifier::AlphaNumeric(y), Identifier::AlphaNumeric(z)) => lemma_str_trans(x@, y@, z@),
        _ => {}
    }
}

pub proof fn lemma_pre_refl(a: Seq<Identifier>) ensures pre_cmp(a, a) == Ordering::Equal decreases a.len()
{ if a.len() > 0 { lemma_ident_refl(a[0]); lemma_pre_refl(a.drop_first()); } }

pub proof fn lemma_pre_flip(a: Seq<Identifier>, b: Seq<Identifier>) ensures pre_cmp(a, b) == flip(pre_cmp(b, a)) decreases a.len()
{ if a.len() > 0 && b.len() > 0 { lemma_ident_flip(a[0], b[0]); lemma_pre_flip(a.drop_first(), b.drop_first()); } }

pub proof fn lemma_pre_trans(a: Seq<Identifier>, b: Seq<Identifier>, c: Seq<Identifier>)
    requires pre_cmp(a, b) != Ordering::Greater, pre_cmp(b, c) != Ordering::Greater
    ensures pre_cmp(a, c) != Ordering::Greater,
            (pre_cmp(a, b) == Ordering::Less || pre_cmp(b, c) == Ordering::Less) ==> pre_cmp(a, c) == Ordering::Less
    decreases a.len()
{
    if a.len() > 0 && b.len() > 0 && c.len() > 0 {
        lemma_ident_trans(a[0], b[0], c[0]);
        lemma_ident_flip(a[0], b[0]); lemma_ident_flip(b[0], c[0]); lemma_ident_flip(a[0], c[0]);
        if ident_cmp(a[0], b[0]) == Ordering::Equal && ident_cmp(b[0], c[0]) == Ordering::Equal {
            lemma_pre_trans(a.drop_first(), b.drop_first(), c.drop_first());
        } else {
            // a0 <= b0 <= c0 with one strict
            if ident_cmp(a[0], b[0]) == Ordering::Equal {
                lemma_ident_trans(b[0], a[0], c[0]);
            }
            if ident_cmp(b[0], c[0]) == Ordering::Equal {
                lemma_ident_trans(a[0], c[0], b[0]);
            }
        }
    }
}
}
fn main(){}
