// attempt of the last hour of session 4: the dispatcher over the nine printed interval shapes; exceeds the resource limit as one lemma
// (split it per shape, one lemma each, and it should go through: every case is a call to a lemma of contracts/c13_groundwork.rs)
// every printed interval shape except `*`: what `range` returns for the printed alternative contains exactly the versions within the interval
pub open spec fn printable(bs: BoundSet) -> bool {
    bs_wf(bs) && (bound_version(*bs.lower) matches Some(v) ==> wf_version(v)) && (bound_version(*bs.upper) matches Some(v) ==> wf_version(v))
        && !(*bs.lower == Bound::Lower(Predicate::Unbounded) && *bs.upper == Bound::Upper(Predicate::Unbounded))
}
pub proof fn lemma_alt_reads_interval<'s>(bs: BoundSet, tail: Seq<char>, i: &'s str, o: Vec<BoundSet>, rest: &'s str)
    requires printable(bs), ends_alternative(tail), i@ == bs_text(bs) + tail, range_acc(i, o, rest),
    ensures rest@ == tail, forall|x: VKey| #![trigger any_within(o@, o@.len() as int, x)] any_within(o@, o@.len() as int, x) <==> within(bs, x),
{
    reveal_strlit(">="); reveal_strlit(">"); reveal_strlit("<="); reveal_strlit("<"); reveal_strlit(" <="); reveal_strlit(" <");
    broadcast use lemma_k_flip;
    let ge = Operation::GreaterThanEquals; let gt = Operation::GreaterThan; let lt = Operation::LessThan; let le = Operation::LessThanEquals;
    match (*bs.lower, *bs.upper) {
        (Bound::Lower(Predicate::Unbounded), Bound::Upper(Predicate::Including(v))) => {
            assert(i@ =~= op_text(le) + (ver_text(v) + tail));
            lemma_alt_reads_primitive(le, v, tail, i, o, rest);
            assert forall|x: VKey| #![trigger any_within(o@, o@.len() as int, x)] any_within(o@, o@.len() as int, x) <==> within(bs, x) by { assert(any_within(o@, 1, x) <==> within(o@[0], x)); }
        },
        (Bound::Lower(Predicate::Unbounded), Bound::Upper(Predicate::Excluding(v))) => {
            assert(i@ =~= op_text(lt) + (ver_text(v) + tail));
            lemma_alt_reads_primitive(lt, v, tail, i, o, rest);
            assert forall|x: VKey| #![trigger any_within(o@, o@.len() as int, x)] any_within(o@, o@.len() as int, x) <==> within(bs, x) by { assert(any_within(o@, 1, x) <==> within(o@[0], x)); }
        },
        (Bound::Lower(Predicate::Including(v)), Bound::Upper(Predicate::Unbounded)) => {
            assert(i@ =~= op_text(ge) + (ver_text(v) + tail));
            lemma_alt_reads_primitive(ge, v, tail, i, o, rest);
            assert forall|x: VKey| #![trigger any_within(o@, o@.len() as int, x)] any_within(o@, o@.len() as int, x) <==> within(bs, x) by { assert(any_within(o@, 1, x) <==> within(o@[0], x)); }
        },
        (Bound::Lower(Predicate::Excluding(v)), Bound::Upper(Predicate::Unbounded)) => {
            assert(i@ =~= op_text(gt) + (ver_text(v) + tail));
            lemma_alt_reads_primitive(gt, v, tail, i, o, rest);
            assert forall|x: VKey| #![trigger any_within(o@, o@.len() as int, x)] any_within(o@, o@.len() as int, x) <==> within(bs, x) by { assert(any_within(o@, 1, x) <==> within(o@[0], x)); }
        },
        (Bound::Lower(Predicate::Including(v)), Bound::Upper(Predicate::Including(w))) => {
            if ver_cmp(v, w) == Ordering::Equal {
                assert(i@ =~= ver_text(v) + tail);
                lemma_alt_reads_exact(v, tail, i, o, rest);
                assert forall|x: VKey| #![trigger any_within(o@, o@.len() as int, x)] any_within(o@, o@.len() as int, x) <==> within(bs, x) by {
                    assert(any_within(o@, 1, x) <==> within(o@[0], x));
                    lemma_k_trans(key(v), key(w), x); lemma_k_trans(key(w), key(v), x); lemma_k_trans(x, key(v), key(w)); lemma_k_trans(x, key(w), key(v));
                }
            } else {
                assert(i@ =~= two_text(ge, v, le, w, tail));
                lemma_alt_reads_two(ge, v, le, w, tail, i, o, rest);
            }
        },
        (Bound::Lower(Predicate::Including(v)), Bound::Upper(Predicate::Excluding(w))) => { assert(i@ =~= two_text(ge, v, lt, w, tail)); lemma_alt_reads_two(ge, v, lt, w, tail, i, o, rest); },
        (Bound::Lower(Predicate::Excluding(v)), Bound::Upper(Predicate::Including(w))) => { assert(i@ =~= two_text(gt, v, le, w, tail)); lemma_alt_reads_two(gt, v, le, w, tail, i, o, rest); },
        (Bound::Lower(Predicate::Excluding(v)), Bound::Upper(Predicate::Excluding(w))) => { assert(i@ =~= two_text(gt, v, lt, w, tail)); lemma_alt_reads_two(gt, v, lt, w, tail, i, o, rest); },
        _ => {},
    }
}

// second attempt: the two-sided shapes only -- still over the resource limit (the `=~=` between pair_text(..) + tail and two_text(..) is the expensive
// part: prove it once in a lemma of its own, for one shape at a time)
pub proof fn lemma_alt_reads_two_sided<'s>(bs: BoundSet, tail: Seq<char>, i: &'s str, o: Vec<BoundSet>, rest: &'s str)
    requires bs_wf(bs), version_ok(*bs.lower), version_ok(*bs.upper), *bs.lower != Bound::Lower(Predicate::Unbounded), *bs.upper != Bound::Upper(Predicate::Unbounded),
        // (the shape `v`, printed when both ends are the same version, is lemma_alt_reads_exact)
        !(*bs.lower matches Bound::Lower(Predicate::Including(v)) && *bs.upper matches Bound::Upper(Predicate::Including(w)) && ver_cmp(v, w) == Ordering::Equal),
        ends_alternative(tail), i@ == bs_text(bs) + tail, range_acc(i, o, rest),
    ensures rest@ == tail, forall|x: VKey| #![trigger any_within(o@, o@.len() as int, x)] any_within(o@, o@.len() as int, x) <==> within(bs, x),
{
    reveal_strlit(">="); reveal_strlit(">"); reveal_strlit("<="); reveal_strlit("<"); reveal_strlit(" <="); reveal_strlit(" <");
    broadcast use lemma_k_flip;
    let ge = Operation::GreaterThanEquals; let gt = Operation::GreaterThan; let lt = Operation::LessThan; let le = Operation::LessThanEquals;
    match (*bs.lower, *bs.upper) {
        (Bound::Lower(Predicate::Including(v)), Bound::Upper(Predicate::Including(w))) => { assert(i@ =~= two_text(ge, v, le, w, tail)); lemma_alt_reads_two(ge, v, le, w, tail, i, o, rest); },
        (Bound::Lower(Predicate::Including(v)), Bound::Upper(Predicate::Excluding(w))) => { assert(i@ =~= two_text(ge, v, lt, w, tail)); lemma_alt_reads_two(ge, v, lt, w, tail, i, o, rest); },
        (Bound::Lower(Predicate::Excluding(v)), Bound::Upper(Predicate::Including(w))) => { assert(i@ =~= two_text(gt, v, le, w, tail)); lemma_alt_reads_two(gt, v, le, w, tail, i, o, rest); },
        (Bound::Lower(Predicate::Excluding(v)), Bound::Upper(Predicate::Excluding(w))) => { assert(i@ =~= two_text(gt, v, lt, w, tail)); lemma_alt_reads_two(gt, v, lt, w, tail, i, o, rest); },
        _ => {},
    }
}
