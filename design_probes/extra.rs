#[derive(Debug, Eq, PartialEq)]
pub enum Predicate {
    Excluding(Version), // < and >
    Including(Version), // <= and >=
    Unbounded,          // *
}
impl Clone for Predicate {
    #[verifier::external_body]
    fn clone(&self) -> (r: Self) ensures r == *self { unimplemented!() }
}

#[derive(Debug, Eq, PartialEq)]
pub enum Bound {
    Lower(Predicate),
    Upper(Predicate),
}
impl Clone for Bound {
    #[verifier::external_body]
    fn clone(&self) -> (r: Self) ensures r == *self { unimplemented!() }
}

#[derive(Debug, Eq, PartialEq)]
pub struct BoundSet {
    pub upper: Box<Bound>,
    pub lower: Box<Bound>,
}
impl Clone for BoundSet {
    #[verifier::external_body]
    fn clone(&self) -> (r: Self) ensures r == *self { unimplemented!() }
}

// ===================== spec: bounds as cuts in the version order =====================
pub enum Cut { NegInf, At(Version, bool), PosInf }   // At(v, after): false = just before v, true = just after v

pub open spec fn cut_of(b: Bound) -> Cut {
    match b {
        Bound::Lower(Predicate::Unbounded) => Cut::NegInf,
        Bound::Upper(Predicate::Unbounded) => Cut::PosInf,
        Bound::Lower(Predicate::Including(v)) => Cut::At(v, false),
        Bound::Lower(Predicate::Excluding(v)) => Cut::At(v, true),
        Bound::Upper(Predicate::Including(v)) => Cut::At(v, true),
        Bound::Upper(Predicate::Excluding(v)) => Cut::At(v, false),
    }
}
#[verifier::opaque]
pub open spec fn cut_cmp(a: Cut, b: Cut) -> Ordering {
    match (a, b) {
        (Cut::NegInf, Cut::NegInf) => Ordering::Equal,
        (Cut::PosInf, Cut::PosInf) => Ordering::Equal,
        (Cut::NegInf, _) => Ordering::Less,
        (_, Cut::PosInf) => Ordering::Less,
        (Cut::PosInf, _) => Ordering::Greater,
        (_, Cut::NegInf) => Ordering::Greater,
        (Cut::At(v, s), Cut::At(w, t)) =>
            if ver_cmp(v, w) != Ordering::Equal { ver_cmp(v, w) }
            else if s == t { Ordering::Equal } else if !s { Ordering::Less } else { Ordering::Greater },
    }
}
pub open spec fn is_lower(b: Bound) -> bool { b is Lower }
pub open spec fn is_upper(b: Bound) -> bool { b is Upper }

/// canonical total order on bounds: by cut; at equal cuts an Upper sorts before a Lower
pub open spec fn bound_cmp(a: Bound, b: Bound) -> Ordering {
    let c = cut_cmp(cut_of(a), cut_of(b));
    if c != Ordering::Equal { c }
    else if is_lower(a) == is_lower(b) { Ordering::Equal }
    else if is_upper(a) { Ordering::Less } else { Ordering::Greater }
}
/// v lies above the cut / below the cut
pub open spec fn above(c: Cut, v: Version) -> bool {
    match c { Cut::NegInf => true, Cut::PosInf => false, Cut::At(w, after) => if after { vlt(w, v) } else { vle(w, v) } }
}
pub open spec fn below(c: Cut, v: Version) -> bool {
    match c { Cut::PosInf => true, Cut::NegInf => false, Cut::At(w, after) => if after { vle(v, w) } else { vlt(v, w) } }
}
pub open spec fn bs_wf(bs: BoundSet) -> bool {
    is_lower(*bs.lower) && is_upper(*bs.upper) && cut_cmp(cut_of(*bs.lower), cut_of(*bs.upper)) == Ordering::Less
}
pub open spec fn within(bs: BoundSet, v: Version) -> bool {
    above(cut_of(*bs.lower), v) && below(cut_of(*bs.upper), v)
}
pub open spec fn same_tuple(a: Version, b: Version) -> bool { a.major == b.major && a.minor == b.minor && a.patch == b.patch }
pub open spec fn bound_version(b: Bound) -> Option<Version> {
    match b {
        Bound::Lower(Predicate::Including(v)) | Bound::Lower(Predicate::Excluding(v))
        | Bound::Upper(Predicate::Including(v)) | Bound::Upper(Predicate::Excluding(v)) => Some(v),
        _ => None,
    }
}
pub open spec fn optin(b: Bound, v: Version) -> bool {
    bound_version(b) matches Some(w) && w.pre_release@.len() > 0 && same_tuple(w, v)
}
/// npm: a prerelease only satisfies a comparator set if some comparator carries a prerelease on the same tuple
pub open spec fn gate(bs: BoundSet, v: Version) -> bool {
    v.pre_release@.len() == 0 || optin(*bs.lower, v) || optin(*bs.upper, v)
}
pub open spec fn sat(bs: BoundSet, v: Version) -> bool { within(bs, v) && gate(bs, v) }

// derived PartialEq on Predicate / Bound / BoundSet: structural, with Version::eq at the leaves (trusted derive semantics)
pub open spec fn pred_eq(a: Predicate, b: Predicate) -> bool {
    match (a, b) {
        (Predicate::Excluding(v), Predicate::Excluding(w)) => veq(v, w),
        (Predicate::Including(v), Predicate::Including(w)) => veq(v, w),
        (Predicate::Unbounded, Predicate::Unbounded) => true,
        _ => false,
    }
}
pub open spec fn bound_eq(a: Bound, b: Bound) -> bool {
    match (a, b) {
        (Bound::Lower(p), Bound::Lower(q)) => pred_eq(p, q),
        (Bound::Upper(p), Bound::Upper(q)) => pred_eq(p, q),
        _ => false,
    }
}

// ---- lemmas about cuts ----
pub proof fn lemma_cut_mono_above(c: Cut, d: Cut, v: Version)
    requires cut_cmp(c, d) != Ordering::Greater, above(d, v)
    ensures above(c, v)
{ reveal(cut_cmp); broadcast use group_ver_order; }
pub proof fn lemma_cut_mono_below(c: Cut, d: Cut, v: Version)
    requires cut_cmp(c, d) != Ordering::Greater, below(c, v)
    ensures below(d, v)
{ reveal(cut_cmp); broadcast use group_ver_order; }
pub proof fn lemma_cut_between(c: Cut, d: Cut, v: Version)
    requires above(c, v), below(d, v)
    ensures cut_cmp(c, d) == Ordering::Less
{ reveal(cut_cmp); broadcast use group_ver_order; }
/// v is either below or above any cut, never both
pub proof fn lemma_cut_side(c: Cut, v: Version)
    ensures above(c, v) != below(c, v)
{ broadcast use group_ver_order; }
pub proof fn lemma_cut_refl(c: Cut) ensures cut_cmp(c, c) == Ordering::Equal
{ reveal(cut_cmp); broadcast use group_ver_order; }
pub proof fn lemma_cut_total(c: Cut, d: Cut)
    ensures cut_cmp(c, d) == flip(cut_cmp(d, c))
{ reveal(cut_cmp); broadcast use group_ver_order; }
pub proof fn lemma_cut_trans(c: Cut, d: Cut, e: Cut)
    ensures (cut_cmp(c, d) != Ordering::Greater && cut_cmp(d, e) != Ordering::Greater) ==> cut_cmp(c, e) != Ordering::Greater,
        (cut_cmp(c, d) != Ordering::Greater && cut_cmp(d, e) != Ordering::Greater && (cut_cmp(c, d) == Ordering::Less || cut_cmp(d, e) == Ordering::Less)) ==> cut_cmp(c, e) == Ordering::Less,
        (cut_cmp(c, d) == Ordering::Equal && cut_cmp(d, e) == Ordering::Equal) ==> cut_cmp(c, e) == Ordering::Equal,
{ reveal(cut_cmp); broadcast use group_ver_order; }
pub proof fn lemma_cut_eq_congr(c: Cut, d: Cut, e: Cut)
    requires cut_cmp(c, d) == Ordering::Equal
    ensures cut_cmp(c, e) == cut_cmp(d, e), cut_cmp(e, c) == cut_cmp(e, d)
{ reveal(cut_cmp); broadcast use group_ver_order; }
pub proof fn lemma_cut_inf(c: Cut)
    ensures cut_cmp(c, Cut::NegInf) != Ordering::Less, cut_cmp(Cut::PosInf, c) != Ordering::Less,
            (c != Cut::NegInf) ==> cut_cmp(Cut::NegInf, c) == Ordering::Less, (c != Cut::PosInf) ==> cut_cmp(c, Cut::PosInf) == Ordering::Less
{ reveal(cut_cmp); }
/// all order facts among four cuts
pub proof fn lemma_cut4(a: Cut, b: Cut, c: Cut, d: Cut)
    ensures
        cut_cmp(a, a) == Ordering::Equal, cut_cmp(b, b) == Ordering::Equal, cut_cmp(c, c) == Ordering::Equal, cut_cmp(d, d) == Ordering::Equal,
        cut_cmp(a, b) == flip(cut_cmp(b, a)), cut_cmp(a, c) == flip(cut_cmp(c, a)), cut_cmp(a, d) == flip(cut_cmp(d, a)),
        cut_cmp(b, c) == flip(cut_cmp(c, b)), cut_cmp(b, d) == flip(cut_cmp(d, b)), cut_cmp(c, d) == flip(cut_cmp(d, c)),
        forall|x: Cut, y: Cut, z: Cut| #![trigger cut_cmp(x, y), cut_cmp(y, z)]
            (x == a || x == b || x == c || x == d) && (y == a || y == b || y == c || y == d) && (z == a || z == b || z == c || z == d) ==> {
                &&& (cut_cmp(x, y) != Ordering::Greater && cut_cmp(y, z) != Ordering::Greater) ==> cut_cmp(x, z) != Ordering::Greater
                &&& (cut_cmp(x, y) != Ordering::Greater && cut_cmp(y, z) != Ordering::Greater && (cut_cmp(x, y) == Ordering::Less || cut_cmp(y, z) == Ordering::Less)) ==> cut_cmp(x, z) == Ordering::Less
            },
{
    lemma_cut_refl(a); lemma_cut_refl(b); lemma_cut_refl(c); lemma_cut_refl(d);
    lemma_cut_total(a, b); lemma_cut_total(a, c); lemma_cut_total(a, d); lemma_cut_total(b, c); lemma_cut_total(b, d); lemma_cut_total(c, d);
    assert forall|x: Cut, y: Cut, z: Cut| #![trigger cut_cmp(x, y), cut_cmp(y, z)]
            (x == a || x == b || x == c || x == d) && (y == a || y == b || y == c || y == d) && (z == a || z == b || z == c || z == d) implies {
                &&& (cut_cmp(x, y) != Ordering::Greater && cut_cmp(y, z) != Ordering::Greater) ==> cut_cmp(x, z) != Ordering::Greater
                &&& (cut_cmp(x, y) != Ordering::Greater && cut_cmp(y, z) != Ordering::Greater && (cut_cmp(x, y) == Ordering::Less || cut_cmp(y, z) == Ordering::Less)) ==> cut_cmp(x, z) == Ordering::Less
            } by { lemma_cut_trans(x, y, z); }
}
/// derived equality of bounds implies equal cuts and same kind
pub proof fn lemma_bound_eq_cut(a: Bound, b: Bound)
    ensures bound_eq(a, b) <==> (cut_cmp(cut_of(a), cut_of(b)) == Ordering::Equal && is_lower(a) == is_lower(b))
{ reveal(cut_cmp); broadcast use group_ver_order; }

impl PartialEqSpecImpl for Predicate {
    open spec fn obeys_eq_spec() -> bool { true }
    open spec fn eq_spec(&self, other: &Self) -> bool { pred_eq(*self, *other) }
}
impl PartialEqSpecImpl for Bound {
    open spec fn obeys_eq_spec() -> bool { true }
    open spec fn eq_spec(&self, other: &Self) -> bool { bound_eq(*self, *other) }
}
impl PartialEqSpecImpl for BoundSet {
    open spec fn obeys_eq_spec() -> bool { true }
    open spec fn eq_spec(&self, other: &Self) -> bool { bound_eq(*self.upper, *other.upper) && bound_eq(*self.lower, *other.lower) }
}
impl PartialOrdSpecImpl for Bound {
    open spec fn obeys_partial_cmp_spec() -> bool { true }
    open spec fn partial_cmp_spec(&self, other: &Self) -> Option<Ordering> { Some(bound_cmp(*self, *other)) }
}
impl OrdSpecImpl for Bound {
    open spec fn obeys_cmp_spec() -> bool { true }
    open spec fn cmp_spec(&self, other: &Self) -> Ordering { bound_cmp(*self, *other) }
}

impl Predicate {
    fn flip(self) -> (r: Self)
    ensures r == (match self { Predicate::Excluding(v) => Predicate::Including(v), Predicate::Including(v) => Predicate::Excluding(v), Predicate::Unbounded => Predicate::Unbounded })
{
        use Predicate::*;
        match self {
            Excluding(v) => Including(v),
            Including(v) => Excluding(v),
            Unbounded => Unbounded,
        }
    }
}
impl Bound {
    fn upper() -> (r: Self)
    ensures r == Bound::Upper(Predicate::Unbounded)
{
        Bound::Upper(Predicate::Unbounded)
    }

    fn lower() -> (r: Self)
    ensures r == Bound::Lower(Predicate::Unbounded)
{
        Bound::Lower(Predicate::Unbounded)
    }

    fn predicate(self) -> (r: Predicate)
    ensures r == (match self { Bound::Lower(p) => p, Bound::Upper(p) => p })
{
        use Bound::*;

        match self {
            Lower(p) => p,
            Upper(p) => p,
        }
    }
}
impl Ord for Bound {
    fn cmp(&self, other: &Self) -> Ordering 
{
 proof { reveal(cut_cmp); broadcast use group_ver_order; }

        use Bound::*;
        use Predicate::*;

        match (self, other) {
            (Lower(Unbounded), Lower(Unbounded)) | (Upper(Unbounded), Upper(Unbounded)) => {
                Ordering::Equal
            }
            (Upper(Unbounded), _) | (_, Lower(Unbounded)) => Ordering::Greater,
            (Lower(Unbounded), _) | (_, Upper(Unbounded)) => Ordering::Less,

            (Upper(Including(v1)), Upper(Including(v2)))
            | (Upper(Excluding(v1)), Upper(Excluding(v2)))
            | (Lower(Including(v1)), Lower(Including(v2)))
            | (Lower(Excluding(v1)), Lower(Excluding(v2))) => v1.cmp(v2),

            (Lower(Excluding(v1)), Upper(Excluding(v2)))
            | (Lower(Including(v1)), Upper(Excluding(v2)))
            | (Lower(Excluding(v1)), Upper(Including(v2)))
            | (Lower(Excluding(v1)), Lower(Including(v2)))
            | (Upper(Including(v1)), Upper(Excluding(v2)))
            | (Upper(Including(v1)), Lower(Including(v2))) => {
                if v1 < v2 {
                    Ordering::Less
                } else {
                    Ordering::Greater
                }
            }
            (Upper(Including(v1)), Lower(Excluding(v2)))
            | (Upper(Excluding(v1)), Lower(Excluding(v2)))
            | (Lower(Including(v1)), Upper(Including(v2)))
            | (Lower(Including(v1)), Lower(Excluding(v2)))
            | (Upper(Excluding(v1)), Lower(Including(v2)))
            | (Upper(Excluding(v1)), Upper(Including(v2))) => {
                if v1 <= v2 {
                    Ordering::Less
                } else {
                    Ordering::Greater
                }
            }
        }
    }
}
impl PartialOrd for Bound {
    fn partial_cmp(&self, other: &Self) -> Option<Ordering> {
        Some(self.cmp(other))
    }
}
impl BoundSet {
    fn new(lower: Bound, upper: Bound) -> (r: Option<Self>)
    requires is_lower(lower), is_upper(upper),
    ensures (r is Some) <==> cut_cmp(cut_of(lower), cut_of(upper)) == Ordering::Less,
            r matches Some(bs) ==> *bs.lower == lower && *bs.upper == upper,
{
 proof { reveal(cut_cmp); broadcast use group_ver_order; }

        use Bound::*;
        use Predicate::*;

        match (lower, upper) {
            (Lower(Excluding(v1)), Upper(Including(v2)))
                if v1 == v2 =>
            {
                None
            }
            (Lower(Including(v1)), Upper(Excluding(v2)))
                if v1 == v2 =>
            {
                None
            }
            (Lower(Including(v1)), Upper(Including(v2))) if v1 == v2 => Some(Self {
                lower: Box::new(Lower(Including(v1))),
                upper: Box::new(Upper(Including(v2))),
            }),
            (lower, upper) if lower < upper => Some(Self {
                lower: Box::new(lower),
                upper: Box::new(upper),
            }),
            _ => None,
        }
    }


    fn at_least(p: Predicate) -> (r: Option<Self>)
    ensures r matches Some(bs) && *bs.lower == Bound::Lower(p) && *bs.upper == Bound::Upper(Predicate::Unbounded),
{
 proof { reveal(cut_cmp); }

        BoundSet::new(Bound::Lower(p), Bound::upper())
    }


    fn at_most(p: Predicate) -> (r: Option<Self>)
    ensures r matches Some(bs) && *bs.lower == Bound::Lower(Predicate::Unbounded) && *bs.upper == Bound::Upper(p),
{
 proof { reveal(cut_cmp); }

        BoundSet::new(Bound::lower(), Bound::Upper(p))
    }


    fn exact(version: Version) -> (r: Option<Self>)
    ensures r matches Some(bs) && *bs.lower == Bound::Lower(Predicate::Including(version)) && *bs.upper == Bound::Upper(Predicate::Including(version)),
{
 proof { reveal(cut_cmp); broadcast use group_ver_order; }

        BoundSet::new(
            Bound::Lower(Predicate::Including(version.clone())),
            Bound::Upper(Predicate::Including(version)),
        )
    }


    fn satisfies(&self, version: &Version) -> (r: bool)
    requires bs_wf(*self),
    ensures r == sat(*self, *version),
{
 proof { broadcast use group_ver_order; }

        use Bound::*;
        use Predicate::*;

        let lower_bound = match &self.lower.as_ref() {
            Lower(Including(lower)) => lower <= version,
            Lower(Excluding(lower)) => lower < version,
            Lower(Unbounded) => true,
            _ => unreachable!(
                "There should not have been an upper bound: {:#?}",
                self.lower
            ),
        };

        let upper_bound = match &self.upper.as_ref() {
            Upper(Including(upper)) => version <= upper,
            Upper(Excluding(upper)) => version < upper,
            Upper(Unbounded) => true,
            _ => unreachable!(
                "There should not have been an lower bound: {:#?}",
                self.lower
            ),
        };

        if !lower_bound || !upper_bound {
            return false;
        }

        if version.is_prerelease() {
            let lower_version = match &self.lower.as_ref() {
                Lower(Including(v)) => Some(v),
                Lower(Excluding(v)) => Some(v),
                _ => None,
            };
            if let Some(lower_version) = lower_version {
                if lower_version.is_prerelease()
                    && version.major == lower_version.major
                    && version.minor == lower_version.minor
                    && version.patch == lower_version.patch
                {
                    return true;
                }
            }

            let upper_version = match &self.upper.as_ref() {
                Upper(Including(v)) => Some(v),
                Upper(Excluding(v)) => Some(v),
                _ => None,
            };
            if let Some(upper_version) = upper_version {
                if upper_version.is_prerelease()
                    && version.major == upper_version.major
                    && version.minor == upper_version.minor
                    && version.patch == upper_version.patch
                {
                    return true;
                }
            }

            return false;
        }

        true
    }


    fn allows_all(&self, other: &BoundSet) -> (r: bool)
    requires bs_wf(*self), bs_wf(*other),
    ensures r == (cut_cmp(cut_of(*self.lower), cut_of(*other.lower)) != Ordering::Greater && cut_cmp(cut_of(*other.upper), cut_of(*self.upper)) != Ordering::Greater),
            r ==> forall|v: Version| within(*other, v) ==> within(*self, v),
{
 proof { broadcast use group_ver_order;
        assert forall|v: Version| (cut_cmp(cut_of(*self.lower), cut_of(*other.lower)) != Ordering::Greater && cut_cmp(cut_of(*other.upper), cut_of(*self.upper)) != Ordering::Greater) && within(*other, v) implies within(*self, v) by {
            lemma_cut_mono_above(cut_of(*self.lower), cut_of(*other.lower), v);
            lemma_cut_mono_below(cut_of(*other.upper), cut_of(*self.upper), v);
        } }

        self.lower < other.lower && other.upper <= self.upper
    }


    fn allows_any(&self, other: &BoundSet) -> (r: bool)
    requires bs_wf(*self), bs_wf(*other),
    ensures r == (cut_cmp(cut_of(*self.lower), cut_of(*other.upper)) == Ordering::Less && cut_cmp(cut_of(*other.lower), cut_of(*self.upper)) == Ordering::Less),
            !r ==> forall|v: Version| !(within(*self, v) && within(*other, v)),
{
 proof { broadcast use group_ver_order;
        assert forall|v: Version| within(*self, v) && within(*other, v) implies (cut_cmp(cut_of(*self.lower), cut_of(*other.upper)) == Ordering::Less && cut_cmp(cut_of(*other.lower), cut_of(*self.upper)) == Ordering::Less) by {
            lemma_cut_between(cut_of(*self.lower), cut_of(*other.upper), v);
            lemma_cut_between(cut_of(*other.lower), cut_of(*self.upper), v);
        }
        lemma_cut_total(cut_of(*other.upper), cut_of(*self.lower));
        lemma_cut_total(cut_of(*self.upper), cut_of(*other.lower)); }

        if other.upper < self.lower {
            return false;
        }

        if self.upper < other.lower {
            return false;
        }

        true
    }


    fn intersect(&self, other: &Self) -> (r: Option<Self>)
    requires bs_wf(*self), bs_wf(*other),
    ensures (r is Some) <==> (cut_cmp(cut_of(*self.lower), cut_of(*other.upper)) == Ordering::Less && cut_cmp(cut_of(*other.lower), cut_of(*self.upper)) == Ordering::Less),
            r matches Some(b) ==> bs_wf(b)
                && *b.lower == (if bound_cmp(*self.lower, *other.lower) == Ordering::Greater { *self.lower } else { *other.lower })
                && *b.upper == (if bound_cmp(*self.upper, *other.upper) == Ordering::Greater { *other.upper } else { *self.upper }),
            r matches Some(b) ==> forall|v: Version| #![trigger within(b, v)] (within(b, v) <==> (within(*self, v) && within(*other, v))),
            r is None ==> forall|v: Version| #![trigger within(*self, v), within(*other, v)] !(within(*self, v) && within(*other, v)),
{
 proof { 
        let cl = cut_of(*self.lower); let cu = cut_of(*self.upper); let ol = cut_of(*other.lower); let ou = cut_of(*other.upper);
        lemma_cut4(cl, cu, ol, ou);
        assert forall|v: Version| #![trigger within(*self, v), within(*other, v)] within(*self, v) && within(*other, v) implies cut_cmp(cl, ou) == Ordering::Less && cut_cmp(ol, cu) == Ordering::Less by {
            lemma_cut_between(cl, ou, v); lemma_cut_between(ol, cu, v);
        }
        assert forall|v: Version| #![trigger above(cl, v), above(ol, v)] (above(cl, v) && above(ol, v)) <==> above(if cut_cmp(cl, ol) == Ordering::Greater { cl } else { ol }, v) by {
            if cut_cmp(cl, ol) == Ordering::Greater { if above(cl, v) { lemma_cut_mono_above(ol, cl, v); } } else { if above(ol, v) { lemma_cut_mono_above(cl, ol, v); } }
        }
        assert forall|v: Version| #![trigger below(cu, v), below(ou, v)] (below(cu, v) && below(ou, v)) <==> below(if cut_cmp(cu, ou) == Ordering::Greater { ou } else { cu }, v) by {
            if cut_cmp(cu, ou) == Ordering::Greater { if below(ou, v) { lemma_cut_mono_below(ou, cu, v); } } else { if below(cu, v) { lemma_cut_mono_below(cu, ou, v); } }
        }
 }

        let lower: &Bound = std::cmp::max(&self.lower, &other.lower);
        let upper: &Bound = std::cmp::min(&self.upper, &other.upper);

        BoundSet::new(lower.clone(), upper.clone())
    }


    fn difference(&self, other: &Self) -> (r: Option<Vec<Self>>)
    requires bs_wf(*self), bs_wf(*other),
    ensures ({
        let cl = cut_of(*self.lower); let cu = cut_of(*self.upper); let ol = cut_of(*other.lower); let ou = cut_of(*other.upper);
        let overlap = cut_cmp(cl, ou) == Ordering::Less && cut_cmp(ol, cu) == Ordering::Less;
        let left = cut_cmp(cl, ol) == Ordering::Less;
        let right = cut_cmp(ou, cu) == Ordering::Less;
        &&& (r is None) <==> (overlap && !left && !right)
        &&& r matches Some(vs) ==> {
            &&& forall|k: int| 0 <= k < vs@.len() ==> bs_wf(#[trigger] vs@[k])
            &&& !overlap ==> vs@.len() == 1 && vs@[0] == *self
            &&& overlap && left && right ==> vs@.len() == 2 && cut_of(*vs@[0].lower) == cl && cut_of(*vs@[0].upper) == ol && cut_of(*vs@[1].lower) == ou && cut_of(*vs@[1].upper) == cu
            &&& overlap && left && !right ==> vs@.len() == 1 && cut_of(*vs@[0].lower) == cl && cut_of(*vs@[0].upper) == ol
            &&& overlap && !left && right ==> vs@.len() == 1 && cut_of(*vs@[0].lower) == ou && cut_of(*vs@[0].upper) == cu
        }
    }),
{
 proof { lemma_cut4(cut_of(*self.lower), cut_of(*self.upper), cut_of(*other.lower), cut_of(*other.upper));
        lemma_cut_inf(cut_of(*self.lower)); lemma_cut_inf(cut_of(*self.upper)); lemma_cut_inf(cut_of(*other.lower)); lemma_cut_inf(cut_of(*other.upper));
        assert forall|a: Bound, b: Bound| #![trigger bound_eq(a, b)] bound_eq(a, b) <==> (cut_cmp(cut_of(a), cut_of(b)) == Ordering::Equal && is_lower(a) == is_lower(b)) by { lemma_bound_eq_cut(a, b); }
 }

        use Bound::*;

        if let Some(overlap) = self.intersect(other) {
            if &overlap == self {
                return None;
            }

            if self.lower < overlap.lower && overlap.upper < self.upper {
                return Some(vec![
                    BoundSet::new(*self.lower.clone(), Upper(overlap.lower.predicate().flip()))
                        .unwrap(),
                    BoundSet::new(Lower(overlap.upper.predicate().flip()), *self.upper.clone())
                        .unwrap(),
                ]);
            }

            if self.lower < overlap.lower {
                return BoundSet::new(*self.lower.clone(), Upper(overlap.lower.predicate().flip()))
                    .map(|f| vec![f]);
            }

            BoundSet::new(Lower(overlap.upper.predicate().flip()), *self.upper.clone())
                .map(|f| vec![f])
        } else {
            Some(vec![self.clone()])
        }
    }
}