#![allow(unused_imports)]
use vstd::prelude::*;
verus! {
pub struct B { pub lo: u64, pub hi: u64 }
pub open spec fn bwf(b: B) -> bool { b.lo <= b.hi }
pub open spec fn bin(b: B, v: u64) -> bool { b.lo <= v <= b.hi }
impl B {
    fn intersect(&self, other: &Self) -> (r: Option<Self>)
        requires bwf(*self), bwf(*other)
        ensures r matches Some(b) ==> bwf(b) && forall|v: u64| #![trigger bin(b, v)] bin(b, v) <==> bin(*self, v) && bin(*other, v),
                r is None ==> forall|v: u64| #![trigger bin(*self, v), bin(*other, v)] !(bin(*self, v) && bin(*other, v)),
    {
        let lo = if self.lo > other.lo { self.lo } else { other.lo };
        let hi = if self.hi < other.hi { self.hi } else { other.hi };
        if lo <= hi { Some(B { lo, hi }) } else { None }
    }
}
pub struct R(pub Vec<B>);
/// some element among the first n admits v
pub open spec fn any_in(s: Seq<B>, n: int, v: u64) -> bool { exists|i: int| 0 <= i < n && i < s.len() && bin(#[trigger] s[i], v) }
pub open spec fn swf(s: Seq<B>) -> bool { forall|i: int| 0 <= i < s.len() ==> bwf(#[trigger] s[i]) }
pub open spec fn rwf(r: R) -> bool { swf(r.0@) }
pub open spec fn rin(r: R, v: u64) -> bool { any_in(r.0@, r.0@.len() as int, v) }

pub broadcast proof fn lemma_any_in_step(s: Seq<B>, n: int, v: u64)
    requires 0 <= n < s.len()
    ensures #[trigger] any_in(s, n + 1, v) == (any_in(s, n, v) || bin(s[n], v))
{
    if any_in(s, n + 1, v) {
        let i = choose|i: int| 0 <= i < n + 1 && i < s.len() && bin(#[trigger] s[i], v);
        if i < n { assert(any_in(s, n, v)); }
    }
    if any_in(s, n, v) { let i = choose|i: int| 0 <= i < n && i < s.len() && bin(#[trigger] s[i], v); assert(0 <= i < n + 1); }
    if bin(s[n], v) { assert(0 <= n < n + 1 && bin(s[n], v)); }
}
pub broadcast proof fn lemma_any_in_zero(s: Seq<B>, v: u64) ensures !#[trigger] any_in(s, 0, v) {}
pub broadcast proof fn lemma_any_in_push(s: Seq<B>, b: B, v: u64)
    ensures #[trigger] any_in(s.push(b), s.len() as int + 1, v) == (any_in(s, s.len() as int, v) || bin(b, v))
{
    let t = s.push(b);
    if any_in(t, t.len() as int, v) {
        let i = choose|i: int| 0 <= i < t.len() && i < t.len() && bin(#[trigger] t[i], v);
        if i < s.len() { assert(t[i] == s[i]); assert(any_in(s, s.len() as int, v)); } else { assert(t[i] == b); }
    }
    if any_in(s, s.len() as int, v) { let i = choose|i: int| 0 <= i < s.len() && i < s.len() && bin(#[trigger] s[i], v); assert(t[i] == s[i]); }
    if bin(b, v) { assert(t[s.len() as int] == b); }
}
pub broadcast group g_any { lemma_any_in_step, lemma_any_in_zero, lemma_any_in_push }

impl R {
    pub fn intersect(&self, other: &Self) -> (r: Option<Self>)
        requires rwf(*self), rwf(*other)
        ensures r matches Some(x) ==> rwf(x) && forall|v: u64| #![trigger rin(x, v)] rin(x, v) <==> rin(*self, v) && rin(*other, v),
                r is None ==> forall|v: u64| #![trigger rin(*self, v), rin(*other, v)] !(rin(*self, v) && rin(*other, v)),
    {
        broadcast use g_any;
        let mut sets = Vec::new();

        for lefty in it1: &self.0
            invariant rwf(*self), rwf(*other), swf(sets@),
                forall|v: u64| #![trigger any_in(sets@, sets@.len() as int, v)] #![trigger rin(*other, v)] any_in(sets@, sets@.len() as int, v) <==> (any_in(self.0@, it1.index@ as int, v) && rin(*other, v)),
        {
            for righty in it2: &other.0
                invariant rwf(*self), rwf(*other), swf(sets@), bwf(*lefty), 0 <= it1.index@ < self.0@.len(), *lefty == self.0@[it1.index@ as int],
                    forall|v: u64| #![trigger any_in(sets@, sets@.len() as int, v)] #![trigger rin(*other, v)] any_in(sets@, sets@.len() as int, v) <==>
                        ((any_in(self.0@, it1.index@ as int, v) && rin(*other, v)) || (bin(*lefty, v) && any_in(other.0@, it2.index@ as int, v))),
            {
                let ghost old_sets = sets@;
                if let Some(set) = lefty.intersect(righty) {
                    sets.push(set)
                }
                proof {
                    assert forall|v: u64| #![trigger any_in(sets@, sets@.len() as int, v)] #![trigger rin(*other, v)] any_in(sets@, sets@.len() as int, v) <==>
                        ((any_in(self.0@, it1.index@ as int, v) && rin(*other, v)) || (bin(*lefty, v) && any_in(other.0@, it2.index@ as int + 1, v))) by {
                        lemma_any_in_step(other.0@, it2.index@ as int, v);
                        if sets@.len() > old_sets.len() { lemma_any_in_push(old_sets, sets@[old_sets.len() as int], v); assert(sets@ =~= old_sets.push(sets@[old_sets.len() as int])); }
                    }
                }
            }
        }

        if sets.is_empty() {
            None
        } else {
            Some(Self(sets))
        }
    }
}
}
fn main(){}
