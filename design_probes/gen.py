#!/usr/bin/env python3
"""prototype extractor: slice items out of /repo/src by line anchors found via regex + brace matching"""
import re,sys
def read(p): return open(p).read()
import os
R=os.environ.get('REPO','/repo')
LIB=read(R+'/src/lib.rs'); RNG=read(R+'/src/range.rs')

def match_brace(s,i):
    """s[i]=='{' -> index after matching '}' ; skips strings/chars/comments (simple)"""
    depth=0; n=len(s)
    while i<n:
        c=s[i]
        if s.startswith('//',i):
            i=s.index('\n',i); continue
        if s.startswith('/*',i):
            i=s.index('*/',i)+2; continue
        if c=='"':
            i+=1
            while s[i]!='"':
                if s[i]=='\\': i+=1
                i+=1
            i+=1; continue
        if c=="'" :
            # char literal or lifetime
            m=re.match(r"'(\\.|[^\\'])'",s[i:])
            if m: i+=m.end(); continue
        if c=='{': depth+=1
        elif c=='}':
            depth-=1
            if depth==0: return i+1
        i+=1
    raise Exception('unbalanced')

def item(src,header_re):
    """return text of item whose header matches header_re (from start of its attrs/docs to closing brace)"""
    m=re.search(header_re,src,re.M)
    if not m: raise Exception('anchor lost: '+header_re)
    start=m.start()
    # extend backwards over attribute / doc lines
    lines_before=src[:start].split('\n')
    k=len(lines_before)-1  # last element is '' partial line (start at line begin)
    j=k-1
    while j>=0 and re.match(r'\s*(#\[|///|/\*\*|\*/|[A-Za-z].*\*/$)',lines_before[j]): j-=1
    # keep only #[...] attribute lines
    pre=[l for l in lines_before[j+1:k] if l.strip().startswith('#[')]
    ob=src.index('{',m.end()-1)
    end=match_brace(src,ob)
    return '\n'.join(pre+[src[start:end]])

def fn_in_impl(src,impl_re,fn_name):
    m=re.search(impl_re,src,re.M)
    if not m: raise Exception('anchor lost: '+impl_re)
    ob=src.index('{',m.end()-1); end=match_brace(src,ob)
    body=src[ob:end]
    fm=re.search(r'^\s*(pub(\(crate\))? )?fn '+fn_name+r'\b',body,re.M)
    if not fm: raise Exception('anchor lost fn '+fn_name)
    fob=body.index('{',fm.end()); fend=match_brace(body,fob)
    return body[fm.start():fend]

if __name__=='__main__':
    print(item(RNG,r'^struct BoundSet'))
    print(fn_in_impl(RNG,r'^impl BoundSet \{','new'))
