pub fn number_dbg<'s>(input: &mut &'s str) -> (r: PResult<u64, SemverParseError<&'s str>>)
{
    broadcast use winnow_tokens;
    let copied = input.clone();
    Parser::try_map(Parser::take(digit1), |raw: &'s str| -> (r: Result<u64, SemverParseError<&'s str>>)
 ensures match r { Ok(v) => v <= MAX_SAFE_INTEGER && parse_spec::<u64>(raw@) == Some(v), Err(_) => parse_spec::<u64>(raw@) matches Some(v) ==> v > MAX_SAFE_INTEGER }
    {
        let value = str::parse(raw).map_err(|e| SemverParseError {
            input: copied,
            context: None,
            kind: Some(SemverErrorKind::ParseIntError(e)),
        })?;

        if value > MAX_SAFE_INTEGER {
            return Err(SemverParseError {
                input: copied,
                context: None,
                kind: Some(SemverErrorKind::MaxIntError(value)),
            });
        }

        Ok(value)
    }).context("number component").parse_next(input)
}
