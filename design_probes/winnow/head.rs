#![allow(unused_imports, dead_code, unused_variables, unused_mut, non_snake_case, suspicious_double_ref_op)]
use vstd::prelude::*;
use vstd::string::*;
use core::marker::PhantomData;
use std::num::ParseIntError;
verus! {
pub const MAX_SAFE_INTEGER: u64 = 900_719_925_474_099;
pub const MAX_LENGTH: usize = 256;
#[verifier::external_type_specification]
#[verifier::external_body]
pub struct ExParseIntError(std::num::ParseIntError);
#[verifier::external_trait_specification]
pub trait ExFromStr: Sized {
    type ExternalTraitSpecificationFor: core::str::FromStr;
    type Err;
    fn from_str(s: &str) -> Result<Self, Self::Err>;
}
pub uninterp spec fn parse_spec<F>(s: Seq<char>) -> Option<F>;
pub assume_specification<F: std::str::FromStr>[ str::parse::<F> ](s: &str) -> (r: Result<F, <F as std::str::FromStr>::Err>)
    ensures (r matches Ok(v) ==> parse_spec::<F>(s@) == Some(v)), (r is Err ==> parse_spec::<F>(s@) is None);
pub assume_specification<T, E, F: FnOnce(E) -> T>[ Result::<T, E>::unwrap_or_else ](r: Result<T, E>, f: F) -> (o: T)
    requires r matches Err(e) ==> call_requires(f, (e,)),
    ensures r matches Ok(v) ==> o == v, r matches Err(e) ==> call_ensures(f, (e,), o);
pub enum SemverErrorKind {
    MaxLengthError,
    IncompleteInput,
    ParseIntError(ParseIntError),
    MaxIntError(u64),
    Context(&'static str),
    NoValidRanges,
    Other,
}
pub struct SemverParseError<I> {
    pub input: I,
    pub context: Option<&'static str>,
    pub kind: Option<SemverErrorKind>,
}
pub enum Identifier {
    Numeric(u64),
    AlphaNumeric(String),
}
pub struct Version {
    pub major: u64,
    pub minor: u64,
    pub patch: u64,
    pub build: Vec<Identifier>,
    pub pre_release: Vec<Identifier>,
}
