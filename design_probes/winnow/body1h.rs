// ---------- number ----------
pub open spec fn number_acc<'s>(i: &'s str, o: u64, rest: &'s str) -> bool { g_number(i@) == Some((o as nat, rest@)) }
pub open spec fn number_rej<'s>(i: &'s str) -> bool { g_number(i@) is None }
pub broadcast axiom fn def_number<'s>(i: &'s str, o: u64, rest: &'s str)
    ensures #[trigger] Parser::<&'s str, u64, SemverParseError<&'s str>>::accepts(&number2, i, o, rest) <==> number_acc(i, o, rest);
pub fn number<'s>(input: &mut &'s str) -> (r: PResult<u64, SemverParseError<&'s str>>)

{
    broadcast use winnow_tokens, ax_parse_u64_digits;
    proof { lemma_span_props(input@, |c: char| dg_char(c)); }
    let copied = input.clone();

    Parser::try_map(Parser::take(digit1), |raw: &'s str| -> (r: Result<u64, SemverParseError<&'s str>>)
        ensures
            match r { Ok(v) => v <= MAX_SAFE_INTEGER && parse_spec::<u64>(raw@) == Some(v), Err(_) => parse_spec::<u64>(raw@) matches Some(v) ==> v > MAX_SAFE_INTEGER }
    {
        let value = str::parse(raw).map_err(|e| SemverParseError {
            input: copied,
            context: None,
            kind: Some(SemverErrorKind::ParseIntError(e)),
        })?;

        if value > MAX_SAFE_INTEGER {
            return Err(SemverParseError {
                input: copied,
                context: None,
                kind: Some(SemverErrorKind::MaxIntError(value)),
            });
        }

        Ok(value)
    })
    .context("number component")
    .parse_next(input)
}

#[verifier::external_body]
pub fn number2<'s>(input: &mut &'s str) -> (r: PResult<u64, SemverParseError<&'s str>>) { unimplemented!() }
