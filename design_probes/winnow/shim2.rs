// ===================== A15: assumed contracts for the winnow 0.6 combinators the grammar functions use =====================
// Nothing of winnow is verified.  This module *declares* the slice of winnow's API that src/lib.rs's grammar uses, with the same names
// and call shapes, so that the grammar functions of /repo type check inside Verus **verbatim**, and gives each combinator the contract
// its documentation (and its source, winnow-0.6.26/src/combinator, token, ascii) states, as a relation between the input before the
// call, the output and the input after it.  `parse_next` of every combinator is `external_body`: its postcondition is the assumption.
// The constructors (`opt`, `alt`, `map`, ...) only store their arguments and are verified.
//
// A parser is described by three spec functions:
//   accepts(i, o, rest)  the parser may succeed on input `i` with output `o`, leaving `rest`
//   rejects(i)           the parser may fail (ErrMode::Backtrack) on `i`
//   pre(i)               running the parser on `i` calls every closure inside it only on arguments that meet the closure's
//                        precondition, and never trips one of winnow's own debug assertions (`separated`: separator must consume)
// Not modelled: the payload of an error (C17), ErrMode::Cut (the crate never uses `cut_err`), ErrMode::Incomplete (only for
// `Partial` streams; the crate parses `&str`), closures with state, the position of the input after a *failed* parse.
pub enum Needed { Unknown }
pub enum ErrMode<E> { Incomplete(Needed), Backtrack(E), Cut(E) }
pub type PResult<O, E> = Result<O, ErrMode<E>>;

pub trait Parser<I, O, E>: Sized {
    spec fn accepts(&self, i: I, o: O, rest: I) -> bool;
    spec fn rejects(&self, i: I) -> bool;
    spec fn pre(&self, i: I) -> bool;

    fn parse_next(&mut self, input: &mut I) -> (r: PResult<O, E>)
        requires old(self).pre(*old(input)),
        ensures
            match r {
                Ok(o) => old(self).accepts(*old(input), o, *final(input)),
                Err(_) => old(self).rejects(*old(input)),
            };

    fn map<G, O2>(self, g: G) -> (r: Map<Self, G, I, O, O2, E>)
        where G: FnMut(O) -> O2
        ensures r.p == self, r.g == g,
    { Map { p: self, g, _m: PhantomData } }

    fn try_map<G, O2, E2>(self, g: G) -> (r: TryMap<Self, G, I, O, O2, E, E2>)
        where G: FnMut(O) -> Result<O2, E2>
        ensures r.p == self, r.g == g,
    { TryMap { p: self, g, _m: PhantomData } }

    fn take(self) -> (r: Take<Self, I, O, E>)
        ensures r.p == self,
    { Take { p: self, _m: PhantomData } }

    fn context(self, c: &'static str) -> (r: Context<Self, I, O, E>)
        ensures r.p == self,
    { Context { p: self, _m: PhantomData } }
}

// ---- a grammar function `fn g(input: &mut I) -> PResult<O, E>` is a parser (winnow: `impl Parser for F where F: FnMut(&mut I) -> PResult<O, E>`,
// parse_next(f, i) = f(i)).  What it accepts is the function's own contract; the generator emits, for every grammar function under
// contract, the definitional axioms `g.accepts(i, o, rest) <==> <g's postcondition for Ok(o)>` etc. (see `fn_item_axioms`).
impl<I, O, E, F: FnMut(&mut I) -> PResult<O, E>> Parser<I, O, E> for F {
    uninterp spec fn accepts(&self, i: I, o: O, rest: I) -> bool;
    uninterp spec fn rejects(&self, i: I) -> bool;
    uninterp spec fn pre(&self, i: I) -> bool;
    #[verifier::external_body]
    fn parse_next(&mut self, input: &mut I) -> (r: PResult<O, E>) { unimplemented!() }
}

// ---- Parser::map
pub struct Map<P, G, I, O, O2, E> { pub p: P, pub g: G, pub _m: PhantomData<(I, O, O2, E)> }
impl<P: Parser<I, O, E>, G: FnMut(O) -> O2, I, O, O2, E> Parser<I, O2, E> for Map<P, G, I, O, O2, E> {
    uninterp spec fn accepts(&self, i: I, o2: O2, rest: I) -> bool;
    uninterp spec fn rejects(&self, i: I) -> bool;
    #[verifier::external_body]
    fn parse_next(&mut self, input: &mut I) -> (r: PResult<O2, E>) { unimplemented!() }
}

// ---- Parser::try_map: the closure's Err becomes a Backtrack error
pub struct TryMap<P, G, I, O, O2, E, E2> { pub p: P, pub g: G, pub _m: PhantomData<(I, O, O2, E, E2)> }
impl<P: Parser<I, O, E>, G: FnMut(O) -> Result<O2, E2>, I, O, O2, E, E2> Parser<I, O2, E> for TryMap<P, G, I, O, O2, E, E2> {
    uninterp spec fn accepts(&self, i: I, o2: O2, rest: I) -> bool;
    uninterp spec fn rejects(&self, i: I) -> bool;
    uninterp spec fn pre(&self, i: I) -> bool;
    #[verifier::external_body]
    fn parse_next(&mut self, input: &mut I) -> (r: PResult<O2, E>) { unimplemented!() }
}

// ---- Parser::context: transparent (only decorates the error)
pub struct Context<P, I, O, E> { pub p: P, pub _m: PhantomData<(I, O, E)> }
impl<P: Parser<I, O, E>, I, O, E> Parser<I, O, E> for Context<P, I, O, E> {
    uninterp spec fn accepts(&self, i: I, o: O, rest: I) -> bool;
    uninterp spec fn rejects(&self, i: I) -> bool;
    uninterp spec fn pre(&self, i: I) -> bool;
    #[verifier::external_body]
    fn parse_next(&mut self, input: &mut I) -> (r: PResult<O, E>) { unimplemented!() }
}

// ---- Parser::take: the output is the slice of the input the inner parser consumed
pub struct Take<P, I, O, E> { pub p: P, pub _m: PhantomData<(I, O, E)> }
impl<'s, P: Parser<&'s str, O, E>, O, E> Parser<&'s str, &'s str, E> for Take<P, &'s str, O, E> {
    uninterp spec fn accepts(&self, i: &'s str, o: &'s str, rest: &'s str) -> bool;
    uninterp spec fn rejects(&self, i: &'s str) -> bool;
    uninterp spec fn pre(&self, i: &'s str) -> bool;
    #[verifier::external_body]
    fn parse_next(&mut self, input: &mut &'s str) -> (r: PResult<&'s str, E>) { unimplemented!() }
}

// ---- opt: never fails; None leaves the input where it was
pub struct Opt<P, I, O, E> { pub p: P, pub _m: PhantomData<(I, O, E)> }
pub fn opt<I, O, E, P: Parser<I, O, E>>(p: P) -> (r: Opt<P, I, O, E>)
    ensures r.p == p,
{ Opt { p, _m: PhantomData } }
impl<P: Parser<I, O, E>, I, O, E> Parser<I, Option<O>, E> for Opt<P, I, O, E> {
    uninterp spec fn accepts(&self, i: I, o: Option<O>, rest: I) -> bool;
    uninterp spec fn rejects(&self, i: I) -> bool;
    uninterp spec fn pre(&self, i: I) -> bool;
    #[verifier::external_body]
    fn parse_next(&mut self, input: &mut I) -> (r: PResult<Option<O>, E>) { unimplemented!() }
}

// ---- preceded(a, b): a then b, b's output
pub struct Preceded<A, B, I, OA, O, E> { pub a: A, pub b: B, pub _m: PhantomData<(I, OA, O, E)> }
pub fn preceded<I, OA, O, E, A: Parser<I, OA, E>, B: Parser<I, O, E>>(a: A, b: B) -> (r: Preceded<A, B, I, OA, O, E>)
    ensures r.a == a, r.b == b,
{ Preceded { a, b, _m: PhantomData } }
impl<A: Parser<I, OA, E>, B: Parser<I, O, E>, I, OA, O, E> Parser<I, O, E> for Preceded<A, B, I, OA, O, E> {
    uninterp spec fn accepts(&self, i: I, o: O, rest: I) -> bool;
    uninterp spec fn rejects(&self, i: I) -> bool;
    uninterp spec fn pre(&self, i: I) -> bool;
    #[verifier::external_body]
    fn parse_next(&mut self, input: &mut I) -> (r: PResult<O, E>) { unimplemented!() }
}

// ---- tuples: the parsers in sequence
impl<I, E, O1, O2, P1: Parser<I, O1, E>, P2: Parser<I, O2, E>> Parser<I, (O1, O2), E> for (P1, P2) {
    open spec fn accepts(&self, i: I, o: (O1, O2), rest: I) -> bool {
        exists|m1: I| #[trigger] self.0.accepts(i, o.0, m1) && self.1.accepts(m1, o.1, rest)
    }
    uninterp spec fn rejects(&self, i: I) -> bool;
    uninterp spec fn pre(&self, i: I) -> bool;
    #[verifier::external_body]
    fn parse_next(&mut self, input: &mut I) -> (r: PResult<(O1, O2), E>) { unimplemented!() }
}
impl<I, E, O1, O2, O3, O4, P1: Parser<I, O1, E>, P2: Parser<I, O2, E>, P3: Parser<I, O3, E>, P4: Parser<I, O4, E>> Parser<I, (O1, O2, O3, O4), E> for (P1, P2, P3, P4) {
    open spec fn accepts(&self, i: I, o: (O1, O2, O3, O4), rest: I) -> bool {
        exists|m1: I, m2: I, m3: I| #[trigger] self.0.accepts(i, o.0, m1) && #[trigger] self.1.accepts(m1, o.1, m2) && #[trigger] self.2.accepts(m2, o.2, m3) && self.3.accepts(m3, o.3, rest)
    }
    uninterp spec fn rejects(&self, i: I) -> bool;
    uninterp spec fn pre(&self, i: I) -> bool;
    #[verifier::external_body]
    fn parse_next(&mut self, input: &mut I) -> (r: PResult<(O1, O2, O3, O4), E>) { unimplemented!() }
}
impl<I, E, O1, O2, O3, O4, O5, P1: Parser<I, O1, E>, P2: Parser<I, O2, E>, P3: Parser<I, O3, E>, P4: Parser<I, O4, E>, P5: Parser<I, O5, E>> Parser<I, (O1, O2, O3, O4, O5), E> for (P1, P2, P3, P4, P5) {
    open spec fn accepts(&self, i: I, o: (O1, O2, O3, O4, O5), rest: I) -> bool {
        exists|m1: I, m2: I, m3: I, m4: I| #[trigger] self.0.accepts(i, o.0, m1) && #[trigger] self.1.accepts(m1, o.1, m2) && #[trigger] self.2.accepts(m2, o.2, m3) && #[trigger] self.3.accepts(m3, o.3, m4) && self.4.accepts(m4, o.4, rest)
    }
    uninterp spec fn rejects(&self, i: I) -> bool;
    uninterp spec fn pre(&self, i: I) -> bool;
    #[verifier::external_body]
    fn parse_next(&mut self, input: &mut I) -> (r: PResult<(O1, O2, O3, O4, O5), E>) { unimplemented!() }
}

// ---- alt: the first alternative that succeeds (every alternative starts from the same input)
pub trait Alt<I, O, E>: Sized {
    spec fn alt_accepts(&self, i: I, o: O, rest: I) -> bool;
    spec fn alt_rejects(&self, i: I) -> bool;
    spec fn alt_pre(&self, i: I) -> bool;
}
impl<I, O, E, P1: Parser<I, O, E>, P2: Parser<I, O, E>> Alt<I, O, E> for (P1, P2) {
    uninterp spec fn alt_accepts(&self, i: I, o: O, rest: I) -> bool;
    uninterp spec fn alt_rejects(&self, i: I) -> bool;
    uninterp spec fn alt_pre(&self, i: I) -> bool;
}
impl<I, O, E, P1: Parser<I, O, E>, P2: Parser<I, O, E>, P3: Parser<I, O, E>> Alt<I, O, E> for (P1, P2, P3) {
    uninterp spec fn alt_accepts(&self, i: I, o: O, rest: I) -> bool;
    uninterp spec fn alt_rejects(&self, i: I) -> bool;
    uninterp spec fn alt_pre(&self, i: I) -> bool;
}
pub struct AltP<L, I, O, E> { pub l: L, pub _m: PhantomData<(I, O, E)> }
pub fn alt<I, O, E, L: Alt<I, O, E>>(l: L) -> (r: AltP<L, I, O, E>)
    ensures r.l == l,
{ AltP { l, _m: PhantomData } }
impl<L: Alt<I, O, E>, I, O, E> Parser<I, O, E> for AltP<L, I, O, E> {
    uninterp spec fn accepts(&self, i: I, o: O, rest: I) -> bool;
    uninterp spec fn rejects(&self, i: I) -> bool;
    uninterp spec fn pre(&self, i: I) -> bool;
    #[verifier::external_body]
    fn parse_next(&mut self, input: &mut I) -> (r: PResult<O, E>) { unimplemented!() }
}

// ---- occurrence ranges (`1..`, `0..`)
pub trait OccRange: Sized { spec fn lo(&self) -> nat; spec fn unbounded(&self) -> bool; }
impl OccRange for core::ops::RangeFrom<usize> {
    open spec fn lo(&self) -> nat { self.start as nat }
    open spec fn unbounded(&self) -> bool { true }
}

// ---- separated(lo.., p, sep): p (sep p)*, collected into a Vec; a separator that is not followed by an element is not consumed.
// Modelled for `0..` and `1..` only (pre() says so); winnow asserts that the separator consumes input (debug builds panic).
pub open spec fn sep_tail<I, O, O2, E, P: Parser<I, O, E>, S: Parser<I, O2, E>>(p: P, s: S, m: I, out: Seq<O>, rest: I) -> bool
    decreases out.len()
{
    if out.len() == 0 {
        rest == m && (s.rejects(m) || exists|x: O2, m2: I| #[trigger] s.accepts(m, x, m2) && p.rejects(m2))
    } else {
        exists|x: O2, m2: I, m3: I| #[trigger] s.accepts(m, x, m2) && #[trigger] p.accepts(m2, out[0], m3) && sep_tail::<I, O, O2, E, P, S>(p, s, m3, out.drop_first(), rest)
    }
}
pub open spec fn sep_all<I, O, O2, E, P: Parser<I, O, E>, S: Parser<I, O2, E>>(p: P, s: S, i: I, out: Seq<O>, rest: I) -> bool {
    if out.len() == 0 {
        p.rejects(i) && rest == i
    } else {
        exists|m: I| #[trigger] p.accepts(i, out[0], m) && sep_tail::<I, O, O2, E, P, S>(p, s, m, out.drop_first(), rest)
    }
}
pub struct Separated<R, P, S, I, O, O2, E> { pub r: R, pub p: P, pub s: S, pub _m: PhantomData<(I, O, O2, E)> }
pub fn separated<I, O, O2, E, R: OccRange, P: Parser<I, O, E>, S: Parser<I, O2, E>>(r: R, p: P, s: S) -> (x: Separated<R, P, S, I, O, O2, E>)
    ensures x.r == r, x.p == p, x.s == s,
{ Separated { r, p, s, _m: PhantomData } }
impl<R: OccRange, P: Parser<I, O, E>, S: Parser<I, O2, E>, I, O, O2, E> Parser<I, Vec<O>, E> for Separated<R, P, S, I, O, O2, E> {
    uninterp spec fn accepts(&self, i: I, o: Vec<O>, rest: I) -> bool;
    uninterp spec fn rejects(&self, i: I) -> bool;
    #[verifier::external_body]
    fn parse_next(&mut self, input: &mut I) -> (r: PResult<Vec<O>, E>) { unimplemented!() }
}
// "k is strictly shorter than j" for the stream type; only `&str` is given a meaning
pub uninterp spec fn str_shorter<I>(k: I, j: I) -> bool;
pub broadcast axiom fn def_str_shorter<'s>(k: &'s str, j: &'s str)
    ensures #[trigger] str_shorter::<&'s str>(k, j) <==> k@.len() < j@.len();

// ---- tokens on &str
pub struct Literal { pub t: &'static str }
pub fn literal(t: &'static str) -> (r: Literal)
    ensures r.t == t,
{ Literal { t } }
impl<'s, E> Parser<&'s str, &'s str, E> for Literal {
    uninterp spec fn accepts(&self, i: &'s str, o: &'s str, rest: &'s str) -> bool;
    uninterp spec fn rejects(&self, i: &'s str) -> bool;
    uninterp spec fn pre(&self, i: &'s str) -> bool;
    #[verifier::external_body]
    fn parse_next(&mut self, input: &mut &'s str) -> (r: PResult<&'s str, E>) { unimplemented!() }
}

// take_while(lo.., pred): the longest prefix whose characters satisfy pred; fails if it is shorter than lo
pub struct TakeWhile<R, F> { pub r: R, pub f: F }
pub fn take_while<R: OccRange, F: Fn(char) -> bool>(r: R, f: F) -> (x: TakeWhile<R, F>)
    ensures x.r == r, x.f == f,
{ TakeWhile { r, f } }
pub open spec fn tw_split<F: Fn(char) -> bool>(f: F, s: Seq<char>, n: int) -> bool {
    &&& 0 <= n <= s.len()
    &&& forall|k: int| 0 <= k < n ==> call_ensures(f, (#[trigger] s[k],), true)
    &&& (n < s.len() ==> call_ensures(f, (s[n],), false))
}
impl<'s, E, R: OccRange, F: Fn(char) -> bool> Parser<&'s str, &'s str, E> for TakeWhile<R, F> {
    uninterp spec fn accepts(&self, i: &'s str, o: &'s str, rest: &'s str) -> bool;
    uninterp spec fn rejects(&self, i: &'s str) -> bool;
    uninterp spec fn pre(&self, i: &'s str) -> bool;
    #[verifier::external_body]
    fn parse_next(&mut self, input: &mut &'s str) -> (r: PResult<&'s str, E>) { unimplemented!() }
}

pub open spec fn ws_char(c: char) -> bool { c == ' ' || c == '\t' }
pub open spec fn dg_char(c: char) -> bool { '0' <= c && c <= '9' }
// longest prefix of s whose characters satisfy f
pub open spec fn span(s: Seq<char>, f: spec_fn(char) -> bool) -> nat
    decreases s.len()
{
    if s.len() > 0 && f(s[0]) { 1 + span(s.drop_first(), f) } else { 0 }
}

// winnow::ascii::space0 / space1 / digit1 (spaces and tabs; ASCII digits)
#[verifier::external_body]
pub fn space0<'s, E>(input: &mut &'s str) -> (r: PResult<&'s str, E>)
    ensures r matches Ok(o) && o@ == old(input)@.take(span(old(input)@, |c: char| ws_char(c)) as int) && final(input)@ == old(input)@.skip(span(old(input)@, |c: char| ws_char(c)) as int),
{ unimplemented!() }
#[verifier::external_body]
pub fn digit1<'s, E>(input: &mut &'s str) -> (r: PResult<&'s str, E>)
    ensures
        span(old(input)@, |c: char| dg_char(c)) == 0 ==> r is Err,
        span(old(input)@, |c: char| dg_char(c)) > 0 ==> (r matches Ok(o) && o@ == old(input)@.take(span(old(input)@, |c: char| dg_char(c)) as int) && final(input)@ == old(input)@.skip(span(old(input)@, |c: char| dg_char(c)) as int)),
{ unimplemented!() }
pub broadcast axiom fn def_space0<'s, E>(i: &'s str, o: &'s str, rest: &'s str)
    ensures
        #[trigger] Parser::<&'s str, &'s str, E>::accepts(&space0::<E>, i, o, rest) <==> (o@ == i@.take(span(i@, |c: char| ws_char(c)) as int) && rest@ == i@.skip(span(i@, |c: char| ws_char(c)) as int));
pub broadcast axiom fn def_space0_r<'s, E>(i: &'s str)
    ensures !(#[trigger] Parser::<&'s str, &'s str, E>::rejects(&space0::<E>, i));
pub broadcast axiom fn def_space0_p<'s, E>(i: &'s str)
    ensures #[trigger] Parser::<&'s str, &'s str, E>::pre(&space0::<E>, i);
pub broadcast axiom fn def_digit1<'s, E>(i: &'s str, o: &'s str, rest: &'s str)
    ensures
        #[trigger] Parser::<&'s str, &'s str, E>::accepts(&digit1::<E>, i, o, rest) <==> (span(i@, |c: char| dg_char(c)) > 0 && o@ == i@.take(span(i@, |c: char| dg_char(c)) as int) && rest@ == i@.skip(span(i@, |c: char| dg_char(c)) as int));
pub broadcast axiom fn def_digit1_r<'s, E>(i: &'s str)
    ensures
        #[trigger] Parser::<&'s str, &'s str, E>::rejects(&digit1::<E>, i) <==> span(i@, |c: char| dg_char(c)) == 0;
pub broadcast axiom fn def_digit1_p<'s, E>(i: &'s str)
    ensures #[trigger] Parser::<&'s str, &'s str, E>::pre(&digit1::<E>, i);
pub broadcast group winnow_tokens { def_space0, def_space0_r, def_space0_p, def_digit1, def_digit1_r, def_digit1_p, def_str_shorter }

// winnow::stream::AsChar::is_alphanum on u8: ASCII letters and digits
pub trait AsChar: Sized { fn is_alphanum(self) -> bool; }
impl AsChar for u8 {
    #[verifier::external_body]
    fn is_alphanum(self) -> (r: bool)
        ensures r == ((0x30 <= self && self <= 0x39) || (0x41 <= self && self <= 0x5a) || (0x61 <= self && self <= 0x7a)),
    { unimplemented!() }
}
impl AsChar for char {
    #[verifier::external_body]
    fn is_alphanum(self) -> (r: bool)
        ensures r == (('0' <= self && self <= '9') || ('A' <= self && self <= 'Z') || ('a' <= self && self <= 'z')),
    { unimplemented!() }
}

// ---- the contracts of the combinators, as axioms (the trait impls above only name the three relations: inside the dependency
// cycle "grammar function used as a parser value -> blanket impl for fn items -> grammar function" Verus does not unfold spec bodies of the impls)
pub broadcast axiom fn def_accepts_1<P: Parser<I, O, E>, G: FnMut(O) -> O2, I, O, O2, E>(p_: Map<P, G, I, O, O2, E>, i: I, o2: O2, rest: I)
    ensures #[trigger] <Map<P, G, I, O, O2, E> as Parser<I, O2, E>>::accepts(&p_, i, o2, rest) <==> (exists|o: O| #[trigger] p_.p.accepts(i, o, rest) && call_ensures(p_.g, (o,), o2));

pub broadcast axiom fn def_rejects_2<P: Parser<I, O, E>, G: FnMut(O) -> O2, I, O, O2, E>(p_: Map<P, G, I, O, O2, E>, i: I)
    ensures #[trigger] <Map<P, G, I, O, O2, E> as Parser<I, O2, E>>::rejects(&p_, i) <==> (p_.p.rejects(i) }
    open spec fn pre(&p_, i: I) -> bool {
        p_.p.pre(i) && forall|o: O, rest: I| #[trigger] p_.p.accepts(i, o, rest) ==> call_requires(p_.g, (o,)));

pub broadcast axiom fn def_accepts_3<P: Parser<I, O, E>, G: FnMut(O) -> Result<O2, E2>, I, O, O2, E, E2>(p_: TryMap<P, G, I, O, O2, E, E2>, i: I, o2: O2, rest: I)
    ensures #[trigger] <TryMap<P, G, I, O, O2, E, E2> as Parser<I, O2, E>>::accepts(&p_, i, o2, rest) <==> (exists|o: O| #[trigger] p_.p.accepts(i, o, rest) && call_ensures(p_.g, (o,), Ok::<O2, E2>(o2)));

pub broadcast axiom fn def_rejects_4<P: Parser<I, O, E>, G: FnMut(O) -> Result<O2, E2>, I, O, O2, E, E2>(p_: TryMap<P, G, I, O, O2, E, E2>, i: I)
    ensures #[trigger] <TryMap<P, G, I, O, O2, E, E2> as Parser<I, O2, E>>::rejects(&p_, i) <==> (p_.p.rejects(i) || exists|o: O, rest: I, e: E2| #[trigger] p_.p.accepts(i, o, rest) && #[trigger] call_ensures(p_.g, (o,), Err::<O2, E2>(e)));

pub broadcast axiom fn def_pre_5<P: Parser<I, O, E>, G: FnMut(O) -> Result<O2, E2>, I, O, O2, E, E2>(p_: TryMap<P, G, I, O, O2, E, E2>, i: I)
    ensures #[trigger] <TryMap<P, G, I, O, O2, E, E2> as Parser<I, O2, E>>::pre(&p_, i) <==> (p_.p.pre(i) && forall|o: O, rest: I| #[trigger] p_.p.accepts(i, o, rest) ==> call_requires(p_.g, (o,)));

pub broadcast axiom fn def_accepts_6<P: Parser<I, O, E>, I, O, E>(p_: Context<P, I, O, E>, i: I, o: O, rest: I)
    ensures #[trigger] <Context<P, I, O, E> as Parser<I, O, E>>::accepts(&p_, i, o, rest) <==> (p_.p.accepts(i, o, rest));

pub broadcast axiom fn def_rejects_7<P: Parser<I, O, E>, I, O, E>(p_: Context<P, I, O, E>, i: I)
    ensures #[trigger] <Context<P, I, O, E> as Parser<I, O, E>>::rejects(&p_, i) <==> (p_.p.rejects(i));

pub broadcast axiom fn def_pre_8<P: Parser<I, O, E>, I, O, E>(p_: Context<P, I, O, E>, i: I)
    ensures #[trigger] <Context<P, I, O, E> as Parser<I, O, E>>::pre(&p_, i) <==> (p_.p.pre(i));

pub broadcast axiom fn def_accepts_9<'s, P: Parser<&'s str, O, E>, O, E>(p_: Take<P, &'s str, O, E>, i: &'s str, o: &'s str, rest: &'s str)
    ensures #[trigger] <Take<P, &'s str, O, E> as Parser<&'s str, &'s str, E>>::accepts(&p_, i, o, rest) <==> ((exists|x: O| #[trigger] p_.p.accepts(i, x, rest)) && o@ == i@.take(i@.len() - rest@.len()));

pub broadcast axiom fn def_rejects_10<'s, P: Parser<&'s str, O, E>, O, E>(p_: Take<P, &'s str, O, E>, i: &'s str)
    ensures #[trigger] <Take<P, &'s str, O, E> as Parser<&'s str, &'s str, E>>::rejects(&p_, i) <==> (p_.p.rejects(i));

pub broadcast axiom fn def_pre_11<'s, P: Parser<&'s str, O, E>, O, E>(p_: Take<P, &'s str, O, E>, i: &'s str)
    ensures #[trigger] <Take<P, &'s str, O, E> as Parser<&'s str, &'s str, E>>::pre(&p_, i) <==> (p_.p.pre(i));

pub broadcast axiom fn def_accepts_12<P: Parser<I, O, E>, I, O, E>(p_: Opt<P, I, O, E>, i: I, o: Option<O>, rest: I)
    ensures #[trigger] <Opt<P, I, O, E> as Parser<I, Option<O>, E>>::accepts(&p_, i, o, rest) <==> (match o {
            Some(x) => p_.p.accepts(i, x, rest),
            None => p_.p.rejects(i) && rest == i,
        });

pub broadcast axiom fn def_rejects_13<P: Parser<I, O, E>, I, O, E>(p_: Opt<P, I, O, E>, i: I)
    ensures #[trigger] <Opt<P, I, O, E> as Parser<I, Option<O>, E>>::rejects(&p_, i) <==> (false);

pub broadcast axiom fn def_pre_14<P: Parser<I, O, E>, I, O, E>(p_: Opt<P, I, O, E>, i: I)
    ensures #[trigger] <Opt<P, I, O, E> as Parser<I, Option<O>, E>>::pre(&p_, i) <==> (p_.p.pre(i));

pub broadcast axiom fn def_accepts_15<A: Parser<I, OA, E>, B: Parser<I, O, E>, I, OA, O, E>(p_: Preceded<A, B, I, OA, O, E>, i: I, o: O, rest: I)
    ensures #[trigger] <Preceded<A, B, I, OA, O, E> as Parser<I, O, E>>::accepts(&p_, i, o, rest) <==> (exists|x: OA, m: I| #[trigger] p_.a.accepts(i, x, m) && #[trigger] p_.b.accepts(m, o, rest));

pub broadcast axiom fn def_rejects_16<A: Parser<I, OA, E>, B: Parser<I, O, E>, I, OA, O, E>(p_: Preceded<A, B, I, OA, O, E>, i: I)
    ensures #[trigger] <Preceded<A, B, I, OA, O, E> as Parser<I, O, E>>::rejects(&p_, i) <==> (p_.a.rejects(i) || exists|x: OA, m: I| #[trigger] p_.a.accepts(i, x, m) && p_.b.rejects(m));

pub broadcast axiom fn def_pre_17<A: Parser<I, OA, E>, B: Parser<I, O, E>, I, OA, O, E>(p_: Preceded<A, B, I, OA, O, E>, i: I)
    ensures #[trigger] <Preceded<A, B, I, OA, O, E> as Parser<I, O, E>>::pre(&p_, i) <==> (p_.a.pre(i) && forall|x: OA, m: I| #[trigger] p_.a.accepts(i, x, m) ==> p_.b.pre(m));

pub broadcast axiom fn def_rejects_18<I, E, O1, O2, P1: Parser<I, O1, E>, P2: Parser<I, O2, E>>(p_: (P1, P2), i: I)
    ensures #[trigger] <(P1, P2) as Parser<I, (O1, O2), E>>::rejects(&p_, i) <==> (p_.0.rejects(i) || exists|o1: O1, m1: I| #[trigger] p_.0.accepts(i, o1, m1) && p_.1.rejects(m1));

pub broadcast axiom fn def_pre_19<I, E, O1, O2, P1: Parser<I, O1, E>, P2: Parser<I, O2, E>>(p_: (P1, P2), i: I)
    ensures #[trigger] <(P1, P2) as Parser<I, (O1, O2), E>>::pre(&p_, i) <==> (p_.0.pre(i) && forall|o1: O1, m1: I| #[trigger] p_.0.accepts(i, o1, m1) ==> p_.1.pre(m1));

pub broadcast axiom fn def_rejects_20<I, E, O1, O2, O3, O4, P1: Parser<I, O1, E>, P2: Parser<I, O2, E>, P3: Parser<I, O3, E>, P4: Parser<I, O4, E>>(p_: (P1, P2, P3, P4), i: I)
    ensures #[trigger] <(P1, P2, P3, P4) as Parser<I, (O1, O2, O3, O4), E>>::rejects(&p_, i) <==> (||| p_.0.rejects(i)
        ||| exists|o1: O1, m1: I| #[trigger] p_.0.accepts(i, o1, m1) && p_.1.rejects(m1)
        ||| exists|o1: O1, m1: I, o2: O2, m2: I| #[trigger] p_.0.accepts(i, o1, m1) && #[trigger] p_.1.accepts(m1, o2, m2) && p_.2.rejects(m2)
        ||| exists|o1: O1, m1: I, o2: O2, m2: I, o3: O3, m3: I| #[trigger] p_.0.accepts(i, o1, m1) && #[trigger] p_.1.accepts(m1, o2, m2) && #[trigger] p_.2.accepts(m2, o3, m3) && p_.3.rejects(m3));

pub broadcast axiom fn def_pre_21<I, E, O1, O2, O3, O4, P1: Parser<I, O1, E>, P2: Parser<I, O2, E>, P3: Parser<I, O3, E>, P4: Parser<I, O4, E>>(p_: (P1, P2, P3, P4), i: I)
    ensures #[trigger] <(P1, P2, P3, P4) as Parser<I, (O1, O2, O3, O4), E>>::pre(&p_, i) <==> (&&& p_.0.pre(i)
        &&& forall|o1: O1, m1: I| #[trigger] p_.0.accepts(i, o1, m1) ==> p_.1.pre(m1)
        &&& forall|o1: O1, m1: I, o2: O2, m2: I| #[trigger] p_.0.accepts(i, o1, m1) && #[trigger] p_.1.accepts(m1, o2, m2) ==> p_.2.pre(m2)
        &&& forall|o1: O1, m1: I, o2: O2, m2: I, o3: O3, m3: I| #[trigger] p_.0.accepts(i, o1, m1) && #[trigger] p_.1.accepts(m1, o2, m2) && #[trigger] p_.2.accepts(m2, o3, m3) ==> p_.3.pre(m3));

pub broadcast axiom fn def_rejects_22<I, E, O1, O2, O3, O4, O5, P1: Parser<I, O1, E>, P2: Parser<I, O2, E>, P3: Parser<I, O3, E>, P4: Parser<I, O4, E>, P5: Parser<I, O5, E>>(p_: (P1, P2, P3, P4, P5), i: I)
    ensures #[trigger] <(P1, P2, P3, P4, P5) as Parser<I, (O1, O2, O3, O4, O5), E>>::rejects(&p_, i) <==> (||| p_.0.rejects(i)
        ||| exists|o1: O1, m1: I| #[trigger] p_.0.accepts(i, o1, m1) && p_.1.rejects(m1)
        ||| exists|o1: O1, m1: I, o2: O2, m2: I| #[trigger] p_.0.accepts(i, o1, m1) && #[trigger] p_.1.accepts(m1, o2, m2) && p_.2.rejects(m2)
        ||| exists|o1: O1, m1: I, o2: O2, m2: I, o3: O3, m3: I| #[trigger] p_.0.accepts(i, o1, m1) && #[trigger] p_.1.accepts(m1, o2, m2) && #[trigger] p_.2.accepts(m2, o3, m3) && p_.3.rejects(m3)
        ||| exists|o1: O1, m1: I, o2: O2, m2: I, o3: O3, m3: I, o4: O4, m4: I| #[trigger] p_.0.accepts(i, o1, m1) && #[trigger] p_.1.accepts(m1, o2, m2) && #[trigger] p_.2.accepts(m2, o3, m3) && #[trigger] p_.3.accepts(m3, o4, m4) && p_.4.rejects(m4));

pub broadcast axiom fn def_pre_23<I, E, O1, O2, O3, O4, O5, P1: Parser<I, O1, E>, P2: Parser<I, O2, E>, P3: Parser<I, O3, E>, P4: Parser<I, O4, E>, P5: Parser<I, O5, E>>(p_: (P1, P2, P3, P4, P5), i: I)
    ensures #[trigger] <(P1, P2, P3, P4, P5) as Parser<I, (O1, O2, O3, O4, O5), E>>::pre(&p_, i) <==> (&&& p_.0.pre(i)
        &&& forall|o1: O1, m1: I| #[trigger] p_.0.accepts(i, o1, m1) ==> p_.1.pre(m1)
        &&& forall|o1: O1, m1: I, o2: O2, m2: I| #[trigger] p_.0.accepts(i, o1, m1) && #[trigger] p_.1.accepts(m1, o2, m2) ==> p_.2.pre(m2)
        &&& forall|o1: O1, m1: I, o2: O2, m2: I, o3: O3, m3: I| #[trigger] p_.0.accepts(i, o1, m1) && #[trigger] p_.1.accepts(m1, o2, m2) && #[trigger] p_.2.accepts(m2, o3, m3) ==> p_.3.pre(m3)
        &&& forall|o1: O1, m1: I, o2: O2, m2: I, o3: O3, m3: I, o4: O4, m4: I| #[trigger] p_.0.accepts(i, o1, m1) && #[trigger] p_.1.accepts(m1, o2, m2) && #[trigger] p_.2.accepts(m2, o3, m3) && #[trigger] p_.3.accepts(m3, o4, m4) ==> p_.4.pre(m4));

pub broadcast axiom fn def_alt_accepts_24<I, O, E, P1: Parser<I, O, E>, P2: Parser<I, O, E>>(p_: (P1, P2), i: I, o: O, rest: I)
    ensures #[trigger] <(P1, P2) as Alt<I, O, E>>::alt_accepts(&p_, i, o, rest) <==> (p_.0.accepts(i, o, rest) || (p_.0.rejects(i) && p_.1.accepts(i, o, rest)));

pub broadcast axiom fn def_alt_rejects_25<I, O, E, P1: Parser<I, O, E>, P2: Parser<I, O, E>>(p_: (P1, P2), i: I)
    ensures #[trigger] <(P1, P2) as Alt<I, O, E>>::alt_rejects(&p_, i) <==> (p_.0.rejects(i) && p_.1.rejects(i));

pub broadcast axiom fn def_alt_pre_26<I, O, E, P1: Parser<I, O, E>, P2: Parser<I, O, E>>(p_: (P1, P2), i: I)
    ensures #[trigger] <(P1, P2) as Alt<I, O, E>>::alt_pre(&p_, i) <==> (p_.0.pre(i) && p_.1.pre(i));

pub broadcast axiom fn def_alt_accepts_27<I, O, E, P1: Parser<I, O, E>, P2: Parser<I, O, E>, P3: Parser<I, O, E>>(p_: (P1, P2, P3), i: I, o: O, rest: I)
    ensures #[trigger] <(P1, P2, P3) as Alt<I, O, E>>::alt_accepts(&p_, i, o, rest) <==> (||| p_.0.accepts(i, o, rest)
        ||| (p_.0.rejects(i) && p_.1.accepts(i, o, rest))
        ||| (p_.0.rejects(i) && p_.1.rejects(i) && p_.2.accepts(i, o, rest)));

pub broadcast axiom fn def_alt_rejects_28<I, O, E, P1: Parser<I, O, E>, P2: Parser<I, O, E>, P3: Parser<I, O, E>>(p_: (P1, P2, P3), i: I)
    ensures #[trigger] <(P1, P2, P3) as Alt<I, O, E>>::alt_rejects(&p_, i) <==> (p_.0.rejects(i) && p_.1.rejects(i) && p_.2.rejects(i));

pub broadcast axiom fn def_alt_pre_29<I, O, E, P1: Parser<I, O, E>, P2: Parser<I, O, E>, P3: Parser<I, O, E>>(p_: (P1, P2, P3), i: I)
    ensures #[trigger] <(P1, P2, P3) as Alt<I, O, E>>::alt_pre(&p_, i) <==> (p_.0.pre(i) && p_.1.pre(i) && p_.2.pre(i));

pub broadcast axiom fn def_accepts_30<L: Alt<I, O, E>, I, O, E>(p_: AltP<L, I, O, E>, i: I, o: O, rest: I)
    ensures #[trigger] <AltP<L, I, O, E> as Parser<I, O, E>>::accepts(&p_, i, o, rest) <==> (p_.l.alt_accepts(i, o, rest));

pub broadcast axiom fn def_rejects_31<L: Alt<I, O, E>, I, O, E>(p_: AltP<L, I, O, E>, i: I)
    ensures #[trigger] <AltP<L, I, O, E> as Parser<I, O, E>>::rejects(&p_, i) <==> (p_.l.alt_rejects(i));

pub broadcast axiom fn def_pre_32<L: Alt<I, O, E>, I, O, E>(p_: AltP<L, I, O, E>, i: I)
    ensures #[trigger] <AltP<L, I, O, E> as Parser<I, O, E>>::pre(&p_, i) <==> (p_.l.alt_pre(i));

pub broadcast axiom fn def_accepts_33<R: OccRange, P: Parser<I, O, E>, S: Parser<I, O2, E>, I, O, O2, E>(p_: Separated<R, P, S, I, O, O2, E>, i: I, o: Vec<O>, rest: I)
    ensures #[trigger] <Separated<R, P, S, I, O, O2, E> as Parser<I, Vec<O>, E>>::accepts(&p_, i, o, rest) <==> (o@.len() >= p_.r.lo() && sep_all::<I, O, O2, E, P, S>(p_.p, p_.s, i, o@, rest));

pub broadcast axiom fn def_rejects_34<R: OccRange, P: Parser<I, O, E>, S: Parser<I, O2, E>, I, O, O2, E>(p_: Separated<R, P, S, I, O, O2, E>, i: I)
    ensures #[trigger] <Separated<R, P, S, I, O, O2, E> as Parser<I, Vec<O>, E>>::rejects(&p_, i) <==> (p_.r.lo() == 1 && p_.p.rejects(i) }
    open spec fn pre(&p_, i: I) -> bool {
        &&& p_.r.lo() <= 1 && p_.r.unbounded()
        // stated for every input (not only those reachable from i): what the grammar's parsers satisfy anyway
        &&& forall|j: I| #[trigger] p_.p.pre(j)
        &&& forall|j: I| #[trigger] p_.s.pre(j)
        &&& forall|j: I, x: O2, k: I| #[trigger] p_.s.accepts(j, x, k) ==> str_shorter(k, j));

pub broadcast axiom fn def_accepts_35<'s, E>(p_: Literal, i: &'s str, o: &'s str, rest: &'s str)
    ensures #[trigger] <Literal as Parser<&'s str, &'s str, E>>::accepts(&p_, i, o, rest) <==> (p_.t@.is_prefix_of(i@) && o@ == p_.t@ && rest@ == i@.skip(p_.t@.len() as int));

pub broadcast axiom fn def_rejects_36<'s, E>(p_: Literal, i: &'s str)
    ensures #[trigger] <Literal as Parser<&'s str, &'s str, E>>::rejects(&p_, i) <==> (!p_.t@.is_prefix_of(i@));

pub broadcast axiom fn def_pre_37<'s, E>(p_: Literal, i: &'s str)
    ensures #[trigger] <Literal as Parser<&'s str, &'s str, E>>::pre(&p_, i) <==> (true);

pub broadcast axiom fn def_accepts_38<'s, E, R: OccRange, F: Fn(char) -> bool>(p_: TakeWhile<R, F>, i: &'s str, o: &'s str, rest: &'s str)
    ensures #[trigger] <TakeWhile<R, F> as Parser<&'s str, &'s str, E>>::accepts(&p_, i, o, rest) <==> (exists|n: int| #[trigger] tw_split(p_.f, i@, n) && n >= p_.r.lo() && o@ == i@.take(n) && rest@ == i@.skip(n));

pub broadcast axiom fn def_rejects_39<'s, E, R: OccRange, F: Fn(char) -> bool>(p_: TakeWhile<R, F>, i: &'s str)
    ensures #[trigger] <TakeWhile<R, F> as Parser<&'s str, &'s str, E>>::rejects(&p_, i) <==> (exists|n: int| #[trigger] tw_split(p_.f, i@, n) && n < p_.r.lo());

pub broadcast axiom fn def_pre_40<'s, E, R: OccRange, F: Fn(char) -> bool>(p_: TakeWhile<R, F>, i: &'s str)
    ensures #[trigger] <TakeWhile<R, F> as Parser<&'s str, &'s str, E>>::pre(&p_, i) <==> (p_.r.unbounded() && forall|c: char| call_requires(p_.f, (c,)));

pub broadcast group winnow_defs { def_accepts_1, def_rejects_2, def_accepts_3, def_rejects_4, def_pre_5, def_accepts_6, def_rejects_7, def_pre_8, def_accepts_9, def_rejects_10, def_pre_11, def_accepts_12, def_rejects_13, def_pre_14, def_accepts_15, def_rejects_16, def_pre_17, def_rejects_18, def_pre_19, def_rejects_20, def_pre_21, def_rejects_22, def_pre_23, def_alt_accepts_24, def_alt_rejects_25, def_alt_pre_26, def_alt_accepts_27, def_alt_rejects_28, def_alt_pre_29, def_accepts_30, def_rejects_31, def_pre_32, def_accepts_33, def_rejects_34, def_accepts_35, def_rejects_36, def_pre_37, def_accepts_38, def_rejects_39, def_pre_40 }
