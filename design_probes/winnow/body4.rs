pub struct SemverError { pub kind: SemverErrorKind }
#[verifier::external_body]
pub fn verif_semver_error() -> SemverError { unimplemented!() }
pub open spec fn too_long(s: &str) -> bool { (s.spec_bytes().len() as usize) > MAX_LENGTH }
pub open spec fn ref_parse(s: Seq<char>) -> Option<VSpec> {
    match g_version(s) { Some((v, rest)) => if all_blank(rest) { Some(v) } else { None }, None => None }
}
pub mod vg_parse {
use super::*;
use super::twins::*;
impl Version {
    pub fn parse_str<'s>(text: &'s str) -> (r: Result<Version, SemverError>)
        ensures
            match r {
                Ok(v) => !too_long(text) && (ref_parse(text@) matches Some(s) && version_is(v, s)),
                Err(_) => too_long(text) || ref_parse(text@) is None,
            },
    {
        broadcast use winnow_defs, grammar_defs;
        proof { match g_version(text@) { Some((_, rest)) => { lemma_all_blank(rest); }, None => {} } }
        let mut input = text;

        if input.len() > MAX_LENGTH {
            return Err(verif_semver_error());
        }

        match terminated(version, (space0, eof)).parse_next(&mut input) {
            Ok(arg) => Ok(arg),
            Err(err) => Err(match err {
                ErrMode::Backtrack(e) | ErrMode::Cut(e) => verif_semver_error(),
                ErrMode::Incomplete(_) => verif_semver_error(),
            }),
        }
    }
}
}
