pub enum Extras {
    Build(Vec<Identifier>),
    Release(Vec<Identifier>),
    ReleaseAndBuild((Vec<Identifier>, Vec<Identifier>)),
}
pub open spec fn extras_vals(e: Option<Extras>, r: (Vec<Identifier>, Vec<Identifier>)) -> bool {
    match e {
        Some(Extras::Release(p)) => r.0 == p && r.1@.len() == 0,
        Some(Extras::Build(b)) => r.0@.len() == 0 && r.1 == b,
        Some(Extras::ReleaseAndBuild(pb)) => r == pb,
        None => r.0@.len() == 0 && r.1@.len() == 0,
    }
}
impl Extras {
    fn values(self) -> (r: (Vec<Identifier>, Vec<Identifier>))
        ensures extras_vals(Some(self), r),
    {
        use Extras::*;
        match self {
            Release(ident) => (ident, Vec::new()),
            Build(ident) => (Vec::new(), ident),
            ReleaseAndBuild(ident) => ident,
        }
    }
}
pub mod twins {
use super::*;
pub open spec fn number_acc<'s>(i: &'s str, o: u64, rest: &'s str) -> bool { g_number(i@) == Some((o as nat, rest@)) }
pub open spec fn number_rej<'s>(i: &'s str) -> bool { g_number(i@) is None }
pub broadcast axiom fn def_number_acc<'s>(i: &'s str, o: u64, rest: &'s str)
    ensures #[trigger] Parser::<&'s str, u64, SemverParseError<&'s str>>::accepts(&number, i, o, rest) <==> number_acc(i, o, rest);
pub broadcast axiom fn def_number_rej<'s>(i: &'s str)
    ensures #[trigger] Parser::<&'s str, u64, SemverParseError<&'s str>>::rejects(&number, i) <==> number_rej(i);
pub broadcast axiom fn def_number_pre<'s>(i: &'s str)
    ensures #[trigger] Parser::<&'s str, u64, SemverParseError<&'s str>>::pre(&number, i);
#[verifier::external_body]
pub fn number<'s>(input: &mut &'s str) -> (r: PResult<u64, SemverParseError<&'s str>>)
    ensures match r { Ok(o) => number_acc(*old(input), o, *final(input)), Err(_) => number_rej(*old(input)) }
{ unimplemented!() }
pub open spec fn version_core_acc<'s>(i: &'s str, o: (u64, u64, u64), rest: &'s str) -> bool { g_core(i@) == Some(((o.0 as nat, o.1 as nat, o.2 as nat), rest@)) }
pub open spec fn version_core_rej<'s>(i: &'s str) -> bool { g_core(i@) is None }
pub broadcast axiom fn def_version_core_acc<'s>(i: &'s str, o: (u64, u64, u64), rest: &'s str)
    ensures #[trigger] Parser::<&'s str, (u64, u64, u64), SemverParseError<&'s str>>::accepts(&version_core, i, o, rest) <==> version_core_acc(i, o, rest);
pub broadcast axiom fn def_version_core_rej<'s>(i: &'s str)
    ensures #[trigger] Parser::<&'s str, (u64, u64, u64), SemverParseError<&'s str>>::rejects(&version_core, i) <==> version_core_rej(i);
pub broadcast axiom fn def_version_core_pre<'s>(i: &'s str)
    ensures #[trigger] Parser::<&'s str, (u64, u64, u64), SemverParseError<&'s str>>::pre(&version_core, i);
#[verifier::external_body]
pub fn version_core<'s>(input: &mut &'s str) -> (r: PResult<(u64, u64, u64), SemverParseError<&'s str>>)
    ensures match r { Ok(o) => version_core_acc(*old(input), o, *final(input)), Err(_) => version_core_rej(*old(input)) }
{ unimplemented!() }
pub open spec fn identifier_acc<'s>(i: &'s str, o: Identifier, rest: &'s str) -> bool { g_ident(i@) matches Some((s, r)) && ident_is(o, s) && r == rest@ }
pub open spec fn identifier_rej<'s>(i: &'s str) -> bool { g_ident(i@) is None }
pub broadcast axiom fn def_identifier_acc<'s>(i: &'s str, o: Identifier, rest: &'s str)
    ensures #[trigger] Parser::<&'s str, Identifier, SemverParseError<&'s str>>::accepts(&identifier, i, o, rest) <==> identifier_acc(i, o, rest);
pub broadcast axiom fn def_identifier_rej<'s>(i: &'s str)
    ensures #[trigger] Parser::<&'s str, Identifier, SemverParseError<&'s str>>::rejects(&identifier, i) <==> identifier_rej(i);
pub broadcast axiom fn def_identifier_pre<'s>(i: &'s str)
    ensures #[trigger] Parser::<&'s str, Identifier, SemverParseError<&'s str>>::pre(&identifier, i);
#[verifier::external_body]
pub fn identifier<'s>(input: &mut &'s str) -> (r: PResult<Identifier, SemverParseError<&'s str>>)
    ensures match r { Ok(o) => identifier_acc(*old(input), o, *final(input)), Err(_) => identifier_rej(*old(input)) }
{ unimplemented!() }
pub open spec fn build_acc<'s>(i: &'s str, o: Vec<Identifier>, rest: &'s str) -> bool { g_build(i@) matches Some((s, r)) && idents_are(o@, s) && r == rest@ }
pub open spec fn build_rej<'s>(i: &'s str) -> bool { g_build(i@) is None }
pub broadcast axiom fn def_build_acc<'s>(i: &'s str, o: Vec<Identifier>, rest: &'s str)
    ensures #[trigger] Parser::<&'s str, Vec<Identifier>, SemverParseError<&'s str>>::accepts(&build, i, o, rest) <==> build_acc(i, o, rest);
pub broadcast axiom fn def_build_rej<'s>(i: &'s str)
    ensures #[trigger] Parser::<&'s str, Vec<Identifier>, SemverParseError<&'s str>>::rejects(&build, i) <==> build_rej(i);
pub broadcast axiom fn def_build_pre<'s>(i: &'s str)
    ensures #[trigger] Parser::<&'s str, Vec<Identifier>, SemverParseError<&'s str>>::pre(&build, i);
#[verifier::external_body]
pub fn build<'s>(input: &mut &'s str) -> (r: PResult<Vec<Identifier>, SemverParseError<&'s str>>)
    ensures match r { Ok(o) => build_acc(*old(input), o, *final(input)), Err(_) => build_rej(*old(input)) }
{ unimplemented!() }
pub open spec fn pre_release_acc<'s>(i: &'s str, o: Vec<Identifier>, rest: &'s str) -> bool { g_pre(i@) matches Some((s, r)) && idents_are(o@, s) && r == rest@ }
pub open spec fn pre_release_rej<'s>(i: &'s str) -> bool { g_pre(i@) is None }
pub broadcast axiom fn def_pre_release_acc<'s>(i: &'s str, o: Vec<Identifier>, rest: &'s str)
    ensures #[trigger] Parser::<&'s str, Vec<Identifier>, SemverParseError<&'s str>>::accepts(&pre_release, i, o, rest) <==> pre_release_acc(i, o, rest);
pub broadcast axiom fn def_pre_release_rej<'s>(i: &'s str)
    ensures #[trigger] Parser::<&'s str, Vec<Identifier>, SemverParseError<&'s str>>::rejects(&pre_release, i) <==> pre_release_rej(i);
pub broadcast axiom fn def_pre_release_pre<'s>(i: &'s str)
    ensures #[trigger] Parser::<&'s str, Vec<Identifier>, SemverParseError<&'s str>>::pre(&pre_release, i);
#[verifier::external_body]
pub fn pre_release<'s>(input: &mut &'s str) -> (r: PResult<Vec<Identifier>, SemverParseError<&'s str>>)
    ensures match r { Ok(o) => pre_release_acc(*old(input), o, *final(input)), Err(_) => pre_release_rej(*old(input)) }
{ unimplemented!() }
pub open spec fn extras_acc<'s>(i: &'s str, o: (Vec<Identifier>, Vec<Identifier>), rest: &'s str) -> bool { idents_are(o.0@, g_extras(i@).0.0) && idents_are(o.1@, g_extras(i@).0.1) && rest@ == g_extras(i@).1 }
pub open spec fn extras_rej<'s>(i: &'s str) -> bool { false }
pub broadcast axiom fn def_extras_acc<'s>(i: &'s str, o: (Vec<Identifier>, Vec<Identifier>), rest: &'s str)
    ensures #[trigger] Parser::<&'s str, (Vec<Identifier>, Vec<Identifier>), SemverParseError<&'s str>>::accepts(&extras, i, o, rest) <==> extras_acc(i, o, rest);
pub broadcast axiom fn def_extras_rej<'s>(i: &'s str)
    ensures #[trigger] Parser::<&'s str, (Vec<Identifier>, Vec<Identifier>), SemverParseError<&'s str>>::rejects(&extras, i) <==> extras_rej(i);
pub broadcast axiom fn def_extras_pre<'s>(i: &'s str)
    ensures #[trigger] Parser::<&'s str, (Vec<Identifier>, Vec<Identifier>), SemverParseError<&'s str>>::pre(&extras, i);
#[verifier::external_body]
pub fn extras<'s>(input: &mut &'s str) -> (r: PResult<(Vec<Identifier>, Vec<Identifier>), SemverParseError<&'s str>>)
    ensures match r { Ok(o) => extras_acc(*old(input), o, *final(input)), Err(_) => extras_rej(*old(input)) }
{ unimplemented!() }
pub open spec fn version_acc<'s>(i: &'s str, o: Version, rest: &'s str) -> bool { g_version(i@) matches Some((s, r)) && version_is(o, s) && r == rest@ }
pub open spec fn version_rej<'s>(i: &'s str) -> bool { g_version(i@) is None }
pub broadcast axiom fn def_version_acc<'s>(i: &'s str, o: Version, rest: &'s str)
    ensures #[trigger] Parser::<&'s str, Version, SemverParseError<&'s str>>::accepts(&version, i, o, rest) <==> version_acc(i, o, rest);
pub broadcast axiom fn def_version_rej<'s>(i: &'s str)
    ensures #[trigger] Parser::<&'s str, Version, SemverParseError<&'s str>>::rejects(&version, i) <==> version_rej(i);
pub broadcast axiom fn def_version_pre<'s>(i: &'s str)
    ensures #[trigger] Parser::<&'s str, Version, SemverParseError<&'s str>>::pre(&version, i);
#[verifier::external_body]
pub fn version<'s>(input: &mut &'s str) -> (r: PResult<Version, SemverParseError<&'s str>>)
    ensures match r { Ok(o) => version_acc(*old(input), o, *final(input)), Err(_) => version_rej(*old(input)) }
{ unimplemented!() }
pub broadcast group grammar_defs { def_number_acc, def_number_rej, def_number_pre, def_version_core_acc, def_version_core_rej, def_version_core_pre, def_identifier_acc, def_identifier_rej, def_identifier_pre, def_build_acc, def_build_rej, def_build_pre, def_pre_release_acc, def_pre_release_rej, def_pre_release_pre, def_extras_acc, def_extras_rej, def_extras_pre, def_version_acc, def_version_rej, def_version_pre }
}
pub mod vg_number {
use super::*;
use super::twins::*;
pub fn number<'s>(input: &mut &'s str) -> (r: PResult<u64, SemverParseError<&'s str>>)
    ensures match r { Ok(o) => number_acc(*old(input), o, *final(input)), Err(_) => number_rej(*old(input)) }
{
    broadcast use winnow_defs, grammar_defs;
    broadcast use ax_parse_u64_digits;
    proof { lemma_span_props(input@, |c: char| dg_char(c)); }
    #[allow(suspicious_double_ref_op)]
    let copied = input.clone();

    Parser::try_map(Parser::take(digit1), |raw: &'s str| -> (r: Result<u64, SemverParseError<&'s str>>)
        ensures match r { Ok(v) => v <= MAX_SAFE_INTEGER && parse_spec::<u64>(raw@) == Some(v), Err(_) => parse_spec::<u64>(raw@) matches Some(v) ==> v > MAX_SAFE_INTEGER }
    {
        let value = str::parse(raw).map_err(|e| SemverParseError {
            input: copied,
            context: None,
            kind: Some(SemverErrorKind::ParseIntError(e)),
        })?;

        if value > MAX_SAFE_INTEGER {
            return Err(SemverParseError {
                input: copied,
                context: None,
                kind: Some(SemverErrorKind::MaxIntError(value)),
            });
        }

        Ok(value)
    })
    .context("number component")
    .parse_next(input)
}
}
pub struct SemverError { pub kind: SemverErrorKind }
#[verifier::external_body]
pub fn verif_semver_error() -> SemverError { unimplemented!() }
pub open spec fn too_long(s: &str) -> bool { (s.spec_bytes().len() as usize) > MAX_LENGTH }
pub open spec fn ref_parse(s: Seq<char>) -> Option<VSpec> {
    match g_version(s) { Some((v, rest)) => if all_blank(rest) { Some(v) } else { None }, None => None }
}
pub mod vg_parse {
use super::*;
use super::twins::*;
impl Version {
    pub fn parse_str<'s>(text: &'s str) -> (r: Result<Version, SemverError>)
        ensures
            match r {
                Ok(v) => !too_long(text) && (ref_parse(text@) matches Some(s) && version_is(v, s)),
                Err(_) => too_long(text) || ref_parse(text@) is None,
            },
    {
        broadcast use winnow_defs, grammar_defs;
        proof { match g_version(text@) { Some((_, rest)) => { lemma_all_blank(rest); }, None => {} } }
        let mut input = text;

        if input.len() > MAX_LENGTH {
            return Err(verif_semver_error());
        }

        match terminated(version, (space0, eof)).parse_next(&mut input) {
            Ok(arg) => Ok(arg),
            Err(err) => Err(match err {
                ErrMode::Backtrack(e) | ErrMode::Cut(e) => verif_semver_error(),
                ErrMode::Incomplete(_) => verif_semver_error(),
            }),
        }
    }
}
}
pub open spec fn ex_a() -> Seq<char> { seq!['1', '.', '2', '.', '3', '.', '4'] }
pub proof fn lemma_c05_examples()
    ensures
        ref_parse(ex_a()) is None,
{
    assert(ref_parse(ex_a()) is None) by (compute);
}
