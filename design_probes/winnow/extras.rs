pub enum Extras {
    Build(Vec<Identifier>),
    Release(Vec<Identifier>),
    ReleaseAndBuild((Vec<Identifier>, Vec<Identifier>)),
}
pub open spec fn extras_vals(e: Option<Extras>, r: (Vec<Identifier>, Vec<Identifier>)) -> bool {
    match e {
        Some(Extras::Release(p)) => r.0 == p && r.1@.len() == 0,
        Some(Extras::Build(b)) => r.0@.len() == 0 && r.1 == b,
        Some(Extras::ReleaseAndBuild(pb)) => r == pb,
        None => r.0@.len() == 0 && r.1@.len() == 0,
    }
}
impl Extras {
    fn values(self) -> (r: (Vec<Identifier>, Vec<Identifier>))
        ensures extras_vals(Some(self), r),
    {
        use Extras::*;
        match self {
            Release(ident) => (ident, Vec::new()),
            Build(ident) => (Vec::new(), ident),
            ReleaseAndBuild(ident) => ident,
        }
    }
}
