pub fn number_dbg<'s>(input: &mut &'s str) -> (r: PResult<u64, SemverParseError<&'s str>>)
{
    broadcast use winnow_tokens;
    let copied = input.clone();
    let mut p = Parser::try_map(Parser::take(digit1), |raw: &'s str| -> (r: Result<u64, SemverParseError<&'s str>>)
    {
        let value = str::parse(raw).map_err(|e| SemverParseError {
            input: copied,
            context: None,
            kind: Some(SemverErrorKind::ParseIntError(e)),
        })?;

        if value > MAX_SAFE_INTEGER {
            return Err(SemverParseError {
                input: copied,
                context: None,
                kind: Some(SemverErrorKind::MaxIntError(value)),
            });
        }

        Ok(value)
    });
    assert(p.p.p.pre(*input));
    assert(p.p.pre(*input));
    assert(forall|o: &'s str| call_requires(p.g, (o,)));
    assert(p.pre(*input));
    let mut q = p.context("number component");
    assert(q.pre(*input));
    q.parse_next(input)
}
