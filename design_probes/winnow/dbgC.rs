pub fn number_dbg<'s>(input: &mut &'s str) -> (r: PResult<u64, SemverParseError<&'s str>>)
{
    broadcast use winnow_tokens;
 proof { lemma_span_props(input@, |c: char| dg_char(c)); }
    let copied = input.clone();
    Parser::try_map(Parser::take(digit1), |raw: &'s str| -> (r: Result<u64, SemverParseError<&'s str>>)
    {
        let value = str::parse(raw).map_err(|e| SemverParseError {
            input: copied,
            context: None,
            kind: Some(SemverErrorKind::ParseIntError(e)),
        })?;

        if value > MAX_SAFE_INTEGER {
            return Err(SemverParseError {
                input: copied,
                context: None,
                kind: Some(SemverErrorKind::MaxIntError(value)),
            });
        }

        Ok(value)
    }).context("number component").parse_next(input)
}
