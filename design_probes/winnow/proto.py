#!/usr/bin/env python3
# prototype assembler: grammar functions of src/lib.rs under the winnow shim (twin structure)
import re,sys
sys.path.insert(0,'/verif/tools')
from xtract import *
LIB=Source('/repo/src/lib.rs','src/lib.rs')
E="SemverParseError<&'s str>"
FN={}
def fn(name, O, acc, rej, rewrites=(), entry='', closures=()):
    FN[name]=dict(O=O,acc=acc,rej=rej,rewrites=rewrites,entry=entry)
fn('number','u64','g_number(i@) == Some((o as nat, rest@))','g_number(i@) is None',
   rewrites=[("|raw| {", "|raw: &'s str| -> (r: Result<u64, SemverParseError<&'s str>>)\n        ensures match r { Ok(v) => v <= MAX_SAFE_INTEGER && parse_spec::<u64>(raw@) == Some(v), Err(_) => parse_spec::<u64>(raw@) matches Some(v) ==> v > MAX_SAFE_INTEGER }\n    {")],
   entry='broadcast use ax_parse_u64_digits;\n    proof { lemma_span_props(input@, |c: char| dg_char(c)); }')
fn('version_core','(u64, u64, u64)','g_core(i@) == Some(((o.0 as nat, o.1 as nat, o.2 as nat), rest@))','g_core(i@) is None',
   rewrites=[("|(major, _, minor, _, patch)| (major, minor, patch)", "|arg: (u64, &'s str, u64, &'s str, u64)| -> (r: (u64, u64, u64)) ensures r == (arg.0, arg.2, arg.4) { let (major, _, minor, _, patch) = arg; (major, minor, patch) }")],
   entry='proof { reveal_strlit("."); assert("."@ =~= s1(\'.\')); lemma_prefix1(\'.\'); }')
fn('identifier','Identifier','g_ident(i@) matches Some((s, r)) && ident_is(o, s) && r == rest@','g_ident(i@) is None',
   rewrites=[("|x: char| AsChar::is_alphanum(x) || x == '-'", "|x: char| -> (b: bool) ensures b == id_char(x) { AsChar::is_alphanum(x) || x == '-' }"),
             ("|s: &str| {", "|s: &str| -> (r: Identifier) requires s@.len() > 0, all_id_chars(s@) ensures ident_is(r, classify(s@)) {\n            broadcast use ax_parse_u64_digits, ax_parse_u64_nondigit;"),
             ('.map(Identifier::Numeric)', '.map(|n: u64| -> (i: Identifier) ensures i == Identifier::Numeric(n) { Identifier::Numeric(n) })'),
             ('.unwrap_or_else(|_err| Identifier::AlphaNumeric(s.to_string()))', '.unwrap_or_else(|_err: std::num::ParseIntError| -> (i: Identifier) ensures i matches Identifier::AlphaNumeric(t) && t@ == s@ { Identifier::AlphaNumeric(s.to_string()) })')],
   entry='proof { lemma_span_props(input@, |c: char| id_char(c)); }')
fn('build','Vec<Identifier>','g_build(i@) matches Some((s, r)) && idents_are(o@, s) && r == rest@','g_build(i@) is None', entry='@B')
fn('pre_release','Vec<Identifier>','g_pre(i@) matches Some((s, r)) && idents_are(o@, s) && r == rest@','g_pre(i@) is None', entry='@P')
fn('extras','(Vec<Identifier>, Vec<Identifier>)','idents_are(o.0@, g_extras(i@).0.0) && idents_are(o.1@, g_extras(i@).0.1) && rest@ == g_extras(i@).1','false',
   rewrites=[('Extras::ReleaseAndBuild)', '|x: (Vec<Identifier>, Vec<Identifier>)| -> (r: Extras) ensures r == Extras::ReleaseAndBuild(x) { Extras::ReleaseAndBuild(x) })'),
             ('Extras::Release)', '|x: Vec<Identifier>| -> (r: Extras) ensures r == Extras::Release(x) { Extras::Release(x) })'),
             ('Extras::Build)', '|x: Vec<Identifier>| -> (r: Extras) ensures r == Extras::Build(x) { Extras::Build(x) })'),
             ('|extras| match extras {', '|extras: Option<Extras>| -> (r: (Vec<Identifier>, Vec<Identifier>)) ensures extras_vals(extras, r) { match extras {'),
             ('            _ => Default::default(),\n        },', '            _ => Default::default(),\n        } },')])
fn('version','Version','g_version(i@) matches Some((s, r)) && version_is(o, s) && r == rest@','g_version(i@) is None',
   rewrites=[('|(_, _, (major, minor, patch), (pre_release, build))| Version {', "|arg: (Option<&'s str>, &'s str, (u64, u64, u64), (Vec<Identifier>, Vec<Identifier>))| -> (r: Version) ensures r.major == arg.2.0, r.minor == arg.2.1, r.patch == arg.2.2, r.pre_release == arg.3.0, r.build == arg.3.1 { let (_, _, (major, minor, patch), (pre_release, build)) = arg; Version {"),
             ('                build,\n            },', '                build,\n            } },')],
   entry='@V')

SEP_HINT = """let ghost lit = Literal { t: "." };
    proof {
        assert(is_ident_parser::<SemverParseError<&'s str>, _>(identifier));
        assert(is_dot_parser::<SemverParseError<&'s str>, Literal>(lit));
        assert forall|i: &'s str, out: Seq<Identifier>, rest: &'s str| out.len() >= 1 && #[trigger] sep_all::<&'s str, Identifier, &'s str, SemverParseError<&'s str>, _, Literal>(identifier, lit, i, out, rest) implies (g_idents(i@) matches Some((x, r)) && idents_are(out, x) && r == rest@) by {
            lemma_sep_all_idents::<SemverParseError<&'s str>, _, Literal>(identifier, lit, i, out, rest);
        }
    }"""
def lits(*cs): return 'proof { ' + ' '.join('reveal_strlit("%s"); assert("%s"@ =~= s1(\'%s\')); lemma_prefix1(\'%s\');' % (c, c, c, c) for c in cs) + ' }\n    '
def sig(name): return "pub fn %s<'s>(input: &mut &'s str) -> (r: PResult<%s, %s>)" % (name, FN[name]['O'], E)
out=[]
tw=['pub mod twins {\nuse super::*;']
for n,d in FN.items():
    O=d['O']
    tw.append("pub open spec fn %s_acc<'s>(i: &'s str, o: %s, rest: &'s str) -> bool { %s }"%(n,O,d['acc']))
    tw.append("pub open spec fn %s_rej<'s>(i: &'s str) -> bool { %s }"%(n,d['rej']))
    q="Parser::<&'s str, %s, %s>"%(O,E)
    tw.append("pub broadcast axiom fn def_%s_acc<'s>(i: &'s str, o: %s, rest: &'s str)\n    ensures #[trigger] %s::accepts(&%s, i, o, rest) <==> %s_acc(i, o, rest);"%(n,O,q,n,n))
    tw.append("pub broadcast axiom fn def_%s_rej<'s>(i: &'s str)\n    ensures #[trigger] %s::rejects(&%s, i) <==> %s_rej(i);"%(n,q,n,n))
    tw.append("pub broadcast axiom fn def_%s_pre<'s>(i: &'s str)\n    ensures #[trigger] %s::pre(&%s, i);"%(n,q,n))
    tw.append("#[verifier::external_body]\n%s\n    ensures match r { Ok(o) => %s_acc(*old(input), o, *final(input)), Err(_) => %s_rej(*old(input)) }\n{ unimplemented!() }"%(sig(n),n,n))
tw.append('pub broadcast group grammar_defs { %s }'%', '.join('def_%s_%s'%(n,k) for n in FN for k in ('acc','rej','pre')))
tw.append('}')
out.append('\n'.join(tw))
only=sys.argv[1:] 
for n,d in FN.items():
    if only and n not in only: continue
    f=top_fn(LIB,n)
    t=f.verbatim if hasattr(f,'verbatim') else f.text
    b=t[t.index('{'):]
    for a,bb in d['rewrites']:
        if a not in b: print('REWRITE ANCHOR LOST',n,a,file=sys.stderr)
        b=b.replace(a,bb)
    ent=d['entry']
    if ent=='@B': ent=lits('.','+')+SEP_HINT
    if ent=='@V': ent=lits('v','V')
    if ent=='@P': ent=lits('.','-')+SEP_HINT
    b='{\n    broadcast use winnow_defs, grammar_defs;\n    '+ent+b[1:]
    out.append("pub mod vg_%s {\nuse super::*;\nuse super::twins::*;\n%s\n    ensures match r { Ok(o) => %s_acc(*old(input), o, *final(input)), Err(_) => %s_rej(*old(input)) }\n%s\n}"%(n,sig(n),n,n,b))
open('body3.rs','w').write(open('extras.rs').read()+'\n'.join(out)+'\n')
