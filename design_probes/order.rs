// ---------- spec: generic lexicographic order ----------
pub open spec fn ord_flip(o: Ordering) -> Ordering {
    match o { Ordering::Less => Ordering::Greater, Ordering::Equal => Ordering::Equal, Ordering::Greater => Ordering::Less }
}

/// `f` is a lawful total order (as a three-way comparison) on T
pub open spec fn total_order<T>(f: spec_fn(T, T) -> Ordering) -> bool {
    &&& forall|a: T| #[trigger] f(a, a) == Ordering::Equal
    &&& forall|a: T, b: T| #[trigger] f(a, b) == ord_flip(f(b, a))
    &&& forall|a: T, b: T, c: T| f(a, b) == Ordering::Less && f(b, c) == Ordering::Less ==> #[trigger] f(a, b) == #[trigger] f(a, c) 
    &&& forall|a: T, b: T, c: T| #[trigger] f(a, b) == Ordering::Equal ==> #[trigger] f(a, c) == f(b, c)
}

pub open spec fn lex<T>(f: spec_fn(T, T) -> Ordering, a: Seq<T>, b: Seq<T>) -> Ordering
    decreases a.len()
{
    if a.len() == 0 && b.len() == 0 { Ordering::Equal }
    else if a.len() == 0 { Ordering::Less }
    else if b.len() == 0 { Ordering::Greater }
    else if f(a[0], b[0]) != Ordering::Equal { f(a[0], b[0]) }
    else { lex(f, a.drop_first(), b.drop_first()) }
}
