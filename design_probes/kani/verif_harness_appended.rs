// ---- appended by the verification harness (scratch copy only) ----
#[cfg(any(kani, test))]
mod verif_harness {
    use super::*;

    /// source of small values: kani::any under CBMC, recorded bytes under native replay
    pub trait Source {
        fn byte(&mut self, below: u8) -> u8;
    }
    #[cfg(kani)]
    pub struct KaniSource;
    #[cfg(kani)]
    impl Source for KaniSource {
        fn byte(&mut self, below: u8) -> u8 {
            let b: u8 = kani::any();
            kani::assume(b < below);
            b
        }
    }
    pub struct ReplaySource(pub Vec<u8>, pub usize);
    impl Source for ReplaySource {
        fn byte(&mut self, below: u8) -> u8 {
            let b = self.0[self.1];
            self.1 += 1;
            assert!(b < below);
            b
        }
    }

    fn version<S: Source>(s: &mut S) -> Version {
        let (major, minor, patch) = (s.byte(3), s.byte(3), s.byte(3));
        let has_pre = s.byte(2) == 1;
        let pre = s.byte(3);
        Version {
            major: major as u64,
            minor: minor as u64,
            patch: patch as u64,
            build: Vec::new(),
            pre_release: if has_pre { vec![Identifier::Numeric(pre as u64)] } else { Vec::new() },
        }
    }
    fn predicate<S: Source>(s: &mut S) -> Predicate {
        match s.byte(3) {
            0 => Predicate::Unbounded,
            1 => Predicate::Including(version(s)),
            _ => Predicate::Excluding(version(s)),
        }
    }
    fn bound<S: Source>(s: &mut S) -> Bound {
        if s.byte(2) == 1 { Bound::Lower(predicate(s)) } else { Bound::Upper(predicate(s)) }
    }

    /// obligation class `bound_order`: antisymmetry of Bound::cmp
    pub fn check_bound_cmp_antisym<S: Source>(s: &mut S) -> Result<(), String> {
        let a = bound(s);
        let b = bound(s);
        let ab = a.cmp(&b);
        let ba = b.cmp(&a);
        if ab == ba.reverse() { Ok(()) } else { Err(format!("a={:?} b={:?} a.cmp(b)={:?} b.cmp(a)={:?}", a, b, ab, ba)) }
    }

    #[cfg(kani)]
    #[kani::proof]
    #[kani::unwind(3)]
    fn kani_bound_cmp_antisym() {
        let mut s = KaniSource;
        let a = bound(&mut s);
        let b = bound(&mut s);
        assert!(a.cmp(&b) == b.cmp(&a).reverse());
    }

    #[cfg(test)]
    #[test]
    fn replay() {
        let bytes: Vec<u8> = std::env::var("VERIF_REPLAY_BYTES").unwrap().split(',').map(|x| x.trim().parse().unwrap()).collect();
        let mut s = ReplaySource(bytes, 0);
        match check_bound_cmp_antisym(&mut s) {
            Ok(()) => println!("REPLAY: property holds on this input"),
            Err(e) => { println!("REPLAY-VIOLATION: {}", e); panic!("violation reproduced on the real code") }
        }
    }
}
