#![allow(unused_imports)]
use vstd::prelude::*;
use vstd::std_specs::cmp::*;
use std::cmp::Ordering;
verus! {
pub struct V { pub x: u64 }
impl PartialEqSpecImpl for V { open spec fn obeys_eq_spec() -> bool { true } open spec fn eq_spec(&self, o: &Self) -> bool { self.x == o.x } }
impl PartialOrdSpecImpl for V { open spec fn obeys_partial_cmp_spec() -> bool { true } open spec fn partial_cmp_spec(&self, o: &Self) -> Option<Ordering> { Some(ic(self.x, o.x)) } }
impl OrdSpecImpl for V { open spec fn obeys_cmp_spec() -> bool { true } open spec fn cmp_spec(&self, o: &Self) -> Ordering { ic(self.x, o.x) } }
pub open spec fn ic(a: u64, b: u64) -> Ordering { if a < b { Ordering::Less } else if a == b { Ordering::Equal } else { Ordering::Greater } }
impl PartialEq for V { fn eq(&self, o: &Self) -> bool { self.x == o.x } }
impl Eq for V {}
impl PartialOrd for V { fn partial_cmp(&self, o: &Self) -> Option<Ordering> { Some(self.cmp(o)) } }
impl Ord for V { fn cmp(&self, o: &Self) -> Ordering { self.x.cmp(&o.x) } }

pub struct Rg { pub lo: u64 }
impl Rg {
    fn satisfies(&self, v: &V) -> (r: bool) ensures r == (v.x >= self.lo) { v.x >= self.lo }

    // std contract (trusted): slice.iter().filter(p).max() = last maximal element among those p accepts
    #[verifier::external_body]
    fn std_iter_filter_max<'v, F: Fn(&&'v V) -> bool>(versions: &'v [V], f: F) -> (r: Option<&'v V>)
        requires forall|i: int| 0 <= i < versions@.len() ==> call_requires(f, (&&versions@[i],)),
        ensures selected(versions@, answers(versions@, f), r),
                forall|j: int| 0 <= j < versions@.len() ==> call_ensures(f, (&&#[trigger] versions@[j],), answers(versions@, f)[j]),
    { versions.iter().filter(f).max() }

    pub fn max_satisfying<'v>(&self, versions: &'v [V]) -> (r: Option<&'v V>)
        ensures r matches Some(m) ==> m.x >= self.lo && (exists|k: int| 0 <= k < versions@.len() && *m == #[trigger] versions@[k]) && forall|j: int| 0 <= j < versions@.len() && (#[trigger] versions@[j]).x >= self.lo ==> versions@[j].x <= m.x,
                r is None ==> forall|j: int| 0 <= j < versions@.len() ==> (#[trigger] versions@[j]).x < self.lo,
    {
        Self::std_iter_filter_max(versions, |v: &&V| -> (b: bool) ensures b == (v.x >= self.lo) { self.satisfies(v) })
    }
}
pub uninterp spec fn answers<F>(s: Seq<V>, f: F) -> Seq<bool>;
/// bs[j] = what the predicate answered on element j; r = last maximal selected element
pub open spec fn selected(s: Seq<V>, bs: Seq<bool>, r: Option<&V>) -> bool {
    &&& bs.len() == s.len()
    &&& (r matches Some(m) ==> exists|k: int| 0 <= k < s.len() && *m == #[trigger] s[k] && bs[k]
            && (forall|j: int| 0 <= j < s.len() && bs[j] ==> ic((#[trigger] s[j]).x, m.x) != Ordering::Greater))
    &&& (r is None ==> forall|j: int| #![trigger s[j]] 0 <= j < s.len() ==> !bs[j])
}
}
fn main(){}
