    requires wf_partial(parsed),
    ensures
        parsed.major is None && parsed.minor is None && parsed.patch is None && parsed.pre_release@.len() == 0 ==> shape_ok_c(r, npm_caret_c(parsed)),  // caret#N.N.N
        parsed.major is None && parsed.minor is None && parsed.patch is None && parsed.pre_release@.len() > 0 ==> shape_ok_c(r, npm_caret_c(parsed)),  // caret#N.N.N+pre
        parsed.major is None && parsed.minor is None && parsed.patch is Some && parsed.pre_release@.len() == 0 ==> shape_ok_c(r, npm_caret_c(parsed)),  // caret#N.N.S
        parsed.major is None && parsed.minor is None && parsed.patch is Some && parsed.pre_release@.len() > 0 ==> shape_ok_c(r, npm_caret_c(parsed)),  // caret#N.N.S+pre
        parsed.major is None && parsed.minor is Some && parsed.patch is None && parsed.pre_release@.len() == 0 ==> shape_ok_c(r, npm_caret_c(parsed)),  // caret#N.S.N
        parsed.major is None && parsed.minor is Some && parsed.patch is None && parsed.pre_release@.len() > 0 ==> shape_ok_c(r, npm_caret_c(parsed)),  // caret#N.S.N+pre
        parsed.major is None && parsed.minor is Some && parsed.patch is Some && parsed.pre_release@.len() == 0 ==> shape_ok_c(r, npm_caret_c(parsed)),  // caret#N.S.S
        parsed.major is None && parsed.minor is Some && parsed.patch is Some && parsed.pre_release@.len() > 0 ==> shape_ok_c(r, npm_caret_c(parsed)),  // caret#N.S.S+pre
        parsed.major is Some && parsed.minor is None && parsed.patch is None && parsed.pre_release@.len() == 0 && pM(parsed) == 0 ==> shape_ok_c(r, npm_caret_c(parsed)),  // caret#0:S.N.N
        parsed.major is Some && parsed.minor is None && parsed.patch is None && parsed.pre_release@.len() == 0 && pM(parsed) != 0 ==> shape_ok_c(r, npm_caret_c(parsed)),  // caret#+:S.N.N
        parsed.major is Some && parsed.minor is None && parsed.patch is None && parsed.pre_release@.len() > 0 && pM(parsed) == 0 ==> shape_ok_c(r, npm_caret_c(parsed)),  // caret#0:S.N.N+pre
        parsed.major is Some && parsed.minor is None && parsed.patch is None && parsed.pre_release@.len() > 0 && pM(parsed) != 0 ==> shape_ok_c(r, npm_caret_c(parsed)),  // caret#+:S.N.N+pre
        parsed.major is Some && parsed.minor is None && parsed.patch is Some && parsed.pre_release@.len() == 0 && pM(parsed) == 0 ==> shape_ok_c(r, npm_caret_c(parsed)),  // caret#0:S.N.S
        parsed.major is Some && parsed.minor is None && parsed.patch is Some && parsed.pre_release@.len() == 0 && pM(parsed) != 0 ==> shape_ok_c(r, npm_caret_c(parsed)),  // caret#+:S.N.S
        parsed.major is Some && parsed.minor is None && parsed.patch is Some && parsed.pre_release@.len() > 0 && pM(parsed) == 0 ==> shape_ok_c(r, npm_caret_c(parsed)),  // caret#0:S.N.S+pre
        parsed.major is Some && parsed.minor is None && parsed.patch is Some && parsed.pre_release@.len() > 0 && pM(parsed) != 0 ==> shape_ok_c(r, npm_caret_c(parsed)),  // caret#+:S.N.S+pre
        parsed.major is Some && parsed.minor is Some && parsed.patch is None && parsed.pre_release@.len() == 0 && pM(parsed) == 0 ==> shape_ok_c(r, npm_caret_c(parsed)),  // caret#0:S.S.N
        parsed.major is Some && parsed.minor is Some && parsed.patch is None && parsed.pre_release@.len() == 0 && pM(parsed) != 0 ==> shape_ok_c(r, npm_caret_c(parsed)),  // caret#+:S.S.N
        parsed.major is Some && parsed.minor is Some && parsed.patch is None && parsed.pre_release@.len() > 0 && pM(parsed) == 0 ==> shape_ok_c(r, npm_caret_c(parsed)),  // caret#0:S.S.N+pre
        parsed.major is Some && parsed.minor is Some && parsed.patch is None && parsed.pre_release@.len() > 0 && pM(parsed) != 0 ==> shape_ok_c(r, npm_caret_c(parsed)),  // caret#+:S.S.N+pre
        parsed.major is Some && parsed.minor is Some && parsed.patch is Some && parsed.pre_release@.len() == 0 && pM(parsed) == 0 ==> shape_ok_c(r, npm_caret_c(parsed)),  // caret#0:S.S.S
        parsed.major is Some && parsed.minor is Some && parsed.patch is Some && parsed.pre_release@.len() == 0 && pM(parsed) != 0 ==> shape_ok_c(r, npm_caret_c(parsed)),  // caret#+:S.S.S
        parsed.major is Some && parsed.minor is Some && parsed.patch is Some && parsed.pre_release@.len() > 0 && pM(parsed) == 0 ==> shape_ok_c(r, npm_caret_c(parsed)),  // caret#0:S.S.S+pre
        parsed.major is Some && parsed.minor is Some && parsed.patch is Some && parsed.pre_release@.len() > 0 && pM(parsed) != 0 ==> shape_ok_c(r, npm_caret_c(parsed)),  // caret#+:S.S.S+pre
