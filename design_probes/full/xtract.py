"""prototype extractor library (design probe)"""
import re,os
R=os.environ.get('REPO','/repo')
LIB=open(R+'/src/lib.rs').read(); RNG=open(R+'/src/range.rs').read()
class AnchorLost(Exception): pass

def match_brace(s,i):
    depth=0; n=len(s)
    while i<n:
        c=s[i]
        if s.startswith('//',i): i=s.index('\n',i); continue
        if s.startswith('/*',i): i=s.index('*/',i)+2; continue
        if c=='"':
            i+=1
            while s[i]!='"':
                if s[i]=='\\': i+=1
                i+=1
            i+=1; continue
        if c=="'":
            m=re.match(r"'(\\.|[^\\'])'",s[i:])
            if m: i+=m.end(); continue
        if c=='{': depth+=1
        elif c=='}':
            depth-=1
            if depth==0: return i+1
        i+=1
    raise AnchorLost('unbalanced braces')

def item(src,header_re):
    m=re.search(header_re,src,re.M)
    if not m: raise AnchorLost(header_re)
    start=m.start()
    lines_before=src[:start].split('\n'); k=len(lines_before)-1; j=k-1
    while j>=0 and re.match(r'\s*(#\[|///|/\*\*|\*/|[A-Za-z`].*$)',lines_before[j]) and lines_before[j].strip()!='' and not lines_before[j].rstrip().endswith('}') and not lines_before[j].rstrip().endswith(';'): j-=1
    pre=[l for l in lines_before[j+1:k] if l.strip().startswith('#[') and 'doc' not in l]
    ob=src.index('{',m.end()-1); sc=src.find(';',m.end()-1)
    if sc!=-1 and sc<ob: end=sc+1
    else: end=match_brace(src,ob)
    return '\n'.join(pre+[src[start:end]])

def impl_body(src,impl_re):
    m=re.search(impl_re,src,re.M)
    if not m: raise AnchorLost(impl_re)
    ob=src.index('{',m.end()-1); end=match_brace(src,ob)
    return src[ob:end]

def fn_in(body,fn_name):
    fm=re.search(r'^\s*(pub(\(crate\))? )?fn '+fn_name+r'\b',body,re.M)
    if not fm: raise AnchorLost('fn '+fn_name)
    fob=body.index('{',fm.end()); fend=match_brace(body,fob)
    t=body[fm.start():fend]
    # drop doc-include attributes (R7)
    return t

def fn_in_impl(src,impl_re,fn_name): return fn_in(impl_body(src,impl_re),fn_name)

def closure_match(src, fn_header_re, marker):
    body=impl_body(src,fn_header_re)
    i=body.index(marker); j=body.index('match',i); k=body.index('{',j); e=match_brace(body,k)
    return body[j:e]

def strip_derive(text, drop=('Hash','Clone')):
    def f(m):
        items=[x.strip() for x in m.group(1).split(',') if x.strip() and x.strip() not in drop]
        return '#[derive('+', '.join(items)+')]' if items else ''
    return re.sub(r'#\[derive\(([^)]*)\)\]',f,text)

def clone_impl(ty):
    return f"impl Clone for {ty} {{\n    #[verifier::external_body]\n    fn clone(&self) -> (r: Self) ensures r == *self {{ unimplemented!() }}\n}}\n"

def pubify(t):
    t=re.sub(r'^(enum|struct) ',r'pub \1 ',t,flags=re.M)
    t=re.sub(r'^(\s+)([a-z_]+): ',r'\1pub \2: ',t,flags=re.M)
    t=re.sub(r'^pub struct (\w+)\((\w)',r'pub struct \1(pub \2',t,flags=re.M)
    return t

def r1_split_or_guard(text):
    pat=re.compile(r'(\n\s*)(\([^\n]*\))\n\s*\| (\([^\n]*\))\n(\s*if [^\n]*=>)\n(\s*\{\n\s*None\n\s*\})')
    return pat.sub(lambda m: f'{m.group(1)}{m.group(2)}\n{m.group(4)}\n{m.group(5)}{m.group(1)}{m.group(3)}\n{m.group(4)}\n{m.group(5)}',text)

def inject(fn_text, ret=None, contract='', entry='', loops=(), closures=(), after=(), loop_entry=(), loop_end=(), before=()):
    """ret: name for return value; contract: requires/ensures text; entry: ghost text at body start;
    loops: list of (ordinal, itname, invariant text); closures: list of (exact closure text, replacement);
    after: list of (snippet, ghost text); loop_entry/loop_end: list of (ordinal, ghost text)"""
    ob=fn_text.index('{')
    head=fn_text[:ob]; body=fn_text[ob:]
    if ret:
        head=re.sub(r'->\s*(.+?)\s*$', lambda m: '-> ('+ret+': '+m.group(1)+')\n', head.rstrip()+' ')
    # loops: find `for PAT in EXPR {` occurrences in order
    pos=[m for m in re.finditer(r'\bfor (\w+) in ([^{\n]+?) \{',body)]
    edits=[]
    for (ordinal,itname,inv) in loops:
        if ordinal>=len(pos): raise AnchorLost('loop %d'%ordinal)
        m=pos[ordinal]
        edits.append((m.start(),m.end(),f'for {m.group(1)} in {itname}: {m.group(2)}\n    invariant {inv}\n{{'))
    for (ordinal,txt) in loop_entry:
        m=pos[ordinal]; edits.append((m.end(),m.end(),'\n'+txt+'\n'))
    for (ordinal,txt) in loop_end:
        m=pos[ordinal]; ob2=m.end()-1; e=match_brace(body,ob2)
        # R8: a unit tail expression of the loop body gets a `;` so that ghost code can follow it
        k=e-2
        while body[k] in ' \n\t': k-=1
        semi='' if body[k] in ';}{' else ';'
        edits.append((e-1,e-1,semi+'\n'+txt+'\n'))
    # merge loop header + entry edits at same position: sort by start desc, apply
    edits.sort(key=lambda x:(x[0],x[1]),reverse=True)
    for (a,b,t) in edits: body=body[:a]+t+body[b:]
    for (old,new) in closures:
        if old not in body: raise AnchorLost('closure '+old)
        body=body.replace(old,new)
    for (snip,ghost) in before:
        if snip not in body: raise AnchorLost('snippet '+snip)
        body=body.replace(snip,ghost+'\n'+snip,1)
    for (snip,ghost) in after:
        if snip not in body: raise AnchorLost('snippet '+snip)
        body=body.replace(snip,snip+'\n'+ghost+'\n',1)
    if entry: body='{\n'+entry+'\n'+body[1:]
    return head+contract+'\n'+body
