// ===================== proof side: a comparator list is the fold of `intersect` (C02) =====================
/// postcondition of BoundSet::intersect as a relation
pub open spec fn binter_post(a: BoundSet, b: BoundSet, r: Option<BoundSet>) -> bool {
    &&& (r is Some) <==> boverlap(a, b)
    &&& r matches Some(x) ==> bs_wf(x)
            && *x.lower == (if bound_cmp(*a.lower, *b.lower) == Ordering::Greater { *a.lower } else { *b.lower })
            && *x.upper == (if bound_cmp(*a.upper, *b.upper) == Ordering::Greater { *b.upper } else { *a.upper })
            && forall|v: VKey| #![trigger within(x, v)] (within(x, v) <==> (within(a, v) && within(b, v)))
}
/// A9': `rest.try_fold(first, |acc, bs| acc.intersect(&bs))` — left fold that stops at the first `None`
pub open spec fn folded(first: BoundSet, rest: Seq<BoundSet>, r: Option<BoundSet>) -> bool
    decreases rest.len()
{
    if rest.len() == 0 { r == Some(first) }
    else { exists|mid: Option<BoundSet>| #[trigger] binter_post(first, rest[0], mid) && match mid { Some(m) => folded(m, rest.drop_first(), r), None => r is None } }
}
pub open spec fn flat(css: Seq<Seq<KCmp>>) -> Seq<KCmp> decreases css.len()
{ if css.len() == 0 { Seq::empty() } else { css[0] + flat(css.drop_first()) } }

pub proof fn lemma_set_ok_empty_right(a: Seq<KCmp>, b: Seq<KCmp>, v: VKey)
    requires !set_ok(a, v) ensures !set_ok(a + b, v)
{ lemma_set_ok_concat(a, b, v); }

pub proof fn lemma_fold_is_intersection(first: BoundSet, c0: Seq<KCmp>, rest: Seq<BoundSet>, css: Seq<Seq<KCmp>>, r: Option<BoundSet>)
    requires bs_wf(first), repr(first, c0), css.len() == rest.len(), folded(first, rest, r),
        forall|i: int| 0 <= i < rest.len() ==> bs_wf(#[trigger] rest[i]) && repr(rest[i], css[i]),
    ensures
        r matches Some(b) ==> bs_wf(b) && repr(b, c0 + flat(css)),
        r is None ==> forall|v: VKey| wfk(v) ==> !#[trigger] set_ok(c0 + flat(css), v),
    decreases rest.len()
{
    if rest.len() == 0 {
        assert(flat(css) =~= Seq::<KCmp>::empty());
        assert(c0 + flat(css) =~= c0);
    } else {
        let mid = choose|mid: Option<BoundSet>| #[trigger] binter_post(first, rest[0], mid) && match mid { Some(m) => folded(m, rest.drop_first(), r), None => r is None };
        let tail = css.drop_first();
        assert(flat(css) =~= css[0] + flat(tail));
        assert(c0 + flat(css) =~= (c0 + css[0]) + flat(tail));
        assert(repr(rest[0], css[0]));
        match mid {
            Some(m) => {
                lemma_repr_intersect(first, c0, rest[0], css[0], m);
                assert forall|i: int| 0 <= i < rest.drop_first().len() implies bs_wf(#[trigger] rest.drop_first()[i]) && repr(rest.drop_first()[i], tail[i]) by {
                    assert(rest.drop_first()[i] == rest[i + 1]); assert(tail[i] == css[i + 1]);
                }
                lemma_fold_is_intersection(m, c0 + css[0], rest.drop_first(), tail, r);
            },
            None => {
                lemma_repr_empty_intersect(first, c0, rest[0], css[0]);
                assert forall|v: VKey| wfk(v) implies !#[trigger] set_ok(c0 + flat(css), v) by {
                    assert(!set_ok(c0 + css[0], v));
                    lemma_set_ok_empty_right(c0 + css[0], flat(tail), v);
                }
            },
        }
    }
}
/// order of comparators does not matter: the represented set is a conjunction
pub proof fn lemma_conj_commutes(a: Seq<KCmp>, b: Seq<KCmp>, v: VKey)
    ensures npm_sat(a + b, v) == npm_sat(b + a, v)
{ lemma_set_ok_concat(a, b, v); lemma_set_ok_concat(b, a, v); lemma_set_gate_concat(a, b, v); lemma_set_gate_concat(b, a, v); }
