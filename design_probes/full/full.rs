#![feature(allocator_api)]
#![allow(unused_imports, dead_code, unused_variables, unused_mut)]
use vstd::prelude::*;
use vstd::std_specs::cmp::*;
use std::cmp::{self, Ord, Ordering, PartialOrd};

verus! {

// ===================== trusted std axioms =====================
pub assume_specification<T: ?Sized, A: core::alloc::Allocator>[ <Box<T, A> as AsRef<T>>::as_ref ](b: &Box<T, A>) -> (r: &T)
    ensures r == &**b;

pub assume_specification<T: Ord>[ std::cmp::max ](a: T, b: T) -> (r: T)
    ensures T::obeys_cmp_spec() ==> r == (if a.cmp_spec(&b) == Ordering::Greater { a } else { b });
pub assume_specification<T: Ord>[ std::cmp::min ](a: T, b: T) -> (r: T)
    ensures T::obeys_cmp_spec() ==> r == (if a.cmp_spec(&b) == Ordering::Greater { b } else { a });

pub assume_specification<T: ?Sized + PartialOrd, A: core::alloc::Allocator>[ <Box<T, A> as PartialOrd>::le ](a: &Box<T, A>, b: &Box<T, A>) -> (r: bool)
    ensures T::obeys_partial_cmp_spec() ==> r == (PartialOrdSpec::partial_cmp_spec(&**a, &**b) matches Some(o) && o != Ordering::Greater);
pub assume_specification<T: ?Sized + PartialOrd, A: core::alloc::Allocator>[ <Box<T, A> as PartialOrd>::lt ](a: &Box<T, A>, b: &Box<T, A>) -> (r: bool)
    ensures T::obeys_partial_cmp_spec() ==> r == (PartialOrdSpec::partial_cmp_spec(&**a, &**b) == Some(Ordering::Less));
pub assume_specification<T: ?Sized + PartialEq, A: core::alloc::Allocator>[ <Box<T, A> as PartialEq>::eq ](a: &Box<T, A>, b: &Box<T, A>) -> (r: bool)
    ensures T::obeys_eq_spec() ==> r == PartialEqSpec::eq_spec(&**a, &**b);

// Vec<T>: Ord is lexicographic (std docs)
pub open spec fn vec_lex<T: Ord>(a: Seq<T>, b: Seq<T>) -> Ordering
    decreases a.len()
{
    if a.len() == 0 && b.len() == 0 { Ordering::Equal }
    else if a.len() == 0 { Ordering::Less }
    else if b.len() == 0 { Ordering::Greater }
    else if a[0].cmp_spec(&b[0]) != Ordering::Equal { a[0].cmp_spec(&b[0]) }
    else { vec_lex::<T>(a.drop_first(), b.drop_first()) }
}
pub assume_specification<T: Ord, A: core::alloc::Allocator>[ <Vec<T, A> as Ord>::cmp ](a: &Vec<T, A>, b: &Vec<T, A>) -> (r: Ordering)
    ensures T::obeys_cmp_spec() ==> r == vec_lex::<T>(a@, b@);

// A12: `Ordering == Ordering` is structural equality
pub assume_specification[ <Ordering as PartialEq>::eq ](a: &Ordering, b: &Ordering) -> (r: bool) ensures r == (*a == *b);

#[derive(Debug, Copy, Clone, PartialEq, Eq)]
pub enum VersionDiff {
    Major,
    Minor,
    Patch,
    PreMajor,
    PreMinor,
    PrePatch,
    PreRelease,
}
#[derive(Debug, Hash, PartialEq, Eq, PartialOrd, Ord)]
pub enum Identifier {
    /// An identifier that's solely numbers.
    Numeric(u64),
    /// An identifier with letters and numbers.
    AlphaNumeric(String),
}
impl Clone for Identifier {
    #[verifier::external_body]
    fn clone(&self) -> (r: Self) ensures r == *self { unimplemented!() }
}

#[derive(Debug)]
pub struct Version {
    pub major: u64,
    pub minor: u64,
    pub patch: u64,
    pub build: Vec<Identifier>,
    pub pre_release: Vec<Identifier>,
}
impl Clone for Version {
    #[verifier::external_body]
    fn clone(&self) -> (r: Self) ensures r == *self { unimplemented!() }
}

#[derive(Debug, Eq, PartialEq)]
pub enum Predicate {
    Excluding(Version), // < and >
    Including(Version), // <= and >=
    Unbounded,          // *
}
impl Clone for Predicate {
    #[verifier::external_body]
    fn clone(&self) -> (r: Self) ensures r == *self { unimplemented!() }
}

#[derive(Debug, Eq, PartialEq)]
pub enum Bound {
    Lower(Predicate),
    Upper(Predicate),
}
impl Clone for Bound {
    #[verifier::external_body]
    fn clone(&self) -> (r: Self) ensures r == *self { unimplemented!() }
}

#[derive(Debug, Eq, PartialEq)]
pub struct BoundSet {
    pub upper: Box<Bound>,
    pub lower: Box<Bound>,
}
impl Clone for BoundSet {
    #[verifier::external_body]
    fn clone(&self) -> (r: Self) ensures r == *self { unimplemented!() }
}

#[derive(Debug, Eq, PartialEq)]
pub struct Range(pub Vec<BoundSet>);
impl Clone for Range {
    #[verifier::external_body]
    fn clone(&self) -> (r: Self) ensures r == *self { unimplemented!() }
}

// ===================== spec: SemVer 2.0.0 section 11 precedence =====================
pub open spec fn flip(o: Ordering) -> Ordering {
    match o { Ordering::Less => Ordering::Greater, Ordering::Equal => Ordering::Equal, Ordering::Greater => Ordering::Less }
}
pub open spec fn int_cmp(a: int, b: int) -> Ordering {
    if a < b { Ordering::Less } else if a == b { Ordering::Equal } else { Ordering::Greater }
}
// Rust: String Ord is lexicographic by bytes == by code points (UTF-8 is order preserving); ASCII order on [0-9A-Za-z-]
pub open spec fn str_cmp(a: Seq<char>, b: Seq<char>) -> Ordering
    decreases a.len()
{
    if a.len() == 0 && b.len() == 0 { Ordering::Equal }
    else if a.len() == 0 { Ordering::Less }
    else if b.len() == 0 { Ordering::Greater }
    else if a[0] != b[0] { int_cmp(a[0] as int, b[0] as int) }
    else { str_cmp(a.drop_first(), b.drop_first()) }
}
pub open spec fn ident_cmp(a: Identifier, b: Identifier) -> Ordering {
    match (a, b) {
        (Identifier::Numeric(x), Identifier::Numeric(y)) => int_cmp(x as int, y as int),
        (Identifier::Numeric(_), Identifier::AlphaNumeric(_)) => Ordering::Less,
        (Identifier::AlphaNumeric(_), Identifier::Numeric(_)) => Ordering::Greater,
        (Identifier::AlphaNumeric(x), Identifier::AlphaNumeric(y)) => str_cmp(x@, y@),
    }
}
pub open spec fn pre_cmp(a: Seq<Identifier>, b: Seq<Identifier>) -> Ordering
    decreases a.len()
{
    if a.len() == 0 && b.len() == 0 { Ordering::Equal }
    else if a.len() == 0 { Ordering::Less }
    else if b.len() == 0 { Ordering::Greater }
    else if ident_cmp(a[0], b[0]) != Ordering::Equal { ident_cmp(a[0], b[0]) }
    else { pre_cmp(a.drop_first(), b.drop_first()) }
}
pub struct VKey { pub major: int, pub minor: int, pub patch: int, pub pre: Seq<Identifier> }
pub open spec fn key(v: Version) -> VKey { VKey { major: v.major as int, minor: v.minor as int, patch: v.patch as int, pre: v.pre_release@ } }
pub open spec fn kcmp(a: VKey, b: VKey) -> Ordering {
    if a.major != b.major { int_cmp(a.major, b.major) }
    else if a.minor != b.minor { int_cmp(a.minor, b.minor) }
    else if a.patch != b.patch { int_cmp(a.patch, b.patch) }
    else if a.pre.len() == 0 && b.pre.len() == 0 { Ordering::Equal }
    else if a.pre.len() == 0 { Ordering::Greater }
    else if b.pre.len() == 0 { Ordering::Less }
    else { pre_cmp(a.pre, b.pre) }
}
pub open spec fn ver_cmp(a: Version, b: Version) -> Ordering { kcmp(key(a), key(b)) }
pub open spec fn klt(a: VKey, b: VKey) -> bool { kcmp(a, b) == Ordering::Less }
pub open spec fn kle(a: VKey, b: VKey) -> bool { kcmp(a, b) != Ordering::Greater }
pub open spec fn keq(a: VKey, b: VKey) -> bool { kcmp(a, b) == Ordering::Equal }
// ---- lemmas: total order ----
pub proof fn lemma_str_refl(a: Seq<char>) ensures str_cmp(a, a) == Ordering::Equal decreases a.len()
{ if a.len() > 0 { lemma_str_refl(a.drop_first()); } }
pub proof fn lemma_str_flip(a: Seq<char>, b: Seq<char>) ensures str_cmp(a, b) == flip(str_cmp(b, a)) decreases a.len()
{ if a.len() > 0 && b.len() > 0 { lemma_str_flip(a.drop_first(), b.drop_first()); } }
pub proof fn lemma_str_eq(a: Seq<char>, b: Seq<char>) ensures (str_cmp(a, b) == Ordering::Equal) <==> a =~= b decreases a.len()
{
    if a.len() > 0 && b.len() > 0 {
        lemma_str_eq(a.drop_first(), b.drop_first());
        assert(a =~= seq![a[0]] + a.drop_first());
        assert(b =~= seq![b[0]] + b.drop_first());
    }
}
pub proof fn lemma_str_trans(a: Seq<char>, b: Seq<char>, c: Seq<char>)
    requires str_cmp(a, b) != Ordering::Greater, str_cmp(b, c) != Ordering::Greater
    ensures str_cmp(a, c) != Ordering::Greater,
            (str_cmp(a, b) == Ordering::Less || str_cmp(b, c) == Ordering::Less) ==> str_cmp(a, c) == Ordering::Less
    decreases a.len()
{
    if a.len() > 0 && b.len() > 0 && c.len() > 0 && a[0] == b[0] && b[0] == c[0] {
        lemma_str_trans(a.drop_first(), b.drop_first(), c.drop_first());
    }
}
pub proof fn lemma_ident_flip(a: Identifier, b: Identifier) ensures ident_cmp(a, b) == flip(ident_cmp(b, a))
{ match (a, b) { (Identifier::AlphaNumeric(x), Identifier::AlphaNumeric(y)) => lemma_str_flip(x@, y@), _ => {} } }
pub proof fn lemma_ident_refl(a: Identifier) ensures ident_cmp(a, a) == Ordering::Equal
{ match a { Identifier::AlphaNumeric(x) => lemma_str_refl(x@), _ => {} } }
pub proof fn lemma_ident_trans(a: Identifier, b: Identifier, c: Identifier)
    requires ident_cmp(a, b) != Ordering::Greater, ident_cmp(b, c) != Ordering::Greater
    ensures ident_cmp(a, c) != Ordering::Greater,
            (ident_cmp(a, b) == Ordering::Less || ident_cmp(b, c) == Ordering::Less) ==> ident_cmp(a, c) == Ordering::Less
{
    match (a, b, c) {
        (Identifier::AlphaNumeric(x), Identifier::AlphaNumeric(y), Identifier::AlphaNumeric(z)) => lemma_str_trans(x@, y@, z@),
        _ => {}
    }
}
pub proof fn lemma_pre_refl(a: Seq<Identifier>) ensures pre_cmp(a, a) == Ordering::Equal decreases a.len()
{ if a.len() > 0 { lemma_ident_refl(a[0]); lemma_pre_refl(a.drop_first()); } }
pub proof fn lemma_pre_flip(a: Seq<Identifier>, b: Seq<Identifier>) ensures pre_cmp(a, b) == flip(pre_cmp(b, a)) decreases a.len()
{ if a.len() > 0 && b.len() > 0 { lemma_ident_flip(a[0], b[0]); lemma_pre_flip(a.drop_first(), b.drop_first()); } }
pub proof fn lemma_pre_trans(a: Seq<Identifier>, b: Seq<Identifier>, c: Seq<Identifier>)
    requires pre_cmp(a, b) != Ordering::Greater, pre_cmp(b, c) != Ordering::Greater
    ensures pre_cmp(a, c) != Ordering::Greater,
            (pre_cmp(a, b) == Ordering::Less || pre_cmp(b, c) == Ordering::Less) ==> pre_cmp(a, c) == Ordering::Less
    decreases a.len()
{
    if a.len() > 0 && b.len() > 0 && c.len() > 0 {
        lemma_ident_trans(a[0], b[0], c[0]);
        lemma_ident_flip(a[0], b[0]); lemma_ident_flip(b[0], c[0]); lemma_ident_flip(a[0], c[0]);
        if ident_cmp(a[0], b[0]) == Ordering::Equal && ident_cmp(b[0], c[0]) == Ordering::Equal {
            lemma_pre_trans(a.drop_first(), b.drop_first(), c.drop_first());
        } else {
            if ident_cmp(a[0], b[0]) == Ordering::Equal { lemma_ident_trans(b[0], a[0], c[0]); }
            if ident_cmp(b[0], c[0]) == Ordering::Equal { lemma_ident_trans(a[0], c[0], b[0]); }
        }
    }
}

pub broadcast proof fn lemma_k_refl(a: VKey) ensures #[trigger] kcmp(a, a) == Ordering::Equal
{ lemma_pre_refl(a.pre); }
pub broadcast proof fn lemma_k_flip(a: VKey, b: VKey) ensures #[trigger] kcmp(a, b) == flip(kcmp(b, a))
{ lemma_pre_flip(a.pre, b.pre); }
pub broadcast proof fn lemma_k_trans(a: VKey, b: VKey, c: VKey)
    requires #[trigger] kcmp(a, b) != Ordering::Greater, #[trigger] kcmp(b, c) != Ordering::Greater
    ensures kcmp(a, c) != Ordering::Greater,
            (kcmp(a, b) == Ordering::Less || kcmp(b, c) == Ordering::Less) ==> kcmp(a, c) == Ordering::Less
{
    if a.pre.len() > 0 && b.pre.len() > 0 && c.pre.len() > 0 {
        if a.major == b.major && b.major == c.major && a.minor == b.minor && b.minor == c.minor && a.patch == b.patch && b.patch == c.patch {
            lemma_pre_trans(a.pre, b.pre, c.pre);
        }
    }
}
pub broadcast group group_k_order { lemma_k_refl, lemma_k_flip, lemma_k_trans }
// ===================== spec: bounds as cuts in the version order =====================


impl PartialEqSpecImpl for Identifier { open spec fn obeys_eq_spec() -> bool { true } open spec fn eq_spec(&self, other: &Self) -> bool { ident_cmp(*self, *other) == Ordering::Equal } }
impl PartialOrdSpecImpl for Identifier { open spec fn obeys_partial_cmp_spec() -> bool { true } open spec fn partial_cmp_spec(&self, other: &Self) -> Option<Ordering> { Some(ident_cmp(*self, *other)) } }
impl OrdSpecImpl for Identifier { open spec fn obeys_cmp_spec() -> bool { true } open spec fn cmp_spec(&self, other: &Self) -> Ordering { ident_cmp(*self, *other) } }
impl PartialEqSpecImpl for Version { open spec fn obeys_eq_spec() -> bool { true } open spec fn eq_spec(&self, other: &Self) -> bool { ver_cmp(*self, *other) == Ordering::Equal } }
impl PartialOrdSpecImpl for Version { open spec fn obeys_partial_cmp_spec() -> bool { true } open spec fn partial_cmp_spec(&self, other: &Self) -> Option<Ordering> { Some(ver_cmp(*self, *other)) } }
impl OrdSpecImpl for Version { open spec fn obeys_cmp_spec() -> bool { true } open spec fn cmp_spec(&self, other: &Self) -> Ordering { ver_cmp(*self, *other) } }
pub proof fn lemma_vec_lex_is_pre_cmp(a: Seq<Identifier>, b: Seq<Identifier>)
    ensures vec_lex::<Identifier>(a, b) == pre_cmp(a, b) decreases a.len()
{ if a.len() > 0 && b.len() > 0 { lemma_vec_lex_is_pre_cmp(a.drop_first(), b.drop_first()); } }
pub proof fn lemma_pre_eq(a: Seq<Identifier>, b: Seq<Identifier>)
    ensures (pre_cmp(a, b) == Ordering::Equal) <==> (a.len() == b.len() && forall|i: int| 0 <= i < a.len() ==> ident_cmp(#[trigger] a[i], b[i]) == Ordering::Equal)
    decreases a.len()
{
    if a.len() > 0 && b.len() > 0 {
        lemma_pre_eq(a.drop_first(), b.drop_first());
        if pre_cmp(a, b) == Ordering::Equal {
            assert forall|i: int| 0 <= i < a.len() implies ident_cmp(#[trigger] a[i], b[i]) == Ordering::Equal by {
                if i > 0 { assert(a[i] == a.drop_first()[i-1]); assert(b[i] == b.drop_first()[i-1]); }
            }
        } else if a.len() == b.len() && ident_cmp(a[0], b[0]) == Ordering::Equal {
            assert(!(forall|i: int| 0 <= i < a.drop_first().len() ==> ident_cmp(#[trigger] a.drop_first()[i], b.drop_first()[i]) == Ordering::Equal));
            let j = choose|j: int| 0 <= j < a.drop_first().len() && ident_cmp(#[trigger] a.drop_first()[j], b.drop_first()[j]) != Ordering::Equal;
            assert(a[j+1] == a.drop_first()[j]); assert(b[j+1] == b.drop_first()[j]);
        }
    }
}

impl Eq for Version {}
impl PartialEq for Version {
    fn eq(&self, other: &Self) -> bool 
{
proof { lemma_pre_eq(self.pre_release@, other.pre_release@); }

        self.major == other.major
            && self.minor == other.minor
            && self.patch == other.patch
            && self.pre_release == other.pre_release
    }
}
impl cmp::PartialOrd for Version {
    fn partial_cmp(&self, other: &Version) -> Option<Ordering> {
        Some(self.cmp(other))
    }
}
impl cmp::Ord for Version {
    fn cmp(&self, other: &Version) -> cmp::Ordering 
{
proof { lemma_vec_lex_is_pre_cmp(self.pre_release@, other.pre_release@); }

        match self.major.cmp(&other.major) {
            Ordering::Equal => {}
            //if difference in major version, just return result
            order_result => return order_result,
        }

        match self.minor.cmp(&other.minor) {
            Ordering::Equal => {}
            //if difference in minor version, just return result
            order_result => return order_result,
        }

        match self.patch.cmp(&other.patch) {
            Ordering::Equal => {}
            //if difference in patch version, just return result
            order_result => return order_result,
        }

        match (self.pre_release.len(), other.pre_release.len()) {
            //if no pre_release string, they're equal
            (0, 0) => Ordering::Equal,
            //if other has a pre-release string, but this doesn't, this one is greater
            (0, _) => Ordering::Greater,
            //if this one has a pre-release string, but other doesn't this one is less than
            (_, 0) => Ordering::Less,
            // if both have pre_release strings, compare the strings and return the result
            (_, _) => self.pre_release.cmp(&other.pre_release),
        }
    }
}
impl Version {
    pub fn is_prerelease(&self) -> (r: bool)
    ensures r == (self.pre_release@.len() > 0)
{
        !self.pre_release.is_empty()
    }
}
// ===================== spec: node-semver 7.6.2 functions/diff.js =====================
pub open spec fn diff_spec(a: VKey, b: VKey) -> Option<VersionDiff> {
    let c = kcmp(a, b);
    if c == Ordering::Equal { None } else {
        let hi = if c == Ordering::Greater { a } else { b };
        let lo = if c == Ordering::Greater { b } else { a };
        let hi_pre = hi.pre.len() > 0;
        let lo_pre = lo.pre.len() > 0;
        if lo_pre && !hi_pre {
            // going from a prerelease to a release: the documented special cases
            if lo.patch == 0 && lo.minor == 0 { Some(VersionDiff::Major) }
            else if hi.patch != 0 { Some(VersionDiff::Patch) }
            else if hi.minor != 0 { Some(VersionDiff::Minor) }
            else { Some(VersionDiff::Major) }
        } else if a.major != b.major { Some(if hi_pre { VersionDiff::PreMajor } else { VersionDiff::Major }) }
        else if a.minor != b.minor { Some(if hi_pre { VersionDiff::PreMinor } else { VersionDiff::Minor }) }
        else if a.patch != b.patch { Some(if hi_pre { VersionDiff::PrePatch } else { VersionDiff::Patch }) }
        else { Some(VersionDiff::PreRelease) }
    }
}
pub proof fn lemma_diff_symmetric(a: VKey, b: VKey) ensures diff_spec(a, b) == diff_spec(b, a)
{ broadcast use group_k_order; }
pub proof fn lemma_diff_none_iff_equal(a: VKey, b: VKey) ensures diff_spec(a, b) is None <==> kcmp(a, b) == Ordering::Equal
{}
/// `prerelease` exactly when only the tags differ and both are prereleases
pub proof fn lemma_diff_prerelease(a: VKey, b: VKey)
    ensures diff_spec(a, b) == Some(VersionDiff::PreRelease) <==> (same_tuple(a, b) && a.pre.len() > 0 && b.pre.len() > 0 && kcmp(a, b) != Ordering::Equal)
{ broadcast use group_k_order; }

impl Version {
    pub fn diff(&self, other: &Self) -> (r: Option<VersionDiff>)
    ensures r == diff_spec(key(*self), key(*other)),
{
broadcast use group_k_order;

        let cmp_result = self.cmp(other);

        if cmp_result == Ordering::Equal {
            return None;
        }

        let self_higher = cmp_result == Ordering::Greater;
        let high_version = if self_higher { self } else { other };
        let low_version = if self_higher { other } else { self };
        let high_has_pre = high_version.is_prerelease();
        let low_has_pre = low_version.is_prerelease();

        if low_has_pre && !high_has_pre {
            // Going from prerelease -> no prerelease requires some special casing

            // If the low version has only a major, then it will always be a major
            // Some examples:
            // 1.0.0-1 -> 1.0.0
            // 1.0.0-1 -> 1.1.1
            // 1.0.0-1 -> 2.0.0
            if low_version.patch == 0 && low_version.minor == 0 {
                return Some(VersionDiff::Major);
            }

            // Otherwise it can be determined by checking the high version
            if high_version.patch != 0 {
                // anything higher than a patch bump would result in the wrong version
                return Some(VersionDiff::Patch);
            }

            if high_version.minor != 0 {
                // anything higher than a minor bump would result in the wrong version
                return Some(VersionDiff::Minor);
            }

            // bumping major/minor/patch all have same result
            return Some(VersionDiff::Major);
        }

        if self.major != other.major {
            if high_has_pre {
                return Some(VersionDiff::PreMajor);
            }

            return Some(VersionDiff::Major);
        }

        if self.minor != other.minor {
            if high_has_pre {
                return Some(VersionDiff::PreMinor);
            }

            return Some(VersionDiff::Minor);
        }

        if self.patch != other.patch {
            if high_has_pre {
                return Some(VersionDiff::PrePatch);
            }

            return Some(VersionDiff::Patch);
        }

        // high and low are preleases
        Some(VersionDiff::PreRelease)
    }
}

pub enum Tok { U64(u64), VecKey(int) }
pub uninterp spec fn fed<H>(h: &H) -> Seq<Tok>;
/// Eq-class representative of an identifier list as far as Hash/Eq are concerned (derived Hash/Eq on Identifier agree: trusted)
pub uninterp spec fn vec_hash_key<T>(s: Seq<T>) -> int;
/// std: `k1 == k2 ==> hash(k1) == hash(k2)` for Vec<T> when it holds for T; derived Hash/Eq on Identifier agree (trusted)
pub axiom fn axiom_idents_key(a: Seq<Identifier>, b: Seq<Identifier>)
    requires pre_cmp(a, b) == Ordering::Equal
    ensures vec_hash_key(a) == vec_hash_key(b);
pub assume_specification<H: std::hash::Hasher>[ <u64 as std::hash::Hash>::hash::<H> ](x: &u64, state: &mut H)
    ensures fed(final(state)) == fed(old(state)).push(Tok::U64(*x));
pub assume_specification<T: std::hash::Hash, A: core::alloc::Allocator, H: std::hash::Hasher>[ <Vec<T, A> as std::hash::Hash>::hash::<H> ](x: &Vec<T, A>, state: &mut H)
    ensures fed(final(state)) == fed(old(state)).push(Tok::VecKey(vec_hash_key(x@)));
pub open spec fn hash_feed(k: VKey) -> Seq<Tok> { seq![Tok::U64(k.major as u64), Tok::U64(k.minor as u64), Tok::U64(k.patch as u64), Tok::VecKey(vec_hash_key(k.pre))] }
pub proof fn lemma_eq_same_feed(a: Version, b: Version)
    requires ver_cmp(a, b) == Ordering::Equal
    ensures hash_feed(key(a)) == hash_feed(key(b))
{ if a.pre_release@.len() > 0 && b.pre_release@.len() > 0 { axiom_idents_key(a.pre_release@, b.pre_release@); } else { assert(a.pre_release@ =~= b.pre_release@); } }

impl std::hash::Hash for Version {
    fn hash<H: std::hash::Hasher>(&self, state: &mut H)     ensures fed(final(state)) == fed(old(state)) + hash_feed(key(*self)),
{
        self.major.hash(state);
        self.minor.hash(state);
        self.patch.hash(state);
        self.pre_release.hash(state);
    }
}
pub enum Cut { NegInf, At(VKey, bool), PosInf }   // At(v, after): false = just before v, true = just after v

pub open spec fn cut_of(b: Bound) -> Cut {
    match b {
        Bound::Lower(Predicate::Unbounded) => Cut::NegInf,
        Bound::Upper(Predicate::Unbounded) => Cut::PosInf,
        Bound::Lower(Predicate::Including(v)) => Cut::At(key(v), false),
        Bound::Lower(Predicate::Excluding(v)) => Cut::At(key(v), true),
        Bound::Upper(Predicate::Including(v)) => Cut::At(key(v), true),
        Bound::Upper(Predicate::Excluding(v)) => Cut::At(key(v), false),
    }
}
#[verifier::opaque]
pub open spec fn cut_cmp(a: Cut, b: Cut) -> Ordering {
    match (a, b) {
        (Cut::NegInf, Cut::NegInf) => Ordering::Equal,
        (Cut::PosInf, Cut::PosInf) => Ordering::Equal,
        (Cut::NegInf, _) => Ordering::Less,
        (_, Cut::PosInf) => Ordering::Less,
        (Cut::PosInf, _) => Ordering::Greater,
        (_, Cut::NegInf) => Ordering::Greater,
        (Cut::At(v, s), Cut::At(w, t)) =>
            if kcmp(v, w) != Ordering::Equal { kcmp(v, w) }
            else if s == t { Ordering::Equal } else if !s { Ordering::Less } else { Ordering::Greater },
    }
}
pub open spec fn is_lower(b: Bound) -> bool { b is Lower }
pub open spec fn is_upper(b: Bound) -> bool { b is Upper }

/// canonical total order on bounds: by cut; at equal cuts an Upper sorts before a Lower
pub open spec fn bound_cmp(a: Bound, b: Bound) -> Ordering {
    let c = cut_cmp(cut_of(a), cut_of(b));
    if c != Ordering::Equal { c }
    else if is_lower(a) == is_lower(b) { Ordering::Equal }
    else if is_upper(a) { Ordering::Less } else { Ordering::Greater }
}
/// v lies above the cut / below the cut
pub open spec fn above(c: Cut, v: VKey) -> bool {
    match c { Cut::NegInf => true, Cut::PosInf => false, Cut::At(w, after) => if after { klt(w, v) } else { kle(w, v) } }
}
pub open spec fn below(c: Cut, v: VKey) -> bool {
    match c { Cut::PosInf => true, Cut::NegInf => false, Cut::At(w, after) => if after { kle(v, w) } else { klt(v, w) } }
}
pub open spec fn bs_wf(bs: BoundSet) -> bool {
    is_lower(*bs.lower) && is_upper(*bs.upper) && cut_cmp(cut_of(*bs.lower), cut_of(*bs.upper)) == Ordering::Less
}
pub open spec fn within(bs: BoundSet, v: VKey) -> bool {
    above(cut_of(*bs.lower), v) && below(cut_of(*bs.upper), v)
}
pub open spec fn same_tuple(a: VKey, b: VKey) -> bool { a.major == b.major && a.minor == b.minor && a.patch == b.patch }
pub open spec fn bound_version(b: Bound) -> Option<Version> {
    match b {
        Bound::Lower(Predicate::Including(v)) | Bound::Lower(Predicate::Excluding(v))
        | Bound::Upper(Predicate::Including(v)) | Bound::Upper(Predicate::Excluding(v)) => Some(v),
        _ => None,
    }
}
pub open spec fn optin(b: Bound, v: VKey) -> bool {
    bound_version(b) matches Some(w) && w.pre_release@.len() > 0 && same_tuple(key(w), v)
}
/// npm: a prerelease only satisfies a comparator set if some comparator carries a prerelease on the same tuple
pub open spec fn gate(bs: BoundSet, v: VKey) -> bool {
    v.pre.len() == 0 || optin(*bs.lower, v) || optin(*bs.upper, v)
}
pub open spec fn sat(bs: BoundSet, v: VKey) -> bool { within(bs, v) && gate(bs, v) }


// derived PartialEq on Predicate / Bound / BoundSet: structural, with Version::eq at the leaves (trusted derive semantics)
pub open spec fn pred_eq(a: Predicate, b: Predicate) -> bool {
    match (a, b) {
        (Predicate::Excluding(v), Predicate::Excluding(w)) => keq(key(v), key(w)),
        (Predicate::Including(v), Predicate::Including(w)) => keq(key(v), key(w)),
        (Predicate::Unbounded, Predicate::Unbounded) => true,
        _ => false,
    }
}
pub open spec fn bound_eq(a: Bound, b: Bound) -> bool {
    match (a, b) {
        (Bound::Lower(p), Bound::Lower(q)) => pred_eq(p, q),
        (Bound::Upper(p), Bound::Upper(q)) => pred_eq(p, q),
        _ => false,
    }
}

// ---- lemmas about cuts ----
pub proof fn lemma_cut_mono_above(c: Cut, d: Cut, v: VKey)
    requires cut_cmp(c, d) != Ordering::Greater, above(d, v)
    ensures above(c, v)
{ reveal(cut_cmp); broadcast use group_k_order; }
pub proof fn lemma_cut_mono_below(c: Cut, d: Cut, v: VKey)
    requires cut_cmp(c, d) != Ordering::Greater, below(c, v)
    ensures below(d, v)
{ reveal(cut_cmp); broadcast use group_k_order; }
pub proof fn lemma_cut_between(c: Cut, d: Cut, v: VKey)
    requires above(c, v), below(d, v)
    ensures cut_cmp(c, d) == Ordering::Less
{ reveal(cut_cmp); broadcast use group_k_order; }
/// v is either below or above any cut, never both
pub proof fn lemma_cut_side(c: Cut, v: VKey)
    ensures above(c, v) != below(c, v)
{ broadcast use group_k_order; }
pub proof fn lemma_cut_refl(c: Cut) ensures cut_cmp(c, c) == Ordering::Equal
{ reveal(cut_cmp); broadcast use group_k_order; }
pub proof fn lemma_cut_total(c: Cut, d: Cut)
    ensures cut_cmp(c, d) == flip(cut_cmp(d, c))
{ reveal(cut_cmp); broadcast use group_k_order; }
pub proof fn lemma_cut_trans(c: Cut, d: Cut, e: Cut)
    ensures (cut_cmp(c, d) != Ordering::Greater && cut_cmp(d, e) != Ordering::Greater) ==> cut_cmp(c, e) != Ordering::Greater,
        (cut_cmp(c, d) != Ordering::Greater && cut_cmp(d, e) != Ordering::Greater && (cut_cmp(c, d) == Ordering::Less || cut_cmp(d, e) == Ordering::Less)) ==> cut_cmp(c, e) == Ordering::Less,
        (cut_cmp(c, d) == Ordering::Equal && cut_cmp(d, e) == Ordering::Equal) ==> cut_cmp(c, e) == Ordering::Equal,
{ reveal(cut_cmp); broadcast use group_k_order; }
pub proof fn lemma_cut_eq_congr(c: Cut, d: Cut, e: Cut)
    requires cut_cmp(c, d) == Ordering::Equal
    ensures cut_cmp(c, e) == cut_cmp(d, e), cut_cmp(e, c) == cut_cmp(e, d)
{ reveal(cut_cmp); broadcast use group_k_order; }
pub proof fn lemma_cut_inf(c: Cut)
    ensures cut_cmp(c, Cut::NegInf) != Ordering::Less, cut_cmp(Cut::PosInf, c) != Ordering::Less,
            (c != Cut::NegInf) ==> cut_cmp(Cut::NegInf, c) == Ordering::Less, (c != Cut::PosInf) ==> cut_cmp(c, Cut::PosInf) == Ordering::Less
{ reveal(cut_cmp); }
/// all order facts among four cuts
pub proof fn lemma_cut4(a: Cut, b: Cut, c: Cut, d: Cut)
    ensures
        cut_cmp(a, a) == Ordering::Equal, cut_cmp(b, b) == Ordering::Equal, cut_cmp(c, c) == Ordering::Equal, cut_cmp(d, d) == Ordering::Equal,
        cut_cmp(a, b) == flip(cut_cmp(b, a)), cut_cmp(a, c) == flip(cut_cmp(c, a)), cut_cmp(a, d) == flip(cut_cmp(d, a)),
        cut_cmp(b, c) == flip(cut_cmp(c, b)), cut_cmp(b, d) == flip(cut_cmp(d, b)), cut_cmp(c, d) == flip(cut_cmp(d, c)),
        forall|x: Cut, y: Cut, z: Cut| #![trigger cut_cmp(x, y), cut_cmp(y, z)]
            (x == a || x == b || x == c || x == d) && (y == a || y == b || y == c || y == d) && (z == a || z == b || z == c || z == d) ==> {
                &&& (cut_cmp(x, y) != Ordering::Greater && cut_cmp(y, z) != Ordering::Greater) ==> cut_cmp(x, z) != Ordering::Greater
                &&& (cut_cmp(x, y) != Ordering::Greater && cut_cmp(y, z) != Ordering::Greater && (cut_cmp(x, y) == Ordering::Less || cut_cmp(y, z) == Ordering::Less)) ==> cut_cmp(x, z) == Ordering::Less
            },
{
    lemma_cut_refl(a); lemma_cut_refl(b); lemma_cut_refl(c); lemma_cut_refl(d);
    lemma_cut_total(a, b); lemma_cut_total(a, c); lemma_cut_total(a, d); lemma_cut_total(b, c); lemma_cut_total(b, d); lemma_cut_total(c, d);
    assert forall|x: Cut, y: Cut, z: Cut| #![trigger cut_cmp(x, y), cut_cmp(y, z)]
            (x == a || x == b || x == c || x == d) && (y == a || y == b || y == c || y == d) && (z == a || z == b || z == c || z == d) implies {
                &&& (cut_cmp(x, y) != Ordering::Greater && cut_cmp(y, z) != Ordering::Greater) ==> cut_cmp(x, z) != Ordering::Greater
                &&& (cut_cmp(x, y) != Ordering::Greater && cut_cmp(y, z) != Ordering::Greater && (cut_cmp(x, y) == Ordering::Less || cut_cmp(y, z) == Ordering::Less)) ==> cut_cmp(x, z) == Ordering::Less
            } by { lemma_cut_trans(x, y, z); }
}
/// derived equality of bounds implies equal cuts and same kind
pub proof fn lemma_bound_eq_cut(a: Bound, b: Bound)
    ensures bound_eq(a, b) <==> (cut_cmp(cut_of(a), cut_of(b)) == Ordering::Equal && is_lower(a) == is_lower(b))
{ reveal(cut_cmp); broadcast use group_k_order; }
pub open spec fn boverlap(a: BoundSet, b: BoundSet) -> bool {
    cut_cmp(cut_of(*a.lower), cut_of(*b.upper)) == Ordering::Less && cut_cmp(cut_of(*b.lower), cut_of(*a.upper)) == Ordering::Less
}
pub open spec fn ballows_all(a: BoundSet, b: BoundSet) -> bool {
    cut_cmp(cut_of(*a.lower), cut_of(*b.lower)) != Ordering::Greater && cut_cmp(cut_of(*b.upper), cut_of(*a.upper)) != Ordering::Greater
}
pub proof fn lemma_boverlap_none(a: BoundSet, b: BoundSet, v: VKey)
    requires !boverlap(a, b)
    ensures !(within(a, v) && within(b, v))
{
    if within(a, v) && within(b, v) {
        lemma_cut_between(cut_of(*a.lower), cut_of(*b.upper), v);
        lemma_cut_between(cut_of(*b.lower), cut_of(*a.upper), v);
    }
}
pub proof fn lemma_ballows_all(a: BoundSet, b: BoundSet, v: VKey)
    requires ballows_all(a, b), within(b, v)
    ensures within(a, v)
{
    lemma_cut_mono_above(cut_of(*a.lower), cut_of(*b.lower), v);
    lemma_cut_mono_below(cut_of(*b.upper), cut_of(*a.upper), v);
}

impl PartialEqSpecImpl for Predicate {
    open spec fn obeys_eq_spec() -> bool { true }
    open spec fn eq_spec(&self, other: &Self) -> bool { pred_eq(*self, *other) }
}
impl PartialEqSpecImpl for Bound {
    open spec fn obeys_eq_spec() -> bool { true }
    open spec fn eq_spec(&self, other: &Self) -> bool { bound_eq(*self, *other) }
}
impl PartialEqSpecImpl for BoundSet {
    open spec fn obeys_eq_spec() -> bool { true }
    open spec fn eq_spec(&self, other: &Self) -> bool { bound_eq(*self.upper, *other.upper) && bound_eq(*self.lower, *other.lower) }
}
impl PartialOrdSpecImpl for Bound {
    open spec fn obeys_partial_cmp_spec() -> bool { true }
    open spec fn partial_cmp_spec(&self, other: &Self) -> Option<Ordering> { Some(bound_cmp(*self, *other)) }
}
impl OrdSpecImpl for Bound {
    open spec fn obeys_cmp_spec() -> bool { true }
    open spec fn cmp_spec(&self, other: &Self) -> Ordering { bound_cmp(*self, *other) }
}

// ===================== spec: ranges as unions of intervals =====================
pub open spec fn swf(s: Seq<BoundSet>) -> bool { forall|i: int| 0 <= i < s.len() ==> bs_wf(#[trigger] s[i]) }
pub open spec fn rwf(r: Range) -> bool { swf(r.0@) }
/// some interval among the first n contains / is satisfied by k
pub open spec fn any_within(s: Seq<BoundSet>, n: int, k: VKey) -> bool { exists|i: int| 0 <= i < n && i < s.len() && within(#[trigger] s[i], k) }
pub open spec fn any_sat(s: Seq<BoundSet>, n: int, k: VKey) -> bool { exists|i: int| 0 <= i < n && i < s.len() && sat(#[trigger] s[i], k) }
pub open spec fn rwithin(r: Range, k: VKey) -> bool { any_within(r.0@, r.0@.len() as int, k) }
pub open spec fn rsat(r: Range, k: VKey) -> bool { any_sat(r.0@, r.0@.len() as int, k) }

pub broadcast proof fn lemma_any_within_step(s: Seq<BoundSet>, n: int, k: VKey)
    requires 0 <= n < s.len()
    ensures #[trigger] any_within(s, n + 1, k) == (any_within(s, n, k) || within(s[n], k))
{
    if any_within(s, n + 1, k) { let i = choose|i: int| 0 <= i < n + 1 && i < s.len() && within(#[trigger] s[i], k); if i < n { assert(any_within(s, n, k)); } }
    if any_within(s, n, k) { let i = choose|i: int| 0 <= i < n && i < s.len() && within(#[trigger] s[i], k); assert(0 <= i < n + 1); }
    if within(s[n], k) { assert(0 <= n < n + 1 && within(s[n], k)); }
}
pub broadcast proof fn lemma_any_within_zero(s: Seq<BoundSet>, k: VKey) ensures !#[trigger] any_within(s, 0, k) {}
pub broadcast proof fn lemma_any_within_push(s: Seq<BoundSet>, b: BoundSet, k: VKey)
    ensures #[trigger] any_within(s.push(b), s.len() as int + 1, k) == (any_within(s, s.len() as int, k) || within(b, k))
{
    let t = s.push(b);
    if any_within(t, t.len() as int, k) {
        let i = choose|i: int| 0 <= i < t.len() && i < t.len() && within(#[trigger] t[i], k);
        if i < s.len() { assert(t[i] == s[i]); assert(any_within(s, s.len() as int, k)); } else { assert(t[i] == b); }
    }
    if any_within(s, s.len() as int, k) { let i = choose|i: int| 0 <= i < s.len() && i < s.len() && within(#[trigger] s[i], k); assert(t[i] == s[i]); }
    if within(b, k) { assert(t[s.len() as int] == b); }
}
pub broadcast proof fn lemma_any_sat_step(s: Seq<BoundSet>, n: int, k: VKey)
    requires 0 <= n < s.len()
    ensures #[trigger] any_sat(s, n + 1, k) == (any_sat(s, n, k) || sat(s[n], k))
{
    if any_sat(s, n + 1, k) { let i = choose|i: int| 0 <= i < n + 1 && i < s.len() && sat(#[trigger] s[i], k); if i < n { assert(any_sat(s, n, k)); } }
    if any_sat(s, n, k) { let i = choose|i: int| 0 <= i < n && i < s.len() && sat(#[trigger] s[i], k); assert(0 <= i < n + 1); }
    if sat(s[n], k) { assert(0 <= n < n + 1 && sat(s[n], k)); }
}
pub broadcast proof fn lemma_any_sat_zero(s: Seq<BoundSet>, k: VKey) ensures !#[trigger] any_sat(s, 0, k) {}
pub broadcast group g_any { lemma_any_within_step, lemma_any_within_zero, lemma_any_within_push, lemma_any_sat_step, lemma_any_sat_zero }
pub broadcast proof fn lemma_any_within_concat(a: Seq<BoundSet>, b: Seq<BoundSet>, k: VKey)
    ensures #[trigger] any_within(a + b, (a + b).len() as int, k) == (any_within(a, a.len() as int, k) || any_within(b, b.len() as int, k))
{
    let t = a + b;
    if any_within(t, t.len() as int, k) {
        let i = choose|i: int| 0 <= i < t.len() && i < t.len() && within(#[trigger] t[i], k);
        if i < a.len() { assert(t[i] == a[i]); assert(any_within(a, a.len() as int, k)); } else { assert(t[i] == b[i - a.len()]); assert(any_within(b, b.len() as int, k)); }
    }
    if any_within(a, a.len() as int, k) { let i = choose|i: int| 0 <= i < a.len() && i < a.len() && within(#[trigger] a[i], k); assert(t[i] == a[i]); }
    if any_within(b, b.len() as int, k) { let i = choose|i: int| 0 <= i < b.len() && i < b.len() && within(#[trigger] b[i], k); assert(t[i + a.len()] == b[i]); }
}
pub proof fn lemma_swf_concat(a: Seq<BoundSet>, b: Seq<BoundSet>)
    requires swf(a), swf(b) ensures swf(a + b)
{
    assert forall|i: int| 0 <= i < (a + b).len() implies bs_wf(#[trigger] (a + b)[i]) by { if i < a.len() { assert((a + b)[i] == a[i]); } else { assert((a + b)[i] == b[i - a.len()]); } }
}
/// cut-form postcondition of BoundSet::difference
pub open spec fn bdiff_post(a: BoundSet, b: BoundSet, r: Option<Vec<BoundSet>>) -> bool {
    let cl = cut_of(*a.lower); let cu = cut_of(*a.upper); let ol = cut_of(*b.lower); let ou = cut_of(*b.upper);
    let overlap = boverlap(a, b);
    let left = cut_cmp(cl, ol) == Ordering::Less;
    let right = cut_cmp(ou, cu) == Ordering::Less;
    &&& (r is None) <==> (overlap && !left && !right)
    &&& r matches Some(vs) ==> {
        &&& swf(vs@)
        &&& !overlap ==> vs@.len() == 1 && vs@[0] == a
        &&& overlap && left && right ==> vs@.len() == 2 && cut_of(*vs@[0].lower) == cl && cut_of(*vs@[0].upper) == ol && cut_of(*vs@[1].lower) == ou && cut_of(*vs@[1].upper) == cu
        &&& overlap && left && !right ==> vs@.len() == 1 && cut_of(*vs@[0].lower) == cl && cut_of(*vs@[0].upper) == ol
        &&& overlap && !left && right ==> vs@.len() == 1 && cut_of(*vs@[0].lower) == ou && cut_of(*vs@[0].upper) == cu
    }
}
/// pointwise meaning of the cut-form: the pieces are exactly `a` minus `b`
pub proof fn lemma_bdiff_pointwise(a: BoundSet, b: BoundSet, r: Option<Vec<BoundSet>>, v: VKey)
    requires bs_wf(a), bs_wf(b), bdiff_post(a, b, r)
    ensures r is None ==> (within(a, v) ==> within(b, v)),
            r matches Some(vs) ==> (any_within(vs@, vs@.len() as int, v) <==> (within(a, v) && !within(b, v))),
{
    let cl = cut_of(*a.lower); let cu = cut_of(*a.upper); let ol = cut_of(*b.lower); let ou = cut_of(*b.upper);
    lemma_cut4(cl, cu, ol, ou);
    lemma_cut_side(ol, v); lemma_cut_side(ou, v); lemma_cut_side(cl, v); lemma_cut_side(cu, v);
    // above(ol, v) == !below(ol, v): a cut splits the line
    if within(a, v) && !boverlap(a, b) { lemma_boverlap_none(a, b, v); }
    if cut_cmp(cl, ol) != Ordering::Less && above(cl, v) { lemma_cut_mono_above(ol, cl, v); }
    if cut_cmp(ou, cu) != Ordering::Less && below(cu, v) { lemma_cut_mono_below(cu, ou, v); }
    if below(ol, v) && above(ou, v) { }
    match r {
        None => {},
        Some(vs) => {
            let s = vs@;
            if s.len() == 1 { assert(any_within(s, 1, v) == within(s[0], v)) by { lemma_any_within_step(s, 0, v); lemma_any_within_zero(s, v); } }
            if s.len() == 2 { assert(any_within(s, 2, v) == (within(s[0], v) || within(s[1], v))) by { lemma_any_within_step(s, 1, v); lemma_any_within_step(s, 0, v); lemma_any_within_zero(s, v); } }
            // a version below b's lower cut is below b's upper cut, one above b's upper cut is above b's lower cut
            if boverlap(a, b) {
                if below(ol, v) { lemma_cut_mono_below(ol, cu, v); }
                if above(ou, v) { lemma_cut_mono_above(cl, ou, v); }
            }
            if below(ol, v) && above(cl, v) { lemma_cut_between(cl, ol, v); }
            if above(ou, v) && below(cu, v) { lemma_cut_between(ou, cu, v); }
            if below(ol, v) && below(cu, v) { }
        }
    }
}

// ===================== A8: std contract for `slice.iter().filter(p).max()` / `.min()` (Skolemised) =====================
pub uninterp spec fn answers<F>(s: Seq<Version>, f: F) -> Seq<bool>;
/// r is the last maximal element (by the lawful order `ver_cmp`) among the selected ones; None iff none is selected
pub open spec fn is_filter_max(s: Seq<Version>, bs: Seq<bool>, r: Option<&Version>) -> bool {
    &&& bs.len() == s.len()
    &&& (r matches Some(m) ==> exists|k: int| 0 <= k < s.len() && *m == #[trigger] s[k] && bs[k]
            && (forall|j: int| 0 <= j < s.len() && bs[j] ==> ver_cmp(#[trigger] s[j], *m) != Ordering::Greater))
    &&& (r is None ==> forall|j: int| #![trigger s[j]] 0 <= j < s.len() ==> !bs[j])
}
pub open spec fn is_filter_min(s: Seq<Version>, bs: Seq<bool>, r: Option<&Version>) -> bool {
    &&& bs.len() == s.len()
    &&& (r matches Some(m) ==> exists|k: int| 0 <= k < s.len() && *m == #[trigger] s[k] && bs[k]
            && (forall|j: int| 0 <= j < s.len() && bs[j] ==> ver_cmp(#[trigger] s[j], *m) != Ordering::Less))
    &&& (r is None ==> forall|j: int| #![trigger s[j]] 0 <= j < s.len() ==> !bs[j])
}
#[verifier::external_body]
fn verif_std_filter_max<'v, F: Fn(&&'v Version) -> bool>(versions: &'v [Version], f: F) -> (r: Option<&'v Version>)
    requires forall|i: int| 0 <= i < versions@.len() ==> call_requires(f, (&&versions@[i],)),
    ensures is_filter_max(versions@, answers(versions@, f), r),
            forall|j: int| 0 <= j < versions@.len() ==> call_ensures(f, (&&#[trigger] versions@[j],), answers(versions@, f)[j]),
{ versions.iter().filter(f).max() }
#[verifier::external_body]
fn verif_std_filter_min<'v, F: Fn(&&'v Version) -> bool>(versions: &'v [Version], f: F) -> (r: Option<&'v Version>)
    requires forall|i: int| 0 <= i < versions@.len() ==> call_requires(f, (&&versions@[i],)),
    ensures is_filter_min(versions@, answers(versions@, f), r),
            forall|j: int| 0 <= j < versions@.len() ==> call_ensures(f, (&&#[trigger] versions@[j],), answers(versions@, f)[j]),
{ versions.iter().filter(f).min() }

// ===================== proof side: a comparator list is the fold of `intersect` (C02) =====================
/// postcondition of BoundSet::intersect as a relation
pub open spec fn binter_post(a: BoundSet, b: BoundSet, r: Option<BoundSet>) -> bool {
    &&& (r is Some) <==> boverlap(a, b)
    &&& r matches Some(x) ==> bs_wf(x)
            && *x.lower == (if bound_cmp(*a.lower, *b.lower) == Ordering::Greater { *a.lower } else { *b.lower })
            && *x.upper == (if bound_cmp(*a.upper, *b.upper) == Ordering::Greater { *b.upper } else { *a.upper })
            && forall|v: VKey| #![trigger within(x, v)] (within(x, v) <==> (within(a, v) && within(b, v)))
}
/// A9': `rest.try_fold(first, |acc, bs| acc.intersect(&bs))` — left fold that stops at the first `None`
pub open spec fn folded(first: BoundSet, rest: Seq<BoundSet>, r: Option<BoundSet>) -> bool
    decreases rest.len()
{
    if rest.len() == 0 { r == Some(first) }
    else { exists|mid: Option<BoundSet>| #[trigger] binter_post(first, rest[0], mid) && match mid { Some(m) => folded(m, rest.drop_first(), r), None => r is None } }
}
pub open spec fn flat(css: Seq<Seq<KCmp>>) -> Seq<KCmp> decreases css.len()
{ if css.len() == 0 { Seq::empty() } else { css[0] + flat(css.drop_first()) } }

pub proof fn lemma_set_ok_empty_right(a: Seq<KCmp>, b: Seq<KCmp>, v: VKey)
    requires !set_ok(a, v) ensures !set_ok(a + b, v)
{ lemma_set_ok_concat(a, b, v); }

pub proof fn lemma_fold_is_intersection(first: BoundSet, c0: Seq<KCmp>, rest: Seq<BoundSet>, css: Seq<Seq<KCmp>>, r: Option<BoundSet>)
    requires bs_wf(first), repr(first, c0), css.len() == rest.len(), folded(first, rest, r),
        forall|i: int| 0 <= i < rest.len() ==> bs_wf(#[trigger] rest[i]) && repr(rest[i], css[i]),
    ensures
        r matches Some(b) ==> bs_wf(b) && repr(b, c0 + flat(css)),
        r is None ==> forall|v: VKey| wfk(v) ==> !#[trigger] set_ok(c0 + flat(css), v),
    decreases rest.len()
{
    if rest.len() == 0 {
        assert(flat(css) =~= Seq::<KCmp>::empty());
        assert(c0 + flat(css) =~= c0);
    } else {
        let mid = choose|mid: Option<BoundSet>| #[trigger] binter_post(first, rest[0], mid) && match mid { Some(m) => folded(m, rest.drop_first(), r), None => r is None };
        let tail = css.drop_first();
        assert(flat(css) =~= css[0] + flat(tail));
        assert(c0 + flat(css) =~= (c0 + css[0]) + flat(tail));
        assert(repr(rest[0], css[0]));
        match mid {
            Some(m) => {
                lemma_repr_intersect(first, c0, rest[0], css[0], m);
                assert forall|i: int| 0 <= i < rest.drop_first().len() implies bs_wf(#[trigger] rest.drop_first()[i]) && repr(rest.drop_first()[i], tail[i]) by {
                    assert(rest.drop_first()[i] == rest[i + 1]); assert(tail[i] == css[i + 1]);
                }
                lemma_fold_is_intersection(m, c0 + css[0], rest.drop_first(), tail, r);
            },
            None => {
                lemma_repr_empty_intersect(first, c0, rest[0], css[0]);
                assert forall|v: VKey| wfk(v) implies !#[trigger] set_ok(c0 + flat(css), v) by {
                    assert(!set_ok(c0 + css[0], v));
                    lemma_set_ok_empty_right(c0 + css[0], flat(tail), v);
                }
            },
        }
    }
}
/// order of comparators does not matter: the represented set is a conjunction
pub proof fn lemma_conj_commutes(a: Seq<KCmp>, b: Seq<KCmp>, v: VKey)
    ensures npm_sat(a + b, v) == npm_sat(b + a, v)
{ lemma_set_ok_concat(a, b, v); lemma_set_ok_concat(b, a, v); lemma_set_gate_concat(a, b, v); lemma_set_gate_concat(b, a, v); }

#[derive(Debug)]
pub struct Partial {
    pub major: Option<u64>,
    pub minor: Option<u64>,
    pub patch: Option<u64>,
    pub pre_release: Vec<Identifier>,
    pub build: Vec<Identifier>,
}
impl Clone for Partial {
    #[verifier::external_body]
    fn clone(&self) -> (r: Self) ensures r == *self { unimplemented!() }
}

#[derive(Debug, Copy, Clone, Eq, PartialEq)]
pub enum Operation {
    Exact,
    GreaterThan,
    GreaterThanEquals,
    LessThan,
    LessThanEquals,
}
pub const MAX_SAFE_INTEGER: u64 = 900_719_925_474_099;

// ===================== spec: npm comparator sets (node-semver README / range.js, includePrerelease = false) =====================
pub enum Op { Lt, Le, Gt, Ge, Eq }
pub struct KCmp { pub op: Op, pub k: VKey }
pub open spec fn kcmp_ok(c: KCmp, v: VKey) -> bool {
    match c.op { Op::Lt => klt(v, c.k), Op::Le => kle(v, c.k), Op::Gt => klt(c.k, v), Op::Ge => kle(c.k, v), Op::Eq => keq(v, c.k) }
}
pub open spec fn set_ok(cs: Seq<KCmp>, v: VKey) -> bool { forall|i: int| 0 <= i < cs.len() ==> kcmp_ok(#[trigger] cs[i], v) }
pub open spec fn set_gate(cs: Seq<KCmp>, v: VKey) -> bool {
    v.pre.len() == 0 || exists|i: int| 0 <= i < cs.len() && (#[trigger] cs[i]).k.pre.len() > 0 && same_tuple(cs[i].k, v)
}
pub open spec fn npm_sat(cs: Seq<KCmp>, v: VKey) -> bool { set_ok(cs, v) && set_gate(cs, v) }
pub open spec fn wfk(v: VKey) -> bool { 0 <= v.major <= MAX_SAFE_INTEGER && 0 <= v.minor <= MAX_SAFE_INTEGER && 0 <= v.patch <= MAX_SAFE_INTEGER }
/// the interval represents the comparator set: same bounds membership, and same prerelease opt-in inside the bounds
pub open spec fn repr(bs: BoundSet, cs: Seq<KCmp>) -> bool {
    forall|v: VKey| #![trigger within(bs, v)] wfk(v) ==> (within(bs, v) <==> set_ok(cs, v)) && (within(bs, v) ==> (gate(bs, v) <==> set_gate(cs, v)))
}
pub open spec fn s1(a: KCmp) -> Seq<KCmp> { Seq::<KCmp>::empty().push(a) }
pub open spec fn s2(a: KCmp, b: KCmp) -> Seq<KCmp> { Seq::<KCmp>::empty().push(a).push(b) }
pub broadcast proof fn lemma_set0(v: VKey)
    ensures #[trigger] set_ok(Seq::<KCmp>::empty(), v), #[trigger] set_gate(Seq::<KCmp>::empty(), v) == (v.pre.len() == 0)
{}
pub broadcast proof fn lemma_set1(a: KCmp, v: VKey)
    ensures #[trigger] set_ok(s1(a), v) == kcmp_ok(a, v),
            #[trigger] set_gate(s1(a), v) == (v.pre.len() == 0 || (a.k.pre.len() > 0 && same_tuple(a.k, v)))
{
    let s = s1(a);
    assert(s[0] == a);
    if a.k.pre.len() > 0 && same_tuple(a.k, v) { assert(s[0].k.pre.len() > 0 && same_tuple(s[0].k, v)); }
}
pub broadcast proof fn lemma_set2(a: KCmp, b: KCmp, v: VKey)
    ensures #[trigger] set_ok(s2(a, b), v) == (kcmp_ok(a, v) && kcmp_ok(b, v)),
            #[trigger] set_gate(s2(a, b), v) == (v.pre.len() == 0 || (a.k.pre.len() > 0 && same_tuple(a.k, v)) || (b.k.pre.len() > 0 && same_tuple(b.k, v)))
{
    let s = s2(a, b);
    assert(s[0] == a && s[1] == b);
    if a.k.pre.len() > 0 && same_tuple(a.k, v) { assert(s[0].k.pre.len() > 0 && same_tuple(s[0].k, v)); }
    if b.k.pre.len() > 0 && same_tuple(b.k, v) { assert(s[1].k.pre.len() > 0 && same_tuple(s[1].k, v)); }
}
pub broadcast group group_sets { lemma_set0, lemma_set1, lemma_set2 }
pub open spec fn k3(a: int, b: int, c: int) -> VKey { VKey { major: a, minor: b, patch: c, pre: Seq::empty() } }
pub open spec fn k4(a: int, b: int, c: int, p: Seq<Identifier>) -> VKey { VKey { major: a, minor: b, patch: c, pre: p } }
pub open spec fn pre0() -> Seq<Identifier> { seq![Identifier::Numeric(0)] }
pub open spec fn ge(k: VKey) -> KCmp { KCmp { op: Op::Ge, k } }
pub open spec fn lt(k: VKey) -> KCmp { KCmp { op: Op::Lt, k } }
pub open spec fn eqc(k: VKey) -> KCmp { KCmp { op: Op::Eq, k } }

pub open spec fn gt(k: VKey) -> KCmp { KCmp { op: Op::Gt, k } }
pub open spec fn le(k: VKey) -> KCmp { KCmp { op: Op::Le, k } }
/// node-semver isX(): a component that is missing or a wildcard.  A wildcard minor makes the patch a wildcard too.
pub open spec fn xM(p: Partial) -> bool { p.major is None }
pub open spec fn xm(p: Partial) -> bool { xM(p) || p.minor is None }
pub open spec fn xp(p: Partial) -> bool { xm(p) || p.patch is None }
pub open spec fn pM(p: Partial) -> int { p.major->0 as int }
pub open spec fn pm(p: Partial) -> int { p.minor->0 as int }
pub open spec fn pp(p: Partial) -> int { p.patch->0 as int }
pub open spec fn any_set() -> Seq<KCmp> { s1(ge(k3(0, 0, 0))) }           // README: `*` := `>=0.0.0`
pub open spec fn null_set() -> Seq<KCmp> { s1(lt(k4(0, 0, 0, pre0()))) }  // range.js: `<0.0.0-0`

/// README "Caret Ranges", range.js replaceCaret
pub open spec fn npm_caret(p: Partial) -> Seq<KCmp> {
    let pre = p.pre_release@;
    if xM(p) { any_set() }
    else if xm(p) { s2(ge(k3(pM(p), 0, 0)), lt(k4(pM(p) + 1, 0, 0, pre0()))) }
    else if xp(p) { if pM(p) == 0 { s2(ge(k3(0, pm(p), 0)), lt(k4(0, pm(p) + 1, 0, pre0()))) } else { s2(ge(k3(pM(p), pm(p), 0)), lt(k4(pM(p) + 1, 0, 0, pre0()))) } }
    else if pM(p) == 0 && pm(p) == 0 { s2(ge(k4(0, 0, pp(p), pre)), lt(k4(0, 0, pp(p) + 1, pre0()))) }
    else if pM(p) == 0 { s2(ge(k4(0, pm(p), pp(p), pre)), lt(k4(0, pm(p) + 1, 0, pre0()))) }
    else { s2(ge(k4(pM(p), pm(p), pp(p), pre)), lt(k4(pM(p) + 1, 0, 0, pre0()))) }
}
/// README "Tilde Ranges", range.js replaceTilde (`~>` is the same as `~`)
pub open spec fn npm_tilde(p: Partial) -> Seq<KCmp> {
    let pre = p.pre_release@;
    if xM(p) { any_set() }
    else if xm(p) { s2(ge(k3(pM(p), 0, 0)), lt(k4(pM(p) + 1, 0, 0, pre0()))) }
    else if xp(p) { s2(ge(k3(pM(p), pm(p), 0)), lt(k4(pM(p), pm(p) + 1, 0, pre0()))) }
    else { s2(ge(k4(pM(p), pm(p), pp(p), pre)), lt(k4(pM(p), pm(p) + 1, 0, pre0()))) }
}
/// README "X-Ranges", range.js replaceXRange without operator
pub open spec fn npm_plain(p: Partial) -> Seq<KCmp> {
    let pre = p.pre_release@;
    if xM(p) { any_set() }
    else if xm(p) { s2(ge(k3(pM(p), 0, 0)), lt(k4(pM(p) + 1, 0, 0, pre0()))) }
    else if xp(p) { s2(ge(k3(pM(p), pm(p), 0)), lt(k4(pM(p), pm(p) + 1, 0, pre0()))) }
    else { s1(eqc(k4(pM(p), pm(p), pp(p), pre))) }
}
/// range.js replaceXRange with an operator
pub open spec fn npm_primitive(op: Operation, p: Partial) -> Seq<KCmp> {
    let pre = p.pre_release@;
    if xM(p) { match op { Operation::GreaterThan | Operation::LessThan => null_set(), _ => any_set() } }
    else if xm(p) { match op {
        Operation::GreaterThan => s1(ge(k3(pM(p) + 1, 0, 0))),
        Operation::GreaterThanEquals => s1(ge(k3(pM(p), 0, 0))),
        Operation::LessThan => s1(lt(k4(pM(p), 0, 0, pre0()))),
        Operation::LessThanEquals => s1(lt(k4(pM(p) + 1, 0, 0, pre0()))),
        Operation::Exact => s2(ge(k3(pM(p), 0, 0)), lt(k4(pM(p) + 1, 0, 0, pre0()))),
    } }
    else if xp(p) { match op {
        Operation::GreaterThan => s1(ge(k3(pM(p), pm(p) + 1, 0))),
        Operation::GreaterThanEquals => s1(ge(k3(pM(p), pm(p), 0))),
        Operation::LessThan => s1(lt(k4(pM(p), pm(p), 0, pre0()))),
        Operation::LessThanEquals => s1(lt(k4(pM(p), pm(p) + 1, 0, pre0()))),
        Operation::Exact => s2(ge(k3(pM(p), pm(p), 0)), lt(k4(pM(p), pm(p) + 1, 0, pre0()))),
    } }
    else { let k = k4(pM(p), pm(p), pp(p), pre); match op {
        Operation::GreaterThan => s1(gt(k)), Operation::GreaterThanEquals => s1(ge(k)), Operation::LessThan => s1(lt(k)), Operation::LessThanEquals => s1(le(k)), Operation::Exact => s1(eqc(k)),
    } }
}
/// README "Hyphen Ranges", range.js hyphenReplace: lower part / upper part (None = no comparator on that side)
pub open spec fn npm_hyphen_from(p: Partial) -> Option<KCmp> {
    if xM(p) { None } else if xm(p) { Some(ge(k3(pM(p), 0, 0))) } else if xp(p) { Some(ge(k3(pM(p), pm(p), 0))) } else { Some(ge(k4(pM(p), pm(p), pp(p), p.pre_release@))) }
}
pub open spec fn npm_hyphen_to(p: Partial) -> Option<KCmp> {
    if xM(p) { None } else if xm(p) { Some(lt(k4(pM(p) + 1, 0, 0, pre0()))) } else if xp(p) { Some(lt(k4(pM(p), pm(p) + 1, 0, pre0()))) } else { Some(le(k4(pM(p), pm(p), pp(p), p.pre_release@))) }
}
pub open spec fn npm_hyphen(f: Partial, t: Partial) -> Seq<KCmp> {
    match (npm_hyphen_from(f), npm_hyphen_to(t)) {
        (Some(a), Some(b)) => s2(a, b), (Some(a), None) => s1(a), (None, Some(b)) => s1(b), (None, None) => Seq::empty(),
    }
}
pub open spec fn wf_partial(p: Partial) -> bool {
    (p.major matches Some(x) ==> x <= MAX_SAFE_INTEGER) && (p.minor matches Some(x) ==> x <= MAX_SAFE_INTEGER) && (p.patch matches Some(x) ==> x <= MAX_SAFE_INTEGER)
    // normalised where it is built (partial_version): a wildcard makes everything after it a wildcard
    && (p.major is None ==> p.minor is None) && (p.minor is None ==> p.patch is None) && (p.patch is None ==> p.pre_release@.len() == 0 && p.build@.len() == 0)
}
pub open spec fn lower_cut(cs: Seq<KCmp>) -> Cut { if cs.len() == 0 { Cut::NegInf } else { match cs[0].op { Op::Ge => Cut::At(cs[0].k, false), Op::Gt => Cut::At(cs[0].k, true), Op::Eq => Cut::At(cs[0].k, false), _ => Cut::NegInf } } }
pub open spec fn upper_cut(cs: Seq<KCmp>) -> Cut { if cs.len() == 0 { Cut::PosInf } else { let c = cs[cs.len() - 1]; match c.op { Op::Le => Cut::At(c.k, true), Op::Lt => Cut::At(c.k, false), Op::Eq => Cut::At(c.k, true), _ => Cut::PosInf } } }
/// the interval the code built has exactly the two cuts of npm's comparator list
pub open spec fn shape_ok(r: Option<BoundSet>, cs: Seq<KCmp>) -> bool {
    match r {
        Some(bs) => bs_wf(bs) && cut_of(*bs.lower) == lower_cut(cs) && cut_of(*bs.upper) == upper_cut(cs),
        // an interval nothing can enter is dropped
        None => cut_cmp(lower_cut(cs), upper_cut(cs)) != Ordering::Less,
    }
}

// ---- Seq-free form used by the exec-side shape contracts ----
pub enum CSet { Zero, One(KCmp), Two(KCmp, KCmp) }
pub open spec fn lc(c: KCmp) -> Cut { match c.op { Op::Ge => Cut::At(c.k, false), Op::Gt => Cut::At(c.k, true), Op::Eq => Cut::At(c.k, false), _ => Cut::NegInf } }
pub open spec fn uc(c: KCmp) -> Cut { match c.op { Op::Le => Cut::At(c.k, true), Op::Lt => Cut::At(c.k, false), Op::Eq => Cut::At(c.k, true), _ => Cut::PosInf } }
pub open spec fn cset_lo(c: CSet) -> Cut { match c { CSet::Zero => Cut::NegInf, CSet::One(a) => lc(a), CSet::Two(a, _) => lc(a) } }
pub open spec fn cset_hi(c: CSet) -> Cut { match c { CSet::Zero => Cut::PosInf, CSet::One(a) => uc(a), CSet::Two(_, b) => uc(b) } }
pub open spec fn cset_seq(c: CSet) -> Seq<KCmp> { match c { CSet::Zero => Seq::empty(), CSet::One(a) => s1(a), CSet::Two(a, b) => s2(a, b) } }
pub open spec fn shape_ok_c(r: Option<BoundSet>, c: CSet) -> bool {
    match r {
        Some(bs) => bs_wf(bs) && cut_of(*bs.lower) == cset_lo(c) && cut_of(*bs.upper) == cset_hi(c),
        None => cut_cmp(cset_lo(c), cset_hi(c)) != Ordering::Less,
    }
}
pub open spec fn any_c() -> CSet { CSet::One(ge(k3(0, 0, 0))) }
pub open spec fn null_c() -> CSet { CSet::One(lt(k4(0, 0, 0, pre0()))) }
pub open spec fn npm_tilde_c(p: Partial) -> CSet {
    let pre = p.pre_release@;
    if xM(p) { any_c() }
    else if xm(p) { CSet::Two(ge(k3(pM(p), 0, 0)), lt(k4(pM(p) + 1, 0, 0, pre0()))) }
    else if xp(p) { CSet::Two(ge(k3(pM(p), pm(p), 0)), lt(k4(pM(p), pm(p) + 1, 0, pre0()))) }
    else { CSet::Two(ge(k4(pM(p), pm(p), pp(p), pre)), lt(k4(pM(p), pm(p) + 1, 0, pre0()))) }
}
pub open spec fn npm_caret_c(p: Partial) -> CSet {
    let pre = p.pre_release@;
    if xM(p) { any_c() }
    else if xm(p) { CSet::Two(ge(k3(pM(p), 0, 0)), lt(k4(pM(p) + 1, 0, 0, pre0()))) }
    else if xp(p) { if pM(p) == 0 { CSet::Two(ge(k3(0, pm(p), 0)), lt(k4(0, pm(p) + 1, 0, pre0()))) } else { CSet::Two(ge(k3(pM(p), pm(p), 0)), lt(k4(pM(p) + 1, 0, 0, pre0()))) } }
    else if pM(p) == 0 && pm(p) == 0 { CSet::Two(ge(k4(0, 0, pp(p), pre)), lt(k4(0, 0, pp(p) + 1, pre0()))) }
    else if pM(p) == 0 { CSet::Two(ge(k4(0, pm(p), pp(p), pre)), lt(k4(0, pm(p) + 1, 0, pre0()))) }
    else { CSet::Two(ge(k4(pM(p), pm(p), pp(p), pre)), lt(k4(pM(p) + 1, 0, 0, pre0()))) }
}
pub open spec fn npm_plain_c(p: Partial) -> CSet {
    let pre = p.pre_release@;
    if xM(p) { any_c() }
    else if xm(p) { CSet::Two(ge(k3(pM(p), 0, 0)), lt(k4(pM(p) + 1, 0, 0, pre0()))) }
    else if xp(p) { CSet::Two(ge(k3(pM(p), pm(p), 0)), lt(k4(pM(p), pm(p) + 1, 0, pre0()))) }
    else { CSet::One(eqc(k4(pM(p), pm(p), pp(p), pre))) }
}
pub open spec fn npm_primitive_c(op: Operation, p: Partial) -> CSet {
    let pre = p.pre_release@;
    if xM(p) { match op { Operation::GreaterThan | Operation::LessThan => null_c(), _ => any_c() } }
    else if xm(p) { match op {
        Operation::GreaterThan => CSet::One(ge(k3(pM(p) + 1, 0, 0))),
        Operation::GreaterThanEquals => CSet::One(ge(k3(pM(p), 0, 0))),
        Operation::LessThan => CSet::One(lt(k4(pM(p), 0, 0, pre0()))),
        Operation::LessThanEquals => CSet::One(lt(k4(pM(p) + 1, 0, 0, pre0()))),
        Operation::Exact => CSet::Two(ge(k3(pM(p), 0, 0)), lt(k4(pM(p) + 1, 0, 0, pre0()))),
    } }
    else if xp(p) { match op {
        Operation::GreaterThan => CSet::One(ge(k3(pM(p), pm(p) + 1, 0))),
        Operation::GreaterThanEquals => CSet::One(ge(k3(pM(p), pm(p), 0))),
        Operation::LessThan => CSet::One(lt(k4(pM(p), pm(p), 0, pre0()))),
        Operation::LessThanEquals => CSet::One(lt(k4(pM(p), pm(p) + 1, 0, pre0()))),
        Operation::Exact => CSet::Two(ge(k3(pM(p), pm(p), 0)), lt(k4(pM(p), pm(p) + 1, 0, pre0()))),
    } }
    else { let k = k4(pM(p), pm(p), pp(p), pre); match op {
        Operation::GreaterThan => CSet::One(gt(k)), Operation::GreaterThanEquals => CSet::One(ge(k)), Operation::LessThan => CSet::One(lt(k)), Operation::LessThanEquals => CSet::One(le(k)), Operation::Exact => CSet::One(eqc(k)),
    } }
}
pub open spec fn npm_hyphen_c(f: Partial, t: Partial) -> CSet {
    match (npm_hyphen_from(f), npm_hyphen_to(t)) {
        (Some(a), Some(b)) => CSet::Two(a, b), (Some(a), None) => CSet::One(a), (None, Some(b)) => CSet::One(b), (None, None) => CSet::Zero,
    }
}
/// same admitted versions (components within MAX_SAFE_INTEGER) although the bounds are written differently
pub open spec fn shape_equiv_c(r: Option<BoundSet>, c: CSet) -> bool {
    r matches Some(bs) && bs_wf(bs) && forall|v: VKey| #![trigger within(bs, v)] wfk(v) ==>
        (above(cut_of(*bs.lower), v) <==> above(cset_lo(c), v)) && (below(cut_of(*bs.upper), v) <==> below(cset_hi(c), v))
        && (within(bs, v) ==> (gate(bs, v) <==> set_gate(cset_seq(c), v)))
}

// ===================== proof side: intervals represent npm comparator lists =====================
pub proof fn lemma_set_ok_concat(a: Seq<KCmp>, b: Seq<KCmp>, v: VKey)
    ensures set_ok(a + b, v) == (set_ok(a, v) && set_ok(b, v))
{
    let t = a + b;
    if set_ok(a, v) && set_ok(b, v) {
        assert forall|i: int| 0 <= i < t.len() implies kcmp_ok(#[trigger] t[i], v) by { if i < a.len() { assert(t[i] == a[i]); } else { assert(t[i] == b[i - a.len()]); } }
    }
    if set_ok(t, v) {
        assert forall|i: int| 0 <= i < a.len() implies kcmp_ok(#[trigger] a[i], v) by { assert(t[i] == a[i]); }
        assert forall|i: int| 0 <= i < b.len() implies kcmp_ok(#[trigger] b[i], v) by { assert(t[i + a.len()] == b[i]); }
    }
}
pub proof fn lemma_set_gate_concat(a: Seq<KCmp>, b: Seq<KCmp>, v: VKey)
    ensures set_gate(a + b, v) == (set_gate(a, v) || set_gate(b, v))
{
    let t = a + b;
    if v.pre.len() > 0 {
        if set_gate(t, v) {
            let i = choose|i: int| 0 <= i < t.len() && (#[trigger] t[i]).k.pre.len() > 0 && same_tuple(t[i].k, v);
            if i < a.len() { assert(t[i] == a[i]); assert(set_gate(a, v)); } else { assert(t[i] == b[i - a.len()]); assert(set_gate(b, v)); }
        }
        if set_gate(a, v) { let i = choose|i: int| 0 <= i < a.len() && (#[trigger] a[i]).k.pre.len() > 0 && same_tuple(a[i].k, v); assert(t[i] == a[i]); }
        if set_gate(b, v) { let i = choose|i: int| 0 <= i < b.len() && (#[trigger] b[i]).k.pre.len() > 0 && same_tuple(b[i].k, v); assert(t[i + a.len()] == b[i]); }
    }
}
/// between two prereleases of one tuple lie only prereleases of that tuple
pub proof fn lemma_between_pre(w1: VKey, w2: VKey, v: VKey)
    requires same_tuple(w1, v), w1.pre.len() > 0, v.pre.len() > 0,
        (kcmp(w1, w2) != Ordering::Greater && kcmp(w2, v) != Ordering::Greater) || (kcmp(v, w2) != Ordering::Greater && kcmp(w2, w1) != Ordering::Greater)
    ensures same_tuple(w2, v), w2.pre.len() > 0
{}
/// the opt-in of an intersection, seen from a version inside it, is the union of the operands' opt-ins
pub proof fn lemma_gate_intersect(b1: BoundSet, b2: BoundSet, b: BoundSet, v: VKey)
    requires bs_wf(b1), bs_wf(b2), bs_wf(b), within(b1, v), within(b2, v), within(b, v),
        *b.lower == (if bound_cmp(*b1.lower, *b2.lower) == Ordering::Greater { *b1.lower } else { *b2.lower }),
        *b.upper == (if bound_cmp(*b1.upper, *b2.upper) == Ordering::Greater { *b2.upper } else { *b1.upper }),
    ensures gate(b, v) == (gate(b1, v) || gate(b2, v))
{
    reveal(cut_cmp);
    if v.pre.len() > 0 {
        // lower side
        let (lo_kept, lo_lost) = if bound_cmp(*b1.lower, *b2.lower) == Ordering::Greater { (*b1.lower, *b2.lower) } else { (*b2.lower, *b1.lower) };
        if optin(lo_lost, v) {
            let w1 = key(bound_version(lo_lost)->0);
            match bound_version(lo_kept) { Some(w2) => { lemma_k_flip(w1, key(w2)); lemma_between_pre(w1, key(w2), v); }, None => {} }
        }
        let (up_kept, up_lost) = if bound_cmp(*b1.upper, *b2.upper) == Ordering::Greater { (*b2.upper, *b1.upper) } else { (*b1.upper, *b2.upper) };
        if optin(up_lost, v) {
            let w1 = key(bound_version(up_lost)->0);
            match bound_version(up_kept) { Some(w2) => { lemma_k_flip(w1, key(w2)); lemma_k_flip(key(w2), v); lemma_between_pre(w1, key(w2), v); }, None => {} }
        }
    }
}
pub proof fn lemma_repr_intersect(b1: BoundSet, c1: Seq<KCmp>, b2: BoundSet, c2: Seq<KCmp>, b: BoundSet)
    requires bs_wf(b1), bs_wf(b2), bs_wf(b), repr(b1, c1), repr(b2, c2),
        forall|v: VKey| #![trigger within(b, v)] (within(b, v) <==> (within(b1, v) && within(b2, v))),
        *b.lower == (if bound_cmp(*b1.lower, *b2.lower) == Ordering::Greater { *b1.lower } else { *b2.lower }),
        *b.upper == (if bound_cmp(*b1.upper, *b2.upper) == Ordering::Greater { *b2.upper } else { *b1.upper }),
    ensures repr(b, c1 + c2)
{
    assert forall|v: VKey| #![trigger within(b, v)] wfk(v) implies (within(b, v) <==> set_ok(c1 + c2, v)) && (within(b, v) ==> (gate(b, v) <==> set_gate(c1 + c2, v))) by {
        lemma_set_ok_concat(c1, c2, v); lemma_set_gate_concat(c1, c2, v);
        assert(within(b1, v) <==> set_ok(c1, v)); assert(within(b2, v) <==> set_ok(c2, v));
        if within(b, v) { lemma_gate_intersect(b1, b2, b, v); }
    }
}
pub proof fn lemma_repr_empty_intersect(b1: BoundSet, c1: Seq<KCmp>, b2: BoundSet, c2: Seq<KCmp>)
    requires bs_wf(b1), bs_wf(b2), repr(b1, c1), repr(b2, c2), !boverlap(b1, b2)
    ensures forall|v: VKey| wfk(v) ==> !#[trigger] set_ok(c1 + c2, v)
{
    assert forall|v: VKey| wfk(v) implies !#[trigger] set_ok(c1 + c2, v) by {
        lemma_set_ok_concat(c1, c2, v); lemma_boverlap_none(b1, b2, v);
        assert(within(b1, v) <==> set_ok(c1, v)); assert(within(b2, v) <==> set_ok(c2, v));
    }
}
pub proof fn lemma_repr_sat(bs: BoundSet, cs: Seq<KCmp>, v: VKey)
    requires repr(bs, cs), wfk(v) ensures sat(bs, v) == npm_sat(cs, v)
{ assert(within(bs, v) <==> set_ok(cs, v)); }
/// an interval whose two cuts are those of a one- or two-comparator list represents it
pub proof fn lemma_repr_from_shape(bs: BoundSet, cs: Seq<KCmp>)
    requires bs_wf(bs), cs.len() <= 2, cut_of(*bs.lower) == lower_cut(cs), cut_of(*bs.upper) == upper_cut(cs),
        cs.len() == 2 ==> (cs[0].op is Ge || cs[0].op is Gt) && (cs[1].op is Lt || cs[1].op is Le),
    ensures repr(bs, cs)
{
    broadcast use group_k_order;
    assert forall|v: VKey| #![trigger within(bs, v)] wfk(v) implies (within(bs, v) <==> set_ok(cs, v)) && (within(bs, v) ==> (gate(bs, v) <==> set_gate(cs, v))) by {
        if cs.len() == 0 { assert(cs =~= Seq::<KCmp>::empty()); lemma_set0(v); }
        else if cs.len() == 1 { assert(cs =~= s1(cs[0])); lemma_set1(cs[0], v); }
        else { assert(cs =~= s2(cs[0], cs[1])); lemma_set2(cs[0], cs[1], v); }
    }
}

// ===================== proof side: successors in the version order (for min_version) =====================
pub proof fn lemma_least_pre0(s: Seq<Identifier>)
    requires s.len() > 0
    ensures pre_cmp(pre0(), s) != Ordering::Greater
{
    reveal_with_fuel(pre_cmp, 3);
    assert(pre0().drop_first().len() == 0);
}
/// appending `.0` gives the immediate successor of a prerelease tag
pub proof fn lemma_push0(p: Seq<Identifier>, q: Seq<Identifier>)
    requires pre_cmp(p, q) == Ordering::Less
    ensures pre_cmp(p.push(Identifier::Numeric(0)), q) != Ordering::Greater
    decreases p.len()
{
    let p0 = p.push(Identifier::Numeric(0));
    if p.len() == 0 {
        assert(p0 =~= pre0());
        lemma_least_pre0(q);
    } else {
        assert(p0[0] == p[0]);
        assert(p0.drop_first() =~= p.drop_first().push(Identifier::Numeric(0)));
        if q.len() > 0 && ident_cmp(p[0], q[0]) == Ordering::Equal {
            lemma_push0(p.drop_first(), q.drop_first());
        }
    }
}
pub proof fn lemma_push0_greater(p: Seq<Identifier>)
    ensures pre_cmp(p, p.push(Identifier::Numeric(0))) == Ordering::Less
    decreases p.len()
{
    let p0 = p.push(Identifier::Numeric(0));
    if p.len() > 0 {
        assert(p0[0] == p[0]);
        assert(p0.drop_first() =~= p.drop_first().push(Identifier::Numeric(0)));
        lemma_ident_refl(p[0]);
        lemma_push0_greater(p.drop_first());
    }
}
pub open spec fn wfk0(v: VKey) -> bool { 0 <= v.major && 0 <= v.minor && 0 <= v.patch }
/// successor of a prerelease key
pub proof fn lemma_succ_pre(a: VKey, w: VKey)
    requires a.pre.len() > 0, kcmp(a, w) == Ordering::Less
    ensures kcmp(VKey { pre: a.pre.push(Identifier::Numeric(0)), ..a }, w) != Ordering::Greater,
            kcmp(a, VKey { pre: a.pre.push(Identifier::Numeric(0)), ..a }) == Ordering::Less
{
    lemma_push0_greater(a.pre);
    if a.major == w.major && a.minor == w.minor && a.patch == w.patch && w.pre.len() > 0 { lemma_push0(a.pre, w.pre); }
}
/// successor of a release key is the `-0` prerelease of the next patch
pub proof fn lemma_succ_release(a: VKey, w: VKey)
    requires a.pre.len() == 0, kcmp(a, w) == Ordering::Less
    ensures kcmp(VKey { major: a.major, minor: a.minor, patch: a.patch + 1, pre: pre0() }, w) != Ordering::Greater
{
    if w.major == a.major && w.minor == a.minor && w.patch == a.patch + 1 && w.pre.len() > 0 { lemma_least_pre0(w.pre); }
}
pub proof fn lemma_least_key(w: VKey)
    requires wfk0(w)
    ensures kcmp(VKey { major: 0, minor: 0, patch: 0, pre: pre0() }, w) != Ordering::Greater
{
    if w.major == 0 && w.minor == 0 && w.patch == 0 && w.pre.len() > 0 { lemma_least_pre0(w.pre); }
}

pub proof fn lemma_below_down(u: Cut, a: VKey, k: VKey)
    requires kcmp(a, k) != Ordering::Greater, below(u, k)
    ensures below(u, a)
{ broadcast use group_k_order; }
pub proof fn lemma_above_up(l: Cut, a: VKey, k: VKey)
    requires kcmp(a, k) != Ordering::Greater, above(l, a)
    ensures above(l, k)
{ broadcast use group_k_order; }
/// postcondition of min_version on one interval
pub open spec fn minv_post(bs: BoundSet, r: Option<Version>) -> bool {
    match r {
        Some(m) => sat(bs, key(m)) && forall|k: VKey| #![trigger sat(bs, k)] wfk0(k) && sat(bs, k) ==> kcmp(key(m), k) != Ordering::Greater,
        None => forall|k: VKey| #![trigger sat(bs, k)] wfk0(k) ==> !sat(bs, k),
    }
}
pub open spec fn lower_excl(b: Bound) -> bool { b matches Bound::Lower(Predicate::Excluding(_)) }

// ===================== proof side: `<=M` / `<=M.m` are written as `<=M.MAX.MAX` / `<=M.m.MAX` =====================
pub proof fn lemma_le_major_equiv(mj: int, v: VKey)
    requires wfk(v), 0 <= mj <= MAX_SAFE_INTEGER
    ensures below(Cut::At(k3(mj, MAX_SAFE_INTEGER as int, MAX_SAFE_INTEGER as int), true), v) == below(Cut::At(k4(mj + 1, 0, 0, pre0()), false), v),
            // no prerelease opt-in on either side for a version under the bound
            below(Cut::At(k4(mj + 1, 0, 0, pre0()), false), v) ==> !same_tuple(k4(mj + 1, 0, 0, pre0()), v),
{
    if v.pre.len() > 0 { lemma_least_pre0(v.pre); lemma_pre_flip(v.pre, pre0()); }
}
pub proof fn lemma_le_minor_equiv(mj: int, mn: int, v: VKey)
    requires wfk(v), 0 <= mj <= MAX_SAFE_INTEGER, 0 <= mn <= MAX_SAFE_INTEGER
    ensures below(Cut::At(k3(mj, mn, MAX_SAFE_INTEGER as int), true), v) == below(Cut::At(k4(mj, mn + 1, 0, pre0()), false), v),
            below(Cut::At(k4(mj, mn + 1, 0, pre0()), false), v) ==> !same_tuple(k4(mj, mn + 1, 0, pre0()), v),
{
    if v.pre.len() > 0 { lemma_least_pre0(v.pre); lemma_pre_flip(v.pre, pre0()); }
}


use vstd::std_specs::convert::*;
impl FromSpecImpl<(i32, i32, i32)> for Version { open spec fn obeys_from_spec() -> bool { false } open spec fn from_spec(v: (i32, i32, i32)) -> Self { arbitrary() } }
impl FromSpecImpl<(i32, i32, i32, i32)> for Version { open spec fn obeys_from_spec() -> bool { false } open spec fn from_spec(v: (i32, i32, i32, i32)) -> Self { arbitrary() } }
impl ::std::convert::From<(i32, i32, i32)> for Version {
    #[verifier::external_body]
    fn from(arg: (i32, i32, i32)) -> (r: Self)
        ensures arg.0 >= 0 && arg.1 >= 0 && arg.2 >= 0 ==> key(r) == k3(arg.0 as int, arg.1 as int, arg.2 as int) && r.build@.len() == 0
    { unimplemented!() }
}
impl ::std::convert::From<(i32, i32, i32, i32)> for Version {
    #[verifier::external_body]
    fn from(arg: (i32, i32, i32, i32)) -> (r: Self)
        ensures arg.0 >= 0 && arg.1 >= 0 && arg.2 >= 0 && arg.3 >= 0 ==> key(r) == k4(arg.0 as int, arg.1 as int, arg.2 as int, seq![Identifier::Numeric(arg.3 as u64)]) && r.build@.len() == 0
    { unimplemented!() }
}

impl Predicate {
    fn flip(self) -> (r: Self)
    ensures r == (match self { Predicate::Excluding(v) => Predicate::Including(v), Predicate::Including(v) => Predicate::Excluding(v), Predicate::Unbounded => Predicate::Unbounded })
{
        use Predicate::*;
        match self {
            Excluding(v) => Including(v),
            Including(v) => Excluding(v),
            Unbounded => Unbounded,
        }
    }
}
impl Bound {
    fn upper() -> (r: Self)
    ensures r == Bound::Upper(Predicate::Unbounded)
{
        Bound::Upper(Predicate::Unbounded)
    }

    fn lower() -> (r: Self)
    ensures r == Bound::Lower(Predicate::Unbounded)
{
        Bound::Lower(Predicate::Unbounded)
    }

    fn predicate(self) -> (r: Predicate)
    ensures r == (match self { Bound::Lower(p) => p, Bound::Upper(p) => p })
{
        use Bound::*;

        match self {
            Lower(p) => p,
            Upper(p) => p,
        }
    }
}
impl Ord for Bound {
    fn cmp(&self, other: &Self) -> Ordering 
{
broadcast use group_k_order; proof { reveal(cut_cmp); }

        use Bound::*;
        use Predicate::*;

        match (self, other) {
            (Lower(Unbounded), Lower(Unbounded)) | (Upper(Unbounded), Upper(Unbounded)) => {
                Ordering::Equal
            }
            (Upper(Unbounded), _) | (_, Lower(Unbounded)) => Ordering::Greater,
            (Lower(Unbounded), _) | (_, Upper(Unbounded)) => Ordering::Less,

            (Upper(Including(v1)), Upper(Including(v2)))
            | (Upper(Excluding(v1)), Upper(Excluding(v2)))
            | (Lower(Including(v1)), Lower(Including(v2)))
            | (Lower(Excluding(v1)), Lower(Excluding(v2))) => v1.cmp(v2),

            (Lower(Excluding(v1)), Upper(Excluding(v2)))
            | (Lower(Including(v1)), Upper(Excluding(v2)))
            | (Lower(Excluding(v1)), Upper(Including(v2)))
            | (Lower(Excluding(v1)), Lower(Including(v2)))
            | (Upper(Including(v1)), Upper(Excluding(v2)))
            | (Upper(Including(v1)), Lower(Including(v2))) => {
                if v1 < v2 {
                    Ordering::Less
                } else {
                    Ordering::Greater
                }
            }
            (Upper(Including(v1)), Lower(Excluding(v2)))
            | (Upper(Excluding(v1)), Lower(Excluding(v2)))
            | (Lower(Including(v1)), Upper(Including(v2)))
            | (Lower(Including(v1)), Lower(Excluding(v2)))
            | (Upper(Excluding(v1)), Lower(Including(v2)))
            | (Upper(Excluding(v1)), Upper(Including(v2))) => {
                if v1 <= v2 {
                    Ordering::Less
                } else {
                    Ordering::Greater
                }
            }
        }
    }
}
impl PartialOrd for Bound {
    fn partial_cmp(&self, other: &Self) -> Option<Ordering> {
        Some(self.cmp(other))
    }
}
impl BoundSet {
    fn new(lower: Bound, upper: Bound) -> (r: Option<Self>)
    requires is_lower(lower), is_upper(upper),
    ensures (r is Some) <==> cut_cmp(cut_of(lower), cut_of(upper)) == Ordering::Less,
            r matches Some(bs) ==> *bs.lower == lower && *bs.upper == upper,
{
broadcast use group_k_order; proof { reveal(cut_cmp); }

        use Bound::*;
        use Predicate::*;

        match (lower, upper) {
            (Lower(Excluding(v1)), Upper(Including(v2)))
                if v1 == v2 =>
            {
                None
            }
            (Lower(Including(v1)), Upper(Excluding(v2)))
                if v1 == v2 =>
            {
                None
            }
            (Lower(Including(v1)), Upper(Including(v2))) if v1 == v2 => Some(Self {
                lower: Box::new(Lower(Including(v1))),
                upper: Box::new(Upper(Including(v2))),
            }),
            (lower, upper) if lower < upper => Some(Self {
                lower: Box::new(lower),
                upper: Box::new(upper),
            }),
            _ => None,
        }
    }


    fn at_least(p: Predicate) -> (r: Option<Self>)
    ensures r matches Some(bs) && *bs.lower == Bound::Lower(p) && *bs.upper == Bound::Upper(Predicate::Unbounded),
{
proof { reveal(cut_cmp); }

        BoundSet::new(Bound::Lower(p), Bound::upper())
    }


    fn at_most(p: Predicate) -> (r: Option<Self>)
    ensures r matches Some(bs) && *bs.lower == Bound::Lower(Predicate::Unbounded) && *bs.upper == Bound::Upper(p),
{
proof { reveal(cut_cmp); }

        BoundSet::new(Bound::lower(), Bound::Upper(p))
    }


    fn exact(version: Version) -> (r: Option<Self>)
    ensures r matches Some(bs) && *bs.lower == Bound::Lower(Predicate::Including(version)) && *bs.upper == Bound::Upper(Predicate::Including(version)),
{
broadcast use group_k_order; proof { reveal(cut_cmp); }

        BoundSet::new(
            Bound::Lower(Predicate::Including(version.clone())),
            Bound::Upper(Predicate::Including(version)),
        )
    }


    fn satisfies(&self, version: &Version) -> (r: bool)
    requires bs_wf(*self),
    ensures r == sat(*self, key(*version)),
{
broadcast use group_k_order;

        use Bound::*;
        use Predicate::*;

        let lower_bound = match &self.lower.as_ref() {
            Lower(Including(lower)) => lower <= version,
            Lower(Excluding(lower)) => lower < version,
            Lower(Unbounded) => true,
            _ => unreachable!(
                "There should not have been an upper bound: {:#?}",
                self.lower
            ),
        };

        let upper_bound = match &self.upper.as_ref() {
            Upper(Including(upper)) => version <= upper,
            Upper(Excluding(upper)) => version < upper,
            Upper(Unbounded) => true,
            _ => unreachable!(
                "There should not have been an lower bound: {:#?}",
                self.lower
            ),
        };

        if !lower_bound || !upper_bound {
            return false;
        }

        if version.is_prerelease() {
            let lower_version = match &self.lower.as_ref() {
                Lower(Including(v)) => Some(v),
                Lower(Excluding(v)) => Some(v),
                _ => None,
            };
            if let Some(lower_version) = lower_version {
                if lower_version.is_prerelease()
                    && version.major == lower_version.major
                    && version.minor == lower_version.minor
                    && version.patch == lower_version.patch
                {
                    return true;
                }
            }

            let upper_version = match &self.upper.as_ref() {
                Upper(Including(v)) => Some(v),
                Upper(Excluding(v)) => Some(v),
                _ => None,
            };
            if let Some(upper_version) = upper_version {
                if upper_version.is_prerelease()
                    && version.major == upper_version.major
                    && version.minor == upper_version.minor
                    && version.patch == upper_version.patch
                {
                    return true;
                }
            }

            return false;
        }

        true
    }


    fn allows_all(&self, other: &BoundSet) -> (r: bool)
    requires bs_wf(*self), bs_wf(*other),
    ensures r == ballows_all(*self, *other),
{
proof { lemma_cut4(cut_of(*self.lower), cut_of(*self.upper), cut_of(*other.lower), cut_of(*other.upper)); }

        self.lower <= other.lower && other.upper <= self.upper
    }


    fn allows_any(&self, other: &BoundSet) -> (r: bool)
    requires bs_wf(*self), bs_wf(*other),
    ensures r == boverlap(*self, *other),
{
proof { lemma_cut4(cut_of(*self.lower), cut_of(*self.upper), cut_of(*other.lower), cut_of(*other.upper)); }

        if other.upper < self.lower {
            return false;
        }

        if self.upper < other.lower {
            return false;
        }

        true
    }


    fn intersect(&self, other: &Self) -> (r: Option<Self>)
    requires bs_wf(*self), bs_wf(*other),
    ensures (r is Some) <==> boverlap(*self, *other),
            r matches Some(b) ==> bs_wf(b)
                && *b.lower == (if bound_cmp(*self.lower, *other.lower) == Ordering::Greater { *self.lower } else { *other.lower })
                && *b.upper == (if bound_cmp(*self.upper, *other.upper) == Ordering::Greater { *other.upper } else { *self.upper }),
            r matches Some(b) ==> forall|v: VKey| #![trigger within(b, v)] (within(b, v) <==> (within(*self, v) && within(*other, v))),
{
proof {
        let cl = cut_of(*self.lower); let cu = cut_of(*self.upper); let ol = cut_of(*other.lower); let ou = cut_of(*other.upper);
        lemma_cut4(cl, cu, ol, ou);
        assert forall|v: VKey| #![trigger above(cl, v), above(ol, v)] (above(cl, v) && above(ol, v)) <==> above(if cut_cmp(cl, ol) == Ordering::Greater { cl } else { ol }, v) by {
            if cut_cmp(cl, ol) == Ordering::Greater { if above(cl, v) { lemma_cut_mono_above(ol, cl, v); } } else { if above(ol, v) { lemma_cut_mono_above(cl, ol, v); } }
        }
        assert forall|v: VKey| #![trigger below(cu, v), below(ou, v)] (below(cu, v) && below(ou, v)) <==> below(if cut_cmp(cu, ou) == Ordering::Greater { ou } else { cu }, v) by {
            if cut_cmp(cu, ou) == Ordering::Greater { if below(ou, v) { lemma_cut_mono_below(ou, cu, v); } } else { if below(cu, v) { lemma_cut_mono_below(cu, ou, v); } }
        }
    }

        let lower: &Bound = std::cmp::max(&self.lower, &other.lower);
        let upper: &Bound = std::cmp::min(&self.upper, &other.upper);

        BoundSet::new(lower.clone(), upper.clone())
    }


    fn difference(&self, other: &Self) -> (r: Option<Vec<Self>>)
    requires bs_wf(*self), bs_wf(*other),
    ensures bdiff_post(*self, *other, r),
{
proof { lemma_cut4(cut_of(*self.lower), cut_of(*self.upper), cut_of(*other.lower), cut_of(*other.upper));
        lemma_cut_inf(cut_of(*self.lower)); lemma_cut_inf(cut_of(*self.upper)); lemma_cut_inf(cut_of(*other.lower)); lemma_cut_inf(cut_of(*other.upper));
        assert forall|a: Bound, b: Bound| #![trigger bound_eq(a, b)] bound_eq(a, b) <==> (cut_cmp(cut_of(a), cut_of(b)) == Ordering::Equal && is_lower(a) == is_lower(b)) by { lemma_bound_eq_cut(a, b); }
    }

        use Bound::*;

        if let Some(overlap) = self.intersect(other) {
            if &overlap == self {
                return None;
            }

            if self.lower < overlap.lower && overlap.upper < self.upper {
                return Some(vec![
                    BoundSet::new(*self.lower.clone(), Upper(overlap.lower.predicate().flip()))
                        .unwrap(),
                    BoundSet::new(Lower(overlap.upper.predicate().flip()), *self.upper.clone())
                        .unwrap(),
                ]);
            }

            if self.lower < overlap.lower {
                return BoundSet::new(*self.lower.clone(), Upper(overlap.lower.predicate().flip()))
                    .map(|f: BoundSet| -> (rr: Vec<BoundSet>) ensures rr@.len() == 1 && rr@[0] == f { vec![f] });
            }

            BoundSet::new(Lower(overlap.upper.predicate().flip()), *self.upper.clone())
                .map(|f: BoundSet| -> (rr: Vec<BoundSet>) ensures rr@.len() == 1 && rr@[0] == f { vec![f] })
        } else {
            Some(vec![self.clone()])
        }
    }

    fn min_version(&self) -> (r: Option<Version>)
    requires bs_wf(*self), bound_version(*self.lower) matches Some(w) ==> w.patch < 0xffff_ffff_ffff_ffff,
    ensures minv_post(*self, r),
{
broadcast use group_k_order;

        // The versions that could be the minimum, lowest first.
        let (first, second) = match self.lower.as_ref() {
            Bound::Lower(Predicate::Including(v)) => (v.clone(), None),
            Bound::Lower(Predicate::Excluding(v)) => {
                let mut next = v.clone();
                if next.is_prerelease() {
                    next.pre_release.push(Identifier::Numeric(0));
                    (next, None)
                } else {
                    next.patch += 1;
                    let mut pre = next.clone();
                    pre.pre_release.push(Identifier::Numeric(0));
                    (pre, Some(next))
                }
            }
            Bound::Lower(Predicate::Unbounded) => {
                (Version::from((0, 0, 0, 0)), Some(Version::from((0, 0, 0))))
            }
            Bound::Upper(_) => return None,
        };
proof {
            let ll = cut_of(*self.lower); let uu = cut_of(*self.upper);
            let f = key(first);
            reveal(cut_cmp);
            assert forall|s: Seq<Identifier>| #![trigger s.len()] s.len() == 1 && s[0] == Identifier::Numeric(0) implies s == pre0() by { assert(s =~= pre0()); }
            assert forall|k: VKey| #![trigger above(ll, k)] wfk0(k) && above(ll, k) implies kcmp(f, k) != Ordering::Greater by {
                if lower_excl(*self.lower) { let kv = key(bound_version(*self.lower)->0); if kv.pre.len() > 0 { lemma_succ_pre(kv, k); } else { lemma_succ_release(kv, k); } }
                if *self.lower == Bound::Lower(Predicate::Unbounded) { lemma_least_key(k); }
            }
            if lower_excl(*self.lower) && key(bound_version(*self.lower)->0).pre.len() > 0 { lemma_push0_greater(key(bound_version(*self.lower)->0).pre); }
            assert(above(ll, f));
            assert forall|a: VKey, k: VKey| #![trigger kcmp(a, k), below(uu, k)] kcmp(a, k) != Ordering::Greater && below(uu, k) implies below(uu, a) by { lemma_below_down(uu, a, k); }
        }


        if self.satisfies(&first) {
            return Some(first);
        }

        match second {
            Some(v) if self.satisfies(&v) => Some(v),
            _ => None,
        }
    }
}
impl Range {
    pub fn any() -> (r: Self)
    ensures rwf(r), r.0@.len() == 1, forall|k: VKey| rwithin(r, k),
{
proof { reveal(cut_cmp); }

        Self(vec![BoundSet::new(Bound::lower(), Bound::upper()).unwrap()])
    }

    pub fn satisfies(&self, version: &Version) -> (r: bool)
    requires rwf(*self),
    ensures r == rsat(*self, key(*version)),
{
broadcast use g_any;

        for range in it0: &self.0
    invariant rwf(*self), !any_sat(self.0@, it0.index@ as int, key(*version)),
{
            if range.satisfies(version) {
                return true;
            }
        }

        false
    }

    pub fn allows_any(&self, other: &Range) -> (r: bool)
    requires rwf(*self), rwf(*other),
    ensures r == (exists|i: int, j: int| 0 <= i < self.0@.len() && 0 <= j < other.0@.len() && boverlap(#[trigger] self.0@[i], #[trigger] other.0@[j])),
{
        for this in it0: &self.0
    invariant rwf(*self), rwf(*other), forall|i: int, j: int| 0 <= i < it0.index@ && 0 <= j < other.0@.len() ==> !boverlap(#[trigger] self.0@[i], #[trigger] other.0@[j]),
{
            for that in it1: &other.0
    invariant rwf(*self), rwf(*other), bs_wf(*this), 0 <= it0.index@ < self.0@.len(), *this == self.0@[it0.index@ as int], forall|i: int, j: int| 0 <= i < it0.index@ && 0 <= j < other.0@.len() ==> !boverlap(#[trigger] self.0@[i], #[trigger] other.0@[j]), forall|j: int| 0 <= j < it1.index@ ==> !boverlap(*this, #[trigger] other.0@[j]),
{
                if this.allows_any(that) {
                    return true;
                }
            }
        }

        false
    }

    pub fn allows_all(&self, other: &Range) -> (r: bool)
    requires rwf(*self), rwf(*other),
    ensures r == (exists|i: int, j: int| 0 <= i < self.0@.len() && 0 <= j < other.0@.len() && ballows_all(#[trigger] self.0@[i], #[trigger] other.0@[j])),
{
        for this in it0: &self.0
    invariant rwf(*self), rwf(*other), forall|i: int, j: int| 0 <= i < it0.index@ && 0 <= j < other.0@.len() ==> !ballows_all(#[trigger] self.0@[i], #[trigger] other.0@[j]),
{
            for that in it1: &other.0
    invariant rwf(*self), rwf(*other), bs_wf(*this), 0 <= it0.index@ < self.0@.len(), *this == self.0@[it0.index@ as int], forall|i: int, j: int| 0 <= i < it0.index@ && 0 <= j < other.0@.len() ==> !ballows_all(#[trigger] self.0@[i], #[trigger] other.0@[j]), forall|j: int| 0 <= j < it1.index@ ==> !ballows_all(*this, #[trigger] other.0@[j]),
{
                if this.allows_all(that) {
                    return true;
                }
            }
        }

        false
    }

    pub fn intersect(&self, other: &Self) -> (r: Option<Self>)
    requires rwf(*self), rwf(*other),
    ensures r matches Some(x) ==> rwf(x) && forall|v: VKey| #![trigger rwithin(x, v)] rwithin(x, v) <==> rwithin(*self, v) && rwithin(*other, v),
            r is None ==> forall|v: VKey| #![trigger rwithin(*self, v), rwithin(*other, v)] !(rwithin(*self, v) && rwithin(*other, v)),
{
broadcast use g_any;

        let mut sets = Vec::new();

        for lefty in it0: &self.0
    invariant rwf(*self), rwf(*other), swf(sets@),
        forall|v: VKey| #![trigger any_within(sets@, sets@.len() as int, v)] #![trigger rwithin(*other, v)] any_within(sets@, sets@.len() as int, v) <==> (any_within(self.0@, it0.index@ as int, v) && rwithin(*other, v)),
{
            for righty in it1: &other.0
    invariant rwf(*self), rwf(*other), swf(sets@), bs_wf(*lefty), 0 <= it0.index@ < self.0@.len(), *lefty == self.0@[it0.index@ as int],
        forall|v: VKey| #![trigger any_within(sets@, sets@.len() as int, v)] #![trigger rwithin(*other, v)] any_within(sets@, sets@.len() as int, v) <==>
            ((any_within(self.0@, it0.index@ as int, v) && rwithin(*other, v)) || (within(*lefty, v) && any_within(other.0@, it1.index@ as int, v))),
{
let ghost old_sets = sets@;

                if let Some(set) = lefty.intersect(righty) {
                    sets.push(set)
                }
            
proof {
        assert forall|v: VKey| #![trigger any_within(sets@, sets@.len() as int, v)] #![trigger rwithin(*other, v)] any_within(sets@, sets@.len() as int, v) <==>
            ((any_within(self.0@, it0.index@ as int, v) && rwithin(*other, v)) || (within(*lefty, v) && any_within(other.0@, it1.index@ as int + 1, v))) by {
            lemma_any_within_step(other.0@, it1.index@ as int, v);
            if sets@.len() > old_sets.len() { lemma_any_within_push(old_sets, sets@[old_sets.len() as int], v); assert(sets@ =~= old_sets.push(sets@[old_sets.len() as int])); }
            else { lemma_boverlap_none(*lefty, *righty, v); }
        }
    }
}
        }

        if sets.is_empty() {
            None
        } else {
            Some(Self(sets))
        }
    }

    pub fn difference(&self, other: &Self) -> (r: Option<Self>)
    requires rwf(*self), rwf(*other),
    ensures r matches Some(x) ==> rwf(x) && forall|v: VKey| #![trigger rwithin(x, v)] rwithin(x, v) <==> rwithin(*self, v) && !rwithin(*other, v),
            r is None ==> forall|v: VKey| #![trigger rwithin(*self, v)] rwithin(*self, v) ==> rwithin(*other, v),
{
broadcast use g_any, lemma_any_within_concat;

        let mut predicates = Vec::new();

        for lefty in it0: &self.0
    invariant rwf(*self), rwf(*other), swf(predicates@),
        forall|v: VKey| #![trigger any_within(predicates@, predicates@.len() as int, v)] #![trigger rwithin(*other, v)] any_within(predicates@, predicates@.len() as int, v) <==> (any_within(self.0@, it0.index@ as int, v) && !rwithin(*other, v)),
{
let ghost old_preds = predicates@;

            // what is left of `lefty` after removing every alternative of `other`
            let mut remainders = vec![lefty.clone()];
proof { assert(remainders@.len() == 1 && remainders@[0] == *lefty);
            assert forall|v: VKey| #![trigger any_within(remainders@, remainders@.len() as int, v)] any_within(remainders@, remainders@.len() as int, v) <==> (within(*lefty, v) && !any_within(other.0@, 0, v)) by { lemma_any_within_step(remainders@, 0, v); } }

            for righty in it1: &other.0
    invariant rwf(*self), rwf(*other), swf(predicates@), swf(remainders@), bs_wf(*lefty), 0 <= it0.index@ < self.0@.len(), *lefty == self.0@[it0.index@ as int],
        forall|v: VKey| #![trigger any_within(predicates@, predicates@.len() as int, v)] #![trigger rwithin(*other, v)] any_within(predicates@, predicates@.len() as int, v) <==> (any_within(self.0@, it0.index@ as int, v) && !rwithin(*other, v)),
        forall|v: VKey| #![trigger any_within(remainders@, remainders@.len() as int, v)] any_within(remainders@, remainders@.len() as int, v) <==> (within(*lefty, v) && !any_within(other.0@, it1.index@ as int, v)),
{
                let mut next = Vec::new();
                for piece in it2: &remainders
    invariant rwf(*other), swf(remainders@), swf(next@), bs_wf(*righty),
        forall|v: VKey| #![trigger any_within(next@, next@.len() as int, v)] any_within(next@, next@.len() as int, v) <==> (any_within(remainders@, it2.index@ as int, v) && !within(*righty, v)),
{
let ghost old_next = next@; let ghost mut rgv: Option<Vec<BoundSet>> = None;

                    if let Some(mut range) = piece.difference(righty) {
proof { rgv = Some(range); }

                        next.append(&mut range)
                    }
                
proof {
            let added: Seq<BoundSet> = match rgv { Some(x) => x@, None => Seq::empty() };
            assert(next@ =~= old_next + added);
            if rgv is Some { lemma_swf_concat(old_next, added); }
            assert forall|v: VKey| #![trigger any_within(next@, next@.len() as int, v)] any_within(next@, next@.len() as int, v) <==> (any_within(remainders@, it2.index@ as int + 1, v) && !within(*righty, v)) by {
                lemma_any_within_step(remainders@, it2.index@ as int, v);
                lemma_any_within_concat(old_next, added, v);
                match rgv {
                    Some(x) => { lemma_bdiff_pointwise(*piece, *righty, rgv, v); },
                    None => { if bdiff_post(*piece, *righty, None) { lemma_bdiff_pointwise(*piece, *righty, None, v); } lemma_any_within_zero(added, v); },
                }
            }
        }
}
                remainders = next;
proof {
                assert forall|v: VKey| #![trigger any_within(remainders@, remainders@.len() as int, v)] any_within(remainders@, remainders@.len() as int, v) <==> (within(*lefty, v) && !any_within(other.0@, it1.index@ as int + 1, v)) by {
                    lemma_any_within_step(other.0@, it1.index@ as int, v);
                }
            }

            }
            let ghost rem_final = remainders@;
predicates.append(&mut remainders)
        ;
proof {
            assert(predicates@ =~= old_preds + rem_final);
            lemma_swf_concat(old_preds, rem_final);
            assert forall|v: VKey| #![trigger any_within(predicates@, predicates@.len() as int, v)] #![trigger rwithin(*other, v)] any_within(predicates@, predicates@.len() as int, v) <==> (any_within(self.0@, it0.index@ as int + 1, v) && !rwithin(*other, v)) by {
                lemma_any_within_step(self.0@, it0.index@ as int, v);
                lemma_any_within_concat(old_preds, rem_final, v);
            }
        }
}

        if predicates.is_empty() {
            None
        } else {
            Some(Self(predicates))
        }
    }

    pub fn min_version(&self) -> (r: Option<Version>)
    requires rwf(*self), forall|i: int| 0 <= i < self.0@.len() ==> (bound_version(*(#[trigger] self.0@[i]).lower) matches Some(w) ==> w.patch < 0xffff_ffff_ffff_ffff),
    ensures match r {
        Some(m) => rsat(*self, key(m)) && forall|k: VKey| #![trigger rsat(*self, k)] wfk0(k) && rsat(*self, k) ==> kcmp(key(m), k) != Ordering::Greater,
        None => forall|k: VKey| #![trigger rsat(*self, k)] wfk0(k) ==> !rsat(*self, k),
    },
{
broadcast use g_any, group_k_order;

        let mut min: Option<Version> = None;

        for range in it0: &self.0
    invariant rwf(*self), forall|i: int| 0 <= i < self.0@.len() ==> (bound_version(*(#[trigger] self.0@[i]).lower) matches Some(w) ==> w.patch < 0xffff_ffff_ffff_ffff), match min {
            Some(m) => any_sat(self.0@, it0.index@ as int, key(m)) && forall|k: VKey| #![trigger any_sat(self.0@, it0.index@ as int, k)] wfk0(k) && any_sat(self.0@, it0.index@ as int, k) ==> kcmp(key(m), k) != Ordering::Greater,
            None => forall|k: VKey| #![trigger any_sat(self.0@, it0.index@ as int, k)] wfk0(k) ==> !any_sat(self.0@, it0.index@ as int, k),
        },
{
let ghost old_min = min; let ghost mut cand: Option<Version> = None;

            if let Some(candidate) = range.min_version() {
proof { cand = Some(candidate); }

                let lower = match &min {
                    Some(current) => candidate < *current,
                    None => true,
                };
                if lower {
                    min = Some(candidate);
                }
            }
        
proof {
            let n = it0.index@ as int;
            assert(*range == self.0@[n]);
            assert(minv_post(*range, cand));
            assert forall|k: VKey| #![trigger any_sat(self.0@, n + 1, k)] any_sat(self.0@, n + 1, k) == (any_sat(self.0@, n, k) || sat(self.0@[n], k)) by { lemma_any_sat_step(self.0@, n, k); }
            let new_min = min;
            match new_min {
                Some(m) => {
                    lemma_any_sat_step(self.0@, n, key(m));
                    assert forall|k: VKey| #![trigger any_sat(self.0@, n + 1, k)] wfk0(k) && any_sat(self.0@, n + 1, k) implies kcmp(key(m), k) != Ordering::Greater by {
                        lemma_any_sat_step(self.0@, n, k);
                        if let Some(c) = cand { lemma_k_flip(key(c), key(m)); if sat(self.0@[n], k) { lemma_k_trans(key(m), key(c), k); } }
                        if let Some(o) = old_min { lemma_k_flip(key(m), key(o)); if any_sat(self.0@, n, k) { lemma_k_trans(key(m), key(o), k); } }
                    }
                },
                None => {},
            }
        }
}

        min
    }

    pub fn max_satisfying<'v>(&self, versions: &'v [Version]) -> (r: Option<&'v Version>)
    requires rwf(*self),
    ensures r matches Some(m) ==> rsat(*self, key(*m)) && (exists|k: int| 0 <= k < versions@.len() && *m == #[trigger] versions@[k])
                && forall|j: int| 0 <= j < versions@.len() && rsat(*self, key(#[trigger] versions@[j])) ==> ver_cmp(versions@[j], *m) != Ordering::Greater,
            r is None ==> forall|j: int| 0 <= j < versions@.len() ==> !rsat(*self, key(#[trigger] versions@[j])),
{
        verif_std_filter_max(versions, |v: &&Version| -> (b: bool) requires rwf(*self) ensures b == rsat(*self, key(**v)) { self.satisfies(v) })
    }

    pub fn min_satisfying<'v>(&self, versions: &'v [Version]) -> (r: Option<&'v Version>)
    requires rwf(*self),
    ensures r matches Some(m) ==> rsat(*self, key(*m)) && (exists|k: int| 0 <= k < versions@.len() && *m == #[trigger] versions@[k])
                && forall|j: int| 0 <= j < versions@.len() && rsat(*self, key(#[trigger] versions@[j])) ==> ver_cmp(versions@[j], *m) != Ordering::Less,
            r is None ==> forall|j: int| 0 <= j < versions@.len() ==> !rsat(*self, key(#[trigger] versions@[j])),
{
        verif_std_filter_min(versions, |v: &&Version| -> (b: bool) requires rwf(*self) ensures b == rsat(*self, key(**v)) { self.satisfies(v) })
    }
}
impl FromSpecImpl<(u64, u64, u64)> for Version { open spec fn obeys_from_spec() -> bool { false } open spec fn from_spec(v: (u64, u64, u64)) -> Self { arbitrary() } }
impl FromSpecImpl<(u64, u64, u64, u64)> for Version { open spec fn obeys_from_spec() -> bool { false } open spec fn from_spec(v: (u64, u64, u64, u64)) -> Self { arbitrary() } }
impl FromSpecImpl<Partial> for Version { open spec fn obeys_from_spec() -> bool { false } open spec fn from_spec(v: Partial) -> Self { arbitrary() } }


            impl ::std::convert::From<(u64, u64, u64)> for Version {
                fn from(arg: (u64, u64, u64)) -> (r: Self)
 ensures key(r) == k3(arg.0 as int, arg.1 as int, arg.2 as int), r.build@.len() == 0
 {
 let (major, minor, patch) = arg;
                    Version {
                        major: major as u64,
                        minor: minor as u64,
                        patch: patch as u64,
                        build: Vec::new(),
                        pre_release: Vec::new(),
                    }
                }
            }

            impl ::std::convert::From<(u64, u64, u64, u64)> for Version {
                fn from(arg: (u64, u64, u64, u64)) -> (r: Self)
 ensures key(r).major == arg.0, key(r).minor == arg.1, key(r).patch == arg.2, key(r).pre =~= seq![Identifier::Numeric(arg.3)], r.build@.len() == 0
 {
 let (major, minor, patch, pre_release) = arg;
                    Version {
                        major: major as u64,
                        minor: minor as u64,
                        patch: patch as u64,
                        build: Vec::new(),
                        pre_release: vec![Identifier::Numeric(pre_release as u64)],
                    }
                }
            }
        
impl From<Partial> for Version {
    fn from(partial: Partial) -> (r: Self)
    ensures r.major == (match partial.major { Some(x) => x, None => 0 }), r.minor == (match partial.minor { Some(x) => x, None => 0 }), r.patch == (match partial.patch { Some(x) => x, None => 0 }), r.pre_release == partial.pre_release, r.build == partial.build
{
        Version {
            major: partial.major.unwrap_or(0),
            minor: partial.minor.unwrap_or(0),
            patch: partial.patch.unwrap_or(0),
            pre_release: partial.pre_release,
            build: partial.build,
        }
    }
}
fn caret_desugar(parsed: Partial) -> (r: Option<BoundSet>)
    requires wf_partial(parsed),
    ensures
        parsed.major is None && parsed.minor is None && parsed.patch is None && parsed.pre_release@.len() == 0 ==> shape_ok_c(r, npm_caret_c(parsed)),  // caret#N.N.N
        parsed.major is None && parsed.minor is None && parsed.patch is None && parsed.pre_release@.len() > 0 ==> shape_ok_c(r, npm_caret_c(parsed)),  // caret#N.N.N+pre
        parsed.major is None && parsed.minor is None && parsed.patch is Some && parsed.pre_release@.len() == 0 ==> shape_ok_c(r, npm_caret_c(parsed)),  // caret#N.N.S
        parsed.major is None && parsed.minor is None && parsed.patch is Some && parsed.pre_release@.len() > 0 ==> shape_ok_c(r, npm_caret_c(parsed)),  // caret#N.N.S+pre
        parsed.major is None && parsed.minor is Some && parsed.patch is None && parsed.pre_release@.len() == 0 ==> shape_ok_c(r, npm_caret_c(parsed)),  // caret#N.S.N
        parsed.major is None && parsed.minor is Some && parsed.patch is None && parsed.pre_release@.len() > 0 ==> shape_ok_c(r, npm_caret_c(parsed)),  // caret#N.S.N+pre
        parsed.major is None && parsed.minor is Some && parsed.patch is Some && parsed.pre_release@.len() == 0 ==> shape_ok_c(r, npm_caret_c(parsed)),  // caret#N.S.S
        parsed.major is None && parsed.minor is Some && parsed.patch is Some && parsed.pre_release@.len() > 0 ==> shape_ok_c(r, npm_caret_c(parsed)),  // caret#N.S.S+pre
        parsed.major is Some && parsed.minor is None && parsed.patch is None && parsed.pre_release@.len() == 0 && pM(parsed) == 0 ==> shape_ok_c(r, npm_caret_c(parsed)),  // caret#0:S.N.N
        parsed.major is Some && parsed.minor is None && parsed.patch is None && parsed.pre_release@.len() == 0 && pM(parsed) != 0 ==> shape_ok_c(r, npm_caret_c(parsed)),  // caret#+:S.N.N
        parsed.major is Some && parsed.minor is None && parsed.patch is None && parsed.pre_release@.len() > 0 && pM(parsed) == 0 ==> shape_ok_c(r, npm_caret_c(parsed)),  // caret#0:S.N.N+pre
        parsed.major is Some && parsed.minor is None && parsed.patch is None && parsed.pre_release@.len() > 0 && pM(parsed) != 0 ==> shape_ok_c(r, npm_caret_c(parsed)),  // caret#+:S.N.N+pre
        parsed.major is Some && parsed.minor is None && parsed.patch is Some && parsed.pre_release@.len() == 0 && pM(parsed) == 0 ==> shape_ok_c(r, npm_caret_c(parsed)),  // caret#0:S.N.S
        parsed.major is Some && parsed.minor is None && parsed.patch is Some && parsed.pre_release@.len() == 0 && pM(parsed) != 0 ==> shape_ok_c(r, npm_caret_c(parsed)),  // caret#+:S.N.S
        parsed.major is Some && parsed.minor is None && parsed.patch is Some && parsed.pre_release@.len() > 0 && pM(parsed) == 0 ==> shape_ok_c(r, npm_caret_c(parsed)),  // caret#0:S.N.S+pre
        parsed.major is Some && parsed.minor is None && parsed.patch is Some && parsed.pre_release@.len() > 0 && pM(parsed) != 0 ==> shape_ok_c(r, npm_caret_c(parsed)),  // caret#+:S.N.S+pre
        parsed.major is Some && parsed.minor is Some && parsed.patch is None && parsed.pre_release@.len() == 0 && pM(parsed) == 0 ==> shape_ok_c(r, npm_caret_c(parsed)),  // caret#0:S.S.N
        parsed.major is Some && parsed.minor is Some && parsed.patch is None && parsed.pre_release@.len() == 0 && pM(parsed) != 0 ==> shape_ok_c(r, npm_caret_c(parsed)),  // caret#+:S.S.N
        parsed.major is Some && parsed.minor is Some && parsed.patch is None && parsed.pre_release@.len() > 0 && pM(parsed) == 0 ==> shape_ok_c(r, npm_caret_c(parsed)),  // caret#0:S.S.N+pre
        parsed.major is Some && parsed.minor is Some && parsed.patch is None && parsed.pre_release@.len() > 0 && pM(parsed) != 0 ==> shape_ok_c(r, npm_caret_c(parsed)),  // caret#+:S.S.N+pre
        parsed.major is Some && parsed.minor is Some && parsed.patch is Some && parsed.pre_release@.len() == 0 && pM(parsed) == 0 ==> shape_ok_c(r, npm_caret_c(parsed)),  // caret#0:S.S.S
        parsed.major is Some && parsed.minor is Some && parsed.patch is Some && parsed.pre_release@.len() == 0 && pM(parsed) != 0 ==> shape_ok_c(r, npm_caret_c(parsed)),  // caret#+:S.S.S
        parsed.major is Some && parsed.minor is Some && parsed.patch is Some && parsed.pre_release@.len() > 0 && pM(parsed) == 0 ==> shape_ok_c(r, npm_caret_c(parsed)),  // caret#0:S.S.S+pre
        parsed.major is Some && parsed.minor is Some && parsed.patch is Some && parsed.pre_release@.len() > 0 && pM(parsed) != 0 ==> shape_ok_c(r, npm_caret_c(parsed)),  // caret#+:S.S.S+pre
{
 broadcast use group_k_order, group_sets;
 proof { reveal(cut_cmp);
        assert forall|s: Seq<Identifier>| #![trigger s.len()] s.len() == 1 && s[0] == Identifier::Numeric(0) implies s == pre0() by { assert(s =~= pre0()); }
        assert forall|s: Seq<Identifier>| #![trigger s.len()] s.len() == 0 implies s == Seq::<Identifier>::empty() by { assert(s =~= Seq::<Identifier>::empty()); }
 }
    match parsed {
            Partial { major: None, .. } => {
                BoundSet::at_least(Predicate::Including((0, 0, 0).into()))
            }
            Partial {
                major: Some(0),
                minor: None,
                patch: None,
                ..
            } => BoundSet::at_most(Predicate::Excluding((1, 0, 0, 0).into())),
            Partial {
                major: Some(0),
                minor: Some(minor),
                patch: None,
                ..
            } => BoundSet::new(
                Bound::Lower(Predicate::Including((0, minor, 0).into())),
                Bound::Upper(Predicate::Excluding((0, minor + 1, 0, 0).into())),
            ),
            // TODO: can be compressed?
            Partial {
                major: Some(major),
                minor: None,
                patch: None,
                ..
            } => BoundSet::new(
                Bound::Lower(Predicate::Including((major, 0, 0).into())),
                Bound::Upper(Predicate::Excluding((major + 1, 0, 0, 0).into())),
            ),
            Partial {
                major: Some(major),
                minor: Some(minor),
                patch: None,
                ..
            } => BoundSet::new(
                Bound::Lower(Predicate::Including((major, minor, 0).into())),
                Bound::Upper(Predicate::Excluding((major + 1, 0, 0, 0).into())),
            ),
            Partial {
                major: Some(major),
                minor: Some(minor),
                patch: Some(patch),
                pre_release,
                ..
            } => BoundSet::new(
                Bound::Lower(Predicate::Including(Version {
                    major,
                    minor,
                    patch,
                    pre_release,
                    build: vec![],
                })),
                Bound::Upper(Predicate::Excluding(match (major, minor, patch) {
                    (0, 0, n) => Version::from((0, 0, n + 1, 0)),
                    (0, n, _) => Version::from((0, n + 1, 0, 0)),
                    (n, _, _) => Version::from((n + 1, 0, 0, 0)),
                })),
            ),
            _ => None,
        }
}

fn primitive_desugar_Exact(parsed: (Operation, Partial)) -> (r: Option<BoundSet>)
    requires wf_partial(parsed.1), parsed.0 == Operation::Exact,
    ensures
        parsed.0 == Operation::Exact && parsed.1.major is None && parsed.1.minor is None && parsed.1.patch is None && parsed.1.pre_release@.len() == 0 ==> shape_ok_c(r, npm_primitive_c(parsed.0, parsed.1)),  // Exact#N.N.N
        parsed.0 == Operation::Exact && parsed.1.major is None && parsed.1.minor is None && parsed.1.patch is None && parsed.1.pre_release@.len() > 0 ==> shape_ok_c(r, npm_primitive_c(parsed.0, parsed.1)),  // Exact#N.N.N+pre
        parsed.0 == Operation::Exact && parsed.1.major is None && parsed.1.minor is None && parsed.1.patch is Some && parsed.1.pre_release@.len() == 0 ==> shape_ok_c(r, npm_primitive_c(parsed.0, parsed.1)),  // Exact#N.N.S
        parsed.0 == Operation::Exact && parsed.1.major is None && parsed.1.minor is None && parsed.1.patch is Some && parsed.1.pre_release@.len() > 0 ==> shape_ok_c(r, npm_primitive_c(parsed.0, parsed.1)),  // Exact#N.N.S+pre
        parsed.0 == Operation::Exact && parsed.1.major is None && parsed.1.minor is Some && parsed.1.patch is None && parsed.1.pre_release@.len() == 0 ==> shape_ok_c(r, npm_primitive_c(parsed.0, parsed.1)),  // Exact#N.S.N
        parsed.0 == Operation::Exact && parsed.1.major is None && parsed.1.minor is Some && parsed.1.patch is None && parsed.1.pre_release@.len() > 0 ==> shape_ok_c(r, npm_primitive_c(parsed.0, parsed.1)),  // Exact#N.S.N+pre
        parsed.0 == Operation::Exact && parsed.1.major is None && parsed.1.minor is Some && parsed.1.patch is Some && parsed.1.pre_release@.len() == 0 ==> shape_ok_c(r, npm_primitive_c(parsed.0, parsed.1)),  // Exact#N.S.S
        parsed.0 == Operation::Exact && parsed.1.major is None && parsed.1.minor is Some && parsed.1.patch is Some && parsed.1.pre_release@.len() > 0 ==> shape_ok_c(r, npm_primitive_c(parsed.0, parsed.1)),  // Exact#N.S.S+pre
        parsed.0 == Operation::Exact && parsed.1.major is Some && parsed.1.minor is None && parsed.1.patch is None && parsed.1.pre_release@.len() == 0 ==> shape_ok_c(r, npm_primitive_c(parsed.0, parsed.1)),  // Exact#S.N.N
        parsed.0 == Operation::Exact && parsed.1.major is Some && parsed.1.minor is None && parsed.1.patch is None && parsed.1.pre_release@.len() > 0 ==> shape_ok_c(r, npm_primitive_c(parsed.0, parsed.1)),  // Exact#S.N.N+pre
        parsed.0 == Operation::Exact && parsed.1.major is Some && parsed.1.minor is None && parsed.1.patch is Some && parsed.1.pre_release@.len() == 0 ==> shape_ok_c(r, npm_primitive_c(parsed.0, parsed.1)),  // Exact#S.N.S
        parsed.0 == Operation::Exact && parsed.1.major is Some && parsed.1.minor is None && parsed.1.patch is Some && parsed.1.pre_release@.len() > 0 ==> shape_ok_c(r, npm_primitive_c(parsed.0, parsed.1)),  // Exact#S.N.S+pre
        parsed.0 == Operation::Exact && parsed.1.major is Some && parsed.1.minor is Some && parsed.1.patch is None && parsed.1.pre_release@.len() == 0 ==> shape_ok_c(r, npm_primitive_c(parsed.0, parsed.1)),  // Exact#S.S.N
        parsed.0 == Operation::Exact && parsed.1.major is Some && parsed.1.minor is Some && parsed.1.patch is None && parsed.1.pre_release@.len() > 0 ==> shape_ok_c(r, npm_primitive_c(parsed.0, parsed.1)),  // Exact#S.S.N+pre
        parsed.0 == Operation::Exact && parsed.1.major is Some && parsed.1.minor is Some && parsed.1.patch is Some && parsed.1.pre_release@.len() == 0 ==> shape_ok_c(r, npm_primitive_c(parsed.0, parsed.1)),  // Exact#S.S.S
        parsed.0 == Operation::Exact && parsed.1.major is Some && parsed.1.minor is Some && parsed.1.patch is Some && parsed.1.pre_release@.len() > 0 ==> shape_ok_c(r, npm_primitive_c(parsed.0, parsed.1)),  // Exact#S.S.S+pre
{
 broadcast use group_k_order, group_sets;
 proof { reveal(cut_cmp);
        assert forall|s: Seq<Identifier>| #![trigger s.len()] s.len() == 1 && s[0] == Identifier::Numeric(0) implies s == pre0() by { assert(s =~= pre0()); }
        assert forall|s: Seq<Identifier>| #![trigger s.len()] s.len() == 0 implies s == Seq::<Identifier>::empty() by { assert(s =~= Seq::<Identifier>::empty()); }
 }
    use Operation::*;
match parsed {
            // `>x` and `<x` admit nothing, every other operator on a wildcard admits everything
            (GreaterThan | LessThan, Partial { major: None, .. }) => BoundSet::at_most(
                Predicate::Excluding((0, 0, 0, 0).into()),
            ),
            (_, Partial { major: None, .. }) => {
                BoundSet::at_least(Predicate::Including((0, 0, 0).into()))
            }
            (GreaterThanEquals, partial) => {
                BoundSet::at_least(Predicate::Including(partial.into()))
            }
            (
                GreaterThan,
                Partial {
                    major: Some(major),
                    minor: Some(minor),
                    patch: None,
                    ..
                },
            ) => BoundSet::at_least(Predicate::Including((major, minor + 1, 0).into())),
            (
                GreaterThan,
                Partial {
                    major: Some(major),
                    minor: None,
                    patch: None,
                    ..
                },
            ) => BoundSet::at_least(Predicate::Including((major + 1, 0, 0).into())),
            (GreaterThan, partial) => BoundSet::at_least(Predicate::Excluding(partial.into())),
            (
                LessThan,
                Partial {
                    major: Some(major),
                    minor: Some(minor),
                    patch: None,
                    ..
                },
            ) => BoundSet::at_most(Predicate::Excluding((major, minor, 0, 0).into())),
            (
                LessThan,
                Partial {
                    major,
                    minor,
                    patch,
                    pre_release,
                    build,
                    ..
                },
            ) => BoundSet::at_most(Predicate::Excluding(Version {
                major: major.unwrap_or(0),
                minor: minor.unwrap_or(0),
                patch: patch.unwrap_or(0),
                build,
                pre_release,
            })),
            (
                LessThanEquals,
                Partial {
                    major,
                    minor: None,
                    patch: None,
                    ..
                },
            ) => BoundSet::at_most(Predicate::Including(
                (major.unwrap_or(0), MAX_SAFE_INTEGER, MAX_SAFE_INTEGER).into(),
            )),
            (
                LessThanEquals,
                Partial {
                    major,
                    minor,
                    patch: None,
                    ..
                },
            ) => BoundSet::at_most(Predicate::Including(
                (major.unwrap_or(0), minor.unwrap_or(0), MAX_SAFE_INTEGER).into(),
            )),
            (LessThanEquals, partial) => BoundSet::at_most(Predicate::Including(partial.into())),
            (
                Exact,
                Partial {
                    major: Some(major),
                    minor: Some(minor),
                    patch: Some(patch),
                    pre_release,
                    ..
                },
            ) => BoundSet::exact(Version {
                major,
                minor,
                patch,
                pre_release,
                build: vec![],
            }),
            (
                Exact,
                Partial {
                    major: Some(major),
                    minor: Some(minor),
                    ..
                },
            ) => BoundSet::new(
                Bound::Lower(Predicate::Including((major, minor, 0).into())),
                Bound::Upper(Predicate::Excluding(Version {
                    major,
                    minor: minor + 1,
                    patch: 0,
                    pre_release: vec![Identifier::Numeric(0)],
                    build: vec![],
                })),
            ),
            (
                Exact,
                Partial {
                    major: Some(major), ..
                },
            ) => BoundSet::new(
                Bound::Lower(Predicate::Including((major, 0, 0).into())),
                Bound::Upper(Predicate::Excluding(Version {
                    major: major + 1,
                    minor: 0,
                    patch: 0,
                    pre_release: vec![Identifier::Numeric(0)],
                    build: vec![],
                })),
            ),
            _ => None,
        }
}

fn primitive_desugar_GreaterThan(parsed: (Operation, Partial)) -> (r: Option<BoundSet>)
    requires wf_partial(parsed.1), parsed.0 == Operation::GreaterThan,
    ensures
        parsed.0 == Operation::GreaterThan && parsed.1.major is None && parsed.1.minor is None && parsed.1.patch is None && parsed.1.pre_release@.len() == 0 ==> shape_ok_c(r, npm_primitive_c(parsed.0, parsed.1)),  // GreaterThan#N.N.N
        parsed.0 == Operation::GreaterThan && parsed.1.major is None && parsed.1.minor is None && parsed.1.patch is None && parsed.1.pre_release@.len() > 0 ==> shape_ok_c(r, npm_primitive_c(parsed.0, parsed.1)),  // GreaterThan#N.N.N+pre
        parsed.0 == Operation::GreaterThan && parsed.1.major is None && parsed.1.minor is None && parsed.1.patch is Some && parsed.1.pre_release@.len() == 0 ==> shape_ok_c(r, npm_primitive_c(parsed.0, parsed.1)),  // GreaterThan#N.N.S
        parsed.0 == Operation::GreaterThan && parsed.1.major is None && parsed.1.minor is None && parsed.1.patch is Some && parsed.1.pre_release@.len() > 0 ==> shape_ok_c(r, npm_primitive_c(parsed.0, parsed.1)),  // GreaterThan#N.N.S+pre
        parsed.0 == Operation::GreaterThan && parsed.1.major is None && parsed.1.minor is Some && parsed.1.patch is None && parsed.1.pre_release@.len() == 0 ==> shape_ok_c(r, npm_primitive_c(parsed.0, parsed.1)),  // GreaterThan#N.S.N
        parsed.0 == Operation::GreaterThan && parsed.1.major is None && parsed.1.minor is Some && parsed.1.patch is None && parsed.1.pre_release@.len() > 0 ==> shape_ok_c(r, npm_primitive_c(parsed.0, parsed.1)),  // GreaterThan#N.S.N+pre
        parsed.0 == Operation::GreaterThan && parsed.1.major is None && parsed.1.minor is Some && parsed.1.patch is Some && parsed.1.pre_release@.len() == 0 ==> shape_ok_c(r, npm_primitive_c(parsed.0, parsed.1)),  // GreaterThan#N.S.S
        parsed.0 == Operation::GreaterThan && parsed.1.major is None && parsed.1.minor is Some && parsed.1.patch is Some && parsed.1.pre_release@.len() > 0 ==> shape_ok_c(r, npm_primitive_c(parsed.0, parsed.1)),  // GreaterThan#N.S.S+pre
        parsed.0 == Operation::GreaterThan && parsed.1.major is Some && parsed.1.minor is None && parsed.1.patch is None && parsed.1.pre_release@.len() == 0 ==> shape_ok_c(r, npm_primitive_c(parsed.0, parsed.1)),  // GreaterThan#S.N.N
        parsed.0 == Operation::GreaterThan && parsed.1.major is Some && parsed.1.minor is None && parsed.1.patch is None && parsed.1.pre_release@.len() > 0 ==> shape_ok_c(r, npm_primitive_c(parsed.0, parsed.1)),  // GreaterThan#S.N.N+pre
        parsed.0 == Operation::GreaterThan && parsed.1.major is Some && parsed.1.minor is None && parsed.1.patch is Some && parsed.1.pre_release@.len() == 0 ==> shape_ok_c(r, npm_primitive_c(parsed.0, parsed.1)),  // GreaterThan#S.N.S
        parsed.0 == Operation::GreaterThan && parsed.1.major is Some && parsed.1.minor is None && parsed.1.patch is Some && parsed.1.pre_release@.len() > 0 ==> shape_ok_c(r, npm_primitive_c(parsed.0, parsed.1)),  // GreaterThan#S.N.S+pre
        parsed.0 == Operation::GreaterThan && parsed.1.major is Some && parsed.1.minor is Some && parsed.1.patch is None && parsed.1.pre_release@.len() == 0 ==> shape_ok_c(r, npm_primitive_c(parsed.0, parsed.1)),  // GreaterThan#S.S.N
        parsed.0 == Operation::GreaterThan && parsed.1.major is Some && parsed.1.minor is Some && parsed.1.patch is None && parsed.1.pre_release@.len() > 0 ==> shape_ok_c(r, npm_primitive_c(parsed.0, parsed.1)),  // GreaterThan#S.S.N+pre
        parsed.0 == Operation::GreaterThan && parsed.1.major is Some && parsed.1.minor is Some && parsed.1.patch is Some && parsed.1.pre_release@.len() == 0 ==> shape_ok_c(r, npm_primitive_c(parsed.0, parsed.1)),  // GreaterThan#S.S.S
        parsed.0 == Operation::GreaterThan && parsed.1.major is Some && parsed.1.minor is Some && parsed.1.patch is Some && parsed.1.pre_release@.len() > 0 ==> shape_ok_c(r, npm_primitive_c(parsed.0, parsed.1)),  // GreaterThan#S.S.S+pre
{
 broadcast use group_k_order, group_sets;
 proof { reveal(cut_cmp);
        assert forall|s: Seq<Identifier>| #![trigger s.len()] s.len() == 1 && s[0] == Identifier::Numeric(0) implies s == pre0() by { assert(s =~= pre0()); }
        assert forall|s: Seq<Identifier>| #![trigger s.len()] s.len() == 0 implies s == Seq::<Identifier>::empty() by { assert(s =~= Seq::<Identifier>::empty()); }
 }
    use Operation::*;
match parsed {
            // `>x` and `<x` admit nothing, every other operator on a wildcard admits everything
            (GreaterThan | LessThan, Partial { major: None, .. }) => BoundSet::at_most(
                Predicate::Excluding((0, 0, 0, 0).into()),
            ),
            (_, Partial { major: None, .. }) => {
                BoundSet::at_least(Predicate::Including((0, 0, 0).into()))
            }
            (GreaterThanEquals, partial) => {
                BoundSet::at_least(Predicate::Including(partial.into()))
            }
            (
                GreaterThan,
                Partial {
                    major: Some(major),
                    minor: Some(minor),
                    patch: None,
                    ..
                },
            ) => BoundSet::at_least(Predicate::Including((major, minor + 1, 0).into())),
            (
                GreaterThan,
                Partial {
                    major: Some(major),
                    minor: None,
                    patch: None,
                    ..
                },
            ) => BoundSet::at_least(Predicate::Including((major + 1, 0, 0).into())),
            (GreaterThan, partial) => BoundSet::at_least(Predicate::Excluding(partial.into())),
            (
                LessThan,
                Partial {
                    major: Some(major),
                    minor: Some(minor),
                    patch: None,
                    ..
                },
            ) => BoundSet::at_most(Predicate::Excluding((major, minor, 0, 0).into())),
            (
                LessThan,
                Partial {
                    major,
                    minor,
                    patch,
                    pre_release,
                    build,
                    ..
                },
            ) => BoundSet::at_most(Predicate::Excluding(Version {
                major: major.unwrap_or(0),
                minor: minor.unwrap_or(0),
                patch: patch.unwrap_or(0),
                build,
                pre_release,
            })),
            (
                LessThanEquals,
                Partial {
                    major,
                    minor: None,
                    patch: None,
                    ..
                },
            ) => BoundSet::at_most(Predicate::Including(
                (major.unwrap_or(0), MAX_SAFE_INTEGER, MAX_SAFE_INTEGER).into(),
            )),
            (
                LessThanEquals,
                Partial {
                    major,
                    minor,
                    patch: None,
                    ..
                },
            ) => BoundSet::at_most(Predicate::Including(
                (major.unwrap_or(0), minor.unwrap_or(0), MAX_SAFE_INTEGER).into(),
            )),
            (LessThanEquals, partial) => BoundSet::at_most(Predicate::Including(partial.into())),
            (
                Exact,
                Partial {
                    major: Some(major),
                    minor: Some(minor),
                    patch: Some(patch),
                    pre_release,
                    ..
                },
            ) => BoundSet::exact(Version {
                major,
                minor,
                patch,
                pre_release,
                build: vec![],
            }),
            (
                Exact,
                Partial {
                    major: Some(major),
                    minor: Some(minor),
                    ..
                },
            ) => BoundSet::new(
                Bound::Lower(Predicate::Including((major, minor, 0).into())),
                Bound::Upper(Predicate::Excluding(Version {
                    major,
                    minor: minor + 1,
                    patch: 0,
                    pre_release: vec![Identifier::Numeric(0)],
                    build: vec![],
                })),
            ),
            (
                Exact,
                Partial {
                    major: Some(major), ..
                },
            ) => BoundSet::new(
                Bound::Lower(Predicate::Including((major, 0, 0).into())),
                Bound::Upper(Predicate::Excluding(Version {
                    major: major + 1,
                    minor: 0,
                    patch: 0,
                    pre_release: vec![Identifier::Numeric(0)],
                    build: vec![],
                })),
            ),
            _ => None,
        }
}

fn primitive_desugar_GreaterThanEquals(parsed: (Operation, Partial)) -> (r: Option<BoundSet>)
    requires wf_partial(parsed.1), parsed.0 == Operation::GreaterThanEquals,
    ensures
        parsed.0 == Operation::GreaterThanEquals && parsed.1.major is None && parsed.1.minor is None && parsed.1.patch is None && parsed.1.pre_release@.len() == 0 ==> shape_ok_c(r, npm_primitive_c(parsed.0, parsed.1)),  // GreaterThanEquals#N.N.N
        parsed.0 == Operation::GreaterThanEquals && parsed.1.major is None && parsed.1.minor is None && parsed.1.patch is None && parsed.1.pre_release@.len() > 0 ==> shape_ok_c(r, npm_primitive_c(parsed.0, parsed.1)),  // GreaterThanEquals#N.N.N+pre
        parsed.0 == Operation::GreaterThanEquals && parsed.1.major is None && parsed.1.minor is None && parsed.1.patch is Some && parsed.1.pre_release@.len() == 0 ==> shape_ok_c(r, npm_primitive_c(parsed.0, parsed.1)),  // GreaterThanEquals#N.N.S
        parsed.0 == Operation::GreaterThanEquals && parsed.1.major is None && parsed.1.minor is None && parsed.1.patch is Some && parsed.1.pre_release@.len() > 0 ==> shape_ok_c(r, npm_primitive_c(parsed.0, parsed.1)),  // GreaterThanEquals#N.N.S+pre
        parsed.0 == Operation::GreaterThanEquals && parsed.1.major is None && parsed.1.minor is Some && parsed.1.patch is None && parsed.1.pre_release@.len() == 0 ==> shape_ok_c(r, npm_primitive_c(parsed.0, parsed.1)),  // GreaterThanEquals#N.S.N
        parsed.0 == Operation::GreaterThanEquals && parsed.1.major is None && parsed.1.minor is Some && parsed.1.patch is None && parsed.1.pre_release@.len() > 0 ==> shape_ok_c(r, npm_primitive_c(parsed.0, parsed.1)),  // GreaterThanEquals#N.S.N+pre
        parsed.0 == Operation::GreaterThanEquals && parsed.1.major is None && parsed.1.minor is Some && parsed.1.patch is Some && parsed.1.pre_release@.len() == 0 ==> shape_ok_c(r, npm_primitive_c(parsed.0, parsed.1)),  // GreaterThanEquals#N.S.S
        parsed.0 == Operation::GreaterThanEquals && parsed.1.major is None && parsed.1.minor is Some && parsed.1.patch is Some && parsed.1.pre_release@.len() > 0 ==> shape_ok_c(r, npm_primitive_c(parsed.0, parsed.1)),  // GreaterThanEquals#N.S.S+pre
        parsed.0 == Operation::GreaterThanEquals && parsed.1.major is Some && parsed.1.minor is None && parsed.1.patch is None && parsed.1.pre_release@.len() == 0 ==> shape_ok_c(r, npm_primitive_c(parsed.0, parsed.1)),  // GreaterThanEquals#S.N.N
        parsed.0 == Operation::GreaterThanEquals && parsed.1.major is Some && parsed.1.minor is None && parsed.1.patch is None && parsed.1.pre_release@.len() > 0 ==> shape_ok_c(r, npm_primitive_c(parsed.0, parsed.1)),  // GreaterThanEquals#S.N.N+pre
        parsed.0 == Operation::GreaterThanEquals && parsed.1.major is Some && parsed.1.minor is None && parsed.1.patch is Some && parsed.1.pre_release@.len() == 0 ==> shape_ok_c(r, npm_primitive_c(parsed.0, parsed.1)),  // GreaterThanEquals#S.N.S
        parsed.0 == Operation::GreaterThanEquals && parsed.1.major is Some && parsed.1.minor is None && parsed.1.patch is Some && parsed.1.pre_release@.len() > 0 ==> shape_ok_c(r, npm_primitive_c(parsed.0, parsed.1)),  // GreaterThanEquals#S.N.S+pre
        parsed.0 == Operation::GreaterThanEquals && parsed.1.major is Some && parsed.1.minor is Some && parsed.1.patch is None && parsed.1.pre_release@.len() == 0 ==> shape_ok_c(r, npm_primitive_c(parsed.0, parsed.1)),  // GreaterThanEquals#S.S.N
        parsed.0 == Operation::GreaterThanEquals && parsed.1.major is Some && parsed.1.minor is Some && parsed.1.patch is None && parsed.1.pre_release@.len() > 0 ==> shape_ok_c(r, npm_primitive_c(parsed.0, parsed.1)),  // GreaterThanEquals#S.S.N+pre
        parsed.0 == Operation::GreaterThanEquals && parsed.1.major is Some && parsed.1.minor is Some && parsed.1.patch is Some && parsed.1.pre_release@.len() == 0 ==> shape_ok_c(r, npm_primitive_c(parsed.0, parsed.1)),  // GreaterThanEquals#S.S.S
        parsed.0 == Operation::GreaterThanEquals && parsed.1.major is Some && parsed.1.minor is Some && parsed.1.patch is Some && parsed.1.pre_release@.len() > 0 ==> shape_ok_c(r, npm_primitive_c(parsed.0, parsed.1)),  // GreaterThanEquals#S.S.S+pre
{
 broadcast use group_k_order, group_sets;
 proof { reveal(cut_cmp);
        assert forall|s: Seq<Identifier>| #![trigger s.len()] s.len() == 1 && s[0] == Identifier::Numeric(0) implies s == pre0() by { assert(s =~= pre0()); }
        assert forall|s: Seq<Identifier>| #![trigger s.len()] s.len() == 0 implies s == Seq::<Identifier>::empty() by { assert(s =~= Seq::<Identifier>::empty()); }
 }
    use Operation::*;
match parsed {
            // `>x` and `<x` admit nothing, every other operator on a wildcard admits everything
            (GreaterThan | LessThan, Partial { major: None, .. }) => BoundSet::at_most(
                Predicate::Excluding((0, 0, 0, 0).into()),
            ),
            (_, Partial { major: None, .. }) => {
                BoundSet::at_least(Predicate::Including((0, 0, 0).into()))
            }
            (GreaterThanEquals, partial) => {
                BoundSet::at_least(Predicate::Including(partial.into()))
            }
            (
                GreaterThan,
                Partial {
                    major: Some(major),
                    minor: Some(minor),
                    patch: None,
                    ..
                },
            ) => BoundSet::at_least(Predicate::Including((major, minor + 1, 0).into())),
            (
                GreaterThan,
                Partial {
                    major: Some(major),
                    minor: None,
                    patch: None,
                    ..
                },
            ) => BoundSet::at_least(Predicate::Including((major + 1, 0, 0).into())),
            (GreaterThan, partial) => BoundSet::at_least(Predicate::Excluding(partial.into())),
            (
                LessThan,
                Partial {
                    major: Some(major),
                    minor: Some(minor),
                    patch: None,
                    ..
                },
            ) => BoundSet::at_most(Predicate::Excluding((major, minor, 0, 0).into())),
            (
                LessThan,
                Partial {
                    major,
                    minor,
                    patch,
                    pre_release,
                    build,
                    ..
                },
            ) => BoundSet::at_most(Predicate::Excluding(Version {
                major: major.unwrap_or(0),
                minor: minor.unwrap_or(0),
                patch: patch.unwrap_or(0),
                build,
                pre_release,
            })),
            (
                LessThanEquals,
                Partial {
                    major,
                    minor: None,
                    patch: None,
                    ..
                },
            ) => BoundSet::at_most(Predicate::Including(
                (major.unwrap_or(0), MAX_SAFE_INTEGER, MAX_SAFE_INTEGER).into(),
            )),
            (
                LessThanEquals,
                Partial {
                    major,
                    minor,
                    patch: None,
                    ..
                },
            ) => BoundSet::at_most(Predicate::Including(
                (major.unwrap_or(0), minor.unwrap_or(0), MAX_SAFE_INTEGER).into(),
            )),
            (LessThanEquals, partial) => BoundSet::at_most(Predicate::Including(partial.into())),
            (
                Exact,
                Partial {
                    major: Some(major),
                    minor: Some(minor),
                    patch: Some(patch),
                    pre_release,
                    ..
                },
            ) => BoundSet::exact(Version {
                major,
                minor,
                patch,
                pre_release,
                build: vec![],
            }),
            (
                Exact,
                Partial {
                    major: Some(major),
                    minor: Some(minor),
                    ..
                },
            ) => BoundSet::new(
                Bound::Lower(Predicate::Including((major, minor, 0).into())),
                Bound::Upper(Predicate::Excluding(Version {
                    major,
                    minor: minor + 1,
                    patch: 0,
                    pre_release: vec![Identifier::Numeric(0)],
                    build: vec![],
                })),
            ),
            (
                Exact,
                Partial {
                    major: Some(major), ..
                },
            ) => BoundSet::new(
                Bound::Lower(Predicate::Including((major, 0, 0).into())),
                Bound::Upper(Predicate::Excluding(Version {
                    major: major + 1,
                    minor: 0,
                    patch: 0,
                    pre_release: vec![Identifier::Numeric(0)],
                    build: vec![],
                })),
            ),
            _ => None,
        }
}

fn primitive_desugar_LessThan(parsed: (Operation, Partial)) -> (r: Option<BoundSet>)
    requires wf_partial(parsed.1), parsed.0 == Operation::LessThan,
    ensures
        parsed.0 == Operation::LessThan && parsed.1.major is None && parsed.1.minor is None && parsed.1.patch is None && parsed.1.pre_release@.len() == 0 ==> shape_ok_c(r, npm_primitive_c(parsed.0, parsed.1)),  // LessThan#N.N.N
        parsed.0 == Operation::LessThan && parsed.1.major is None && parsed.1.minor is None && parsed.1.patch is None && parsed.1.pre_release@.len() > 0 ==> shape_ok_c(r, npm_primitive_c(parsed.0, parsed.1)),  // LessThan#N.N.N+pre
        parsed.0 == Operation::LessThan && parsed.1.major is None && parsed.1.minor is None && parsed.1.patch is Some && parsed.1.pre_release@.len() == 0 ==> shape_ok_c(r, npm_primitive_c(parsed.0, parsed.1)),  // LessThan#N.N.S
        parsed.0 == Operation::LessThan && parsed.1.major is None && parsed.1.minor is None && parsed.1.patch is Some && parsed.1.pre_release@.len() > 0 ==> shape_ok_c(r, npm_primitive_c(parsed.0, parsed.1)),  // LessThan#N.N.S+pre
        parsed.0 == Operation::LessThan && parsed.1.major is None && parsed.1.minor is Some && parsed.1.patch is None && parsed.1.pre_release@.len() == 0 ==> shape_ok_c(r, npm_primitive_c(parsed.0, parsed.1)),  // LessThan#N.S.N
        parsed.0 == Operation::LessThan && parsed.1.major is None && parsed.1.minor is Some && parsed.1.patch is None && parsed.1.pre_release@.len() > 0 ==> shape_ok_c(r, npm_primitive_c(parsed.0, parsed.1)),  // LessThan#N.S.N+pre
        parsed.0 == Operation::LessThan && parsed.1.major is None && parsed.1.minor is Some && parsed.1.patch is Some && parsed.1.pre_release@.len() == 0 ==> shape_ok_c(r, npm_primitive_c(parsed.0, parsed.1)),  // LessThan#N.S.S
        parsed.0 == Operation::LessThan && parsed.1.major is None && parsed.1.minor is Some && parsed.1.patch is Some && parsed.1.pre_release@.len() > 0 ==> shape_ok_c(r, npm_primitive_c(parsed.0, parsed.1)),  // LessThan#N.S.S+pre
        parsed.0 == Operation::LessThan && parsed.1.major is Some && parsed.1.minor is None && parsed.1.patch is None && parsed.1.pre_release@.len() == 0 ==> shape_ok_c(r, npm_primitive_c(parsed.0, parsed.1)),  // LessThan#S.N.N
        parsed.0 == Operation::LessThan && parsed.1.major is Some && parsed.1.minor is None && parsed.1.patch is None && parsed.1.pre_release@.len() > 0 ==> shape_ok_c(r, npm_primitive_c(parsed.0, parsed.1)),  // LessThan#S.N.N+pre
        parsed.0 == Operation::LessThan && parsed.1.major is Some && parsed.1.minor is None && parsed.1.patch is Some && parsed.1.pre_release@.len() == 0 ==> shape_ok_c(r, npm_primitive_c(parsed.0, parsed.1)),  // LessThan#S.N.S
        parsed.0 == Operation::LessThan && parsed.1.major is Some && parsed.1.minor is None && parsed.1.patch is Some && parsed.1.pre_release@.len() > 0 ==> shape_ok_c(r, npm_primitive_c(parsed.0, parsed.1)),  // LessThan#S.N.S+pre
        parsed.0 == Operation::LessThan && parsed.1.major is Some && parsed.1.minor is Some && parsed.1.patch is None && parsed.1.pre_release@.len() == 0 ==> shape_ok_c(r, npm_primitive_c(parsed.0, parsed.1)),  // LessThan#S.S.N
        parsed.0 == Operation::LessThan && parsed.1.major is Some && parsed.1.minor is Some && parsed.1.patch is None && parsed.1.pre_release@.len() > 0 ==> shape_ok_c(r, npm_primitive_c(parsed.0, parsed.1)),  // LessThan#S.S.N+pre
        parsed.0 == Operation::LessThan && parsed.1.major is Some && parsed.1.minor is Some && parsed.1.patch is Some && parsed.1.pre_release@.len() == 0 ==> shape_ok_c(r, npm_primitive_c(parsed.0, parsed.1)),  // LessThan#S.S.S
        parsed.0 == Operation::LessThan && parsed.1.major is Some && parsed.1.minor is Some && parsed.1.patch is Some && parsed.1.pre_release@.len() > 0 ==> shape_ok_c(r, npm_primitive_c(parsed.0, parsed.1)),  // LessThan#S.S.S+pre
{
 broadcast use group_k_order, group_sets;
 proof { reveal(cut_cmp);
        assert forall|s: Seq<Identifier>| #![trigger s.len()] s.len() == 1 && s[0] == Identifier::Numeric(0) implies s == pre0() by { assert(s =~= pre0()); }
        assert forall|s: Seq<Identifier>| #![trigger s.len()] s.len() == 0 implies s == Seq::<Identifier>::empty() by { assert(s =~= Seq::<Identifier>::empty()); }
 }
    use Operation::*;
match parsed {
            // `>x` and `<x` admit nothing, every other operator on a wildcard admits everything
            (GreaterThan | LessThan, Partial { major: None, .. }) => BoundSet::at_most(
                Predicate::Excluding((0, 0, 0, 0).into()),
            ),
            (_, Partial { major: None, .. }) => {
                BoundSet::at_least(Predicate::Including((0, 0, 0).into()))
            }
            (GreaterThanEquals, partial) => {
                BoundSet::at_least(Predicate::Including(partial.into()))
            }
            (
                GreaterThan,
                Partial {
                    major: Some(major),
                    minor: Some(minor),
                    patch: None,
                    ..
                },
            ) => BoundSet::at_least(Predicate::Including((major, minor + 1, 0).into())),
            (
                GreaterThan,
                Partial {
                    major: Some(major),
                    minor: None,
                    patch: None,
                    ..
                },
            ) => BoundSet::at_least(Predicate::Including((major + 1, 0, 0).into())),
            (GreaterThan, partial) => BoundSet::at_least(Predicate::Excluding(partial.into())),
            (
                LessThan,
                Partial {
                    major: Some(major),
                    minor: Some(minor),
                    patch: None,
                    ..
                },
            ) => BoundSet::at_most(Predicate::Excluding((major, minor, 0, 0).into())),
            (
                LessThan,
                Partial {
                    major,
                    minor,
                    patch,
                    pre_release,
                    build,
                    ..
                },
            ) => BoundSet::at_most(Predicate::Excluding(Version {
                major: major.unwrap_or(0),
                minor: minor.unwrap_or(0),
                patch: patch.unwrap_or(0),
                build,
                pre_release,
            })),
            (
                LessThanEquals,
                Partial {
                    major,
                    minor: None,
                    patch: None,
                    ..
                },
            ) => BoundSet::at_most(Predicate::Including(
                (major.unwrap_or(0), MAX_SAFE_INTEGER, MAX_SAFE_INTEGER).into(),
            )),
            (
                LessThanEquals,
                Partial {
                    major,
                    minor,
                    patch: None,
                    ..
                },
            ) => BoundSet::at_most(Predicate::Including(
                (major.unwrap_or(0), minor.unwrap_or(0), MAX_SAFE_INTEGER).into(),
            )),
            (LessThanEquals, partial) => BoundSet::at_most(Predicate::Including(partial.into())),
            (
                Exact,
                Partial {
                    major: Some(major),
                    minor: Some(minor),
                    patch: Some(patch),
                    pre_release,
                    ..
                },
            ) => BoundSet::exact(Version {
                major,
                minor,
                patch,
                pre_release,
                build: vec![],
            }),
            (
                Exact,
                Partial {
                    major: Some(major),
                    minor: Some(minor),
                    ..
                },
            ) => BoundSet::new(
                Bound::Lower(Predicate::Including((major, minor, 0).into())),
                Bound::Upper(Predicate::Excluding(Version {
                    major,
                    minor: minor + 1,
                    patch: 0,
                    pre_release: vec![Identifier::Numeric(0)],
                    build: vec![],
                })),
            ),
            (
                Exact,
                Partial {
                    major: Some(major), ..
                },
            ) => BoundSet::new(
                Bound::Lower(Predicate::Including((major, 0, 0).into())),
                Bound::Upper(Predicate::Excluding(Version {
                    major: major + 1,
                    minor: 0,
                    patch: 0,
                    pre_release: vec![Identifier::Numeric(0)],
                    build: vec![],
                })),
            ),
            _ => None,
        }
}

fn primitive_desugar_LessThanEquals(parsed: (Operation, Partial)) -> (r: Option<BoundSet>)
    requires wf_partial(parsed.1), parsed.0 == Operation::LessThanEquals,
    ensures
        parsed.0 == Operation::LessThanEquals && parsed.1.major is None && parsed.1.minor is None && parsed.1.patch is None && parsed.1.pre_release@.len() == 0 ==> shape_ok_c(r, npm_primitive_c(parsed.0, parsed.1)),  // LessThanEquals#N.N.N
        parsed.0 == Operation::LessThanEquals && parsed.1.major is None && parsed.1.minor is None && parsed.1.patch is None && parsed.1.pre_release@.len() > 0 ==> shape_ok_c(r, npm_primitive_c(parsed.0, parsed.1)),  // LessThanEquals#N.N.N+pre
        parsed.0 == Operation::LessThanEquals && parsed.1.major is None && parsed.1.minor is None && parsed.1.patch is Some && parsed.1.pre_release@.len() == 0 ==> shape_ok_c(r, npm_primitive_c(parsed.0, parsed.1)),  // LessThanEquals#N.N.S
        parsed.0 == Operation::LessThanEquals && parsed.1.major is None && parsed.1.minor is None && parsed.1.patch is Some && parsed.1.pre_release@.len() > 0 ==> shape_ok_c(r, npm_primitive_c(parsed.0, parsed.1)),  // LessThanEquals#N.N.S+pre
        parsed.0 == Operation::LessThanEquals && parsed.1.major is None && parsed.1.minor is Some && parsed.1.patch is None && parsed.1.pre_release@.len() == 0 ==> shape_ok_c(r, npm_primitive_c(parsed.0, parsed.1)),  // LessThanEquals#N.S.N
        parsed.0 == Operation::LessThanEquals && parsed.1.major is None && parsed.1.minor is Some && parsed.1.patch is None && parsed.1.pre_release@.len() > 0 ==> shape_ok_c(r, npm_primitive_c(parsed.0, parsed.1)),  // LessThanEquals#N.S.N+pre
        parsed.0 == Operation::LessThanEquals && parsed.1.major is None && parsed.1.minor is Some && parsed.1.patch is Some && parsed.1.pre_release@.len() == 0 ==> shape_ok_c(r, npm_primitive_c(parsed.0, parsed.1)),  // LessThanEquals#N.S.S
        parsed.0 == Operation::LessThanEquals && parsed.1.major is None && parsed.1.minor is Some && parsed.1.patch is Some && parsed.1.pre_release@.len() > 0 ==> shape_ok_c(r, npm_primitive_c(parsed.0, parsed.1)),  // LessThanEquals#N.S.S+pre
        parsed.0 == Operation::LessThanEquals && parsed.1.major is Some && parsed.1.minor is None && parsed.1.patch is None && parsed.1.pre_release@.len() == 0 ==> shape_equiv_c(r, npm_primitive_c(parsed.0, parsed.1)),  // LessThanEquals#S.N.N
        parsed.0 == Operation::LessThanEquals && parsed.1.major is Some && parsed.1.minor is None && parsed.1.patch is None && parsed.1.pre_release@.len() > 0 ==> shape_equiv_c(r, npm_primitive_c(parsed.0, parsed.1)),  // LessThanEquals#S.N.N+pre
        parsed.0 == Operation::LessThanEquals && parsed.1.major is Some && parsed.1.minor is None && parsed.1.patch is Some && parsed.1.pre_release@.len() == 0 ==> shape_equiv_c(r, npm_primitive_c(parsed.0, parsed.1)),  // LessThanEquals#S.N.S
        parsed.0 == Operation::LessThanEquals && parsed.1.major is Some && parsed.1.minor is None && parsed.1.patch is Some && parsed.1.pre_release@.len() > 0 ==> shape_equiv_c(r, npm_primitive_c(parsed.0, parsed.1)),  // LessThanEquals#S.N.S+pre
        parsed.0 == Operation::LessThanEquals && parsed.1.major is Some && parsed.1.minor is Some && parsed.1.patch is None && parsed.1.pre_release@.len() == 0 ==> shape_equiv_c(r, npm_primitive_c(parsed.0, parsed.1)),  // LessThanEquals#S.S.N
        parsed.0 == Operation::LessThanEquals && parsed.1.major is Some && parsed.1.minor is Some && parsed.1.patch is None && parsed.1.pre_release@.len() > 0 ==> shape_equiv_c(r, npm_primitive_c(parsed.0, parsed.1)),  // LessThanEquals#S.S.N+pre
        parsed.0 == Operation::LessThanEquals && parsed.1.major is Some && parsed.1.minor is Some && parsed.1.patch is Some && parsed.1.pre_release@.len() == 0 ==> shape_ok_c(r, npm_primitive_c(parsed.0, parsed.1)),  // LessThanEquals#S.S.S
        parsed.0 == Operation::LessThanEquals && parsed.1.major is Some && parsed.1.minor is Some && parsed.1.patch is Some && parsed.1.pre_release@.len() > 0 ==> shape_ok_c(r, npm_primitive_c(parsed.0, parsed.1)),  // LessThanEquals#S.S.S+pre
{
 broadcast use group_k_order, group_sets;
 proof { reveal(cut_cmp);
        assert forall|s: Seq<Identifier>| #![trigger s.len()] s.len() == 1 && s[0] == Identifier::Numeric(0) implies s == pre0() by { assert(s =~= pre0());        assert forall|w: Seq<Identifier>| #![trigger pre_cmp(w, pre0())] w.len() > 0 implies pre_cmp(w, pre0()) != Ordering::Less by { lemma_least_pre0(w); lemma_pre_flip(w, pre0()); }
 }
        assert forall|s: Seq<Identifier>| #![trigger s.len()] s.len() == 0 implies s == Seq::<Identifier>::empty() by { assert(s =~= Seq::<Identifier>::empty()); }
 }
    use Operation::*;
match parsed {
            // `>x` and `<x` admit nothing, every other operator on a wildcard admits everything
            (GreaterThan | LessThan, Partial { major: None, .. }) => BoundSet::at_most(
                Predicate::Excluding((0, 0, 0, 0).into()),
            ),
            (_, Partial { major: None, .. }) => {
                BoundSet::at_least(Predicate::Including((0, 0, 0).into()))
            }
            (GreaterThanEquals, partial) => {
                BoundSet::at_least(Predicate::Including(partial.into()))
            }
            (
                GreaterThan,
                Partial {
                    major: Some(major),
                    minor: Some(minor),
                    patch: None,
                    ..
                },
            ) => BoundSet::at_least(Predicate::Including((major, minor + 1, 0).into())),
            (
                GreaterThan,
                Partial {
                    major: Some(major),
                    minor: None,
                    patch: None,
                    ..
                },
            ) => BoundSet::at_least(Predicate::Including((major + 1, 0, 0).into())),
            (GreaterThan, partial) => BoundSet::at_least(Predicate::Excluding(partial.into())),
            (
                LessThan,
                Partial {
                    major: Some(major),
                    minor: Some(minor),
                    patch: None,
                    ..
                },
            ) => BoundSet::at_most(Predicate::Excluding((major, minor, 0, 0).into())),
            (
                LessThan,
                Partial {
                    major,
                    minor,
                    patch,
                    pre_release,
                    build,
                    ..
                },
            ) => BoundSet::at_most(Predicate::Excluding(Version {
                major: major.unwrap_or(0),
                minor: minor.unwrap_or(0),
                patch: patch.unwrap_or(0),
                build,
                pre_release,
            })),
            (
                LessThanEquals,
                Partial {
                    major,
                    minor: None,
                    patch: None,
                    ..
                },
            ) => BoundSet::at_most(Predicate::Including(
                (major.unwrap_or(0), MAX_SAFE_INTEGER, MAX_SAFE_INTEGER).into(),
            )),
            (
                LessThanEquals,
                Partial {
                    major,
                    minor,
                    patch: None,
                    ..
                },
            ) => BoundSet::at_most(Predicate::Including(
                (major.unwrap_or(0), minor.unwrap_or(0), MAX_SAFE_INTEGER).into(),
            )),
            (LessThanEquals, partial) => BoundSet::at_most(Predicate::Including(partial.into())),
            (
                Exact,
                Partial {
                    major: Some(major),
                    minor: Some(minor),
                    patch: Some(patch),
                    pre_release,
                    ..
                },
            ) => BoundSet::exact(Version {
                major,
                minor,
                patch,
                pre_release,
                build: vec![],
            }),
            (
                Exact,
                Partial {
                    major: Some(major),
                    minor: Some(minor),
                    ..
                },
            ) => BoundSet::new(
                Bound::Lower(Predicate::Including((major, minor, 0).into())),
                Bound::Upper(Predicate::Excluding(Version {
                    major,
                    minor: minor + 1,
                    patch: 0,
                    pre_release: vec![Identifier::Numeric(0)],
                    build: vec![],
                })),
            ),
            (
                Exact,
                Partial {
                    major: Some(major), ..
                },
            ) => BoundSet::new(
                Bound::Lower(Predicate::Including((major, 0, 0).into())),
                Bound::Upper(Predicate::Excluding(Version {
                    major: major + 1,
                    minor: 0,
                    patch: 0,
                    pre_release: vec![Identifier::Numeric(0)],
                    build: vec![],
                })),
            ),
            _ => None,
        }
}

fn tilde_desugar(parsed: (Option<&str>, Partial)) -> (r: Option<BoundSet>)
    requires wf_partial(parsed.1),
    ensures
        parsed.0 is None && parsed.1.major is None && parsed.1.minor is None && parsed.1.patch is None && parsed.1.pre_release@.len() == 0 ==> shape_ok_c(r, npm_tilde_c(parsed.1)),  // tilde#N.N.N
        parsed.0 is None && parsed.1.major is None && parsed.1.minor is None && parsed.1.patch is None && parsed.1.pre_release@.len() > 0 ==> shape_ok_c(r, npm_tilde_c(parsed.1)),  // tilde#N.N.N+pre
        parsed.0 is None && parsed.1.major is None && parsed.1.minor is None && parsed.1.patch is Some && parsed.1.pre_release@.len() == 0 ==> shape_ok_c(r, npm_tilde_c(parsed.1)),  // tilde#N.N.S
        parsed.0 is None && parsed.1.major is None && parsed.1.minor is None && parsed.1.patch is Some && parsed.1.pre_release@.len() > 0 ==> shape_ok_c(r, npm_tilde_c(parsed.1)),  // tilde#N.N.S+pre
        parsed.0 is None && parsed.1.major is None && parsed.1.minor is Some && parsed.1.patch is None && parsed.1.pre_release@.len() == 0 ==> shape_ok_c(r, npm_tilde_c(parsed.1)),  // tilde#N.S.N
        parsed.0 is None && parsed.1.major is None && parsed.1.minor is Some && parsed.1.patch is None && parsed.1.pre_release@.len() > 0 ==> shape_ok_c(r, npm_tilde_c(parsed.1)),  // tilde#N.S.N+pre
        parsed.0 is None && parsed.1.major is None && parsed.1.minor is Some && parsed.1.patch is Some && parsed.1.pre_release@.len() == 0 ==> shape_ok_c(r, npm_tilde_c(parsed.1)),  // tilde#N.S.S
        parsed.0 is None && parsed.1.major is None && parsed.1.minor is Some && parsed.1.patch is Some && parsed.1.pre_release@.len() > 0 ==> shape_ok_c(r, npm_tilde_c(parsed.1)),  // tilde#N.S.S+pre
        parsed.0 is None && parsed.1.major is Some && parsed.1.minor is None && parsed.1.patch is None && parsed.1.pre_release@.len() == 0 ==> shape_ok_c(r, npm_tilde_c(parsed.1)),  // tilde#S.N.N
        parsed.0 is None && parsed.1.major is Some && parsed.1.minor is None && parsed.1.patch is None && parsed.1.pre_release@.len() > 0 ==> shape_ok_c(r, npm_tilde_c(parsed.1)),  // tilde#S.N.N+pre
        parsed.0 is None && parsed.1.major is Some && parsed.1.minor is None && parsed.1.patch is Some && parsed.1.pre_release@.len() == 0 ==> shape_ok_c(r, npm_tilde_c(parsed.1)),  // tilde#S.N.S
        parsed.0 is None && parsed.1.major is Some && parsed.1.minor is None && parsed.1.patch is Some && parsed.1.pre_release@.len() > 0 ==> shape_ok_c(r, npm_tilde_c(parsed.1)),  // tilde#S.N.S+pre
        parsed.0 is None && parsed.1.major is Some && parsed.1.minor is Some && parsed.1.patch is None && parsed.1.pre_release@.len() == 0 ==> shape_ok_c(r, npm_tilde_c(parsed.1)),  // tilde#S.S.N
        parsed.0 is None && parsed.1.major is Some && parsed.1.minor is Some && parsed.1.patch is None && parsed.1.pre_release@.len() > 0 ==> shape_ok_c(r, npm_tilde_c(parsed.1)),  // tilde#S.S.N+pre
        parsed.0 is None && parsed.1.major is Some && parsed.1.minor is Some && parsed.1.patch is Some && parsed.1.pre_release@.len() == 0 ==> shape_ok_c(r, npm_tilde_c(parsed.1)),  // tilde#S.S.S
        parsed.0 is None && parsed.1.major is Some && parsed.1.minor is Some && parsed.1.patch is Some && parsed.1.pre_release@.len() > 0 ==> shape_ok_c(r, npm_tilde_c(parsed.1)),  // tilde#S.S.S+pre
        parsed.0 is Some && parsed.1.major is None && parsed.1.minor is None && parsed.1.patch is None && parsed.1.pre_release@.len() == 0 ==> shape_ok_c(r, npm_tilde_c(parsed.1)),  // tilde>#N.N.N
        parsed.0 is Some && parsed.1.major is None && parsed.1.minor is None && parsed.1.patch is None && parsed.1.pre_release@.len() > 0 ==> shape_ok_c(r, npm_tilde_c(parsed.1)),  // tilde>#N.N.N+pre
        parsed.0 is Some && parsed.1.major is None && parsed.1.minor is None && parsed.1.patch is Some && parsed.1.pre_release@.len() == 0 ==> shape_ok_c(r, npm_tilde_c(parsed.1)),  // tilde>#N.N.S
        parsed.0 is Some && parsed.1.major is None && parsed.1.minor is None && parsed.1.patch is Some && parsed.1.pre_release@.len() > 0 ==> shape_ok_c(r, npm_tilde_c(parsed.1)),  // tilde>#N.N.S+pre
        parsed.0 is Some && parsed.1.major is None && parsed.1.minor is Some && parsed.1.patch is None && parsed.1.pre_release@.len() == 0 ==> shape_ok_c(r, npm_tilde_c(parsed.1)),  // tilde>#N.S.N
        parsed.0 is Some && parsed.1.major is None && parsed.1.minor is Some && parsed.1.patch is None && parsed.1.pre_release@.len() > 0 ==> shape_ok_c(r, npm_tilde_c(parsed.1)),  // tilde>#N.S.N+pre
        parsed.0 is Some && parsed.1.major is None && parsed.1.minor is Some && parsed.1.patch is Some && parsed.1.pre_release@.len() == 0 ==> shape_ok_c(r, npm_tilde_c(parsed.1)),  // tilde>#N.S.S
        parsed.0 is Some && parsed.1.major is None && parsed.1.minor is Some && parsed.1.patch is Some && parsed.1.pre_release@.len() > 0 ==> shape_ok_c(r, npm_tilde_c(parsed.1)),  // tilde>#N.S.S+pre
        parsed.0 is Some && parsed.1.major is Some && parsed.1.minor is None && parsed.1.patch is None && parsed.1.pre_release@.len() == 0 ==> shape_ok_c(r, npm_tilde_c(parsed.1)),  // tilde>#S.N.N
        parsed.0 is Some && parsed.1.major is Some && parsed.1.minor is None && parsed.1.patch is None && parsed.1.pre_release@.len() > 0 ==> shape_ok_c(r, npm_tilde_c(parsed.1)),  // tilde>#S.N.N+pre
        parsed.0 is Some && parsed.1.major is Some && parsed.1.minor is None && parsed.1.patch is Some && parsed.1.pre_release@.len() == 0 ==> shape_ok_c(r, npm_tilde_c(parsed.1)),  // tilde>#S.N.S
        parsed.0 is Some && parsed.1.major is Some && parsed.1.minor is None && parsed.1.patch is Some && parsed.1.pre_release@.len() > 0 ==> shape_ok_c(r, npm_tilde_c(parsed.1)),  // tilde>#S.N.S+pre
        parsed.0 is Some && parsed.1.major is Some && parsed.1.minor is Some && parsed.1.patch is None && parsed.1.pre_release@.len() == 0 ==> shape_ok_c(r, npm_tilde_c(parsed.1)),  // tilde>#S.S.N
        parsed.0 is Some && parsed.1.major is Some && parsed.1.minor is Some && parsed.1.patch is None && parsed.1.pre_release@.len() > 0 ==> shape_ok_c(r, npm_tilde_c(parsed.1)),  // tilde>#S.S.N+pre
        parsed.0 is Some && parsed.1.major is Some && parsed.1.minor is Some && parsed.1.patch is Some && parsed.1.pre_release@.len() == 0 ==> shape_ok_c(r, npm_tilde_c(parsed.1)),  // tilde>#S.S.S
        parsed.0 is Some && parsed.1.major is Some && parsed.1.minor is Some && parsed.1.patch is Some && parsed.1.pre_release@.len() > 0 ==> shape_ok_c(r, npm_tilde_c(parsed.1)),  // tilde>#S.S.S+pre
{
 broadcast use group_k_order, group_sets;
 proof { reveal(cut_cmp);
        assert forall|s: Seq<Identifier>| #![trigger s.len()] s.len() == 1 && s[0] == Identifier::Numeric(0) implies s == pre0() by { assert(s =~= pre0()); }
        assert forall|s: Seq<Identifier>| #![trigger s.len()] s.len() == 0 implies s == Seq::<Identifier>::empty() by { assert(s =~= Seq::<Identifier>::empty()); }
 }
    match parsed {
        (_, Partial { major: None, .. }) => {
            BoundSet::at_least(Predicate::Including((0, 0, 0).into()))
        }
        (
            Some(_gt),
            Partial {
                major: Some(major),
                minor: None,
                patch: None,
                ..
            },
        ) => BoundSet::new(
            Bound::Lower(Predicate::Including((major, 0, 0).into())),
            Bound::Upper(Predicate::Excluding((major + 1, 0, 0, 0).into())),
        ),
        (
            Some(_gt),
            Partial {
                major: Some(major),
                minor: Some(minor),
                patch,
                pre_release,
                ..
            },
        ) => BoundSet::new(
            Bound::Lower(Predicate::Including(Version {
                major,
                minor,
                patch: patch.unwrap_or(0),
                pre_release,
                build: vec![],
            })),
            Bound::Upper(Predicate::Excluding((major, minor + 1, 0, 0).into())),
        ),
        (
            None,
            Partial {
                major: Some(major),
                minor: Some(minor),
                patch: Some(patch),
                pre_release,
                ..
            },
        ) => BoundSet::new(
            Bound::Lower(Predicate::Including(Version {
                major,
                minor,
                patch,
                pre_release,
                build: vec![],
            })),
            Bound::Upper(Predicate::Excluding((major, minor + 1, 0, 0).into())),
        ),
        (
            None,
            Partial {
                major: Some(major),
                minor: Some(minor),
                patch: None,
                ..
            },
        ) => BoundSet::new(
            Bound::Lower(Predicate::Including((major, minor, 0).into())),
            Bound::Upper(Predicate::Excluding((major, minor + 1, 0, 0).into())),
        ),
        (
            None,
            Partial {
                major: Some(major),
                minor: None,
                patch: None,
                ..
            },
        ) => BoundSet::new(
            Bound::Lower(Predicate::Including((major, 0, 0).into())),
            Bound::Upper(Predicate::Excluding((major + 1, 0, 0, 0).into())),
        ),
        _ => None,
    }
}

fn hyphen_desugar(lower: Option<Partial>, upper: Partial) -> (r: Option<BoundSet>)
    requires wf_partial(upper), lower matches Some(f) ==> wf_partial(f),
    ensures
        lower is None && upper.major is None && upper.minor is None && upper.patch is None && upper.pre_release@.len() == 0 ==> (r matches Some(bs) ==> bs_wf(bs)),  // hyphen#none-N.N.N
        lower is None && upper.major is None && upper.minor is None && upper.patch is None && upper.pre_release@.len() > 0 ==> (r matches Some(bs) ==> bs_wf(bs)),  // hyphen#none-N.N.N+pre
        lower is None && upper.major is None && upper.minor is None && upper.patch is Some && upper.pre_release@.len() == 0 ==> (r matches Some(bs) ==> bs_wf(bs)),  // hyphen#none-N.N.S
        lower is None && upper.major is None && upper.minor is None && upper.patch is Some && upper.pre_release@.len() > 0 ==> (r matches Some(bs) ==> bs_wf(bs)),  // hyphen#none-N.N.S+pre
        lower is None && upper.major is None && upper.minor is Some && upper.patch is None && upper.pre_release@.len() == 0 ==> (r matches Some(bs) ==> bs_wf(bs)),  // hyphen#none-N.S.N
        lower is None && upper.major is None && upper.minor is Some && upper.patch is None && upper.pre_release@.len() > 0 ==> (r matches Some(bs) ==> bs_wf(bs)),  // hyphen#none-N.S.N+pre
        lower is None && upper.major is None && upper.minor is Some && upper.patch is Some && upper.pre_release@.len() == 0 ==> (r matches Some(bs) ==> bs_wf(bs)),  // hyphen#none-N.S.S
        lower is None && upper.major is None && upper.minor is Some && upper.patch is Some && upper.pre_release@.len() > 0 ==> (r matches Some(bs) ==> bs_wf(bs)),  // hyphen#none-N.S.S+pre
        lower is None && upper.major is Some && upper.minor is None && upper.patch is None && upper.pre_release@.len() == 0 ==> (r matches Some(bs) ==> bs_wf(bs)),  // hyphen#none-S.N.N
        lower is None && upper.major is Some && upper.minor is None && upper.patch is None && upper.pre_release@.len() > 0 ==> (r matches Some(bs) ==> bs_wf(bs)),  // hyphen#none-S.N.N+pre
        lower is None && upper.major is Some && upper.minor is None && upper.patch is Some && upper.pre_release@.len() == 0 ==> (r matches Some(bs) ==> bs_wf(bs)),  // hyphen#none-S.N.S
        lower is None && upper.major is Some && upper.minor is None && upper.patch is Some && upper.pre_release@.len() > 0 ==> (r matches Some(bs) ==> bs_wf(bs)),  // hyphen#none-S.N.S+pre
        lower is None && upper.major is Some && upper.minor is Some && upper.patch is None && upper.pre_release@.len() == 0 ==> (r matches Some(bs) ==> bs_wf(bs)),  // hyphen#none-S.S.N
        lower is None && upper.major is Some && upper.minor is Some && upper.patch is None && upper.pre_release@.len() > 0 ==> (r matches Some(bs) ==> bs_wf(bs)),  // hyphen#none-S.S.N+pre
        lower is None && upper.major is Some && upper.minor is Some && upper.patch is Some && upper.pre_release@.len() == 0 ==> (r matches Some(bs) ==> bs_wf(bs)),  // hyphen#none-S.S.S
        lower is None && upper.major is Some && upper.minor is Some && upper.patch is Some && upper.pre_release@.len() > 0 ==> (r matches Some(bs) ==> bs_wf(bs)),  // hyphen#none-S.S.S+pre
        lower is Some && lower->0.major is None && lower->0.minor is None && lower->0.patch is None && lower->0.pre_release@.len() == 0 && xM(upper) ==> shape_ok_c(r, npm_hyphen_c(lower->0, upper)),  // hyphen#N.N.N-xM
        lower is Some && lower->0.major is None && lower->0.minor is None && lower->0.patch is None && lower->0.pre_release@.len() == 0 && !xM(upper) && xm(upper) ==> shape_ok_c(r, npm_hyphen_c(lower->0, upper)),  // hyphen#N.N.N-xm
        lower is Some && lower->0.major is None && lower->0.minor is None && lower->0.patch is None && lower->0.pre_release@.len() == 0 && !xm(upper) && xp(upper) ==> shape_ok_c(r, npm_hyphen_c(lower->0, upper)),  // hyphen#N.N.N-xp
        lower is Some && lower->0.major is None && lower->0.minor is None && lower->0.patch is None && lower->0.pre_release@.len() == 0 && !xp(upper) ==> shape_ok_c(r, npm_hyphen_c(lower->0, upper)),  // hyphen#N.N.N-full
        lower is Some && lower->0.major is None && lower->0.minor is None && lower->0.patch is None && lower->0.pre_release@.len() > 0 && xM(upper) ==> shape_ok_c(r, npm_hyphen_c(lower->0, upper)),  // hyphen#N.N.N+pre-xM
        lower is Some && lower->0.major is None && lower->0.minor is None && lower->0.patch is None && lower->0.pre_release@.len() > 0 && !xM(upper) && xm(upper) ==> shape_ok_c(r, npm_hyphen_c(lower->0, upper)),  // hyphen#N.N.N+pre-xm
        lower is Some && lower->0.major is None && lower->0.minor is None && lower->0.patch is None && lower->0.pre_release@.len() > 0 && !xm(upper) && xp(upper) ==> shape_ok_c(r, npm_hyphen_c(lower->0, upper)),  // hyphen#N.N.N+pre-xp
        lower is Some && lower->0.major is None && lower->0.minor is None && lower->0.patch is None && lower->0.pre_release@.len() > 0 && !xp(upper) ==> shape_ok_c(r, npm_hyphen_c(lower->0, upper)),  // hyphen#N.N.N+pre-full
        lower is Some && lower->0.major is None && lower->0.minor is None && lower->0.patch is Some && lower->0.pre_release@.len() == 0 && xM(upper) ==> shape_ok_c(r, npm_hyphen_c(lower->0, upper)),  // hyphen#N.N.S-xM
        lower is Some && lower->0.major is None && lower->0.minor is None && lower->0.patch is Some && lower->0.pre_release@.len() == 0 && !xM(upper) && xm(upper) ==> shape_ok_c(r, npm_hyphen_c(lower->0, upper)),  // hyphen#N.N.S-xm
        lower is Some && lower->0.major is None && lower->0.minor is None && lower->0.patch is Some && lower->0.pre_release@.len() == 0 && !xm(upper) && xp(upper) ==> shape_ok_c(r, npm_hyphen_c(lower->0, upper)),  // hyphen#N.N.S-xp
        lower is Some && lower->0.major is None && lower->0.minor is None && lower->0.patch is Some && lower->0.pre_release@.len() == 0 && !xp(upper) ==> shape_ok_c(r, npm_hyphen_c(lower->0, upper)),  // hyphen#N.N.S-full
        lower is Some && lower->0.major is None && lower->0.minor is None && lower->0.patch is Some && lower->0.pre_release@.len() > 0 && xM(upper) ==> shape_ok_c(r, npm_hyphen_c(lower->0, upper)),  // hyphen#N.N.S+pre-xM
        lower is Some && lower->0.major is None && lower->0.minor is None && lower->0.patch is Some && lower->0.pre_release@.len() > 0 && !xM(upper) && xm(upper) ==> shape_ok_c(r, npm_hyphen_c(lower->0, upper)),  // hyphen#N.N.S+pre-xm
        lower is Some && lower->0.major is None && lower->0.minor is None && lower->0.patch is Some && lower->0.pre_release@.len() > 0 && !xm(upper) && xp(upper) ==> shape_ok_c(r, npm_hyphen_c(lower->0, upper)),  // hyphen#N.N.S+pre-xp
        lower is Some && lower->0.major is None && lower->0.minor is None && lower->0.patch is Some && lower->0.pre_release@.len() > 0 && !xp(upper) ==> shape_ok_c(r, npm_hyphen_c(lower->0, upper)),  // hyphen#N.N.S+pre-full
        lower is Some && lower->0.major is None && lower->0.minor is Some && lower->0.patch is None && lower->0.pre_release@.len() == 0 && xM(upper) ==> shape_ok_c(r, npm_hyphen_c(lower->0, upper)),  // hyphen#N.S.N-xM
        lower is Some && lower->0.major is None && lower->0.minor is Some && lower->0.patch is None && lower->0.pre_release@.len() == 0 && !xM(upper) && xm(upper) ==> shape_ok_c(r, npm_hyphen_c(lower->0, upper)),  // hyphen#N.S.N-xm
        lower is Some && lower->0.major is None && lower->0.minor is Some && lower->0.patch is None && lower->0.pre_release@.len() == 0 && !xm(upper) && xp(upper) ==> shape_ok_c(r, npm_hyphen_c(lower->0, upper)),  // hyphen#N.S.N-xp
        lower is Some && lower->0.major is None && lower->0.minor is Some && lower->0.patch is None && lower->0.pre_release@.len() == 0 && !xp(upper) ==> shape_ok_c(r, npm_hyphen_c(lower->0, upper)),  // hyphen#N.S.N-full
        lower is Some && lower->0.major is None && lower->0.minor is Some && lower->0.patch is None && lower->0.pre_release@.len() > 0 && xM(upper) ==> shape_ok_c(r, npm_hyphen_c(lower->0, upper)),  // hyphen#N.S.N+pre-xM
        lower is Some && lower->0.major is None && lower->0.minor is Some && lower->0.patch is None && lower->0.pre_release@.len() > 0 && !xM(upper) && xm(upper) ==> shape_ok_c(r, npm_hyphen_c(lower->0, upper)),  // hyphen#N.S.N+pre-xm
        lower is Some && lower->0.major is None && lower->0.minor is Some && lower->0.patch is None && lower->0.pre_release@.len() > 0 && !xm(upper) && xp(upper) ==> shape_ok_c(r, npm_hyphen_c(lower->0, upper)),  // hyphen#N.S.N+pre-xp
        lower is Some && lower->0.major is None && lower->0.minor is Some && lower->0.patch is None && lower->0.pre_release@.len() > 0 && !xp(upper) ==> shape_ok_c(r, npm_hyphen_c(lower->0, upper)),  // hyphen#N.S.N+pre-full
        lower is Some && lower->0.major is None && lower->0.minor is Some && lower->0.patch is Some && lower->0.pre_release@.len() == 0 && xM(upper) ==> shape_ok_c(r, npm_hyphen_c(lower->0, upper)),  // hyphen#N.S.S-xM
        lower is Some && lower->0.major is None && lower->0.minor is Some && lower->0.patch is Some && lower->0.pre_release@.len() == 0 && !xM(upper) && xm(upper) ==> shape_ok_c(r, npm_hyphen_c(lower->0, upper)),  // hyphen#N.S.S-xm
        lower is Some && lower->0.major is None && lower->0.minor is Some && lower->0.patch is Some && lower->0.pre_release@.len() == 0 && !xm(upper) && xp(upper) ==> shape_ok_c(r, npm_hyphen_c(lower->0, upper)),  // hyphen#N.S.S-xp
        lower is Some && lower->0.major is None && lower->0.minor is Some && lower->0.patch is Some && lower->0.pre_release@.len() == 0 && !xp(upper) ==> shape_ok_c(r, npm_hyphen_c(lower->0, upper)),  // hyphen#N.S.S-full
        lower is Some && lower->0.major is None && lower->0.minor is Some && lower->0.patch is Some && lower->0.pre_release@.len() > 0 && xM(upper) ==> shape_ok_c(r, npm_hyphen_c(lower->0, upper)),  // hyphen#N.S.S+pre-xM
        lower is Some && lower->0.major is None && lower->0.minor is Some && lower->0.patch is Some && lower->0.pre_release@.len() > 0 && !xM(upper) && xm(upper) ==> shape_ok_c(r, npm_hyphen_c(lower->0, upper)),  // hyphen#N.S.S+pre-xm
        lower is Some && lower->0.major is None && lower->0.minor is Some && lower->0.patch is Some && lower->0.pre_release@.len() > 0 && !xm(upper) && xp(upper) ==> shape_ok_c(r, npm_hyphen_c(lower->0, upper)),  // hyphen#N.S.S+pre-xp
        lower is Some && lower->0.major is None && lower->0.minor is Some && lower->0.patch is Some && lower->0.pre_release@.len() > 0 && !xp(upper) ==> shape_ok_c(r, npm_hyphen_c(lower->0, upper)),  // hyphen#N.S.S+pre-full
        lower is Some && lower->0.major is Some && lower->0.minor is None && lower->0.patch is None && lower->0.pre_release@.len() == 0 && xM(upper) ==> shape_ok_c(r, npm_hyphen_c(lower->0, upper)),  // hyphen#S.N.N-xM
        lower is Some && lower->0.major is Some && lower->0.minor is None && lower->0.patch is None && lower->0.pre_release@.len() == 0 && !xM(upper) && xm(upper) ==> shape_ok_c(r, npm_hyphen_c(lower->0, upper)),  // hyphen#S.N.N-xm
        lower is Some && lower->0.major is Some && lower->0.minor is None && lower->0.patch is None && lower->0.pre_release@.len() == 0 && !xm(upper) && xp(upper) ==> shape_ok_c(r, npm_hyphen_c(lower->0, upper)),  // hyphen#S.N.N-xp
        lower is Some && lower->0.major is Some && lower->0.minor is None && lower->0.patch is None && lower->0.pre_release@.len() == 0 && !xp(upper) ==> shape_ok_c(r, npm_hyphen_c(lower->0, upper)),  // hyphen#S.N.N-full
        lower is Some && lower->0.major is Some && lower->0.minor is None && lower->0.patch is None && lower->0.pre_release@.len() > 0 && xM(upper) ==> shape_ok_c(r, npm_hyphen_c(lower->0, upper)),  // hyphen#S.N.N+pre-xM
        lower is Some && lower->0.major is Some && lower->0.minor is None && lower->0.patch is None && lower->0.pre_release@.len() > 0 && !xM(upper) && xm(upper) ==> shape_ok_c(r, npm_hyphen_c(lower->0, upper)),  // hyphen#S.N.N+pre-xm
        lower is Some && lower->0.major is Some && lower->0.minor is None && lower->0.patch is None && lower->0.pre_release@.len() > 0 && !xm(upper) && xp(upper) ==> shape_ok_c(r, npm_hyphen_c(lower->0, upper)),  // hyphen#S.N.N+pre-xp
        lower is Some && lower->0.major is Some && lower->0.minor is None && lower->0.patch is None && lower->0.pre_release@.len() > 0 && !xp(upper) ==> shape_ok_c(r, npm_hyphen_c(lower->0, upper)),  // hyphen#S.N.N+pre-full
        lower is Some && lower->0.major is Some && lower->0.minor is None && lower->0.patch is Some && lower->0.pre_release@.len() == 0 && xM(upper) ==> shape_ok_c(r, npm_hyphen_c(lower->0, upper)),  // hyphen#S.N.S-xM
        lower is Some && lower->0.major is Some && lower->0.minor is None && lower->0.patch is Some && lower->0.pre_release@.len() == 0 && !xM(upper) && xm(upper) ==> shape_ok_c(r, npm_hyphen_c(lower->0, upper)),  // hyphen#S.N.S-xm
        lower is Some && lower->0.major is Some && lower->0.minor is None && lower->0.patch is Some && lower->0.pre_release@.len() == 0 && !xm(upper) && xp(upper) ==> shape_ok_c(r, npm_hyphen_c(lower->0, upper)),  // hyphen#S.N.S-xp
        lower is Some && lower->0.major is Some && lower->0.minor is None && lower->0.patch is Some && lower->0.pre_release@.len() == 0 && !xp(upper) ==> shape_ok_c(r, npm_hyphen_c(lower->0, upper)),  // hyphen#S.N.S-full
        lower is Some && lower->0.major is Some && lower->0.minor is None && lower->0.patch is Some && lower->0.pre_release@.len() > 0 && xM(upper) ==> shape_ok_c(r, npm_hyphen_c(lower->0, upper)),  // hyphen#S.N.S+pre-xM
        lower is Some && lower->0.major is Some && lower->0.minor is None && lower->0.patch is Some && lower->0.pre_release@.len() > 0 && !xM(upper) && xm(upper) ==> shape_ok_c(r, npm_hyphen_c(lower->0, upper)),  // hyphen#S.N.S+pre-xm
        lower is Some && lower->0.major is Some && lower->0.minor is None && lower->0.patch is Some && lower->0.pre_release@.len() > 0 && !xm(upper) && xp(upper) ==> shape_ok_c(r, npm_hyphen_c(lower->0, upper)),  // hyphen#S.N.S+pre-xp
        lower is Some && lower->0.major is Some && lower->0.minor is None && lower->0.patch is Some && lower->0.pre_release@.len() > 0 && !xp(upper) ==> shape_ok_c(r, npm_hyphen_c(lower->0, upper)),  // hyphen#S.N.S+pre-full
        lower is Some && lower->0.major is Some && lower->0.minor is Some && lower->0.patch is None && lower->0.pre_release@.len() == 0 && xM(upper) ==> shape_ok_c(r, npm_hyphen_c(lower->0, upper)),  // hyphen#S.S.N-xM
        lower is Some && lower->0.major is Some && lower->0.minor is Some && lower->0.patch is None && lower->0.pre_release@.len() == 0 && !xM(upper) && xm(upper) ==> shape_ok_c(r, npm_hyphen_c(lower->0, upper)),  // hyphen#S.S.N-xm
        lower is Some && lower->0.major is Some && lower->0.minor is Some && lower->0.patch is None && lower->0.pre_release@.len() == 0 && !xm(upper) && xp(upper) ==> shape_ok_c(r, npm_hyphen_c(lower->0, upper)),  // hyphen#S.S.N-xp
        lower is Some && lower->0.major is Some && lower->0.minor is Some && lower->0.patch is None && lower->0.pre_release@.len() == 0 && !xp(upper) ==> shape_ok_c(r, npm_hyphen_c(lower->0, upper)),  // hyphen#S.S.N-full
        lower is Some && lower->0.major is Some && lower->0.minor is Some && lower->0.patch is None && lower->0.pre_release@.len() > 0 && xM(upper) ==> shape_ok_c(r, npm_hyphen_c(lower->0, upper)),  // hyphen#S.S.N+pre-xM
        lower is Some && lower->0.major is Some && lower->0.minor is Some && lower->0.patch is None && lower->0.pre_release@.len() > 0 && !xM(upper) && xm(upper) ==> shape_ok_c(r, npm_hyphen_c(lower->0, upper)),  // hyphen#S.S.N+pre-xm
        lower is Some && lower->0.major is Some && lower->0.minor is Some && lower->0.patch is None && lower->0.pre_release@.len() > 0 && !xm(upper) && xp(upper) ==> shape_ok_c(r, npm_hyphen_c(lower->0, upper)),  // hyphen#S.S.N+pre-xp
        lower is Some && lower->0.major is Some && lower->0.minor is Some && lower->0.patch is None && lower->0.pre_release@.len() > 0 && !xp(upper) ==> shape_ok_c(r, npm_hyphen_c(lower->0, upper)),  // hyphen#S.S.N+pre-full
        lower is Some && lower->0.major is Some && lower->0.minor is Some && lower->0.patch is Some && lower->0.pre_release@.len() == 0 && xM(upper) ==> shape_ok_c(r, npm_hyphen_c(lower->0, upper)),  // hyphen#S.S.S-xM
        lower is Some && lower->0.major is Some && lower->0.minor is Some && lower->0.patch is Some && lower->0.pre_release@.len() == 0 && !xM(upper) && xm(upper) ==> shape_ok_c(r, npm_hyphen_c(lower->0, upper)),  // hyphen#S.S.S-xm
        lower is Some && lower->0.major is Some && lower->0.minor is Some && lower->0.patch is Some && lower->0.pre_release@.len() == 0 && !xm(upper) && xp(upper) ==> shape_ok_c(r, npm_hyphen_c(lower->0, upper)),  // hyphen#S.S.S-xp
        lower is Some && lower->0.major is Some && lower->0.minor is Some && lower->0.patch is Some && lower->0.pre_release@.len() == 0 && !xp(upper) ==> shape_ok_c(r, npm_hyphen_c(lower->0, upper)),  // hyphen#S.S.S-full
        lower is Some && lower->0.major is Some && lower->0.minor is Some && lower->0.patch is Some && lower->0.pre_release@.len() > 0 && xM(upper) ==> shape_ok_c(r, npm_hyphen_c(lower->0, upper)),  // hyphen#S.S.S+pre-xM
        lower is Some && lower->0.major is Some && lower->0.minor is Some && lower->0.patch is Some && lower->0.pre_release@.len() > 0 && !xM(upper) && xm(upper) ==> shape_ok_c(r, npm_hyphen_c(lower->0, upper)),  // hyphen#S.S.S+pre-xm
        lower is Some && lower->0.major is Some && lower->0.minor is Some && lower->0.patch is Some && lower->0.pre_release@.len() > 0 && !xm(upper) && xp(upper) ==> shape_ok_c(r, npm_hyphen_c(lower->0, upper)),  // hyphen#S.S.S+pre-xp
        lower is Some && lower->0.major is Some && lower->0.minor is Some && lower->0.patch is Some && lower->0.pre_release@.len() > 0 && !xp(upper) ==> shape_ok_c(r, npm_hyphen_c(lower->0, upper)),  // hyphen#S.S.S+pre-full
{
 broadcast use group_k_order, group_sets;
 proof { reveal(cut_cmp);
        assert forall|s: Seq<Identifier>| #![trigger s.len()] s.len() == 1 && s[0] == Identifier::Numeric(0) implies s == pre0() by { assert(s =~= pre0()); }
        assert forall|s: Seq<Identifier>| #![trigger s.len()] s.len() == 0 implies s == Seq::<Identifier>::empty() by { assert(s =~= Seq::<Identifier>::empty()); }
 }
    let upper = match upper {
            Partial {
                major: None,
                minor: None,
                patch: None,
                ..
            } => Predicate::Unbounded,
            Partial {
                major: Some(major),
                minor: None,
                patch: None,
                ..
            } => Predicate::Excluding(Version {
                major: major + 1,
                minor: 0,
                patch: 0,
                pre_release: vec![Identifier::Numeric(0)],
                build: vec![],
            }),
            Partial {
                major: Some(major),
                minor: Some(minor),
                patch: None,
                ..
            } => Predicate::Excluding(Version {
                major,
                minor: minor + 1,
                patch: 0,
                pre_release: vec![Identifier::Numeric(0)],
                build: vec![],
            }),
            partial => Predicate::Including(partial.into()),
        };
        let bounds = if let Some(lower) = lower {
            BoundSet::new(
                Bound::Lower(Predicate::Including(lower.into())),
                Bound::Upper(upper),
            )
        } else {
            BoundSet::at_most(upper)
        };
        
 bounds
}

fn partial_desugar(partial: Partial) -> (r: Option<BoundSet>)
    requires wf_partial(partial),
    ensures
        partial.major is None && partial.minor is None && partial.patch is None && partial.pre_release@.len() == 0 ==> shape_ok_c(r, npm_plain_c(partial)),  // plain#N.N.N
        partial.major is None && partial.minor is None && partial.patch is None && partial.pre_release@.len() > 0 ==> shape_ok_c(r, npm_plain_c(partial)),  // plain#N.N.N+pre
        partial.major is None && partial.minor is None && partial.patch is Some && partial.pre_release@.len() == 0 ==> shape_ok_c(r, npm_plain_c(partial)),  // plain#N.N.S
        partial.major is None && partial.minor is None && partial.patch is Some && partial.pre_release@.len() > 0 ==> shape_ok_c(r, npm_plain_c(partial)),  // plain#N.N.S+pre
        partial.major is None && partial.minor is Some && partial.patch is None && partial.pre_release@.len() == 0 ==> shape_ok_c(r, npm_plain_c(partial)),  // plain#N.S.N
        partial.major is None && partial.minor is Some && partial.patch is None && partial.pre_release@.len() > 0 ==> shape_ok_c(r, npm_plain_c(partial)),  // plain#N.S.N+pre
        partial.major is None && partial.minor is Some && partial.patch is Some && partial.pre_release@.len() == 0 ==> shape_ok_c(r, npm_plain_c(partial)),  // plain#N.S.S
        partial.major is None && partial.minor is Some && partial.patch is Some && partial.pre_release@.len() > 0 ==> shape_ok_c(r, npm_plain_c(partial)),  // plain#N.S.S+pre
        partial.major is Some && partial.minor is None && partial.patch is None && partial.pre_release@.len() == 0 ==> shape_ok_c(r, npm_plain_c(partial)),  // plain#S.N.N
        partial.major is Some && partial.minor is None && partial.patch is None && partial.pre_release@.len() > 0 ==> shape_ok_c(r, npm_plain_c(partial)),  // plain#S.N.N+pre
        partial.major is Some && partial.minor is None && partial.patch is Some && partial.pre_release@.len() == 0 ==> shape_ok_c(r, npm_plain_c(partial)),  // plain#S.N.S
        partial.major is Some && partial.minor is None && partial.patch is Some && partial.pre_release@.len() > 0 ==> shape_ok_c(r, npm_plain_c(partial)),  // plain#S.N.S+pre
        partial.major is Some && partial.minor is Some && partial.patch is None && partial.pre_release@.len() == 0 ==> shape_ok_c(r, npm_plain_c(partial)),  // plain#S.S.N
        partial.major is Some && partial.minor is Some && partial.patch is None && partial.pre_release@.len() > 0 ==> shape_ok_c(r, npm_plain_c(partial)),  // plain#S.S.N+pre
        partial.major is Some && partial.minor is Some && partial.patch is Some && partial.pre_release@.len() == 0 ==> shape_ok_c(r, npm_plain_c(partial)),  // plain#S.S.S
        partial.major is Some && partial.minor is Some && partial.patch is Some && partial.pre_release@.len() > 0 ==> shape_ok_c(r, npm_plain_c(partial)),  // plain#S.S.S+pre
{
 broadcast use group_k_order, group_sets;
 proof { reveal(cut_cmp);
        assert forall|s: Seq<Identifier>| #![trigger s.len()] s.len() == 1 && s[0] == Identifier::Numeric(0) implies s == pre0() by { assert(s =~= pre0()); }
        assert forall|s: Seq<Identifier>| #![trigger s.len()] s.len() == 0 implies s == Seq::<Identifier>::empty() by { assert(s =~= Seq::<Identifier>::empty()); }
 }
    match partial {
        Partial { major: None, .. } => BoundSet::at_least(Predicate::Including((0, 0, 0).into())),
        Partial {
            major: Some(major),
            minor: None,
            ..
        } => BoundSet::new(
            Bound::Lower(Predicate::Including((major, 0, 0).into())),
            Bound::Upper(Predicate::Excluding(Version {
                major: major + 1,
                minor: 0,
                patch: 0,
                pre_release: vec![Identifier::Numeric(0)],
                build: vec![],
            })),
        ),
        Partial {
            major: Some(major),
            minor: Some(minor),
            patch: None,
            ..
        } => BoundSet::new(
            Bound::Lower(Predicate::Including((major, minor, 0).into())),
            Bound::Upper(Predicate::Excluding(Version {
                major,
                minor: minor + 1,
                patch: 0,
                pre_release: vec![Identifier::Numeric(0)],
                build: vec![],
            })),
        ),
        partial => BoundSet::exact(partial.into()),
    }
}


// A10: the formatting machinery returns without panicking; nothing is assumed about its result
pub assume_specification<'a>[ std::fmt::Formatter::<'a>::write_fmt ](f: &mut std::fmt::Formatter<'a>, args: std::fmt::Arguments<'_>) -> (r: Result<(), std::fmt::Error>);
impl std::fmt::Display for Version {
    #[verifier::external_body]
    fn fmt(&self, f: &mut std::fmt::Formatter<'_>) -> std::fmt::Result { unimplemented!() }
}

#[verifier::external_body]
fn verif_fmt_stub(f: &mut std::fmt::Formatter<'_>) -> std::fmt::Result { unimplemented!() }

impl BoundSet {
    fn display_fmt(&self, f: &mut std::fmt::Formatter<'_>) -> std::fmt::Result     requires bs_wf(*self),
{
        use Bound::*;
        use Predicate::*;
        match (&self.lower.as_ref(), &self.upper.as_ref()) {
            (Lower(Unbounded), Upper(Unbounded)) => verif_fmt_stub(f),
            (Lower(Unbounded), Upper(Including(v))) => verif_fmt_stub(f),
            (Lower(Unbounded), Upper(Excluding(v))) => verif_fmt_stub(f),
            (Lower(Including(v)), Upper(Unbounded)) => verif_fmt_stub(f),
            (Lower(Excluding(v)), Upper(Unbounded)) => verif_fmt_stub(f),
            (Lower(Including(v)), Upper(Including(v2))) if v == v2 => verif_fmt_stub(f),
            (Lower(Including(v)), Upper(Including(v2))) => verif_fmt_stub(f),
            (Lower(Including(v)), Upper(Excluding(v2))) => verif_fmt_stub(f),
            (Lower(Excluding(v)), Upper(Including(v2))) => verif_fmt_stub(f),
            (Lower(Excluding(v)), Upper(Excluding(v2))) => verif_fmt_stub(f),
            _ => unreachable!("does not make sense"),
        }
    }
}
} // verus!
fn main() {}