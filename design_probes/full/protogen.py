#!/usr/bin/env python3
import re,sys
from xtract import *
out=[]
P=lambda f: open(f).read()
out.append(P('prelude.rs'))
ident=strip_derive(item(LIB,r'^pub enum Identifier'),drop=('Clone',)); ver=strip_derive(item(LIB,r'^pub struct Version'))
pred=pubify(strip_derive(item(RNG,r'^enum Predicate'))); bound=pubify(strip_derive(item(RNG,r'^enum Bound \{'))); bset=pubify(strip_derive(item(RNG,r'^struct BoundSet')))
rng=pubify(strip_derive(item(RNG,r'^pub struct Range')))
vdiff=strip_derive(item(LIB,r'^pub enum VersionDiff'))
out+=[vdiff.replace('#[derive(Debug, Copy, PartialEq, Eq)]','#[derive(Debug, Copy, Clone, PartialEq, Eq)]'),ident,clone_impl('Identifier'),ver,clone_impl('Version'),pred,clone_impl('Predicate'),bound,clone_impl('Bound'),bset,clone_impl('BoundSet'),rng,clone_impl('Range')]
out.append(P('spec_order.rs'))
out.append('''
impl PartialEqSpecImpl for Identifier { open spec fn obeys_eq_spec() -> bool { true } open spec fn eq_spec(&self, other: &Self) -> bool { ident_cmp(*self, *other) == Ordering::Equal } }
impl PartialOrdSpecImpl for Identifier { open spec fn obeys_partial_cmp_spec() -> bool { true } open spec fn partial_cmp_spec(&self, other: &Self) -> Option<Ordering> { Some(ident_cmp(*self, *other)) } }
impl OrdSpecImpl for Identifier { open spec fn obeys_cmp_spec() -> bool { true } open spec fn cmp_spec(&self, other: &Self) -> Ordering { ident_cmp(*self, *other) } }
impl PartialEqSpecImpl for Version { open spec fn obeys_eq_spec() -> bool { true } open spec fn eq_spec(&self, other: &Self) -> bool { ver_cmp(*self, *other) == Ordering::Equal } }
impl PartialOrdSpecImpl for Version { open spec fn obeys_partial_cmp_spec() -> bool { true } open spec fn partial_cmp_spec(&self, other: &Self) -> Option<Ordering> { Some(ver_cmp(*self, *other)) } }
impl OrdSpecImpl for Version { open spec fn obeys_cmp_spec() -> bool { true } open spec fn cmp_spec(&self, other: &Self) -> Ordering { ver_cmp(*self, *other) } }
pub proof fn lemma_vec_lex_is_pre_cmp(a: Seq<Identifier>, b: Seq<Identifier>)
    ensures vec_lex::<Identifier>(a, b) == pre_cmp(a, b) decreases a.len()
{ if a.len() > 0 && b.len() > 0 { lemma_vec_lex_is_pre_cmp(a.drop_first(), b.drop_first()); } }
pub proof fn lemma_pre_eq(a: Seq<Identifier>, b: Seq<Identifier>)
    ensures (pre_cmp(a, b) == Ordering::Equal) <==> (a.len() == b.len() && forall|i: int| 0 <= i < a.len() ==> ident_cmp(#[trigger] a[i], b[i]) == Ordering::Equal)
    decreases a.len()
{
    if a.len() > 0 && b.len() > 0 {
        lemma_pre_eq(a.drop_first(), b.drop_first());
        if pre_cmp(a, b) == Ordering::Equal {
            assert forall|i: int| 0 <= i < a.len() implies ident_cmp(#[trigger] a[i], b[i]) == Ordering::Equal by {
                if i > 0 { assert(a[i] == a.drop_first()[i-1]); assert(b[i] == b.drop_first()[i-1]); }
            }
        } else if a.len() == b.len() && ident_cmp(a[0], b[0]) == Ordering::Equal {
            assert(!(forall|i: int| 0 <= i < a.drop_first().len() ==> ident_cmp(#[trigger] a.drop_first()[i], b.drop_first()[i]) == Ordering::Equal));
            let j = choose|j: int| 0 <= j < a.drop_first().len() && ident_cmp(#[trigger] a.drop_first()[j], b.drop_first()[j]) != Ordering::Equal;
            assert(a[j+1] == a.drop_first()[j]); assert(b[j+1] == b.drop_first()[j]);
        }
    }
}
''')
VI=lambda n: impl_body(LIB, n)
out.append('impl Eq for Version {}\nimpl PartialEq for Version {\n'+inject(fn_in_impl(LIB,r'^impl PartialEq for Version \{','eq'),entry='proof { lemma_pre_eq(self.pre_release@, other.pre_release@); }')+'\n}')
out.append('impl cmp::PartialOrd for Version {\n'+fn_in_impl(LIB,r'^impl cmp::PartialOrd for Version \{','partial_cmp')+'\n}')
out.append('impl cmp::Ord for Version {\n'+inject(fn_in_impl(LIB,r'^impl cmp::Ord for Version \{','cmp'),entry='proof { lemma_vec_lex_is_pre_cmp(self.pre_release@, other.pre_release@); }')+'\n}')
out.append('impl Version {\n'+inject(fn_in_impl(LIB,r'^impl Version \{','is_prerelease'),ret='r',contract='    ensures r == (self.pre_release@.len() > 0)')+'\n}')
out.append(P('spec_diff.rs'))
out.append('impl Version {\n'+inject(fn_in_impl(LIB,r'^impl Version \{','diff'),ret='r',contract='    ensures r == diff_spec(key(*self), key(*other)),',entry='broadcast use group_k_order;')+'\n}')
# Hash: abstract feed model (A11)
out.append('''
pub enum Tok { U64(u64), VecKey(int) }
pub uninterp spec fn fed<H>(h: &H) -> Seq<Tok>;
/// Eq-class representative of an identifier list as far as Hash/Eq are concerned (derived Hash/Eq on Identifier agree: trusted)
pub uninterp spec fn vec_hash_key<T>(s: Seq<T>) -> int;
/// std: `k1 == k2 ==> hash(k1) == hash(k2)` for Vec<T> when it holds for T; derived Hash/Eq on Identifier agree (trusted)
pub axiom fn axiom_idents_key(a: Seq<Identifier>, b: Seq<Identifier>)
    requires pre_cmp(a, b) == Ordering::Equal
    ensures vec_hash_key(a) == vec_hash_key(b);
pub assume_specification<H: std::hash::Hasher>[ <u64 as std::hash::Hash>::hash::<H> ](x: &u64, state: &mut H)
    ensures fed(final(state)) == fed(old(state)).push(Tok::U64(*x));
pub assume_specification<T: std::hash::Hash, A: core::alloc::Allocator, H: std::hash::Hasher>[ <Vec<T, A> as std::hash::Hash>::hash::<H> ](x: &Vec<T, A>, state: &mut H)
    ensures fed(final(state)) == fed(old(state)).push(Tok::VecKey(vec_hash_key(x@)));
pub open spec fn hash_feed(k: VKey) -> Seq<Tok> { seq![Tok::U64(k.major as u64), Tok::U64(k.minor as u64), Tok::U64(k.patch as u64), Tok::VecKey(vec_hash_key(k.pre))] }
pub proof fn lemma_eq_same_feed(a: Version, b: Version)
    requires ver_cmp(a, b) == Ordering::Equal
    ensures hash_feed(key(a)) == hash_feed(key(b))
{ if a.pre_release@.len() > 0 && b.pre_release@.len() > 0 { axiom_idents_key(a.pre_release@, b.pre_release@); } else { assert(a.pre_release@ =~= b.pre_release@); } }
''')
out.append('impl std::hash::Hash for Version {\n'+inject(fn_in_impl(LIB,r'^impl std::hash::Hash for Version \{','hash'),contract='    ensures fed(final(state)) == fed(old(state)) + hash_feed(key(*self)),')+'\n}')
out.append(P('spec_bound.rs')); out.append(P('spec_bound_traits.rs')); out.append(P('spec_range.rs')); out.append(P('spec_iter.rs')); out.append(P('spec_fold.rs'))
partial=pubify(strip_derive(item(RNG,r'^struct Partial'))); opn=pubify(strip_derive(item(RNG,r'^enum Operation')))
out+=[partial,clone_impl('Partial'),opn.replace('#[derive(Debug, Copy, Eq, PartialEq)]','#[derive(Debug, Copy, Clone, Eq, PartialEq)]'),'pub const MAX_SAFE_INTEGER: u64 = 900_719_925_474_099;\n']
out.append(P('spec_npm.rs')); out.append(P('spec_repr.rs')); out.append(P('spec_minv.rs')); out.append(P('spec_equiv.rs'))
out.append('''
use vstd::std_specs::convert::*;
impl FromSpecImpl<(i32, i32, i32)> for Version { open spec fn obeys_from_spec() -> bool { false } open spec fn from_spec(v: (i32, i32, i32)) -> Self { arbitrary() } }
impl FromSpecImpl<(i32, i32, i32, i32)> for Version { open spec fn obeys_from_spec() -> bool { false } open spec fn from_spec(v: (i32, i32, i32, i32)) -> Self { arbitrary() } }
impl ::std::convert::From<(i32, i32, i32)> for Version {
    #[verifier::external_body]
    fn from(arg: (i32, i32, i32)) -> (r: Self)
        ensures arg.0 >= 0 && arg.1 >= 0 && arg.2 >= 0 ==> key(r) == k3(arg.0 as int, arg.1 as int, arg.2 as int) && r.build@.len() == 0
    { unimplemented!() }
}
impl ::std::convert::From<(i32, i32, i32, i32)> for Version {
    #[verifier::external_body]
    fn from(arg: (i32, i32, i32, i32)) -> (r: Self)
        ensures arg.0 >= 0 && arg.1 >= 0 && arg.2 >= 0 && arg.3 >= 0 ==> key(r) == k4(arg.0 as int, arg.1 as int, arg.2 as int, seq![Identifier::Numeric(arg.3 as u64)]) && r.build@.len() == 0
    { unimplemented!() }
}
''')
out.append('impl Predicate {\n'+inject(fn_in_impl(RNG,r'^impl Predicate \{','flip'),ret='r',contract='    ensures r == (match self { Predicate::Excluding(v) => Predicate::Including(v), Predicate::Including(v) => Predicate::Excluding(v), Predicate::Unbounded => Predicate::Unbounded })')+'\n}')
BI=r'^impl Bound \{'
out.append('impl Bound {\n'+inject(fn_in_impl(RNG,BI,'upper'),ret='r',contract='    ensures r == Bound::Upper(Predicate::Unbounded)')+'\n'+inject(fn_in_impl(RNG,BI,'lower'),ret='r',contract='    ensures r == Bound::Lower(Predicate::Unbounded)')+'\n'+inject(fn_in_impl(RNG,BI,'predicate'),ret='r',contract='    ensures r == (match self { Bound::Lower(p) => p, Bound::Upper(p) => p })')+'\n}')
out.append('impl Ord for Bound {\n'+inject(fn_in_impl(RNG,r'^impl Ord for Bound \{','cmp'),entry='broadcast use group_k_order; proof { reveal(cut_cmp); }')+'\n}\nimpl PartialOrd for Bound {\n'+fn_in_impl(RNG,r'^impl PartialOrd for Bound \{','partial_cmp')+'\n}')
CUT4='lemma_cut4(cut_of(*self.lower), cut_of(*self.upper), cut_of(*other.lower), cut_of(*other.upper));'
C={}
C['new']=dict(ret='r',contract='''    requires is_lower(lower), is_upper(upper),
    ensures (r is Some) <==> cut_cmp(cut_of(lower), cut_of(upper)) == Ordering::Less,
            r matches Some(bs) ==> *bs.lower == lower && *bs.upper == upper,''',entry='broadcast use group_k_order; proof { reveal(cut_cmp); }')
C['at_least']=dict(ret='r',contract='    ensures r matches Some(bs) && *bs.lower == Bound::Lower(p) && *bs.upper == Bound::Upper(Predicate::Unbounded),',entry='proof { reveal(cut_cmp); }')
C['at_most']=dict(ret='r',contract='    ensures r matches Some(bs) && *bs.lower == Bound::Lower(Predicate::Unbounded) && *bs.upper == Bound::Upper(p),',entry='proof { reveal(cut_cmp); }')
C['exact']=dict(ret='r',contract='    ensures r matches Some(bs) && *bs.lower == Bound::Lower(Predicate::Including(version)) && *bs.upper == Bound::Upper(Predicate::Including(version)),',entry='broadcast use group_k_order; proof { reveal(cut_cmp); }')
C['satisfies']=dict(ret='r',contract='''    requires bs_wf(*self),
    ensures r == sat(*self, key(*version)),''',entry='broadcast use group_k_order;')
C['allows_all']=dict(ret='r',contract='''    requires bs_wf(*self), bs_wf(*other),
    ensures r == ballows_all(*self, *other),''',entry='proof { '+CUT4+' }')
C['allows_any']=dict(ret='r',contract='''    requires bs_wf(*self), bs_wf(*other),
    ensures r == boverlap(*self, *other),''',entry='proof { '+CUT4+' }')
C['intersect']=dict(ret='r',contract='''    requires bs_wf(*self), bs_wf(*other),
    ensures (r is Some) <==> boverlap(*self, *other),
            r matches Some(b) ==> bs_wf(b)
                && *b.lower == (if bound_cmp(*self.lower, *other.lower) == Ordering::Greater { *self.lower } else { *other.lower })
                && *b.upper == (if bound_cmp(*self.upper, *other.upper) == Ordering::Greater { *other.upper } else { *self.upper }),
            r matches Some(b) ==> forall|v: VKey| #![trigger within(b, v)] (within(b, v) <==> (within(*self, v) && within(*other, v))),''',
    entry='''proof {
        let cl = cut_of(*self.lower); let cu = cut_of(*self.upper); let ol = cut_of(*other.lower); let ou = cut_of(*other.upper);
        lemma_cut4(cl, cu, ol, ou);
        assert forall|v: VKey| #![trigger above(cl, v), above(ol, v)] (above(cl, v) && above(ol, v)) <==> above(if cut_cmp(cl, ol) == Ordering::Greater { cl } else { ol }, v) by {
            if cut_cmp(cl, ol) == Ordering::Greater { if above(cl, v) { lemma_cut_mono_above(ol, cl, v); } } else { if above(ol, v) { lemma_cut_mono_above(cl, ol, v); } }
        }
        assert forall|v: VKey| #![trigger below(cu, v), below(ou, v)] (below(cu, v) && below(ou, v)) <==> below(if cut_cmp(cu, ou) == Ordering::Greater { ou } else { cu }, v) by {
            if cut_cmp(cu, ou) == Ordering::Greater { if below(ou, v) { lemma_cut_mono_below(ou, cu, v); } } else { if below(cu, v) { lemma_cut_mono_below(cu, ou, v); } }
        }
    }''')
C['difference']=dict(ret='r',contract='''    requires bs_wf(*self), bs_wf(*other),
    ensures bdiff_post(*self, *other, r),''',entry='''proof { '''+CUT4+'''
        lemma_cut_inf(cut_of(*self.lower)); lemma_cut_inf(cut_of(*self.upper)); lemma_cut_inf(cut_of(*other.lower)); lemma_cut_inf(cut_of(*other.upper));
        assert forall|a: Bound, b: Bound| #![trigger bound_eq(a, b)] bound_eq(a, b) <==> (cut_cmp(cut_of(a), cut_of(b)) == Ordering::Equal && is_lower(a) == is_lower(b)) by { lemma_bound_eq_cut(a, b); }
    }''',closures=[('.map(|f| vec![f])','.map(|f: BoundSet| -> (rr: Vec<BoundSet>) ensures rr@.len() == 1 && rr@[0] == f { vec![f] })')])
C['min_version']=dict(ret='r',contract='''    requires bs_wf(*self), bound_version(*self.lower) matches Some(w) ==> w.patch < 0xffff_ffff_ffff_ffff,
    ensures minv_post(*self, r),''',
    entry='broadcast use group_k_order;',
    after=[('            Bound::Upper(_) => return None,\n        };','''proof {
            let ll = cut_of(*self.lower); let uu = cut_of(*self.upper);
            let f = key(first);
            reveal(cut_cmp);
            assert forall|s: Seq<Identifier>| #![trigger s.len()] s.len() == 1 && s[0] == Identifier::Numeric(0) implies s == pre0() by { assert(s =~= pre0()); }
            assert forall|k: VKey| #![trigger above(ll, k)] wfk0(k) && above(ll, k) implies kcmp(f, k) != Ordering::Greater by {
                if lower_excl(*self.lower) { let kv = key(bound_version(*self.lower)->0); if kv.pre.len() > 0 { lemma_succ_pre(kv, k); } else { lemma_succ_release(kv, k); } }
                if *self.lower == Bound::Lower(Predicate::Unbounded) { lemma_least_key(k); }
            }
            if lower_excl(*self.lower) && key(bound_version(*self.lower)->0).pre.len() > 0 { lemma_push0_greater(key(bound_version(*self.lower)->0).pre); }
            assert(above(ll, f));
            assert forall|a: VKey, k: VKey| #![trigger kcmp(a, k), below(uu, k)] kcmp(a, k) != Ordering::Greater && below(uu, k) implies below(uu, a) by { lemma_below_down(uu, a, k); }
        }''')])
import os
if os.environ.get('PINNED'):
    C.pop('min_version',None)
fns=[]
BS=r'^impl BoundSet \{'
for name,kw in C.items():
    t=r1_split_or_guard(fn_in_impl(RNG,BS,name)); fns.append(inject(t,**kw))
out.append('impl BoundSet {\n'+'\n\n'.join(fns)+'\n}')

# ---- Range level
RI=r'^impl Range \{'
RC={}
RC['any']=dict(ret='r',contract='    ensures rwf(r), r.0@.len() == 1, forall|k: VKey| rwithin(r, k),',entry='proof { reveal(cut_cmp); }')
RC['satisfies']=dict(ret='r',contract='''    requires rwf(*self),
    ensures r == rsat(*self, key(*version)),''',entry='broadcast use g_any;',
    loops=[(0,'it0','rwf(*self), !any_sat(self.0@, it0.index@ as int, key(*version)),')])
RC['allows_any']=dict(ret='r',contract='''    requires rwf(*self), rwf(*other),
    ensures r == (exists|i: int, j: int| 0 <= i < self.0@.len() && 0 <= j < other.0@.len() && boverlap(#[trigger] self.0@[i], #[trigger] other.0@[j])),''',
    loops=[(0,'it0','rwf(*self), rwf(*other), forall|i: int, j: int| 0 <= i < it0.index@ && 0 <= j < other.0@.len() ==> !boverlap(#[trigger] self.0@[i], #[trigger] other.0@[j]),'),
           (1,'it1','rwf(*self), rwf(*other), bs_wf(*this), 0 <= it0.index@ < self.0@.len(), *this == self.0@[it0.index@ as int], forall|i: int, j: int| 0 <= i < it0.index@ && 0 <= j < other.0@.len() ==> !boverlap(#[trigger] self.0@[i], #[trigger] other.0@[j]), forall|j: int| 0 <= j < it1.index@ ==> !boverlap(*this, #[trigger] other.0@[j]),')])
RC['allows_all']=dict(ret='r',contract='''    requires rwf(*self), rwf(*other),
    ensures r == (exists|i: int, j: int| 0 <= i < self.0@.len() && 0 <= j < other.0@.len() && ballows_all(#[trigger] self.0@[i], #[trigger] other.0@[j])),''',
    loops=[(0,'it0','rwf(*self), rwf(*other), forall|i: int, j: int| 0 <= i < it0.index@ && 0 <= j < other.0@.len() ==> !ballows_all(#[trigger] self.0@[i], #[trigger] other.0@[j]),'),
           (1,'it1','rwf(*self), rwf(*other), bs_wf(*this), 0 <= it0.index@ < self.0@.len(), *this == self.0@[it0.index@ as int], forall|i: int, j: int| 0 <= i < it0.index@ && 0 <= j < other.0@.len() ==> !ballows_all(#[trigger] self.0@[i], #[trigger] other.0@[j]), forall|j: int| 0 <= j < it1.index@ ==> !ballows_all(*this, #[trigger] other.0@[j]),')])
INV_OUT='''rwf(*self), rwf(*other), swf(sets@),
        forall|v: VKey| #![trigger any_within(sets@, sets@.len() as int, v)] #![trigger rwithin(*other, v)] any_within(sets@, sets@.len() as int, v) <==> (any_within(self.0@, it0.index@ as int, v) && rwithin(*other, v)),'''
INV_IN='''rwf(*self), rwf(*other), swf(sets@), bs_wf(*lefty), 0 <= it0.index@ < self.0@.len(), *lefty == self.0@[it0.index@ as int],
        forall|v: VKey| #![trigger any_within(sets@, sets@.len() as int, v)] #![trigger rwithin(*other, v)] any_within(sets@, sets@.len() as int, v) <==>
            ((any_within(self.0@, it0.index@ as int, v) && rwithin(*other, v)) || (within(*lefty, v) && any_within(other.0@, it1.index@ as int, v))),'''
RC['intersect']=dict(ret='r',contract='''    requires rwf(*self), rwf(*other),
    ensures r matches Some(x) ==> rwf(x) && forall|v: VKey| #![trigger rwithin(x, v)] rwithin(x, v) <==> rwithin(*self, v) && rwithin(*other, v),
            r is None ==> forall|v: VKey| #![trigger rwithin(*self, v), rwithin(*other, v)] !(rwithin(*self, v) && rwithin(*other, v)),''',
    entry='broadcast use g_any;',
    loops=[(0,'it0',INV_OUT),(1,'it1',INV_IN)],
    loop_entry=[(1,'let ghost old_sets = sets@;')],
    loop_end=[(1,'''proof {
        assert forall|v: VKey| #![trigger any_within(sets@, sets@.len() as int, v)] #![trigger rwithin(*other, v)] any_within(sets@, sets@.len() as int, v) <==>
            ((any_within(self.0@, it0.index@ as int, v) && rwithin(*other, v)) || (within(*lefty, v) && any_within(other.0@, it1.index@ as int + 1, v))) by {
            lemma_any_within_step(other.0@, it1.index@ as int, v);
            if sets@.len() > old_sets.len() { lemma_any_within_push(old_sets, sets@[old_sets.len() as int], v); assert(sets@ =~= old_sets.push(sets@[old_sets.len() as int])); }
            else { lemma_boverlap_none(*lefty, *righty, v); }
        }
    }''')])
DINV0='''rwf(*self), rwf(*other), swf(predicates@),
        forall|v: VKey| #![trigger any_within(predicates@, predicates@.len() as int, v)] #![trigger rwithin(*other, v)] any_within(predicates@, predicates@.len() as int, v) <==> (any_within(self.0@, it0.index@ as int, v) && !rwithin(*other, v)),'''
DINV1='''rwf(*self), rwf(*other), swf(predicates@), swf(remainders@), bs_wf(*lefty), 0 <= it0.index@ < self.0@.len(), *lefty == self.0@[it0.index@ as int],
        forall|v: VKey| #![trigger any_within(predicates@, predicates@.len() as int, v)] #![trigger rwithin(*other, v)] any_within(predicates@, predicates@.len() as int, v) <==> (any_within(self.0@, it0.index@ as int, v) && !rwithin(*other, v)),
        forall|v: VKey| #![trigger any_within(remainders@, remainders@.len() as int, v)] any_within(remainders@, remainders@.len() as int, v) <==> (within(*lefty, v) && !any_within(other.0@, it1.index@ as int, v)),'''
DINV2='''rwf(*other), swf(remainders@), swf(next@), bs_wf(*righty),
        forall|v: VKey| #![trigger any_within(next@, next@.len() as int, v)] any_within(next@, next@.len() as int, v) <==> (any_within(remainders@, it2.index@ as int, v) && !within(*righty, v)),'''
RC['difference']=dict(ret='r',contract='''    requires rwf(*self), rwf(*other),
    ensures r matches Some(x) ==> rwf(x) && forall|v: VKey| #![trigger rwithin(x, v)] rwithin(x, v) <==> rwithin(*self, v) && !rwithin(*other, v),
            r is None ==> forall|v: VKey| #![trigger rwithin(*self, v)] rwithin(*self, v) ==> rwithin(*other, v),''',
    entry='broadcast use g_any, lemma_any_within_concat;',
    loops=[(0,'it0',DINV0),(1,'it1',DINV1),(2,'it2',DINV2)],
    loop_entry=[(2,'let ghost old_next = next@; let ghost mut rgv: Option<Vec<BoundSet>> = None;'),(0,'let ghost old_preds = predicates@;')],
    after=[('let mut remainders = vec![lefty.clone()];','''proof { assert(remainders@.len() == 1 && remainders@[0] == *lefty);
            assert forall|v: VKey| #![trigger any_within(remainders@, remainders@.len() as int, v)] any_within(remainders@, remainders@.len() as int, v) <==> (within(*lefty, v) && !any_within(other.0@, 0, v)) by { lemma_any_within_step(remainders@, 0, v); } }'''),
           ('if let Some(mut range) = piece.difference(righty) {','proof { rgv = Some(range); }'),
           ('remainders = next;','''proof {
                assert forall|v: VKey| #![trigger any_within(remainders@, remainders@.len() as int, v)] any_within(remainders@, remainders@.len() as int, v) <==> (within(*lefty, v) && !any_within(other.0@, it1.index@ as int + 1, v)) by {
                    lemma_any_within_step(other.0@, it1.index@ as int, v);
                }
            }'''),
           ],
    before=[('predicates.append(&mut remainders)','let ghost rem_final = remainders@;')],
    loop_end=[(0,'''proof {
            assert(predicates@ =~= old_preds + rem_final);
            lemma_swf_concat(old_preds, rem_final);
            assert forall|v: VKey| #![trigger any_within(predicates@, predicates@.len() as int, v)] #![trigger rwithin(*other, v)] any_within(predicates@, predicates@.len() as int, v) <==> (any_within(self.0@, it0.index@ as int + 1, v) && !rwithin(*other, v)) by {
                lemma_any_within_step(self.0@, it0.index@ as int, v);
                lemma_any_within_concat(old_preds, rem_final, v);
            }
        }'''),(2,'''proof {
            let added: Seq<BoundSet> = match rgv { Some(x) => x@, None => Seq::empty() };
            assert(next@ =~= old_next + added);
            if rgv is Some { lemma_swf_concat(old_next, added); }
            assert forall|v: VKey| #![trigger any_within(next@, next@.len() as int, v)] any_within(next@, next@.len() as int, v) <==> (any_within(remainders@, it2.index@ as int + 1, v) && !within(*righty, v)) by {
                lemma_any_within_step(remainders@, it2.index@ as int, v);
                lemma_any_within_concat(old_next, added, v);
                match rgv {
                    Some(x) => { lemma_bdiff_pointwise(*piece, *righty, rgv, v); },
                    None => { if bdiff_post(*piece, *righty, None) { lemma_bdiff_pointwise(*piece, *righty, None, v); } lemma_any_within_zero(added, v); },
                }
            }
        }'''),
      ])
MINV='''match min {
            Some(m) => any_sat(self.0@, it0.index@ as int, key(m)) && forall|k: VKey| #![trigger any_sat(self.0@, it0.index@ as int, k)] wfk0(k) && any_sat(self.0@, it0.index@ as int, k) ==> kcmp(key(m), k) != Ordering::Greater,
            None => forall|k: VKey| #![trigger any_sat(self.0@, it0.index@ as int, k)] wfk0(k) ==> !any_sat(self.0@, it0.index@ as int, k),
        }'''
RC['min_version']=dict(ret='r',contract='''    requires rwf(*self), forall|i: int| 0 <= i < self.0@.len() ==> (bound_version(*(#[trigger] self.0@[i]).lower) matches Some(w) ==> w.patch < 0xffff_ffff_ffff_ffff),
    ensures match r {
        Some(m) => rsat(*self, key(m)) && forall|k: VKey| #![trigger rsat(*self, k)] wfk0(k) && rsat(*self, k) ==> kcmp(key(m), k) != Ordering::Greater,
        None => forall|k: VKey| #![trigger rsat(*self, k)] wfk0(k) ==> !rsat(*self, k),
    },''',entry='broadcast use g_any, group_k_order;',
    loops=[(0,'it0','rwf(*self), forall|i: int| 0 <= i < self.0@.len() ==> (bound_version(*(#[trigger] self.0@[i]).lower) matches Some(w) ==> w.patch < 0xffff_ffff_ffff_ffff), '+MINV+',')],
    loop_entry=[(0,'let ghost old_min = min; let ghost mut cand: Option<Version> = None;')],
    after=[('if let Some(candidate) = range.min_version() {','proof { cand = Some(candidate); }')],
    loop_end=[(0,'''proof {
            let n = it0.index@ as int;
            assert(*range == self.0@[n]);
            assert(minv_post(*range, cand));
            assert forall|k: VKey| #![trigger any_sat(self.0@, n + 1, k)] any_sat(self.0@, n + 1, k) == (any_sat(self.0@, n, k) || sat(self.0@[n], k)) by { lemma_any_sat_step(self.0@, n, k); }
            let new_min = min;
            match new_min {
                Some(m) => {
                    lemma_any_sat_step(self.0@, n, key(m));
                    assert forall|k: VKey| #![trigger any_sat(self.0@, n + 1, k)] wfk0(k) && any_sat(self.0@, n + 1, k) implies kcmp(key(m), k) != Ordering::Greater by {
                        lemma_any_sat_step(self.0@, n, k);
                        if let Some(c) = cand { lemma_k_flip(key(c), key(m)); if sat(self.0@[n], k) { lemma_k_trans(key(m), key(c), k); } }
                        if let Some(o) = old_min { lemma_k_flip(key(m), key(o)); if any_sat(self.0@, n, k) { lemma_k_trans(key(m), key(o), k); } }
                    }
                },
                None => {},
            }
        }''')])
def r6(text):
    # R6: `E.iter().filter(C).max()` -> stub(E, C') with the closure contract spliced in
    pat=re.compile(r'(\w+)\.iter\(\)\.filter\(\|(\w+)\| ([^\n]*?)\)\.(max|min)\(\)')
    def f(m):
        return f"verif_std_filter_{m.group(4)}({m.group(1)}, |{m.group(2)}: &&Version| -> (b: bool) requires rwf(*self) ensures b == rsat(*self, key(**{m.group(2)})) {{ {m.group(3)} }})"
    t,n=pat.subn(f,text)
    if n!=1: raise AnchorLost('R6 idiom')
    return t
for nm,ordr in (('max_satisfying','Greater'),('min_satisfying','Less')):
    RC[nm]=dict(ret='r',contract=f'''    requires rwf(*self),
    ensures r matches Some(m) ==> rsat(*self, key(*m)) && (exists|k: int| 0 <= k < versions@.len() && *m == #[trigger] versions@[k])
                && forall|j: int| 0 <= j < versions@.len() && rsat(*self, key(#[trigger] versions@[j])) ==> ver_cmp(versions@[j], *m) != Ordering::{ordr},
            r is None ==> forall|j: int| 0 <= j < versions@.len() ==> !rsat(*self, key(#[trigger] versions@[j])),''')
if os.environ.get('PINNED'):
    RC.pop('difference',None); RC.pop('min_version',None)
rf=[]
for name,kw in RC.items():
    t=fn_in_impl(RNG,RI,name)
    if name in ('max_satisfying','min_satisfying'): t=r6(t)
    rf.append(inject(t,**kw))
out.append('impl Range {\n'+'\n\n'.join(rf)+'\n}')

# ---------------- desugaring closures (R5) ----------------
def closure_match(src, fn_header_re, marker):
    body=impl_body(src,fn_header_re)
    i=body.index(marker); j=body.index('match',i); k=body.index('{',j); e=match_brace(body,k)
    return body[j:e]
caret_m=closure_match(RNG,r'^fn caret<','|parsed| match parsed')
partial_m=closure_match(RNG,r'^fn partial<','|partial| match partial')
prim_m=closure_match(RNG,r'^fn primitive<','|parsed| match parsed')
tilde_m=closure_match(RNG,r'^fn tilde<','|parsed| match parsed')
hbody=impl_body(RNG,r'^fn hyphen<')
hy_text=hbody[hbody.index('let upper = match upper'):hbody.index('Ok(bounds)')]
mac=item(LIB,r'^macro_rules! impl_from_unsigned_for_version')
i0=mac.index('$(', mac.index('=>')); fbody=mac[i0+2:mac.rindex(')+')].replace('$t','u64')
fbody=re.sub(r'fn from\((\([a-z_, ]+\)): (\([a-z0-9, ]+\))\) -> Self \{', lambda m: f'fn from(arg: {m.group(2)}) -> (r: Self)\n ensures FROMENS{len(m.group(1).split(","))}\n {{\n let {m.group(1)} = arg;', fbody)
fbody=fbody.replace('FROMENS3','key(r) == k3(arg.0 as int, arg.1 as int, arg.2 as int), r.build@.len() == 0')
fbody=fbody.replace('FROMENS4','key(r).major == arg.0, key(r).minor == arg.1, key(r).patch == arg.2, key(r).pre =~= seq![Identifier::Numeric(arg.3)], r.build@.len() == 0')
out.append("""impl FromSpecImpl<(u64, u64, u64)> for Version { open spec fn obeys_from_spec() -> bool { false } open spec fn from_spec(v: (u64, u64, u64)) -> Self { arbitrary() } }
impl FromSpecImpl<(u64, u64, u64, u64)> for Version { open spec fn obeys_from_spec() -> bool { false } open spec fn from_spec(v: (u64, u64, u64, u64)) -> Self { arbitrary() } }
impl FromSpecImpl<Partial> for Version { open spec fn obeys_from_spec() -> bool { false } open spec fn from_spec(v: Partial) -> Self { arbitrary() } }
""")
out.append(fbody)
out.append('impl From<Partial> for Version {\n'+inject(fn_in_impl(RNG,r'^impl From<Partial> for Version \{','from'),ret='r',contract="    ensures r.major == (match partial.major { Some(x) => x, None => 0 }), r.minor == (match partial.minor { Some(x) => x, None => 0 }), r.patch == (match partial.patch { Some(x) => x, None => 0 }), r.pre_release == partial.pre_release, r.build == partial.build")+'\n}')
HINT="""{
 broadcast use group_k_order, group_sets;
 proof { reveal(cut_cmp);
        assert forall|s: Seq<Identifier>| #![trigger s.len()] s.len() == 1 && s[0] == Identifier::Numeric(0) implies s == pre0() by { assert(s =~= pre0()); }
        assert forall|s: Seq<Identifier>| #![trigger s.len()] s.len() == 0 implies s == Seq::<Identifier>::empty() by { assert(s =~= Seq::<Identifier>::empty()); }
 }
    """
out.append('fn caret_desugar(parsed: Partial) -> (r: Option<BoundSet>)\n'+P('contract_caret.rs')+HINT+caret_m+'\n}\n')
# the same lifted body is checked once per operator (keeps each query small)
pc=P('contract_primitive.rs').split('\n')
for op in ['Exact','GreaterThan','GreaterThanEquals','LessThan','LessThanEquals']:
    lines=[l for l in pc if ('Operation::'+op+' ') in l]
    contract="    requires wf_partial(parsed.1), parsed.0 == Operation::"+op+",\n    ensures\n"+'\n'.join(lines)+'\n'
    hint=HINT
    if op=='LessThanEquals':
        hint=HINT.replace(' }\n    ',"""        assert forall|w: Seq<Identifier>| #![trigger pre_cmp(w, pre0())] w.len() > 0 implies pre_cmp(w, pre0()) != Ordering::Less by { lemma_least_pre0(w); lemma_pre_flip(w, pre0()); }
 }
    """,1)
    out.append('fn primitive_desugar_'+op+'(parsed: (Operation, Partial)) -> (r: Option<BoundSet>)\n'+contract+hint+'use Operation::*;\n'+prim_m+'\n}\n')
out.append('fn tilde_desugar(parsed: (Option<&str>, Partial)) -> (r: Option<BoundSet>)\n'+P('contract_tilde.rs')+HINT+tilde_m+'\n}\n')
out.append('fn hyphen_desugar(lower: Option<Partial>, upper: Partial) -> (r: Option<BoundSet>)\n'+P('contract_hyphen.rs')+HINT+hy_text+'\n bounds\n}\n')
out.append('fn partial_desugar(partial: Partial) -> (r: Option<BoundSet>)\n'+P('contract_partial.rs')+HINT+partial_m+'\n}\n')

out.append('''
// A10: the formatting machinery returns without panicking; nothing is assumed about its result
pub assume_specification<'a>[ std::fmt::Formatter::<'a>::write_fmt ](f: &mut std::fmt::Formatter<'a>, args: std::fmt::Arguments<'_>) -> (r: Result<(), std::fmt::Error>);
impl std::fmt::Display for Version {
    #[verifier::external_body]
    fn fmt(&self, f: &mut std::fmt::Formatter<'_>) -> std::fmt::Result { unimplemented!() }
}
''')
# R9: trait-method body lifted to an inherent fn so that it can carry the representation invariant as a precondition
dfmt=re.sub(r'write!\(f, [^\n]*\),', 'verif_fmt_stub(f),', fn_in_impl(RNG,r'^impl fmt::Display for BoundSet \{','fmt'))  # R10
out.append('#[verifier::external_body]\nfn verif_fmt_stub(f: &mut std::fmt::Formatter<\'_>) -> std::fmt::Result { unimplemented!() }\n')
out.append('impl BoundSet {\n'+inject(dfmt.replace('fmt::','std::fmt::').replace('fn fmt(','fn display_fmt('),contract='    requires bs_wf(*self),')+'\n}')
out.append('} // verus!\nfn main() {}')
open('full.rs','w').write('\n'.join(out))
