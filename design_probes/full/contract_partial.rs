    requires wf_partial(partial),
    ensures
        partial.major is None && partial.minor is None && partial.patch is None && partial.pre_release@.len() == 0 ==> shape_ok_c(r, npm_plain_c(partial)),  // plain#N.N.N
        partial.major is None && partial.minor is None && partial.patch is None && partial.pre_release@.len() > 0 ==> shape_ok_c(r, npm_plain_c(partial)),  // plain#N.N.N+pre
        partial.major is None && partial.minor is None && partial.patch is Some && partial.pre_release@.len() == 0 ==> shape_ok_c(r, npm_plain_c(partial)),  // plain#N.N.S
        partial.major is None && partial.minor is None && partial.patch is Some && partial.pre_release@.len() > 0 ==> shape_ok_c(r, npm_plain_c(partial)),  // plain#N.N.S+pre
        partial.major is None && partial.minor is Some && partial.patch is None && partial.pre_release@.len() == 0 ==> shape_ok_c(r, npm_plain_c(partial)),  // plain#N.S.N
        partial.major is None && partial.minor is Some && partial.patch is None && partial.pre_release@.len() > 0 ==> shape_ok_c(r, npm_plain_c(partial)),  // plain#N.S.N+pre
        partial.major is None && partial.minor is Some && partial.patch is Some && partial.pre_release@.len() == 0 ==> shape_ok_c(r, npm_plain_c(partial)),  // plain#N.S.S
        partial.major is None && partial.minor is Some && partial.patch is Some && partial.pre_release@.len() > 0 ==> shape_ok_c(r, npm_plain_c(partial)),  // plain#N.S.S+pre
        partial.major is Some && partial.minor is None && partial.patch is None && partial.pre_release@.len() == 0 ==> shape_ok_c(r, npm_plain_c(partial)),  // plain#S.N.N
        partial.major is Some && partial.minor is None && partial.patch is None && partial.pre_release@.len() > 0 ==> shape_ok_c(r, npm_plain_c(partial)),  // plain#S.N.N+pre
        partial.major is Some && partial.minor is None && partial.patch is Some && partial.pre_release@.len() == 0 ==> shape_ok_c(r, npm_plain_c(partial)),  // plain#S.N.S
        partial.major is Some && partial.minor is None && partial.patch is Some && partial.pre_release@.len() > 0 ==> shape_ok_c(r, npm_plain_c(partial)),  // plain#S.N.S+pre
        partial.major is Some && partial.minor is Some && partial.patch is None && partial.pre_release@.len() == 0 ==> shape_ok_c(r, npm_plain_c(partial)),  // plain#S.S.N
        partial.major is Some && partial.minor is Some && partial.patch is None && partial.pre_release@.len() > 0 ==> shape_ok_c(r, npm_plain_c(partial)),  // plain#S.S.N+pre
        partial.major is Some && partial.minor is Some && partial.patch is Some && partial.pre_release@.len() == 0 ==> shape_ok_c(r, npm_plain_c(partial)),  // plain#S.S.S
        partial.major is Some && partial.minor is Some && partial.patch is Some && partial.pre_release@.len() > 0 ==> shape_ok_c(r, npm_plain_c(partial)),  // plain#S.S.S+pre
