impl PartialEqSpecImpl for Predicate {
    open spec fn obeys_eq_spec() -> bool { true }
    open spec fn eq_spec(&self, other: &Self) -> bool { pred_eq(*self, *other) }
}
impl PartialEqSpecImpl for Bound {
    open spec fn obeys_eq_spec() -> bool { true }
    open spec fn eq_spec(&self, other: &Self) -> bool { bound_eq(*self, *other) }
}
impl PartialEqSpecImpl for BoundSet {
    open spec fn obeys_eq_spec() -> bool { true }
    open spec fn eq_spec(&self, other: &Self) -> bool { bound_eq(*self.upper, *other.upper) && bound_eq(*self.lower, *other.lower) }
}
impl PartialOrdSpecImpl for Bound {
    open spec fn obeys_partial_cmp_spec() -> bool { true }
    open spec fn partial_cmp_spec(&self, other: &Self) -> Option<Ordering> { Some(bound_cmp(*self, *other)) }
}
impl OrdSpecImpl for Bound {
    open spec fn obeys_cmp_spec() -> bool { true }
    open spec fn cmp_spec(&self, other: &Self) -> Ordering { bound_cmp(*self, *other) }
}
