#!/usr/bin/env python3
import re,sys
from gen import *

def strip_derive(text, drop=('Hash','Clone')):
    def f(m):
        items=[x.strip() for x in m.group(1).split(',') if x.strip() and x.strip() not in drop]
        return '#[derive('+', '.join(items)+')]' if items else ''
    return re.sub(r'#\[derive\(([^)]*)\)\]',f,text)

def clone_impl(ty):
    return f'''impl Clone for {ty} {{
    #[verifier::external_body]
    fn clone(&self) -> (r: Self) ensures r == *self {{ unimplemented!() }}
}}
'''
out=[]
out.append(open('prelude.rs').read())
# ---- types from lib.rs
ident=strip_derive(item(LIB,r'^pub enum Identifier'))
ver=strip_derive(item(LIB,r'^pub struct Version'))
out+= [ident, clone_impl('Identifier'), ver, clone_impl('Version')]
out.append(open('specs_order.rs').read())
# spec impls for derived traits on Identifier (trusted: derive semantics)
out.append('''
// derived PartialEq/Ord on Identifier: variant order as declared, then payload (trusted derive semantics)
impl PartialEqSpecImpl for Identifier {
    open spec fn obeys_eq_spec() -> bool { true }
    open spec fn eq_spec(&self, other: &Self) -> bool { ident_cmp(*self, *other) == Ordering::Equal }
}
impl PartialOrdSpecImpl for Identifier {
    open spec fn obeys_partial_cmp_spec() -> bool { true }
    open spec fn partial_cmp_spec(&self, other: &Self) -> Option<Ordering> { Some(ident_cmp(*self, *other)) }
}
impl OrdSpecImpl for Identifier {
    open spec fn obeys_cmp_spec() -> bool { true }
    open spec fn cmp_spec(&self, other: &Self) -> Ordering { ident_cmp(*self, *other) }
}
impl PartialEqSpecImpl for Version {
    open spec fn obeys_eq_spec() -> bool { true }
    open spec fn eq_spec(&self, other: &Self) -> bool { ver_cmp(*self, *other) == Ordering::Equal }
}
impl PartialOrdSpecImpl for Version {
    open spec fn obeys_partial_cmp_spec() -> bool { true }
    open spec fn partial_cmp_spec(&self, other: &Self) -> Option<Ordering> { Some(ver_cmp(*self, *other)) }
}
impl OrdSpecImpl for Version {
    open spec fn obeys_cmp_spec() -> bool { true }
    open spec fn cmp_spec(&self, other: &Self) -> Ordering { ver_cmp(*self, *other) }
}
pub proof fn lemma_vec_lex_is_pre_cmp(a: Seq<Identifier>, b: Seq<Identifier>)
    ensures vec_lex::<Identifier>(a, b) == pre_cmp(a, b) decreases a.len()
{ if a.len() > 0 && b.len() > 0 { lemma_vec_lex_is_pre_cmp(a.drop_first(), b.drop_first()); } }
pub proof fn lemma_pre_eq(a: Seq<Identifier>, b: Seq<Identifier>)
    ensures (pre_cmp(a, b) == Ordering::Equal) <==> (a.len() == b.len() && forall|i: int| 0 <= i < a.len() ==> ident_cmp(#[trigger] a[i], b[i]) == Ordering::Equal)
    decreases a.len()
{
    if a.len() > 0 && b.len() > 0 {
        lemma_pre_eq(a.drop_first(), b.drop_first());
        if pre_cmp(a, b) == Ordering::Equal {
            assert forall|i: int| 0 <= i < a.len() implies ident_cmp(#[trigger] a[i], b[i]) == Ordering::Equal by {
                if i > 0 { assert(a[i] == a.drop_first()[i-1]); assert(b[i] == b.drop_first()[i-1]); }
            }
        } else if a.len() == b.len() && ident_cmp(a[0], b[0]) == Ordering::Equal {
            // some later index differs
            assert(!(forall|i: int| 0 <= i < a.drop_first().len() ==> ident_cmp(#[trigger] a.drop_first()[i], b.drop_first()[i]) == Ordering::Equal));
            let j = choose|j: int| 0 <= j < a.drop_first().len() && ident_cmp(a.drop_first()[j], b.drop_first()[j]) != Ordering::Equal;
            assert(a[j+1] == a.drop_first()[j]); assert(b[j+1] == b.drop_first()[j]);
        }
    }
}
''')
def inject(fn_text, sig_ret, contract, proof=''):
    """rename return type to named, inject contract before body, proof block at body start"""
    ob=fn_text.index('{')
    head=fn_text[:ob]; body=fn_text[ob:]
    if sig_ret:
        head=re.sub(r'->\s*(.+?)\s*$', lambda m: '-> ('+sig_ret+': '+m.group(1)+')\n', head.rstrip()+' ')
    if proof: body='{\n proof { '+proof+' }\n'+body[1:]
    return head+contract+'\n'+body

imp_eq=fn_in_impl(LIB,r'^impl PartialEq for Version \{','eq')
imp_cmp=fn_in_impl(LIB,r'^impl cmp::Ord for Version \{','cmp')
imp_pcmp=fn_in_impl(LIB,r'^impl cmp::PartialOrd for Version \{','partial_cmp')
out.append('impl Eq for Version {}\nimpl PartialEq for Version {\n'+inject(imp_eq,'','',proof='lemma_pre_eq(self.pre_release@, other.pre_release@);')+'\n}')
out.append('impl cmp::PartialOrd for Version {\n'+imp_pcmp+'\n}')
out.append('impl cmp::Ord for Version {\n'+inject(imp_cmp,'','',proof='lemma_vec_lex_is_pre_cmp(self.pre_release@, other.pre_release@);')+'\n}')
isp=fn_in_impl(LIB,r'^impl Version \{','is_prerelease')
out.append('impl Version {\n'+inject(isp,'r','    ensures r == (self.pre_release@.len() > 0)')+'\n}')
out.append(open('extra.rs').read() if len(sys.argv)>1 else '')
out.append('} // verus!\nfn main() {}')
open('core.rs','w').write('\n'.join(out))
