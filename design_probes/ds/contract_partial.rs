    requires wf_partial(partial),
    ensures
        (partial.major is None) ==> shape_ok(r, npm_plain(partial)),
        (partial.major is Some && partial.minor is None) ==> shape_ok(r, npm_plain(partial)),
        (partial.major is Some && partial.minor is Some && partial.patch is None) ==> shape_ok(r, npm_plain(partial)),
        (partial.major is Some && partial.minor is Some && partial.patch is Some) ==> shape_ok(r, npm_plain(partial)),
