    requires wf_partial(partial),
    ensures
        xM(partial) ==> shape_ok(r, npm_plain(partial)),
        !xM(partial) && xm(partial) ==> shape_ok(r, npm_plain(partial)),
        !xm(partial) && xp(partial) ==> shape_ok(r, npm_plain(partial)),
        !xp(partial) ==> shape_ok(r, npm_plain(partial)),
