    requires wf_partial(parsed.1),
    ensures
        parsed.1.major is None ==> shape_ok(r, npm_tilde(parsed.1)),   // ~x
        parsed.1.major is Some && parsed.1.minor is None && parsed.1.patch is None ==> shape_ok(r, npm_tilde(parsed.1)),   // ~1
        parsed.1.major is Some && parsed.1.minor is None && parsed.1.patch is Some ==> shape_ok(r, npm_tilde(parsed.1)),   // ~1.x.3
        parsed.1.major is Some && parsed.1.minor is Some && parsed.1.patch is None ==> shape_ok(r, npm_tilde(parsed.1)),   // ~1.2
        parsed.1.major is Some && parsed.1.minor is Some && parsed.1.patch is Some ==> shape_ok(r, npm_tilde(parsed.1)),   // ~1.2.3[-pre]
