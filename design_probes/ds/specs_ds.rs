// ===================== spec: SemVer 2.0.0 section 11 precedence =====================
pub open spec fn flip(o: Ordering) -> Ordering {
    match o { Ordering::Less => Ordering::Greater, Ordering::Equal => Ordering::Equal, Ordering::Greater => Ordering::Less }
}
pub open spec fn int_cmp(a: int, b: int) -> Ordering {
    if a < b { Ordering::Less } else if a == b { Ordering::Equal } else { Ordering::Greater }
}
// Rust: String Ord is lexicographic by bytes == by code points (UTF-8 is order preserving); ASCII order on [0-9A-Za-z-]
pub open spec fn str_cmp(a: Seq<char>, b: Seq<char>) -> Ordering
    decreases a.len()
{
    if a.len() == 0 && b.len() == 0 { Ordering::Equal }
    else if a.len() == 0 { Ordering::Less }
    else if b.len() == 0 { Ordering::Greater }
    else if a[0] != b[0] { int_cmp(a[0] as int, b[0] as int) }
    else { str_cmp(a.drop_first(), b.drop_first()) }
}
pub open spec fn ident_cmp(a: Identifier, b: Identifier) -> Ordering {
    match (a, b) {
        (Identifier::Numeric(x), Identifier::Numeric(y)) => int_cmp(x as int, y as int),
        (Identifier::Numeric(_), Identifier::AlphaNumeric(_)) => Ordering::Less,
        (Identifier::AlphaNumeric(_), Identifier::Numeric(_)) => Ordering::Greater,
        (Identifier::AlphaNumeric(x), Identifier::AlphaNumeric(y)) => str_cmp(x@, y@),
    }
}
pub open spec fn pre_cmp(a: Seq<Identifier>, b: Seq<Identifier>) -> Ordering
    decreases a.len()
{
    if a.len() == 0 && b.len() == 0 { Ordering::Equal }
    else if a.len() == 0 { Ordering::Less }
    else if b.len() == 0 { Ordering::Greater }
    else if ident_cmp(a[0], b[0]) != Ordering::Equal { ident_cmp(a[0], b[0]) }
    else { pre_cmp(a.drop_first(), b.drop_first()) }
}
pub struct VKey { pub major: int, pub minor: int, pub patch: int, pub pre: Seq<Identifier> }
pub open spec fn key(v: Version) -> VKey { VKey { major: v.major as int, minor: v.minor as int, patch: v.patch as int, pre: v.pre_release@ } }
pub open spec fn kcmp(a: VKey, b: VKey) -> Ordering {
    if a.major != b.major { int_cmp(a.major, b.major) }
    else if a.minor != b.minor { int_cmp(a.minor, b.minor) }
    else if a.patch != b.patch { int_cmp(a.patch, b.patch) }
    else if a.pre.len() == 0 && b.pre.len() == 0 { Ordering::Equal }
    else if a.pre.len() == 0 { Ordering::Greater }
    else if b.pre.len() == 0 { Ordering::Less }
    else { pre_cmp(a.pre, b.pre) }
}
pub open spec fn ver_cmp(a: Version, b: Version) -> Ordering { kcmp(key(a), key(b)) }
pub open spec fn klt(a: VKey, b: VKey) -> bool { kcmp(a, b) == Ordering::Less }
pub open spec fn kle(a: VKey, b: VKey) -> bool { kcmp(a, b) != Ordering::Greater }
pub open spec fn keq(a: VKey, b: VKey) -> bool { kcmp(a, b) == Ordering::Equal }
// ---- lemmas: total order ----
pub proof fn lemma_str_refl(a: Seq<char>) ensures str_cmp(a, a) == Ordering::Equal decreases a.len()
{ if a.len() > 0 { lemma_str_refl(a.drop_first()); } }
pub proof fn lemma_str_flip(a: Seq<char>, b: Seq<char>) ensures str_cmp(a, b) == flip(str_cmp(b, a)) decreases a.len()
{ if a.len() > 0 && b.len() > 0 { lemma_str_flip(a.drop_first(), b.drop_first()); } }
pub proof fn lemma_str_eq(a: Seq<char>, b: Seq<char>) ensures (str_cmp(a, b) == Ordering::Equal) <==> a =~= b decreases a.len()
{
    if a.len() > 0 && b.len() > 0 {
        lemma_str_eq(a.drop_first(), b.drop_first());
        assert(a =~= seq![a[0]] + a.drop_first());
        assert(b =~= seq![b[0]] + b.drop_first());
    }
}
pub proof fn lemma_str_trans(a: Seq<char>, b: Seq<char>, c: Seq<char>)
    requires str_cmp(a, b) != Ordering::Greater, str_cmp(b, c) != Ordering::Greater
    ensures str_cmp(a, c) != Ordering::Greater,
            (str_cmp(a, b) == Ordering::Less || str_cmp(b, c) == Ordering::Less) ==> str_cmp(a, c) == Ordering::Less
    decreases a.len()
{
    if a.len() > 0 && b.len() > 0 && c.len() > 0 && a[0] == b[0] && b[0] == c[0] {
        lemma_str_trans(a.drop_first(), b.drop_first(), c.drop_first());
    }
}
pub proof fn lemma_ident_flip(a: Identifier, b: Identifier) ensures ident_cmp(a, b) == flip(ident_cmp(b, a))
{ match (a, b) { (Identifier::AlphaNumeric(x), Identifier::AlphaNumeric(y)) => lemma_str_flip(x@, y@), _ => {} } }
pub proof fn lemma_ident_refl(a: Identifier) ensures ident_cmp(a, a) == Ordering::Equal
{ match a { Identifier::AlphaNumeric(x) => lemma_str_refl(x@), _ => {} } }
pub proof fn lemma_ident_trans(a: Identifier, b: Identifier, c: Identifier)
    requires ident_cmp(a, b) != Ordering::Greater, ident_cmp(b, c) != Ordering::Greater
    ensures ident_cmp(a, c) != Ordering::Greater,
            (ident_cmp(a, b) == Ordering::Less || ident_cmp(b, c) == Ordering::Less) ==> ident_cmp(a, c) == Ordering::Less
{
    match (a, b, c) {
        (Identifier::AlphaNumeric(x), Identifier::AlphaNumeric(y), Identifier::AlphaNumeric(z)) => lemma_str_trans(x@, y@, z@),
        _ => {}
    }
}
pub proof fn lemma_pre_refl(a: Seq<Identifier>) ensures pre_cmp(a, a) == Ordering::Equal decreases a.len()
{ if a.len() > 0 { lemma_ident_refl(a[0]); lemma_pre_refl(a.drop_first()); } }
pub proof fn lemma_pre_flip(a: Seq<Identifier>, b: Seq<Identifier>) ensures pre_cmp(a, b) == flip(pre_cmp(b, a)) decreases a.len()
{ if a.len() > 0 && b.len() > 0 { lemma_ident_flip(a[0], b[0]); lemma_pre_flip(a.drop_first(), b.drop_first()); } }
pub proof fn lemma_pre_trans(a: Seq<Identifier>, b: Seq<Identifier>, c: Seq<Identifier>)
    requires pre_cmp(a, b) != Ordering::Greater, pre_cmp(b, c) != Ordering::Greater
    ensures pre_cmp(a, c) != Ordering::Greater,
            (pre_cmp(a, b) == Ordering::Less || pre_cmp(b, c) == Ordering::Less) ==> pre_cmp(a, c) == Ordering::Less
    decreases a.len()
{
    if a.len() > 0 && b.len() > 0 && c.len() > 0 {
        lemma_ident_trans(a[0], b[0], c[0]);
        lemma_ident_flip(a[0], b[0]); lemma_ident_flip(b[0], c[0]); lemma_ident_flip(a[0], c[0]);
        if ident_cmp(a[0], b[0]) == Ordering::Equal && ident_cmp(b[0], c[0]) == Ordering::Equal {
            lemma_pre_trans(a.drop_first(), b.drop_first(), c.drop_first());
        } else {
            if ident_cmp(a[0], b[0]) == Ordering::Equal { lemma_ident_trans(b[0], a[0], c[0]); }
            if ident_cmp(b[0], c[0]) == Ordering::Equal { lemma_ident_trans(a[0], c[0], b[0]); }
        }
    }
}

pub broadcast proof fn lemma_k_refl(a: VKey) ensures #[trigger] kcmp(a, a) == Ordering::Equal
{ lemma_pre_refl(a.pre); }
pub broadcast proof fn lemma_k_flip(a: VKey, b: VKey) ensures #[trigger] kcmp(a, b) == flip(kcmp(b, a))
{ lemma_pre_flip(a.pre, b.pre); }
pub broadcast proof fn lemma_k_trans(a: VKey, b: VKey, c: VKey)
    requires #[trigger] kcmp(a, b) != Ordering::Greater, #[trigger] kcmp(b, c) != Ordering::Greater
    ensures kcmp(a, c) != Ordering::Greater,
            (kcmp(a, b) == Ordering::Less || kcmp(b, c) == Ordering::Less) ==> kcmp(a, c) == Ordering::Less
{
    if a.pre.len() > 0 && b.pre.len() > 0 && c.pre.len() > 0 {
        if a.major == b.major && b.major == c.major && a.minor == b.minor && b.minor == c.minor && a.patch == b.patch && b.patch == c.patch {
            lemma_pre_trans(a.pre, b.pre, c.pre);
        }
    }
}
pub broadcast group group_k_order { lemma_k_refl, lemma_k_flip, lemma_k_trans }
// ===================== spec: bounds as cuts in the version order =====================
pub enum Cut { NegInf, At(VKey, bool), PosInf }   // At(v, after): false = just before v, true = just after v

pub open spec fn cut_of(b: Bound) -> Cut {
    match b {
        Bound::Lower(Predicate::Unbounded) => Cut::NegInf,
        Bound::Upper(Predicate::Unbounded) => Cut::PosInf,
        Bound::Lower(Predicate::Including(v)) => Cut::At(key(v), false),
        Bound::Lower(Predicate::Excluding(v)) => Cut::At(key(v), true),
        Bound::Upper(Predicate::Including(v)) => Cut::At(key(v), true),
        Bound::Upper(Predicate::Excluding(v)) => Cut::At(key(v), false),
    }
}
#[verifier::opaque]
pub open spec fn cut_cmp(a: Cut, b: Cut) -> Ordering {
    match (a, b) {
        (Cut::NegInf, Cut::NegInf) => Ordering::Equal,
        (Cut::PosInf, Cut::PosInf) => Ordering::Equal,
        (Cut::NegInf, _) => Ordering::Less,
        (_, Cut::PosInf) => Ordering::Less,
        (Cut::PosInf, _) => Ordering::Greater,
        (_, Cut::NegInf) => Ordering::Greater,
        (Cut::At(v, s), Cut::At(w, t)) =>
            if kcmp(v, w) != Ordering::Equal { kcmp(v, w) }
            else if s == t { Ordering::Equal } else if !s { Ordering::Less } else { Ordering::Greater },
    }
}
pub open spec fn is_lower(b: Bound) -> bool { b is Lower }
pub open spec fn is_upper(b: Bound) -> bool { b is Upper }

/// canonical total order on bounds: by cut; at equal cuts an Upper sorts before a Lower
pub open spec fn bound_cmp(a: Bound, b: Bound) -> Ordering {
    let c = cut_cmp(cut_of(a), cut_of(b));
    if c != Ordering::Equal { c }
    else if is_lower(a) == is_lower(b) { Ordering::Equal }
    else if is_upper(a) { Ordering::Less } else { Ordering::Greater }
}
/// v lies above the cut / below the cut
pub open spec fn above(c: Cut, v: VKey) -> bool {
    match c { Cut::NegInf => true, Cut::PosInf => false, Cut::At(w, after) => if after { klt(w, v) } else { kle(w, v) } }
}
pub open spec fn below(c: Cut, v: VKey) -> bool {
    match c { Cut::PosInf => true, Cut::NegInf => false, Cut::At(w, after) => if after { kle(v, w) } else { klt(v, w) } }
}
pub open spec fn bs_wf(bs: BoundSet) -> bool {
    is_lower(*bs.lower) && is_upper(*bs.upper) && cut_cmp(cut_of(*bs.lower), cut_of(*bs.upper)) == Ordering::Less
}
pub open spec fn within(bs: BoundSet, v: VKey) -> bool {
    above(cut_of(*bs.lower), v) && below(cut_of(*bs.upper), v)
}
pub open spec fn same_tuple(a: VKey, b: VKey) -> bool { a.major == b.major && a.minor == b.minor && a.patch == b.patch }
pub open spec fn bound_version(b: Bound) -> Option<Version> {
    match b {
        Bound::Lower(Predicate::Including(v)) | Bound::Lower(Predicate::Excluding(v))
        | Bound::Upper(Predicate::Including(v)) | Bound::Upper(Predicate::Excluding(v)) => Some(v),
        _ => None,
    }
}
pub open spec fn optin(b: Bound, v: VKey) -> bool {
    bound_version(b) matches Some(w) && w.pre_release@.len() > 0 && same_tuple(key(w), v)
}
/// npm: a prerelease only satisfies a comparator set if some comparator carries a prerelease on the same tuple
pub open spec fn gate(bs: BoundSet, v: VKey) -> bool {
    v.pre.len() == 0 || optin(*bs.lower, v) || optin(*bs.upper, v)
}
pub open spec fn sat(bs: BoundSet, v: VKey) -> bool { within(bs, v) && gate(bs, v) }


// ===================== spec: npm comparator sets (node-semver README / range.js, includePrerelease = false) =====================
pub enum Op { Lt, Le, Gt, Ge, Eq }
pub struct KCmp { pub op: Op, pub k: VKey }
pub open spec fn kcmp_ok(c: KCmp, v: VKey) -> bool {
    match c.op { Op::Lt => klt(v, c.k), Op::Le => kle(v, c.k), Op::Gt => klt(c.k, v), Op::Ge => kle(c.k, v), Op::Eq => keq(v, c.k) }
}
pub open spec fn set_ok(cs: Seq<KCmp>, v: VKey) -> bool { forall|i: int| 0 <= i < cs.len() ==> kcmp_ok(#[trigger] cs[i], v) }
pub open spec fn set_gate(cs: Seq<KCmp>, v: VKey) -> bool {
    v.pre.len() == 0 || exists|i: int| 0 <= i < cs.len() && (#[trigger] cs[i]).k.pre.len() > 0 && same_tuple(cs[i].k, v)
}
pub open spec fn npm_sat(cs: Seq<KCmp>, v: VKey) -> bool { set_ok(cs, v) && set_gate(cs, v) }
pub open spec fn wfk(v: VKey) -> bool { 0 <= v.major <= MAX_SAFE_INTEGER && 0 <= v.minor <= MAX_SAFE_INTEGER && 0 <= v.patch <= MAX_SAFE_INTEGER }
/// the interval represents the comparator set: same bounds membership, and same prerelease opt-in inside the bounds
pub open spec fn repr(bs: BoundSet, cs: Seq<KCmp>) -> bool {
    forall|v: VKey| #![trigger within(bs, v)] wfk(v) ==> (within(bs, v) <==> set_ok(cs, v)) && (within(bs, v) ==> (gate(bs, v) <==> set_gate(cs, v)))
}
pub open spec fn s1(a: KCmp) -> Seq<KCmp> { Seq::<KCmp>::empty().push(a) }
pub open spec fn s2(a: KCmp, b: KCmp) -> Seq<KCmp> { Seq::<KCmp>::empty().push(a).push(b) }
pub broadcast proof fn lemma_set0(v: VKey)
    ensures #[trigger] set_ok(Seq::<KCmp>::empty(), v), #[trigger] set_gate(Seq::<KCmp>::empty(), v) == (v.pre.len() == 0)
{}
pub broadcast proof fn lemma_set1(a: KCmp, v: VKey)
    ensures #[trigger] set_ok(s1(a), v) == kcmp_ok(a, v),
            #[trigger] set_gate(s1(a), v) == (v.pre.len() == 0 || (a.k.pre.len() > 0 && same_tuple(a.k, v)))
{
    let s = s1(a);
    assert(s[0] == a);
    if a.k.pre.len() > 0 && same_tuple(a.k, v) { assert(s[0].k.pre.len() > 0 && same_tuple(s[0].k, v)); }
}
pub broadcast proof fn lemma_set2(a: KCmp, b: KCmp, v: VKey)
    ensures #[trigger] set_ok(s2(a, b), v) == (kcmp_ok(a, v) && kcmp_ok(b, v)),
            #[trigger] set_gate(s2(a, b), v) == (v.pre.len() == 0 || (a.k.pre.len() > 0 && same_tuple(a.k, v)) || (b.k.pre.len() > 0 && same_tuple(b.k, v)))
{
    let s = s2(a, b);
    assert(s[0] == a && s[1] == b);
    if a.k.pre.len() > 0 && same_tuple(a.k, v) { assert(s[0].k.pre.len() > 0 && same_tuple(s[0].k, v)); }
    if b.k.pre.len() > 0 && same_tuple(b.k, v) { assert(s[1].k.pre.len() > 0 && same_tuple(s[1].k, v)); }
}
pub broadcast group group_sets { lemma_set0, lemma_set1, lemma_set2 }
pub open spec fn k3(a: int, b: int, c: int) -> VKey { VKey { major: a, minor: b, patch: c, pre: Seq::empty() } }
pub open spec fn k4(a: int, b: int, c: int, p: Seq<Identifier>) -> VKey { VKey { major: a, minor: b, patch: c, pre: p } }
pub open spec fn pre0() -> Seq<Identifier> { seq![Identifier::Numeric(0)] }
pub open spec fn ge(k: VKey) -> KCmp { KCmp { op: Op::Ge, k } }
pub open spec fn lt(k: VKey) -> KCmp { KCmp { op: Op::Lt, k } }
pub open spec fn eqc(k: VKey) -> KCmp { KCmp { op: Op::Eq, k } }

pub open spec fn gt(k: VKey) -> KCmp { KCmp { op: Op::Gt, k } }
pub open spec fn le(k: VKey) -> KCmp { KCmp { op: Op::Le, k } }
/// node-semver isX(): a component that is missing or a wildcard.  A wildcard minor makes the patch a wildcard too.
pub open spec fn xM(p: Partial) -> bool { p.major is None }
pub open spec fn xm(p: Partial) -> bool { xM(p) || p.minor is None }
pub open spec fn xp(p: Partial) -> bool { xm(p) || p.patch is None }
pub open spec fn pM(p: Partial) -> int { p.major->0 as int }
pub open spec fn pm(p: Partial) -> int { p.minor->0 as int }
pub open spec fn pp(p: Partial) -> int { p.patch->0 as int }
pub open spec fn any_set() -> Seq<KCmp> { s1(ge(k3(0, 0, 0))) }           // README: `*` := `>=0.0.0`
pub open spec fn null_set() -> Seq<KCmp> { s1(lt(k4(0, 0, 0, pre0()))) }  // range.js: `<0.0.0-0`

/// README "Caret Ranges", range.js replaceCaret
pub open spec fn npm_caret(p: Partial) -> Seq<KCmp> {
    let pre = p.pre_release@;
    if xM(p) { any_set() }
    else if xm(p) { s2(ge(k3(pM(p), 0, 0)), lt(k4(pM(p) + 1, 0, 0, pre0()))) }
    else if xp(p) { if pM(p) == 0 { s2(ge(k3(0, pm(p), 0)), lt(k4(0, pm(p) + 1, 0, pre0()))) } else { s2(ge(k3(pM(p), pm(p), 0)), lt(k4(pM(p) + 1, 0, 0, pre0()))) } }
    else if pM(p) == 0 && pm(p) == 0 { s2(ge(k4(0, 0, pp(p), pre)), lt(k4(0, 0, pp(p) + 1, pre0()))) }
    else if pM(p) == 0 { s2(ge(k4(0, pm(p), pp(p), pre)), lt(k4(0, pm(p) + 1, 0, pre0()))) }
    else { s2(ge(k4(pM(p), pm(p), pp(p), pre)), lt(k4(pM(p) + 1, 0, 0, pre0()))) }
}
/// README "Tilde Ranges", range.js replaceTilde (`~>` is the same as `~`)
pub open spec fn npm_tilde(p: Partial) -> Seq<KCmp> {
    let pre = p.pre_release@;
    if xM(p) { any_set() }
    else if xm(p) { s2(ge(k3(pM(p), 0, 0)), lt(k4(pM(p) + 1, 0, 0, pre0()))) }
    else if xp(p) { s2(ge(k3(pM(p), pm(p), 0)), lt(k4(pM(p), pm(p) + 1, 0, pre0()))) }
    else { s2(ge(k4(pM(p), pm(p), pp(p), pre)), lt(k4(pM(p), pm(p) + 1, 0, pre0()))) }
}
/// README "X-Ranges", range.js replaceXRange without operator
pub open spec fn npm_plain(p: Partial) -> Seq<KCmp> {
    let pre = p.pre_release@;
    if xM(p) { any_set() }
    else if xm(p) { s2(ge(k3(pM(p), 0, 0)), lt(k4(pM(p) + 1, 0, 0, pre0()))) }
    else if xp(p) { s2(ge(k3(pM(p), pm(p), 0)), lt(k4(pM(p), pm(p) + 1, 0, pre0()))) }
    else { s1(eqc(k4(pM(p), pm(p), pp(p), pre))) }
}
/// range.js replaceXRange with an operator
pub open spec fn npm_primitive(op: Operation, p: Partial) -> Seq<KCmp> {
    let pre = p.pre_release@;
    if xM(p) { match op { Operation::GreaterThan | Operation::LessThan => null_set(), _ => any_set() } }
    else if xm(p) { match op {
        Operation::GreaterThan => s1(ge(k3(pM(p) + 1, 0, 0))),
        Operation::GreaterThanEquals => s1(ge(k3(pM(p), 0, 0))),
        Operation::LessThan => s1(lt(k4(pM(p), 0, 0, pre0()))),
        Operation::LessThanEquals => s1(lt(k4(pM(p) + 1, 0, 0, pre0()))),
        Operation::Exact => s2(ge(k3(pM(p), 0, 0)), lt(k4(pM(p) + 1, 0, 0, pre0()))),
    } }
    else if xp(p) { match op {
        Operation::GreaterThan => s1(ge(k3(pM(p), pm(p) + 1, 0))),
        Operation::GreaterThanEquals => s1(ge(k3(pM(p), pm(p), 0))),
        Operation::LessThan => s1(lt(k4(pM(p), pm(p), 0, pre0()))),
        Operation::LessThanEquals => s1(lt(k4(pM(p), pm(p) + 1, 0, pre0()))),
        Operation::Exact => s2(ge(k3(pM(p), pm(p), 0)), lt(k4(pM(p), pm(p) + 1, 0, pre0()))),
    } }
    else { let k = k4(pM(p), pm(p), pp(p), pre); match op {
        Operation::GreaterThan => s1(gt(k)), Operation::GreaterThanEquals => s1(ge(k)), Operation::LessThan => s1(lt(k)), Operation::LessThanEquals => s1(le(k)), Operation::Exact => s1(eqc(k)),
    } }
}
/// README "Hyphen Ranges", range.js hyphenReplace: lower part / upper part (None = no comparator on that side)
pub open spec fn npm_hyphen_from(p: Partial) -> Option<KCmp> {
    if xM(p) { None } else if xm(p) { Some(ge(k3(pM(p), 0, 0))) } else if xp(p) { Some(ge(k3(pM(p), pm(p), 0))) } else { Some(ge(k4(pM(p), pm(p), pp(p), p.pre_release@))) }
}
pub open spec fn npm_hyphen_to(p: Partial) -> Option<KCmp> {
    if xM(p) { None } else if xm(p) { Some(lt(k4(pM(p) + 1, 0, 0, pre0()))) } else if xp(p) { Some(lt(k4(pM(p), pm(p) + 1, 0, pre0()))) } else { Some(le(k4(pM(p), pm(p), pp(p), p.pre_release@))) }
}
pub open spec fn npm_hyphen(f: Partial, t: Partial) -> Seq<KCmp> {
    match (npm_hyphen_from(f), npm_hyphen_to(t)) {
        (Some(a), Some(b)) => s2(a, b), (Some(a), None) => s1(a), (None, Some(b)) => s1(b), (None, None) => Seq::empty(),
    }
}
pub open spec fn wf_partial(p: Partial) -> bool {
    (p.major matches Some(x) ==> x <= MAX_SAFE_INTEGER) && (p.minor matches Some(x) ==> x <= MAX_SAFE_INTEGER) && (p.patch matches Some(x) ==> x <= MAX_SAFE_INTEGER)
}
pub open spec fn lower_cut(cs: Seq<KCmp>) -> Cut { if cs.len() == 0 { Cut::NegInf } else { match cs[0].op { Op::Ge => Cut::At(cs[0].k, false), Op::Gt => Cut::At(cs[0].k, true), Op::Eq => Cut::At(cs[0].k, false), _ => Cut::NegInf } } }
pub open spec fn upper_cut(cs: Seq<KCmp>) -> Cut { if cs.len() == 0 { Cut::PosInf } else { let c = cs[cs.len() - 1]; match c.op { Op::Le => Cut::At(c.k, true), Op::Lt => Cut::At(c.k, false), Op::Eq => Cut::At(c.k, true), _ => Cut::PosInf } } }
/// the interval the code built has exactly the two cuts of npm's comparator list
pub open spec fn shape_ok(r: Option<BoundSet>, cs: Seq<KCmp>) -> bool {
    match r {
        Some(bs) => bs_wf(bs) && cut_of(*bs.lower) == lower_cut(cs) && cut_of(*bs.upper) == upper_cut(cs),
        // an interval nothing can enter is dropped
        None => cut_cmp(lower_cut(cs), upper_cut(cs)) != Ordering::Less,
    }
}
