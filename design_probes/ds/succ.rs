#![feature(allocator_api)]
#![allow(unused_imports, dead_code, unused_variables, unused_mut)]
use vstd::prelude::*;
use vstd::std_specs::cmp::*;
use std::cmp::{self, Ord, Ordering, PartialOrd};

verus! {

// ===================== trusted std axioms =====================
pub assume_specification<T: ?Sized, A: core::alloc::Allocator>[ <Box<T, A> as AsRef<T>>::as_ref ](b: &Box<T, A>) -> (r: &T)
    ensures r == &**b;

pub assume_specification<T: Ord>[ std::cmp::max ](a: T, b: T) -> (r: T)
    ensures T::obeys_cmp_spec() ==> r == (if a.cmp_spec(&b) == Ordering::Greater { a } else { b });
pub assume_specification<T: Ord>[ std::cmp::min ](a: T, b: T) -> (r: T)
    ensures T::obeys_cmp_spec() ==> r == (if a.cmp_spec(&b) == Ordering::Greater { b } else { a });

pub assume_specification<T: ?Sized + PartialOrd, A: core::alloc::Allocator>[ <Box<T, A> as PartialOrd>::le ](a: &Box<T, A>, b: &Box<T, A>) -> (r: bool)
    ensures T::obeys_partial_cmp_spec() ==> r == (PartialOrdSpec::partial_cmp_spec(&**a, &**b) matches Some(o) && o != Ordering::Greater);
pub assume_specification<T: ?Sized + PartialOrd, A: core::alloc::Allocator>[ <Box<T, A> as PartialOrd>::lt ](a: &Box<T, A>, b: &Box<T, A>) -> (r: bool)
    ensures T::obeys_partial_cmp_spec() ==> r == (PartialOrdSpec::partial_cmp_spec(&**a, &**b) == Some(Ordering::Less));
pub assume_specification<T: ?Sized + PartialEq, A: core::alloc::Allocator>[ <Box<T, A> as PartialEq>::eq ](a: &Box<T, A>, b: &Box<T, A>) -> (r: bool)
    ensures T::obeys_eq_spec() ==> r == PartialEqSpec::eq_spec(&**a, &**b);

// Vec<T>: Ord is lexicographic (std docs)
pub open spec fn vec_lex<T: Ord>(a: Seq<T>, b: Seq<T>) -> Ordering
    decreases a.len()
{
    if a.len() == 0 && b.len() == 0 { Ordering::Equal }
    else if a.len() == 0 { Ordering::Less }
    else if b.len() == 0 { Ordering::Greater }
    else if a[0].cmp_spec(&b[0]) != Ordering::Equal { a[0].cmp_spec(&b[0]) }
    else { vec_lex::<T>(a.drop_first(), b.drop_first()) }
}
pub assume_specification<T: Ord, A: core::alloc::Allocator>[ <Vec<T, A> as Ord>::cmp ](a: &Vec<T, A>, b: &Vec<T, A>) -> (r: Ordering)
    ensures T::obeys_cmp_spec() ==> r == vec_lex::<T>(a@, b@);

pub enum Identifier { Numeric(u64), AlphaNumeric(String) }
pub struct Version { pub major: u64, pub minor: u64, pub patch: u64, pub build: Vec<Identifier>, pub pre_release: Vec<Identifier> }
// ===================== spec: SemVer 2.0.0 section 11 precedence =====================
pub open spec fn flip(o: Ordering) -> Ordering {
    match o { Ordering::Less => Ordering::Greater, Ordering::Equal => Ordering::Equal, Ordering::Greater => Ordering::Less }
}
pub open spec fn int_cmp(a: int, b: int) -> Ordering {
    if a < b { Ordering::Less } else if a == b { Ordering::Equal } else { Ordering::Greater }
}
// Rust: String Ord is lexicographic by bytes == by code points (UTF-8 is order preserving); ASCII order on [0-9A-Za-z-]
pub open spec fn str_cmp(a: Seq<char>, b: Seq<char>) -> Ordering
    decreases a.len()
{
    if a.len() == 0 && b.len() == 0 { Ordering::Equal }
    else if a.len() == 0 { Ordering::Less }
    else if b.len() == 0 { Ordering::Greater }
    else if a[0] != b[0] { int_cmp(a[0] as int, b[0] as int) }
    else { str_cmp(a.drop_first(), b.drop_first()) }
}
pub open spec fn ident_cmp(a: Identifier, b: Identifier) -> Ordering {
    match (a, b) {
        (Identifier::Numeric(x), Identifier::Numeric(y)) => int_cmp(x as int, y as int),
        (Identifier::Numeric(_), Identifier::AlphaNumeric(_)) => Ordering::Less,
        (Identifier::AlphaNumeric(_), Identifier::Numeric(_)) => Ordering::Greater,
        (Identifier::AlphaNumeric(x), Identifier::AlphaNumeric(y)) => str_cmp(x@, y@),
    }
}
pub open spec fn pre_cmp(a: Seq<Identifier>, b: Seq<Identifier>) -> Ordering
    decreases a.len()
{
    if a.len() == 0 && b.len() == 0 { Ordering::Equal }
    else if a.len() == 0 { Ordering::Less }
    else if b.len() == 0 { Ordering::Greater }
    else if ident_cmp(a[0], b[0]) != Ordering::Equal { ident_cmp(a[0], b[0]) }
    else { pre_cmp(a.drop_first(), b.drop_first()) }
}
pub struct VKey { pub major: int, pub minor: int, pub patch: int, pub pre: Seq<Identifier> }
pub open spec fn key(v: Version) -> VKey { VKey { major: v.major as int, minor: v.minor as int, patch: v.patch as int, pre: v.pre_release@ } }
pub open spec fn kcmp(a: VKey, b: VKey) -> Ordering {
    if a.major != b.major { int_cmp(a.major, b.major) }
    else if a.minor != b.minor { int_cmp(a.minor, b.minor) }
    else if a.patch != b.patch { int_cmp(a.patch, b.patch) }
    else if a.pre.len() == 0 && b.pre.len() == 0 { Ordering::Equal }
    else if a.pre.len() == 0 { Ordering::Greater }
    else if b.pre.len() == 0 { Ordering::Less }
    else { pre_cmp(a.pre, b.pre) }
}
pub open spec fn ver_cmp(a: Version, b: Version) -> Ordering { kcmp(key(a), key(b)) }
pub open spec fn klt(a: VKey, b: VKey) -> bool { kcmp(a, b) == Ordering::Less }
pub open spec fn kle(a: VKey, b: VKey) -> bool { kcmp(a, b) != Ordering::Greater }
pub open spec fn keq(a: VKey, b: VKey) -> bool { kcmp(a, b) == Ordering::Equal }
// ---- lemmas: total order ----
pub proof fn lemma_str_refl(a: Seq<char>) ensures str_cmp(a, a) == Ordering::Equal decreases a.len()
{ if a.len() > 0 { lemma_str_refl(a.drop_first()); } }
pub proof fn lemma_str_flip(a: Seq<char>, b: Seq<char>) ensures str_cmp(a, b) == flip(str_cmp(b, a)) decreases a.len()
{ if a.len() > 0 && b.len() > 0 { lemma_str_flip(a.drop_first(), b.drop_first()); } }
pub proof fn lemma_str_eq(a: Seq<char>, b: Seq<char>) ensures (str_cmp(a, b) == Ordering::Equal) <==> a =~= b decreases a.len()
{
    if a.len() > 0 && b.len() > 0 {
        lemma_str_eq(a.drop_first(), b.drop_first());
        assert(a =~= seq![a[0]] + a.drop_first());
        assert(b =~= seq![b[0]] + b.drop_first());
    }
}
pub proof fn lemma_str_trans(a: Seq<char>, b: Seq<char>, c: Seq<char>)
    requires str_cmp(a, b) != Ordering::Greater, str_cmp(b, c) != Ordering::Greater
    ensures str_cmp(a, c) != Ordering::Greater,
            (str_cmp(a, b) == Ordering::Less || str_cmp(b, c) == Ordering::Less) ==> str_cmp(a, c) == Ordering::Less
    decreases a.len()
{
    if a.len() > 0 && b.len() > 0 && c.len() > 0 && a[0] == b[0] && b[0] == c[0] {
        lemma_str_trans(a.drop_first(), b.drop_first(), c.drop_first());
    }
}
pub proof fn lemma_ident_flip(a: Identifier, b: Identifier) ensures ident_cmp(a, b) == flip(ident_cmp(b, a))
{ match (a, b) { (Identifier::AlphaNumeric(x), Identifier::AlphaNumeric(y)) => lemma_str_flip(x@, y@), _ => {} } }
pub proof fn lemma_ident_refl(a: Identifier) ensures ident_cmp(a, a) == Ordering::Equal
{ match a { Identifier::AlphaNumeric(x) => lemma_str_refl(x@), _ => {} } }
pub proof fn lemma_ident_trans(a: Identifier, b: Identifier, c: Identifier)
    requires ident_cmp(a, b) != Ordering::Greater, ident_cmp(b, c) != Ordering::Greater
    ensures ident_cmp(a, c) != Ordering::Greater,
            (ident_cmp(a, b) == Ordering::Less || ident_cmp(b, c) == Ordering::Less) ==> ident_cmp(a, c) == Ordering::Less
{
    match (a, b, c) {
        (Identifier::AlphaNumeric(x), Identifier::AlphaNumeric(y), Identifier::AlphaNumeric(z)) => lemma_str_trans(x@, y@, z@),
        _ => {}
    }
}
pub proof fn lemma_pre_refl(a: Seq<Identifier>) ensures pre_cmp(a, a) == Ordering::Equal decreases a.len()
{ if a.len() > 0 { lemma_ident_refl(a[0]); lemma_pre_refl(a.drop_first()); } }
pub proof fn lemma_pre_flip(a: Seq<Identifier>, b: Seq<Identifier>) ensures pre_cmp(a, b) == flip(pre_cmp(b, a)) decreases a.len()
{ if a.len() > 0 && b.len() > 0 { lemma_ident_flip(a[0], b[0]); lemma_pre_flip(a.drop_first(), b.drop_first()); } }
pub proof fn lemma_pre_trans(a: Seq<Identifier>, b: Seq<Identifier>, c: Seq<Identifier>)
    requires pre_cmp(a, b) != Ordering::Greater, pre_cmp(b, c) != Ordering::Greater
    ensures pre_cmp(a, c) != Ordering::Greater,
            (pre_cmp(a, b) == Ordering::Less || pre_cmp(b, c) == Ordering::Less) ==> pre_cmp(a, c) == Ordering::Less
    decreases a.len()
{
    if a.len() > 0 && b.len() > 0 && c.len() > 0 {
        lemma_ident_trans(a[0], b[0], c[0]);
        lemma_ident_flip(a[0], b[0]); lemma_ident_flip(b[0], c[0]); lemma_ident_flip(a[0], c[0]);
        if ident_cmp(a[0], b[0]) == Ordering::Equal && ident_cmp(b[0], c[0]) == Ordering::Equal {
            lemma_pre_trans(a.drop_first(), b.drop_first(), c.drop_first());
        } else {
            if ident_cmp(a[0], b[0]) == Ordering::Equal { lemma_ident_trans(b[0], a[0], c[0]); }
            if ident_cmp(b[0], c[0]) == Ordering::Equal { lemma_ident_trans(a[0], c[0], b[0]); }
        }
    }
}

pub broadcast proof fn lemma_k_refl(a: VKey) ensures #[trigger] kcmp(a, a) == Ordering::Equal
{ lemma_pre_refl(a.pre); }
pub broadcast proof fn lemma_k_flip(a: VKey, b: VKey) ensures #[trigger] kcmp(a, b) == flip(kcmp(b, a))
{ lemma_pre_flip(a.pre, b.pre); }
pub broadcast proof fn lemma_k_trans(a: VKey, b: VKey, c: VKey)
    requires #[trigger] kcmp(a, b) != Ordering::Greater, #[trigger] kcmp(b, c) != Ordering::Greater
    ensures kcmp(a, c) != Ordering::Greater,
            (kcmp(a, b) == Ordering::Less || kcmp(b, c) == Ordering::Less) ==> kcmp(a, c) == Ordering::Less
{
    if a.pre.len() > 0 && b.pre.len() > 0 && c.pre.len() > 0 {
        if a.major == b.major && b.major == c.major && a.minor == b.minor && b.minor == c.minor && a.patch == b.patch && b.patch == c.patch {
            lemma_pre_trans(a.pre, b.pre, c.pre);
        }
    }
}
pub broadcast group group_k_order { lemma_k_refl, lemma_k_flip, lemma_k_trans }
// ===================== spec: bounds as cuts in the version order =====================

pub open spec fn pre0() -> Seq<Identifier> { seq![Identifier::Numeric(0)] }
pub proof fn lemma_least_pre0(s: Seq<Identifier>)
    requires s.len() > 0
    ensures pre_cmp(pre0(), s) != Ordering::Greater
{
    reveal_with_fuel(pre_cmp, 3);
    assert(pre0().drop_first().len() == 0);
}
/// appending `.0` gives the immediate successor of a prerelease tag
pub proof fn lemma_push0(p: Seq<Identifier>, q: Seq<Identifier>)
    requires pre_cmp(p, q) == Ordering::Less
    ensures pre_cmp(p.push(Identifier::Numeric(0)), q) != Ordering::Greater
    decreases p.len()
{
    let p0 = p.push(Identifier::Numeric(0));
    if p.len() == 0 {
        assert(p0 =~= pre0());
        lemma_least_pre0(q);
    } else {
        assert(p0[0] == p[0]);
        assert(p0.drop_first() =~= p.drop_first().push(Identifier::Numeric(0)));
        if q.len() > 0 && ident_cmp(p[0], q[0]) == Ordering::Equal {
            lemma_push0(p.drop_first(), q.drop_first());
        }
    }
}
pub proof fn lemma_push0_greater(p: Seq<Identifier>)
    ensures pre_cmp(p, p.push(Identifier::Numeric(0))) == Ordering::Less
    decreases p.len()
{
    let p0 = p.push(Identifier::Numeric(0));
    if p.len() > 0 {
        assert(p0[0] == p[0]);
        assert(p0.drop_first() =~= p.drop_first().push(Identifier::Numeric(0)));
        lemma_ident_refl(p[0]);
        lemma_push0_greater(p.drop_first());
    }
}
pub open spec fn wfk(v: VKey) -> bool { 0 <= v.major && 0 <= v.minor && 0 <= v.patch }
/// successor of a prerelease key
pub proof fn lemma_succ_pre(a: VKey, w: VKey)
    requires a.pre.len() > 0, kcmp(a, w) == Ordering::Less
    ensures kcmp(VKey { pre: a.pre.push(Identifier::Numeric(0)), ..a }, w) != Ordering::Greater,
            kcmp(a, VKey { pre: a.pre.push(Identifier::Numeric(0)), ..a }) == Ordering::Less
{
    lemma_push0_greater(a.pre);
    if a.major == w.major && a.minor == w.minor && a.patch == w.patch && w.pre.len() > 0 { lemma_push0(a.pre, w.pre); }
}
/// successor of a release key is the `-0` prerelease of the next patch
pub proof fn lemma_succ_release(a: VKey, w: VKey)
    requires a.pre.len() == 0, kcmp(a, w) == Ordering::Less
    ensures kcmp(VKey { major: a.major, minor: a.minor, patch: a.patch + 1, pre: pre0() }, w) != Ordering::Greater
{
    if w.major == a.major && w.minor == a.minor && w.patch == a.patch + 1 && w.pre.len() > 0 { lemma_least_pre0(w.pre); }
}
pub proof fn lemma_least_key(w: VKey)
    requires wfk(w)
    ensures kcmp(VKey { major: 0, minor: 0, patch: 0, pre: pre0() }, w) != Ordering::Greater
{
    if w.major == 0 && w.minor == 0 && w.patch == 0 && w.pre.len() > 0 { lemma_least_pre0(w.pre); }
}

} // verus!
fn main(){}
