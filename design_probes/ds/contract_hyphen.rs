    requires wf_partial(upper), lower matches Some(f) ==> wf_partial(f),
    ensures
        (lower is None) && xM(upper) ==> (r matches Some(bs) ==> bs_wf(bs)),  // none-xM
        (lower is None) && !xM(upper) && xm(upper) ==> (r matches Some(bs) ==> bs_wf(bs)),  // none-xm
        (lower is None) && !xm(upper) && xp(upper) ==> (r matches Some(bs) ==> bs_wf(bs)),  // none-xp
        (lower is None) && !xp(upper) ==> (r matches Some(bs) ==> bs_wf(bs)),  // none-full
        (lower matches Some(f) && xM(f)) && xM(upper) ==> shape_ok(r, npm_hyphen(lower->0, upper)),  // xM-xM
        (lower matches Some(f) && xM(f)) && !xM(upper) && xm(upper) ==> shape_ok(r, npm_hyphen(lower->0, upper)),  // xM-xm
        (lower matches Some(f) && xM(f)) && !xm(upper) && xp(upper) ==> shape_ok(r, npm_hyphen(lower->0, upper)),  // xM-xp
        (lower matches Some(f) && xM(f)) && !xp(upper) ==> shape_ok(r, npm_hyphen(lower->0, upper)),  // xM-full
        (lower matches Some(f) && !xM(f) && xm(f)) && xM(upper) ==> shape_ok(r, npm_hyphen(lower->0, upper)),  // xm-xM
        (lower matches Some(f) && !xM(f) && xm(f)) && !xM(upper) && xm(upper) ==> shape_ok(r, npm_hyphen(lower->0, upper)),  // xm-xm
        (lower matches Some(f) && !xM(f) && xm(f)) && !xm(upper) && xp(upper) ==> shape_ok(r, npm_hyphen(lower->0, upper)),  // xm-xp
        (lower matches Some(f) && !xM(f) && xm(f)) && !xp(upper) ==> shape_ok(r, npm_hyphen(lower->0, upper)),  // xm-full
        (lower matches Some(f) && !xm(f) && xp(f)) && xM(upper) ==> shape_ok(r, npm_hyphen(lower->0, upper)),  // xp-xM
        (lower matches Some(f) && !xm(f) && xp(f)) && !xM(upper) && xm(upper) ==> shape_ok(r, npm_hyphen(lower->0, upper)),  // xp-xm
        (lower matches Some(f) && !xm(f) && xp(f)) && !xm(upper) && xp(upper) ==> shape_ok(r, npm_hyphen(lower->0, upper)),  // xp-xp
        (lower matches Some(f) && !xm(f) && xp(f)) && !xp(upper) ==> shape_ok(r, npm_hyphen(lower->0, upper)),  // xp-full
        (lower matches Some(f) && !xp(f)) && xM(upper) ==> shape_ok(r, npm_hyphen(lower->0, upper)),  // full-xM
        (lower matches Some(f) && !xp(f)) && !xM(upper) && xm(upper) ==> shape_ok(r, npm_hyphen(lower->0, upper)),  // full-xm
        (lower matches Some(f) && !xp(f)) && !xm(upper) && xp(upper) ==> shape_ok(r, npm_hyphen(lower->0, upper)),  // full-xp
        (lower matches Some(f) && !xp(f)) && !xp(upper) ==> shape_ok(r, npm_hyphen(lower->0, upper)),  // full-full
