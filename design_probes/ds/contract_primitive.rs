    requires wf_partial(parsed.1),
    ensures
        parsed.0 == Operation::Exact && xM(parsed.1) ==> shape_ok(r, npm_primitive(parsed.0, parsed.1)),  // Exact/xM
        parsed.0 == Operation::Exact && !xM(parsed.1) && xm(parsed.1) ==> shape_ok(r, npm_primitive(parsed.0, parsed.1)),  // Exact/xm
        parsed.0 == Operation::Exact && !xm(parsed.1) && xp(parsed.1) ==> shape_ok(r, npm_primitive(parsed.0, parsed.1)),  // Exact/xp
        parsed.0 == Operation::Exact && !xp(parsed.1) ==> shape_ok(r, npm_primitive(parsed.0, parsed.1)),  // Exact/full
        parsed.0 == Operation::GreaterThan && xM(parsed.1) ==> shape_ok(r, npm_primitive(parsed.0, parsed.1)),  // GreaterThan/xM
        parsed.0 == Operation::GreaterThan && !xM(parsed.1) && xm(parsed.1) ==> shape_ok(r, npm_primitive(parsed.0, parsed.1)),  // GreaterThan/xm
        parsed.0 == Operation::GreaterThan && !xm(parsed.1) && xp(parsed.1) ==> shape_ok(r, npm_primitive(parsed.0, parsed.1)),  // GreaterThan/xp
        parsed.0 == Operation::GreaterThan && !xp(parsed.1) ==> shape_ok(r, npm_primitive(parsed.0, parsed.1)),  // GreaterThan/full
        parsed.0 == Operation::GreaterThanEquals && xM(parsed.1) ==> shape_ok(r, npm_primitive(parsed.0, parsed.1)),  // GreaterThanEquals/xM
        parsed.0 == Operation::GreaterThanEquals && !xM(parsed.1) && xm(parsed.1) ==> shape_ok(r, npm_primitive(parsed.0, parsed.1)),  // GreaterThanEquals/xm
        parsed.0 == Operation::GreaterThanEquals && !xm(parsed.1) && xp(parsed.1) ==> shape_ok(r, npm_primitive(parsed.0, parsed.1)),  // GreaterThanEquals/xp
        parsed.0 == Operation::GreaterThanEquals && !xp(parsed.1) ==> shape_ok(r, npm_primitive(parsed.0, parsed.1)),  // GreaterThanEquals/full
        parsed.0 == Operation::LessThan && xM(parsed.1) ==> shape_ok(r, npm_primitive(parsed.0, parsed.1)),  // LessThan/xM
        parsed.0 == Operation::LessThan && !xM(parsed.1) && xm(parsed.1) ==> shape_ok(r, npm_primitive(parsed.0, parsed.1)),  // LessThan/xm
        parsed.0 == Operation::LessThan && !xm(parsed.1) && xp(parsed.1) ==> shape_ok(r, npm_primitive(parsed.0, parsed.1)),  // LessThan/xp
        parsed.0 == Operation::LessThan && !xp(parsed.1) ==> shape_ok(r, npm_primitive(parsed.0, parsed.1)),  // LessThan/full
        parsed.0 == Operation::LessThanEquals && xM(parsed.1) ==> shape_ok(r, npm_primitive(parsed.0, parsed.1)),  // LessThanEquals/xM
        parsed.0 == Operation::LessThanEquals && !xM(parsed.1) && xm(parsed.1) ==> shape_ok(r, npm_primitive(parsed.0, parsed.1)),  // LessThanEquals/xm
        parsed.0 == Operation::LessThanEquals && !xm(parsed.1) && xp(parsed.1) ==> shape_ok(r, npm_primitive(parsed.0, parsed.1)),  // LessThanEquals/xp
        parsed.0 == Operation::LessThanEquals && !xp(parsed.1) ==> shape_ok(r, npm_primitive(parsed.0, parsed.1)),  // LessThanEquals/full
