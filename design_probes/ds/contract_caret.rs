    requires wf_partial(parsed),
    ensures
        xM(parsed) ==> shape_ok(r, npm_caret(parsed)),
        !xM(parsed) && xm(parsed) && pM(parsed) == 0 ==> shape_ok(r, npm_caret(parsed)),
        !xM(parsed) && xm(parsed) && pM(parsed) != 0 ==> shape_ok(r, npm_caret(parsed)),
        !xm(parsed) && xp(parsed) ==> shape_ok(r, npm_caret(parsed)),
        !xp(parsed) ==> shape_ok(r, npm_caret(parsed)),
