    requires wf_partial(parsed),
    ensures
        (parsed.major is None) ==> shape_ok(r, npm_caret(parsed)),
        (parsed.major is Some && parsed.minor is None) ==> shape_ok(r, npm_caret(parsed)),
        (parsed.major is Some && parsed.minor is Some && parsed.patch is None) ==> shape_ok(r, npm_caret(parsed)),
        (parsed.major is Some && parsed.minor is Some && parsed.patch is Some) ==> shape_ok(r, npm_caret(parsed)),
