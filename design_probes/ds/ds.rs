#![feature(allocator_api)]
#![allow(unused_imports, dead_code, unused_variables, unused_mut)]
use vstd::prelude::*;
use vstd::std_specs::cmp::*;
use std::cmp::{self, Ord, Ordering, PartialOrd};

verus! {

// ===================== trusted std axioms =====================
pub assume_specification<T: ?Sized, A: core::alloc::Allocator>[ <Box<T, A> as AsRef<T>>::as_ref ](b: &Box<T, A>) -> (r: &T)
    ensures r == &**b;

pub assume_specification<T: Ord>[ std::cmp::max ](a: T, b: T) -> (r: T)
    ensures T::obeys_cmp_spec() ==> r == (if a.cmp_spec(&b) == Ordering::Greater { a } else { b });
pub assume_specification<T: Ord>[ std::cmp::min ](a: T, b: T) -> (r: T)
    ensures T::obeys_cmp_spec() ==> r == (if a.cmp_spec(&b) == Ordering::Greater { b } else { a });

pub assume_specification<T: ?Sized + PartialOrd, A: core::alloc::Allocator>[ <Box<T, A> as PartialOrd>::le ](a: &Box<T, A>, b: &Box<T, A>) -> (r: bool)
    ensures T::obeys_partial_cmp_spec() ==> r == (PartialOrdSpec::partial_cmp_spec(&**a, &**b) matches Some(o) && o != Ordering::Greater);
pub assume_specification<T: ?Sized + PartialOrd, A: core::alloc::Allocator>[ <Box<T, A> as PartialOrd>::lt ](a: &Box<T, A>, b: &Box<T, A>) -> (r: bool)
    ensures T::obeys_partial_cmp_spec() ==> r == (PartialOrdSpec::partial_cmp_spec(&**a, &**b) == Some(Ordering::Less));
pub assume_specification<T: ?Sized + PartialEq, A: core::alloc::Allocator>[ <Box<T, A> as PartialEq>::eq ](a: &Box<T, A>, b: &Box<T, A>) -> (r: bool)
    ensures T::obeys_eq_spec() ==> r == PartialEqSpec::eq_spec(&**a, &**b);

// Vec<T>: Ord is lexicographic (std docs)
pub open spec fn vec_lex<T: Ord>(a: Seq<T>, b: Seq<T>) -> Ordering
    decreases a.len()
{
    if a.len() == 0 && b.len() == 0 { Ordering::Equal }
    else if a.len() == 0 { Ordering::Less }
    else if b.len() == 0 { Ordering::Greater }
    else if a[0].cmp_spec(&b[0]) != Ordering::Equal { a[0].cmp_spec(&b[0]) }
    else { vec_lex::<T>(a.drop_first(), b.drop_first()) }
}
pub assume_specification<T: Ord, A: core::alloc::Allocator>[ <Vec<T, A> as Ord>::cmp ](a: &Vec<T, A>, b: &Vec<T, A>) -> (r: Ordering)
    ensures T::obeys_cmp_spec() ==> r == vec_lex::<T>(a@, b@);


use vstd::std_specs::convert::*;

#[derive(Debug, Copy, Clone, PartialEq, Eq)]
pub enum Operation {
    Exact,
    GreaterThan,
    GreaterThanEquals,
    LessThan,
    LessThanEquals,
}
#[derive(Debug)]
pub enum Identifier {
    /// An identifier that's solely numbers.
    Numeric(u64),
    /// An identifier with letters and numbers.
    AlphaNumeric(String),
}
impl Clone for Identifier {
    #[verifier::external_body]
    fn clone(&self) -> (r: Self) ensures r == *self { unimplemented!() }
}

#[derive(Debug)]
pub struct Version {
    pub major: u64,
    pub minor: u64,
    pub patch: u64,
    pub build: Vec<Identifier>,
    pub pre_release: Vec<Identifier>,
}
impl Clone for Version {
    #[verifier::external_body]
    fn clone(&self) -> (r: Self) ensures r == *self { unimplemented!() }
}

#[derive(Debug)]
pub enum Predicate {
    Excluding(Version), // < and >
    Including(Version), // <= and >=
    Unbounded,          // *
}
impl Clone for Predicate {
    #[verifier::external_body]
    fn clone(&self) -> (r: Self) ensures r == *self { unimplemented!() }
}

#[derive(Debug)]
pub enum Bound {
    Lower(Predicate),
    Upper(Predicate),
}
impl Clone for Bound {
    #[verifier::external_body]
    fn clone(&self) -> (r: Self) ensures r == *self { unimplemented!() }
}

#[derive(Debug)]
pub struct BoundSet {
    pub upper: Box<Bound>,
    pub lower: Box<Bound>,
}
impl Clone for BoundSet {
    #[verifier::external_body]
    fn clone(&self) -> (r: Self) ensures r == *self { unimplemented!() }
}

#[derive(Debug)]
pub struct Partial {
    pub major: Option<u64>,
    pub minor: Option<u64>,
    pub patch: Option<u64>,
    pub pre_release: Vec<Identifier>,
    pub build: Vec<Identifier>,
}
impl Clone for Partial {
    #[verifier::external_body]
    fn clone(&self) -> (r: Self) ensures r == *self { unimplemented!() }
}

pub const MAX_SAFE_INTEGER: u64 = 900_719_925_474_099;

// ===================== spec: SemVer 2.0.0 section 11 precedence =====================
pub open spec fn flip(o: Ordering) -> Ordering {
    match o { Ordering::Less => Ordering::Greater, Ordering::Equal => Ordering::Equal, Ordering::Greater => Ordering::Less }
}
pub open spec fn int_cmp(a: int, b: int) -> Ordering {
    if a < b { Ordering::Less } else if a == b { Ordering::Equal } else { Ordering::Greater }
}
// Rust: String Ord is lexicographic by bytes == by code points (UTF-8 is order preserving); ASCII order on [0-9A-Za-z-]
pub open spec fn str_cmp(a: Seq<char>, b: Seq<char>) -> Ordering
    decreases a.len()
{
    if a.len() == 0 && b.len() == 0 { Ordering::Equal }
    else if a.len() == 0 { Ordering::Less }
    else if b.len() == 0 { Ordering::Greater }
    else if a[0] != b[0] { int_cmp(a[0] as int, b[0] as int) }
    else { str_cmp(a.drop_first(), b.drop_first()) }
}
pub open spec fn ident_cmp(a: Identifier, b: Identifier) -> Ordering {
    match (a, b) {
        (Identifier::Numeric(x), Identifier::Numeric(y)) => int_cmp(x as int, y as int),
        (Identifier::Numeric(_), Identifier::AlphaNumeric(_)) => Ordering::Less,
        (Identifier::AlphaNumeric(_), Identifier::Numeric(_)) => Ordering::Greater,
        (Identifier::AlphaNumeric(x), Identifier::AlphaNumeric(y)) => str_cmp(x@, y@),
    }
}
pub open spec fn pre_cmp(a: Seq<Identifier>, b: Seq<Identifier>) -> Ordering
    decreases a.len()
{
    if a.len() == 0 && b.len() == 0 { Ordering::Equal }
    else if a.len() == 0 { Ordering::Less }
    else if b.len() == 0 { Ordering::Greater }
    else if ident_cmp(a[0], b[0]) != Ordering::Equal { ident_cmp(a[0], b[0]) }
    else { pre_cmp(a.drop_first(), b.drop_first()) }
}
pub struct VKey { pub major: int, pub minor: int, pub patch: int, pub pre: Seq<Identifier> }
pub open spec fn key(v: Version) -> VKey { VKey { major: v.major as int, minor: v.minor as int, patch: v.patch as int, pre: v.pre_release@ } }
pub open spec fn kcmp(a: VKey, b: VKey) -> Ordering {
    if a.major != b.major { int_cmp(a.major, b.major) }
    else if a.minor != b.minor { int_cmp(a.minor, b.minor) }
    else if a.patch != b.patch { int_cmp(a.patch, b.patch) }
    else if a.pre.len() == 0 && b.pre.len() == 0 { Ordering::Equal }
    else if a.pre.len() == 0 { Ordering::Greater }
    else if b.pre.len() == 0 { Ordering::Less }
    else { pre_cmp(a.pre, b.pre) }
}
pub open spec fn ver_cmp(a: Version, b: Version) -> Ordering { kcmp(key(a), key(b)) }
pub open spec fn klt(a: VKey, b: VKey) -> bool { kcmp(a, b) == Ordering::Less }
pub open spec fn kle(a: VKey, b: VKey) -> bool { kcmp(a, b) != Ordering::Greater }
pub open spec fn keq(a: VKey, b: VKey) -> bool { kcmp(a, b) == Ordering::Equal }
// ---- lemmas: total order ----
pub proof fn lemma_str_refl(a: Seq<char>) ensures str_cmp(a, a) == Ordering::Equal decreases a.len()
{ if a.len() > 0 { lemma_str_refl(a.drop_first()); } }
pub proof fn lemma_str_flip(a: Seq<char>, b: Seq<char>) ensures str_cmp(a, b) == flip(str_cmp(b, a)) decreases a.len()
{ if a.len() > 0 && b.len() > 0 { lemma_str_flip(a.drop_first(), b.drop_first()); } }
pub proof fn lemma_str_eq(a: Seq<char>, b: Seq<char>) ensures (str_cmp(a, b) == Ordering::Equal) <==> a =~= b decreases a.len()
{
    if a.len() > 0 && b.len() > 0 {
        lemma_str_eq(a.drop_first(), b.drop_first());
        assert(a =~= seq![a[0]] + a.drop_first());
        assert(b =~= seq![b[0]] + b.drop_first());
    }
}
pub proof fn lemma_str_trans(a: Seq<char>, b: Seq<char>, c: Seq<char>)
    requires str_cmp(a, b) != Ordering::Greater, str_cmp(b, c) != Ordering::Greater
    ensures str_cmp(a, c) != Ordering::Greater,
            (str_cmp(a, b) == Ordering::Less || str_cmp(b, c) == Ordering::Less) ==> str_cmp(a, c) == Ordering::Less
    decreases a.len()
{
    if a.len() > 0 && b.len() > 0 && c.len() > 0 && a[0] == b[0] && b[0] == c[0] {
        lemma_str_trans(a.drop_first(), b.drop_first(), c.drop_first());
    }
}
pub proof fn lemma_ident_flip(a: Identifier, b: Identifier) ensures ident_cmp(a, b) == flip(ident_cmp(b, a))
{ match (a, b) { (Identifier::AlphaNumeric(x), Identifier::AlphaNumeric(y)) => lemma_str_flip(x@, y@), _ => {} } }
pub proof fn lemma_ident_refl(a: Identifier) ensures ident_cmp(a, a) == Ordering::Equal
{ match a { Identifier::AlphaNumeric(x) => lemma_str_refl(x@), _ => {} } }
pub proof fn lemma_ident_trans(a: Identifier, b: Identifier, c: Identifier)
    requires ident_cmp(a, b) != Ordering::Greater, ident_cmp(b, c) != Ordering::Greater
    ensures ident_cmp(a, c) != Ordering::Greater,
            (ident_cmp(a, b) == Ordering::Less || ident_cmp(b, c) == Ordering::Less) ==> ident_cmp(a, c) == Ordering::Less
{
    match (a, b, c) {
        (Identifier::AlphaNumeric(x), Identifier::AlphaNumeric(y), Identifier::AlphaNumeric(z)) => lemma_str_trans(x@, y@, z@),
        _ => {}
    }
}
pub proof fn lemma_pre_refl(a: Seq<Identifier>) ensures pre_cmp(a, a) == Ordering::Equal decreases a.len()
{ if a.len() > 0 { lemma_ident_refl(a[0]); lemma_pre_refl(a.drop_first()); } }
pub proof fn lemma_pre_flip(a: Seq<Identifier>, b: Seq<Identifier>) ensures pre_cmp(a, b) == flip(pre_cmp(b, a)) decreases a.len()
{ if a.len() > 0 && b.len() > 0 { lemma_ident_flip(a[0], b[0]); lemma_pre_flip(a.drop_first(), b.drop_first()); } }
pub proof fn lemma_pre_trans(a: Seq<Identifier>, b: Seq<Identifier>, c: Seq<Identifier>)
    requires pre_cmp(a, b) != Ordering::Greater, pre_cmp(b, c) != Ordering::Greater
    ensures pre_cmp(a, c) != Ordering::Greater,
            (pre_cmp(a, b) == Ordering::Less || pre_cmp(b, c) == Ordering::Less) ==> pre_cmp(a, c) == Ordering::Less
    decreases a.len()
{
    if a.len() > 0 && b.len() > 0 && c.len() > 0 {
        lemma_ident_trans(a[0], b[0], c[0]);
        lemma_ident_flip(a[0], b[0]); lemma_ident_flip(b[0], c[0]); lemma_ident_flip(a[0], c[0]);
        if ident_cmp(a[0], b[0]) == Ordering::Equal && ident_cmp(b[0], c[0]) == Ordering::Equal {
            lemma_pre_trans(a.drop_first(), b.drop_first(), c.drop_first());
        } else {
            if ident_cmp(a[0], b[0]) == Ordering::Equal { lemma_ident_trans(b[0], a[0], c[0]); }
            if ident_cmp(b[0], c[0]) == Ordering::Equal { lemma_ident_trans(a[0], c[0], b[0]); }
        }
    }
}

pub broadcast proof fn lemma_k_refl(a: VKey) ensures #[trigger] kcmp(a, a) == Ordering::Equal
{ lemma_pre_refl(a.pre); }
pub broadcast proof fn lemma_k_flip(a: VKey, b: VKey) ensures #[trigger] kcmp(a, b) == flip(kcmp(b, a))
{ lemma_pre_flip(a.pre, b.pre); }
pub broadcast proof fn lemma_k_trans(a: VKey, b: VKey, c: VKey)
    requires #[trigger] kcmp(a, b) != Ordering::Greater, #[trigger] kcmp(b, c) != Ordering::Greater
    ensures kcmp(a, c) != Ordering::Greater,
            (kcmp(a, b) == Ordering::Less || kcmp(b, c) == Ordering::Less) ==> kcmp(a, c) == Ordering::Less
{
    if a.pre.len() > 0 && b.pre.len() > 0 && c.pre.len() > 0 {
        if a.major == b.major && b.major == c.major && a.minor == b.minor && b.minor == c.minor && a.patch == b.patch && b.patch == c.patch {
            lemma_pre_trans(a.pre, b.pre, c.pre);
        }
    }
}
pub broadcast group group_k_order { lemma_k_refl, lemma_k_flip, lemma_k_trans }
// ===================== spec: bounds as cuts in the version order =====================
pub enum Cut { NegInf, At(VKey, bool), PosInf }   // At(v, after): false = just before v, true = just after v

pub open spec fn cut_of(b: Bound) -> Cut {
    match b {
        Bound::Lower(Predicate::Unbounded) => Cut::NegInf,
        Bound::Upper(Predicate::Unbounded) => Cut::PosInf,
        Bound::Lower(Predicate::Including(v)) => Cut::At(key(v), false),
        Bound::Lower(Predicate::Excluding(v)) => Cut::At(key(v), true),
        Bound::Upper(Predicate::Including(v)) => Cut::At(key(v), true),
        Bound::Upper(Predicate::Excluding(v)) => Cut::At(key(v), false),
    }
}
#[verifier::opaque]
pub open spec fn cut_cmp(a: Cut, b: Cut) -> Ordering {
    match (a, b) {
        (Cut::NegInf, Cut::NegInf) => Ordering::Equal,
        (Cut::PosInf, Cut::PosInf) => Ordering::Equal,
        (Cut::NegInf, _) => Ordering::Less,
        (_, Cut::PosInf) => Ordering::Less,
        (Cut::PosInf, _) => Ordering::Greater,
        (_, Cut::NegInf) => Ordering::Greater,
        (Cut::At(v, s), Cut::At(w, t)) =>
            if kcmp(v, w) != Ordering::Equal { kcmp(v, w) }
            else if s == t { Ordering::Equal } else if !s { Ordering::Less } else { Ordering::Greater },
    }
}
pub open spec fn is_lower(b: Bound) -> bool { b is Lower }
pub open spec fn is_upper(b: Bound) -> bool { b is Upper }

/// canonical total order on bounds: by cut; at equal cuts an Upper sorts before a Lower
pub open spec fn bound_cmp(a: Bound, b: Bound) -> Ordering {
    let c = cut_cmp(cut_of(a), cut_of(b));
    if c != Ordering::Equal { c }
    else if is_lower(a) == is_lower(b) { Ordering::Equal }
    else if is_upper(a) { Ordering::Less } else { Ordering::Greater }
}
/// v lies above the cut / below the cut
pub open spec fn above(c: Cut, v: VKey) -> bool {
    match c { Cut::NegInf => true, Cut::PosInf => false, Cut::At(w, after) => if after { klt(w, v) } else { kle(w, v) } }
}
pub open spec fn below(c: Cut, v: VKey) -> bool {
    match c { Cut::PosInf => true, Cut::NegInf => false, Cut::At(w, after) => if after { kle(v, w) } else { klt(v, w) } }
}
pub open spec fn bs_wf(bs: BoundSet) -> bool {
    is_lower(*bs.lower) && is_upper(*bs.upper) && cut_cmp(cut_of(*bs.lower), cut_of(*bs.upper)) == Ordering::Less
}
pub open spec fn within(bs: BoundSet, v: VKey) -> bool {
    above(cut_of(*bs.lower), v) && below(cut_of(*bs.upper), v)
}
pub open spec fn same_tuple(a: VKey, b: VKey) -> bool { a.major == b.major && a.minor == b.minor && a.patch == b.patch }
pub open spec fn bound_version(b: Bound) -> Option<Version> {
    match b {
        Bound::Lower(Predicate::Including(v)) | Bound::Lower(Predicate::Excluding(v))
        | Bound::Upper(Predicate::Including(v)) | Bound::Upper(Predicate::Excluding(v)) => Some(v),
        _ => None,
    }
}
pub open spec fn optin(b: Bound, v: VKey) -> bool {
    bound_version(b) matches Some(w) && w.pre_release@.len() > 0 && same_tuple(key(w), v)
}
/// npm: a prerelease only satisfies a comparator set if some comparator carries a prerelease on the same tuple
pub open spec fn gate(bs: BoundSet, v: VKey) -> bool {
    v.pre.len() == 0 || optin(*bs.lower, v) || optin(*bs.upper, v)
}
pub open spec fn sat(bs: BoundSet, v: VKey) -> bool { within(bs, v) && gate(bs, v) }


// ===================== spec: npm comparator sets (node-semver README / range.js, includePrerelease = false) =====================
pub enum Op { Lt, Le, Gt, Ge, Eq }
pub struct KCmp { pub op: Op, pub k: VKey }
pub open spec fn kcmp_ok(c: KCmp, v: VKey) -> bool {
    match c.op { Op::Lt => klt(v, c.k), Op::Le => kle(v, c.k), Op::Gt => klt(c.k, v), Op::Ge => kle(c.k, v), Op::Eq => keq(v, c.k) }
}
pub open spec fn set_ok(cs: Seq<KCmp>, v: VKey) -> bool { forall|i: int| 0 <= i < cs.len() ==> kcmp_ok(#[trigger] cs[i], v) }
pub open spec fn set_gate(cs: Seq<KCmp>, v: VKey) -> bool {
    v.pre.len() == 0 || exists|i: int| 0 <= i < cs.len() && (#[trigger] cs[i]).k.pre.len() > 0 && same_tuple(cs[i].k, v)
}
pub open spec fn npm_sat(cs: Seq<KCmp>, v: VKey) -> bool { set_ok(cs, v) && set_gate(cs, v) }
pub open spec fn wfk(v: VKey) -> bool { 0 <= v.major <= MAX_SAFE_INTEGER && 0 <= v.minor <= MAX_SAFE_INTEGER && 0 <= v.patch <= MAX_SAFE_INTEGER }
/// the interval represents the comparator set: same bounds membership, and same prerelease opt-in inside the bounds
pub open spec fn repr(bs: BoundSet, cs: Seq<KCmp>) -> bool {
    forall|v: VKey| #![trigger within(bs, v)] wfk(v) ==> (within(bs, v) <==> set_ok(cs, v)) && (within(bs, v) ==> (gate(bs, v) <==> set_gate(cs, v)))
}
pub open spec fn s1(a: KCmp) -> Seq<KCmp> { Seq::<KCmp>::empty().push(a) }
pub open spec fn s2(a: KCmp, b: KCmp) -> Seq<KCmp> { Seq::<KCmp>::empty().push(a).push(b) }
pub broadcast proof fn lemma_set0(v: VKey)
    ensures #[trigger] set_ok(Seq::<KCmp>::empty(), v), #[trigger] set_gate(Seq::<KCmp>::empty(), v) == (v.pre.len() == 0)
{}
pub broadcast proof fn lemma_set1(a: KCmp, v: VKey)
    ensures #[trigger] set_ok(s1(a), v) == kcmp_ok(a, v),
            #[trigger] set_gate(s1(a), v) == (v.pre.len() == 0 || (a.k.pre.len() > 0 && same_tuple(a.k, v)))
{
    let s = s1(a);
    assert(s[0] == a);
    if a.k.pre.len() > 0 && same_tuple(a.k, v) { assert(s[0].k.pre.len() > 0 && same_tuple(s[0].k, v)); }
}
pub broadcast proof fn lemma_set2(a: KCmp, b: KCmp, v: VKey)
    ensures #[trigger] set_ok(s2(a, b), v) == (kcmp_ok(a, v) && kcmp_ok(b, v)),
            #[trigger] set_gate(s2(a, b), v) == (v.pre.len() == 0 || (a.k.pre.len() > 0 && same_tuple(a.k, v)) || (b.k.pre.len() > 0 && same_tuple(b.k, v)))
{
    let s = s2(a, b);
    assert(s[0] == a && s[1] == b);
    if a.k.pre.len() > 0 && same_tuple(a.k, v) { assert(s[0].k.pre.len() > 0 && same_tuple(s[0].k, v)); }
    if b.k.pre.len() > 0 && same_tuple(b.k, v) { assert(s[1].k.pre.len() > 0 && same_tuple(s[1].k, v)); }
}
pub broadcast group group_sets { lemma_set0, lemma_set1, lemma_set2 }
pub open spec fn k3(a: int, b: int, c: int) -> VKey { VKey { major: a, minor: b, patch: c, pre: Seq::empty() } }
pub open spec fn k4(a: int, b: int, c: int, p: Seq<Identifier>) -> VKey { VKey { major: a, minor: b, patch: c, pre: p } }
pub open spec fn pre0() -> Seq<Identifier> { seq![Identifier::Numeric(0)] }
pub open spec fn ge(k: VKey) -> KCmp { KCmp { op: Op::Ge, k } }
pub open spec fn lt(k: VKey) -> KCmp { KCmp { op: Op::Lt, k } }
pub open spec fn eqc(k: VKey) -> KCmp { KCmp { op: Op::Eq, k } }

pub open spec fn gt(k: VKey) -> KCmp { KCmp { op: Op::Gt, k } }
pub open spec fn le(k: VKey) -> KCmp { KCmp { op: Op::Le, k } }
/// node-semver isX(): a component that is missing or a wildcard.  A wildcard minor makes the patch a wildcard too.
pub open spec fn xM(p: Partial) -> bool { p.major is None }
pub open spec fn xm(p: Partial) -> bool { xM(p) || p.minor is None }
pub open spec fn xp(p: Partial) -> bool { xm(p) || p.patch is None }
pub open spec fn pM(p: Partial) -> int { p.major->0 as int }
pub open spec fn pm(p: Partial) -> int { p.minor->0 as int }
pub open spec fn pp(p: Partial) -> int { p.patch->0 as int }
pub open spec fn any_set() -> Seq<KCmp> { s1(ge(k3(0, 0, 0))) }           // README: `*` := `>=0.0.0`
pub open spec fn null_set() -> Seq<KCmp> { s1(lt(k4(0, 0, 0, pre0()))) }  // range.js: `<0.0.0-0`

/// README "Caret Ranges", range.js replaceCaret
pub open spec fn npm_caret(p: Partial) -> Seq<KCmp> {
    let pre = p.pre_release@;
    if xM(p) { any_set() }
    else if xm(p) { s2(ge(k3(pM(p), 0, 0)), lt(k4(pM(p) + 1, 0, 0, pre0()))) }
    else if xp(p) { if pM(p) == 0 { s2(ge(k3(0, pm(p), 0)), lt(k4(0, pm(p) + 1, 0, pre0()))) } else { s2(ge(k3(pM(p), pm(p), 0)), lt(k4(pM(p) + 1, 0, 0, pre0()))) } }
    else if pM(p) == 0 && pm(p) == 0 { s2(ge(k4(0, 0, pp(p), pre)), lt(k4(0, 0, pp(p) + 1, pre0()))) }
    else if pM(p) == 0 { s2(ge(k4(0, pm(p), pp(p), pre)), lt(k4(0, pm(p) + 1, 0, pre0()))) }
    else { s2(ge(k4(pM(p), pm(p), pp(p), pre)), lt(k4(pM(p) + 1, 0, 0, pre0()))) }
}
/// README "Tilde Ranges", range.js replaceTilde (`~>` is the same as `~`)
pub open spec fn npm_tilde(p: Partial) -> Seq<KCmp> {
    let pre = p.pre_release@;
    if xM(p) { any_set() }
    else if xm(p) { s2(ge(k3(pM(p), 0, 0)), lt(k4(pM(p) + 1, 0, 0, pre0()))) }
    else if xp(p) { s2(ge(k3(pM(p), pm(p), 0)), lt(k4(pM(p), pm(p) + 1, 0, pre0()))) }
    else { s2(ge(k4(pM(p), pm(p), pp(p), pre)), lt(k4(pM(p), pm(p) + 1, 0, pre0()))) }
}
/// README "X-Ranges", range.js replaceXRange without operator
pub open spec fn npm_plain(p: Partial) -> Seq<KCmp> {
    let pre = p.pre_release@;
    if xM(p) { any_set() }
    else if xm(p) { s2(ge(k3(pM(p), 0, 0)), lt(k4(pM(p) + 1, 0, 0, pre0()))) }
    else if xp(p) { s2(ge(k3(pM(p), pm(p), 0)), lt(k4(pM(p), pm(p) + 1, 0, pre0()))) }
    else { s1(eqc(k4(pM(p), pm(p), pp(p), pre))) }
}
/// range.js replaceXRange with an operator
pub open spec fn npm_primitive(op: Operation, p: Partial) -> Seq<KCmp> {
    let pre = p.pre_release@;
    if xM(p) { match op { Operation::GreaterThan | Operation::LessThan => null_set(), _ => any_set() } }
    else if xm(p) { match op {
        Operation::GreaterThan => s1(ge(k3(pM(p) + 1, 0, 0))),
        Operation::GreaterThanEquals => s1(ge(k3(pM(p), 0, 0))),
        Operation::LessThan => s1(lt(k4(pM(p), 0, 0, pre0()))),
        Operation::LessThanEquals => s1(lt(k4(pM(p) + 1, 0, 0, pre0()))),
        Operation::Exact => s2(ge(k3(pM(p), 0, 0)), lt(k4(pM(p) + 1, 0, 0, pre0()))),
    } }
    else if xp(p) { match op {
        Operation::GreaterThan => s1(ge(k3(pM(p), pm(p) + 1, 0))),
        Operation::GreaterThanEquals => s1(ge(k3(pM(p), pm(p), 0))),
        Operation::LessThan => s1(lt(k4(pM(p), pm(p), 0, pre0()))),
        Operation::LessThanEquals => s1(lt(k4(pM(p), pm(p) + 1, 0, pre0()))),
        Operation::Exact => s2(ge(k3(pM(p), pm(p), 0)), lt(k4(pM(p), pm(p) + 1, 0, pre0()))),
    } }
    else { let k = k4(pM(p), pm(p), pp(p), pre); match op {
        Operation::GreaterThan => s1(gt(k)), Operation::GreaterThanEquals => s1(ge(k)), Operation::LessThan => s1(lt(k)), Operation::LessThanEquals => s1(le(k)), Operation::Exact => s1(eqc(k)),
    } }
}
/// README "Hyphen Ranges", range.js hyphenReplace: lower part / upper part (None = no comparator on that side)
pub open spec fn npm_hyphen_from(p: Partial) -> Option<KCmp> {
    if xM(p) { None } else if xm(p) { Some(ge(k3(pM(p), 0, 0))) } else if xp(p) { Some(ge(k3(pM(p), pm(p), 0))) } else { Some(ge(k4(pM(p), pm(p), pp(p), p.pre_release@))) }
}
pub open spec fn npm_hyphen_to(p: Partial) -> Option<KCmp> {
    if xM(p) { None } else if xm(p) { Some(lt(k4(pM(p) + 1, 0, 0, pre0()))) } else if xp(p) { Some(lt(k4(pM(p), pm(p) + 1, 0, pre0()))) } else { Some(le(k4(pM(p), pm(p), pp(p), p.pre_release@))) }
}
pub open spec fn npm_hyphen(f: Partial, t: Partial) -> Seq<KCmp> {
    match (npm_hyphen_from(f), npm_hyphen_to(t)) {
        (Some(a), Some(b)) => s2(a, b), (Some(a), None) => s1(a), (None, Some(b)) => s1(b), (None, None) => Seq::empty(),
    }
}
pub open spec fn wf_partial(p: Partial) -> bool {
    (p.major matches Some(x) ==> x <= MAX_SAFE_INTEGER) && (p.minor matches Some(x) ==> x <= MAX_SAFE_INTEGER) && (p.patch matches Some(x) ==> x <= MAX_SAFE_INTEGER)
}
pub open spec fn lower_cut(cs: Seq<KCmp>) -> Cut { if cs.len() == 0 { Cut::NegInf } else { match cs[0].op { Op::Ge => Cut::At(cs[0].k, false), Op::Gt => Cut::At(cs[0].k, true), Op::Eq => Cut::At(cs[0].k, false), _ => Cut::NegInf } } }
pub open spec fn upper_cut(cs: Seq<KCmp>) -> Cut { if cs.len() == 0 { Cut::PosInf } else { let c = cs[cs.len() - 1]; match c.op { Op::Le => Cut::At(c.k, true), Op::Lt => Cut::At(c.k, false), Op::Eq => Cut::At(c.k, true), _ => Cut::PosInf } } }
/// the interval the code built has exactly the two cuts of npm's comparator list
pub open spec fn shape_ok(r: Option<BoundSet>, cs: Seq<KCmp>) -> bool {
    match r {
        Some(bs) => bs_wf(bs) && cut_of(*bs.lower) == lower_cut(cs) && cut_of(*bs.upper) == upper_cut(cs),
        // an interval nothing can enter is dropped
        None => cut_cmp(lower_cut(cs), upper_cut(cs)) != Ordering::Less,
    }
}

impl FromSpecImpl<(u64, u64, u64)> for Version { open spec fn obeys_from_spec() -> bool { false } open spec fn from_spec(v: (u64, u64, u64)) -> Self { arbitrary() } }
impl FromSpecImpl<(u64, u64, u64, u64)> for Version { open spec fn obeys_from_spec() -> bool { false } open spec fn from_spec(v: (u64, u64, u64, u64)) -> Self { arbitrary() } }
impl FromSpecImpl<(i32, i32, i32)> for Version { open spec fn obeys_from_spec() -> bool { false } open spec fn from_spec(v: (i32, i32, i32)) -> Self { arbitrary() } }
impl ::std::convert::From<(i32, i32, i32)> for Version {
    #[verifier::external_body]
    fn from(arg: (i32, i32, i32)) -> (r: Self)
        ensures arg.0 >= 0 && arg.1 >= 0 && arg.2 >= 0 ==> r.major == arg.0 && r.minor == arg.1 && r.patch == arg.2 && r.build@.len() == 0 && r.pre_release@.len() == 0 && key(r) == k3(arg.0 as int, arg.1 as int, arg.2 as int)
    { unimplemented!() }
}


            impl ::std::convert::From<(u64, u64, u64)> for Version {
                fn from(arg: (u64, u64, u64)) -> (r: Self)
 ensures r.major == arg.0, r.minor == arg.1, r.patch == arg.2, r.build@.len() == 0, r.pre_release@.len() == 0, key(r) == k3(arg.0 as int, arg.1 as int, arg.2 as int)
 {
 let (major, minor, patch) = arg;
                    Version {
                        major: major as u64,
                        minor: minor as u64,
                        patch: patch as u64,
                        build: Vec::new(),
                        pre_release: Vec::new(),
                    }
                }
            }

            impl ::std::convert::From<(u64, u64, u64, u64)> for Version {
                fn from(arg: (u64, u64, u64, u64)) -> (r: Self)
 ensures r.major == arg.0, r.minor == arg.1, r.patch == arg.2, r.build@.len() == 0, r.pre_release@ == seq![Identifier::Numeric(arg.3)], key(r) == k4(arg.0 as int, arg.1 as int, arg.2 as int, seq![Identifier::Numeric(arg.3)])
 {
 let (major, minor, patch, pre_release) = arg;
                    Version {
                        major: major as u64,
                        minor: minor as u64,
                        patch: patch as u64,
                        build: Vec::new(),
                        pre_release: vec![Identifier::Numeric(pre_release as u64)],
                    }
                }
            }
        
impl FromSpecImpl<Partial> for Version { open spec fn obeys_from_spec() -> bool { false } open spec fn from_spec(v: Partial) -> Self { arbitrary() } }
impl From<Partial> for Version {
    fn from(partial: Partial) -> (r: Self)
    ensures r.major == (match partial.major { Some(x) => x, None => 0 }), r.minor == (match partial.minor { Some(x) => x, None => 0 }), r.patch == (match partial.patch { Some(x) => x, None => 0 }), r.pre_release == partial.pre_release, r.build == partial.build
{
        Version {
            major: partial.major.unwrap_or(0),
            minor: partial.minor.unwrap_or(0),
            patch: partial.patch.unwrap_or(0),
            pre_release: partial.pre_release,
            build: partial.build,
        }
    }
}
impl BoundSet {
 #[verifier::external_body]
fn new(lower: Bound, upper: Bound) -> (r: Option<Self>)
    requires is_lower(lower), is_upper(upper),
    ensures (r is Some) <==> cut_cmp(cut_of(lower), cut_of(upper)) == Ordering::Less,
            r matches Some(bs) ==> *bs.lower == lower && *bs.upper == upper,
{ unimplemented!() }

    fn at_least(p: Predicate) -> (r: Option<Self>)
    ensures r matches Some(bs) && *bs.lower == Bound::Lower(p) && *bs.upper == Bound::Upper(Predicate::Unbounded),
{
 proof { reveal(cut_cmp); }

        BoundSet::new(Bound::Lower(p), Bound::upper())
    }

    fn at_most(p: Predicate) -> (r: Option<Self>)
    ensures r matches Some(bs) && *bs.lower == Bound::Lower(Predicate::Unbounded) && *bs.upper == Bound::Upper(p),
{
 proof { reveal(cut_cmp); }

        BoundSet::new(Bound::lower(), Bound::Upper(p))
    }

    fn exact(version: Version) -> (r: Option<Self>)
    ensures r matches Some(bs) && *bs.lower == Bound::Lower(Predicate::Including(version)) && *bs.upper == Bound::Upper(Predicate::Including(version)),
{
 proof { reveal(cut_cmp); lemma_k_refl(key(version)); }

        BoundSet::new(
            Bound::Lower(Predicate::Including(version.clone())),
            Bound::Upper(Predicate::Including(version)),
        )
    }
}
impl Bound {
    fn upper() -> (r: Self)
    ensures r == Bound::Upper(Predicate::Unbounded)
{
        Bound::Upper(Predicate::Unbounded)
    }

    fn lower() -> (r: Self)
    ensures r == Bound::Lower(Predicate::Unbounded)
{
        Bound::Lower(Predicate::Unbounded)
    }
}
fn caret_desugar(parsed: Partial) -> (r: Option<BoundSet>)
    requires wf_partial(parsed),
    ensures
        xM(parsed) ==> shape_ok(r, npm_caret(parsed)),
        !xM(parsed) && xm(parsed) && pM(parsed) == 0 ==> shape_ok(r, npm_caret(parsed)),
        !xM(parsed) && xm(parsed) && pM(parsed) != 0 ==> shape_ok(r, npm_caret(parsed)),
        !xm(parsed) && xp(parsed) ==> shape_ok(r, npm_caret(parsed)),
        !xp(parsed) ==> shape_ok(r, npm_caret(parsed)),
{
 broadcast use group_k_order, group_sets;
 proof { reveal(cut_cmp);
        assert forall|s: Seq<Identifier>| #![trigger s.len()] s.len() == 1 && s[0] == Identifier::Numeric(0) implies s == pre0() by { assert(s =~= pre0()); }
        assert forall|s: Seq<Identifier>| #![trigger s.len()] s.len() == 0 implies s == Seq::<Identifier>::empty() by { assert(s =~= Seq::<Identifier>::empty()); }
 }
    match parsed {
            Partial {
                major: Some(0),
                minor: None,
                patch: None,
                ..
            } => BoundSet::at_most(Predicate::Excluding((1, 0, 0, 0).into())),
            Partial {
                major: Some(0),
                minor: Some(minor),
                patch: None,
                ..
            } => BoundSet::new(
                Bound::Lower(Predicate::Including((0, minor, 0).into())),
                Bound::Upper(Predicate::Excluding((0, minor + 1, 0, 0).into())),
            ),
            // TODO: can be compressed?
            Partial {
                major: Some(major),
                minor: None,
                patch: None,
                ..
            } => BoundSet::new(
                Bound::Lower(Predicate::Including((major, 0, 0).into())),
                Bound::Upper(Predicate::Excluding((major + 1, 0, 0, 0).into())),
            ),
            Partial {
                major: Some(major),
                minor: Some(minor),
                patch: None,
                ..
            } => BoundSet::new(
                Bound::Lower(Predicate::Including((major, minor, 0).into())),
                Bound::Upper(Predicate::Excluding((major + 1, 0, 0, 0).into())),
            ),
            Partial {
                major: Some(major),
                minor: Some(minor),
                patch: Some(patch),
                pre_release,
                ..
            } => BoundSet::new(
                Bound::Lower(Predicate::Including(Version {
                    major,
                    minor,
                    patch,
                    pre_release,
                    build: vec![],
                })),
                Bound::Upper(Predicate::Excluding(match (major, minor, patch) {
                    (0, 0, n) => Version::from((0, 0, n + 1, 0)),
                    (0, n, _) => Version::from((0, n + 1, 0, 0)),
                    (n, _, _) => Version::from((n + 1, 0, 0, 0)),
                })),
            ),
            _ => None,
        }
}

fn primitive_desugar(parsed: (Operation, Partial)) -> (r: Option<BoundSet>)
    requires wf_partial(parsed.1),
    ensures
        parsed.0 == Operation::Exact && xM(parsed.1) ==> shape_ok(r, npm_primitive(parsed.0, parsed.1)),  // Exact/xM
        parsed.0 == Operation::Exact && !xM(parsed.1) && xm(parsed.1) ==> shape_ok(r, npm_primitive(parsed.0, parsed.1)),  // Exact/xm
        parsed.0 == Operation::Exact && !xm(parsed.1) && xp(parsed.1) ==> shape_ok(r, npm_primitive(parsed.0, parsed.1)),  // Exact/xp
        parsed.0 == Operation::Exact && !xp(parsed.1) ==> shape_ok(r, npm_primitive(parsed.0, parsed.1)),  // Exact/full
        parsed.0 == Operation::GreaterThan && xM(parsed.1) ==> shape_ok(r, npm_primitive(parsed.0, parsed.1)),  // GreaterThan/xM
        parsed.0 == Operation::GreaterThan && !xM(parsed.1) && xm(parsed.1) ==> shape_ok(r, npm_primitive(parsed.0, parsed.1)),  // GreaterThan/xm
        parsed.0 == Operation::GreaterThan && !xm(parsed.1) && xp(parsed.1) ==> shape_ok(r, npm_primitive(parsed.0, parsed.1)),  // GreaterThan/xp
        parsed.0 == Operation::GreaterThan && !xp(parsed.1) ==> shape_ok(r, npm_primitive(parsed.0, parsed.1)),  // GreaterThan/full
        parsed.0 == Operation::GreaterThanEquals && xM(parsed.1) ==> shape_ok(r, npm_primitive(parsed.0, parsed.1)),  // GreaterThanEquals/xM
        parsed.0 == Operation::GreaterThanEquals && !xM(parsed.1) && xm(parsed.1) ==> shape_ok(r, npm_primitive(parsed.0, parsed.1)),  // GreaterThanEquals/xm
        parsed.0 == Operation::GreaterThanEquals && !xm(parsed.1) && xp(parsed.1) ==> shape_ok(r, npm_primitive(parsed.0, parsed.1)),  // GreaterThanEquals/xp
        parsed.0 == Operation::GreaterThanEquals && !xp(parsed.1) ==> shape_ok(r, npm_primitive(parsed.0, parsed.1)),  // GreaterThanEquals/full
        parsed.0 == Operation::LessThan && xM(parsed.1) ==> shape_ok(r, npm_primitive(parsed.0, parsed.1)),  // LessThan/xM
        parsed.0 == Operation::LessThan && !xM(parsed.1) && xm(parsed.1) ==> shape_ok(r, npm_primitive(parsed.0, parsed.1)),  // LessThan/xm
        parsed.0 == Operation::LessThan && !xm(parsed.1) && xp(parsed.1) ==> shape_ok(r, npm_primitive(parsed.0, parsed.1)),  // LessThan/xp
        parsed.0 == Operation::LessThan && !xp(parsed.1) ==> shape_ok(r, npm_primitive(parsed.0, parsed.1)),  // LessThan/full
        parsed.0 == Operation::LessThanEquals && xM(parsed.1) ==> shape_ok(r, npm_primitive(parsed.0, parsed.1)),  // LessThanEquals/xM
        parsed.0 == Operation::LessThanEquals && !xM(parsed.1) && xm(parsed.1) ==> shape_ok(r, npm_primitive(parsed.0, parsed.1)),  // LessThanEquals/xm
        parsed.0 == Operation::LessThanEquals && !xm(parsed.1) && xp(parsed.1) ==> shape_ok(r, npm_primitive(parsed.0, parsed.1)),  // LessThanEquals/xp
        parsed.0 == Operation::LessThanEquals && !xp(parsed.1) ==> shape_ok(r, npm_primitive(parsed.0, parsed.1)),  // LessThanEquals/full
{
 broadcast use group_k_order, group_sets;
 proof { reveal(cut_cmp);
        assert forall|s: Seq<Identifier>| #![trigger s.len()] s.len() == 1 && s[0] == Identifier::Numeric(0) implies s == pre0() by { assert(s =~= pre0()); }
        assert forall|s: Seq<Identifier>| #![trigger s.len()] s.len() == 0 implies s == Seq::<Identifier>::empty() by { assert(s =~= Seq::<Identifier>::empty()); }
 }
    use Operation::*;
match parsed {
            (GreaterThanEquals, partial) => {
                BoundSet::at_least(Predicate::Including(partial.into()))
            }
            (
                GreaterThan,
                Partial {
                    major: Some(major),
                    minor: Some(minor),
                    patch: None,
                    ..
                },
            ) => BoundSet::at_least(Predicate::Including((major, minor + 1, 0).into())),
            (
                GreaterThan,
                Partial {
                    major: Some(major),
                    minor: None,
                    patch: None,
                    ..
                },
            ) => BoundSet::at_least(Predicate::Including((major + 1, 0, 0).into())),
            (GreaterThan, partial) => BoundSet::at_least(Predicate::Excluding(partial.into())),
            (
                LessThan,
                Partial {
                    major: Some(major),
                    minor: Some(minor),
                    patch: None,
                    ..
                },
            ) => BoundSet::at_most(Predicate::Excluding((major, minor, 0, 0).into())),
            (
                LessThan,
                Partial {
                    major,
                    minor,
                    patch,
                    pre_release,
                    build,
                    ..
                },
            ) => BoundSet::at_most(Predicate::Excluding(Version {
                major: major.unwrap_or(0),
                minor: minor.unwrap_or(0),
                patch: patch.unwrap_or(0),
                build,
                pre_release,
            })),
            (
                LessThanEquals,
                Partial {
                    major,
                    minor: None,
                    patch: None,
                    ..
                },
            ) => BoundSet::at_most(Predicate::Including(
                (major.unwrap_or(0), MAX_SAFE_INTEGER, MAX_SAFE_INTEGER).into(),
            )),
            (
                LessThanEquals,
                Partial {
                    major,
                    minor,
                    patch: None,
                    ..
                },
            ) => BoundSet::at_most(Predicate::Including(
                (major.unwrap_or(0), minor.unwrap_or(0), MAX_SAFE_INTEGER).into(),
            )),
            (LessThanEquals, partial) => BoundSet::at_most(Predicate::Including(partial.into())),
            (
                Exact,
                Partial {
                    major: Some(major),
                    minor: Some(minor),
                    patch: Some(patch),
                    pre_release,
                    ..
                },
            ) => BoundSet::exact(Version {
                major,
                minor,
                patch,
                pre_release,
                build: vec![],
            }),
            (
                Exact,
                Partial {
                    major: Some(major),
                    minor: Some(minor),
                    ..
                },
            ) => BoundSet::new(
                Bound::Lower(Predicate::Including((major, minor, 0).into())),
                Bound::Upper(Predicate::Excluding(Version {
                    major,
                    minor: minor + 1,
                    patch: 0,
                    pre_release: vec![Identifier::Numeric(0)],
                    build: vec![],
                })),
            ),
            (
                Exact,
                Partial {
                    major: Some(major), ..
                },
            ) => BoundSet::new(
                Bound::Lower(Predicate::Including((major, 0, 0).into())),
                Bound::Upper(Predicate::Excluding(Version {
                    major: major + 1,
                    minor: 0,
                    patch: 0,
                    pre_release: vec![Identifier::Numeric(0)],
                    build: vec![],
                })),
            ),
            _ => None,
        }
}

fn tilde_desugar(parsed: (Option<&str>, Partial)) -> (r: Option<BoundSet>)
    requires wf_partial(parsed.1),
    ensures
        parsed.1.major is None ==> shape_ok(r, npm_tilde(parsed.1)),   // ~x
        parsed.1.major is Some && parsed.1.minor is None && parsed.1.patch is None ==> shape_ok(r, npm_tilde(parsed.1)),   // ~1
        parsed.1.major is Some && parsed.1.minor is None && parsed.1.patch is Some ==> shape_ok(r, npm_tilde(parsed.1)),   // ~1.x.3
        parsed.1.major is Some && parsed.1.minor is Some && parsed.1.patch is None ==> shape_ok(r, npm_tilde(parsed.1)),   // ~1.2
        parsed.1.major is Some && parsed.1.minor is Some && parsed.1.patch is Some ==> shape_ok(r, npm_tilde(parsed.1)),   // ~1.2.3[-pre]
{
 broadcast use group_k_order, group_sets;
 proof { reveal(cut_cmp);
        assert forall|s: Seq<Identifier>| #![trigger s.len()] s.len() == 1 && s[0] == Identifier::Numeric(0) implies s == pre0() by { assert(s =~= pre0()); }
        assert forall|s: Seq<Identifier>| #![trigger s.len()] s.len() == 0 implies s == Seq::<Identifier>::empty() by { assert(s =~= Seq::<Identifier>::empty()); }
 }
    match parsed {
        (
            Some(_gt),
            Partial {
                major: Some(major),
                minor: None,
                patch: None,
                ..
            },
        ) => BoundSet::new(
            Bound::Lower(Predicate::Including((major, 0, 0).into())),
            Bound::Upper(Predicate::Excluding((major + 1, 0, 0, 0).into())),
        ),
        (
            Some(_gt),
            Partial {
                major: Some(major),
                minor: Some(minor),
                patch,
                pre_release,
                ..
            },
        ) => BoundSet::new(
            Bound::Lower(Predicate::Including(Version {
                major,
                minor,
                patch: patch.unwrap_or(0),
                pre_release,
                build: vec![],
            })),
            Bound::Upper(Predicate::Excluding((major, minor + 1, 0, 0).into())),
        ),
        (
            None,
            Partial {
                major: Some(major),
                minor: Some(minor),
                patch: Some(patch),
                pre_release,
                ..
            },
        ) => BoundSet::new(
            Bound::Lower(Predicate::Including(Version {
                major,
                minor,
                patch,
                pre_release,
                build: vec![],
            })),
            Bound::Upper(Predicate::Excluding((major, minor + 1, 0, 0).into())),
        ),
        (
            None,
            Partial {
                major: Some(major),
                minor: Some(minor),
                patch: None,
                ..
            },
        ) => BoundSet::new(
            Bound::Lower(Predicate::Including((major, minor, 0).into())),
            Bound::Upper(Predicate::Excluding((major, minor + 1, 0, 0).into())),
        ),
        (
            None,
            Partial {
                major: Some(major),
                minor: None,
                patch: None,
                ..
            },
        ) => BoundSet::new(
            Bound::Lower(Predicate::Including((major, 0, 0).into())),
            Bound::Upper(Predicate::Excluding((major + 1, 0, 0, 0).into())),
        ),
        _ => None,
    }
}

fn hyphen_desugar(lower: Option<Partial>, upper: Partial) -> (r: Option<BoundSet>)
    requires wf_partial(upper), lower matches Some(f) ==> wf_partial(f),
    ensures
        (lower is None) && xM(upper) ==> (r matches Some(bs) ==> bs_wf(bs)),  // none-xM
        (lower is None) && !xM(upper) && xm(upper) ==> (r matches Some(bs) ==> bs_wf(bs)),  // none-xm
        (lower is None) && !xm(upper) && xp(upper) ==> (r matches Some(bs) ==> bs_wf(bs)),  // none-xp
        (lower is None) && !xp(upper) ==> (r matches Some(bs) ==> bs_wf(bs)),  // none-full
        (lower matches Some(f) && xM(f)) && xM(upper) ==> shape_ok(r, npm_hyphen(lower->0, upper)),  // xM-xM
        (lower matches Some(f) && xM(f)) && !xM(upper) && xm(upper) ==> shape_ok(r, npm_hyphen(lower->0, upper)),  // xM-xm
        (lower matches Some(f) && xM(f)) && !xm(upper) && xp(upper) ==> shape_ok(r, npm_hyphen(lower->0, upper)),  // xM-xp
        (lower matches Some(f) && xM(f)) && !xp(upper) ==> shape_ok(r, npm_hyphen(lower->0, upper)),  // xM-full
        (lower matches Some(f) && !xM(f) && xm(f)) && xM(upper) ==> shape_ok(r, npm_hyphen(lower->0, upper)),  // xm-xM
        (lower matches Some(f) && !xM(f) && xm(f)) && !xM(upper) && xm(upper) ==> shape_ok(r, npm_hyphen(lower->0, upper)),  // xm-xm
        (lower matches Some(f) && !xM(f) && xm(f)) && !xm(upper) && xp(upper) ==> shape_ok(r, npm_hyphen(lower->0, upper)),  // xm-xp
        (lower matches Some(f) && !xM(f) && xm(f)) && !xp(upper) ==> shape_ok(r, npm_hyphen(lower->0, upper)),  // xm-full
        (lower matches Some(f) && !xm(f) && xp(f)) && xM(upper) ==> shape_ok(r, npm_hyphen(lower->0, upper)),  // xp-xM
        (lower matches Some(f) && !xm(f) && xp(f)) && !xM(upper) && xm(upper) ==> shape_ok(r, npm_hyphen(lower->0, upper)),  // xp-xm
        (lower matches Some(f) && !xm(f) && xp(f)) && !xm(upper) && xp(upper) ==> shape_ok(r, npm_hyphen(lower->0, upper)),  // xp-xp
        (lower matches Some(f) && !xm(f) && xp(f)) && !xp(upper) ==> shape_ok(r, npm_hyphen(lower->0, upper)),  // xp-full
        (lower matches Some(f) && !xp(f)) && xM(upper) ==> shape_ok(r, npm_hyphen(lower->0, upper)),  // full-xM
        (lower matches Some(f) && !xp(f)) && !xM(upper) && xm(upper) ==> shape_ok(r, npm_hyphen(lower->0, upper)),  // full-xm
        (lower matches Some(f) && !xp(f)) && !xm(upper) && xp(upper) ==> shape_ok(r, npm_hyphen(lower->0, upper)),  // full-xp
        (lower matches Some(f) && !xp(f)) && !xp(upper) ==> shape_ok(r, npm_hyphen(lower->0, upper)),  // full-full
{
 broadcast use group_k_order, group_sets;
 proof { reveal(cut_cmp);
        assert forall|s: Seq<Identifier>| #![trigger s.len()] s.len() == 1 && s[0] == Identifier::Numeric(0) implies s == pre0() by { assert(s =~= pre0()); }
        assert forall|s: Seq<Identifier>| #![trigger s.len()] s.len() == 0 implies s == Seq::<Identifier>::empty() by { assert(s =~= Seq::<Identifier>::empty()); }
 }
    let upper = match upper {
            Partial {
                major: None,
                minor: None,
                patch: None,
                ..
            } => Predicate::Excluding(Version {
                major: 0,
                minor: 0,
                patch: 0,
                pre_release: vec![Identifier::Numeric(0)],
                build: vec![],
            }),
            Partial {
                major: Some(major),
                minor: None,
                patch: None,
                ..
            } => Predicate::Excluding(Version {
                major: major + 1,
                minor: 0,
                patch: 0,
                pre_release: vec![Identifier::Numeric(0)],
                build: vec![],
            }),
            Partial {
                major: Some(major),
                minor: Some(minor),
                patch: None,
                ..
            } => Predicate::Excluding(Version {
                major,
                minor: minor + 1,
                patch: 0,
                pre_release: vec![Identifier::Numeric(0)],
                build: vec![],
            }),
            partial => Predicate::Including(partial.into()),
        };
        let bounds = if let Some(lower) = lower {
            BoundSet::new(
                Bound::Lower(Predicate::Including(lower.into())),
                Bound::Upper(upper),
            )
        } else {
            BoundSet::at_most(upper)
        };
        
 bounds
}

fn partial_desugar(partial: Partial) -> (r: Option<BoundSet>)
    requires wf_partial(partial),
    ensures
        xM(partial) ==> shape_ok(r, npm_plain(partial)),
        !xM(partial) && xm(partial) ==> shape_ok(r, npm_plain(partial)),
        !xm(partial) && xp(partial) ==> shape_ok(r, npm_plain(partial)),
        !xp(partial) ==> shape_ok(r, npm_plain(partial)),
{
 broadcast use group_k_order, group_sets;
 proof { reveal(cut_cmp);
        assert forall|s: Seq<Identifier>| #![trigger s.len()] s.len() == 1 && s[0] == Identifier::Numeric(0) implies s == pre0() by { assert(s =~= pre0()); }
        assert forall|s: Seq<Identifier>| #![trigger s.len()] s.len() == 0 implies s == Seq::<Identifier>::empty() by { assert(s =~= Seq::<Identifier>::empty()); }
 }
    match partial {
        Partial { major: None, .. } => BoundSet::at_least(Predicate::Including((0, 0, 0).into())),
        Partial {
            major: Some(major),
            minor: None,
            ..
        } => BoundSet::new(
            Bound::Lower(Predicate::Including((major, 0, 0).into())),
            Bound::Upper(Predicate::Excluding(Version {
                major: major + 1,
                minor: 0,
                patch: 0,
                pre_release: vec![Identifier::Numeric(0)],
                build: vec![],
            })),
        ),
        Partial {
            major: Some(major),
            minor: Some(minor),
            patch: None,
            ..
        } => BoundSet::new(
            Bound::Lower(Predicate::Including((major, minor, 0).into())),
            Bound::Upper(Predicate::Excluding(Version {
                major,
                minor: minor + 1,
                patch: 0,
                pre_release: vec![Identifier::Numeric(0)],
                build: vec![],
            })),
        ),
        partial => BoundSet::exact(partial.into()),
    }
}


fn dbg5(major: u64, minor: u64, patch: u64, pre_release: Vec<Identifier>) -> (r: Option<BoundSet>)
    requires major <= MAX_SAFE_INTEGER, minor <= MAX_SAFE_INTEGER, patch <= MAX_SAFE_INTEGER
    ensures shape_ok(r, s2(ge(k4(major as int, minor as int, patch as int, pre_release@)), lt(k4(major as int, minor + 1, 0, pre0()))))
{
 broadcast use group_k_order, group_sets;
 proof { reveal(cut_cmp);
        assert forall|s: Seq<Identifier>| #![trigger s.len()] s.len() == 1 && s[0] == Identifier::Numeric(0) implies s == pre0() by { assert(s =~= pre0()); }
        assert forall|s: Seq<Identifier>| #![trigger s.len()] s.len() == 0 implies s == Seq::<Identifier>::empty() by { assert(s =~= Seq::<Identifier>::empty()); }
 }

    let r = BoundSet::new(
            Bound::Lower(Predicate::Including(Version {
                major,
                minor,
                patch,
                pre_release,
                build: vec![],
            })),
            Bound::Upper(Predicate::Excluding((major, minor + 1, 0, 0).into())),
        );
    proof {
        let cs = s2(ge(k4(major as int, minor as int, patch as int, pre_release@)), lt(k4(major as int, minor + 1, 0, pre0())));
        assert(cs.len() == 2);
        assert(cs[0] == ge(k4(major as int, minor as int, patch as int, pre_release@)));
        assert(lower_cut(cs) == Cut::At(k4(major as int, minor as int, patch as int, pre_release@), false));
        assert(upper_cut(cs) == Cut::At(k4(major as int, minor + 1, 0, pre0()), false));
    }
    r
}
} // verus!
fn main() {}