#!/usr/bin/env python3
import re,sys,os
sys.path.insert(0,'/tmp/probe/proto')
from gen import *

def strip_derive(text, drop=('Hash','Clone','Eq','PartialEq','PartialOrd','Ord')):
    def f(m):
        items=[x.strip() for x in m.group(1).split(',') if x.strip() and x.strip() not in drop]
        return '#[derive('+', '.join(items)+')]' if items else ''
    return re.sub(r'#\[derive\(([^)]*)\)\]',f,text)
def clone_impl(ty):
    return f"""impl Clone for {ty} {{
    #[verifier::external_body]
    fn clone(&self) -> (r: Self) ensures r == *self {{ unimplemented!() }}
}}
"""
def inject(fn_text, sig_ret, contract, proof=''):
    ob=fn_text.index('{')
    head=fn_text[:ob]; body=fn_text[ob:]
    if sig_ret:
        head=re.sub(r'->\s*(.+?)\s*$', lambda m: '-> ('+sig_ret+': '+m.group(1)+')\n', head.rstrip()+' ')
    if proof: body='{\n proof { '+proof+' }\n'+body[1:]
    return head+contract+'\n'+body
def split_or_guard(text):
    pat=re.compile(r'(\n\s*)(\([^\n]*\))\n\s*\| (\([^\n]*\))\n(\s*if [^\n]*=>)\n(\s*\{\n\s*None\n\s*\})')
    return pat.sub(lambda m: f'{m.group(1)}{m.group(2)}\n{m.group(4)}\n{m.group(5)}{m.group(1)}{m.group(3)}\n{m.group(4)}\n{m.group(5)}',text)
L=RNG.split('\n')
def closure_after(src, fn_header_re, marker):
    """lift the closure `|x| match x { ... }` that follows marker inside the named fn; returns match expr text"""
    m=re.search(fn_header_re,src,re.M); ob=src.index('{',m.end()-1); end=match_brace(src,ob); body=src[ob:end]
    i=body.index(marker); j=body.index('match',i); k=body.index('{',j); e=match_brace(body,k)
    return body[j:e]
caret_m=closure_after(RNG,r'^fn caret<','|parsed| match parsed')
partial_m=closure_after(RNG,r'^fn partial<','|partial| match partial')
prim_m=closure_after(RNG,r'^fn primitive<','|parsed| match parsed')
tilde_m=closure_after(RNG,r'^fn tilde<','|parsed| match parsed')
hm=re.search(r'^fn hyphen<',RNG,re.M); hob=RNG.index('{',hm.end()-1); hend=match_brace(RNG,hob); hbody=RNG[hob:hend]
hy_text=hbody[hbody.index('let upper = match upper'):hbody.index('Ok(bounds)')]

out=[]
out.append(open('/tmp/probe/proto/prelude.rs').read())
out.append('use vstd::std_specs::convert::*;\n')
ident=strip_derive(item(LIB,r'^pub enum Identifier')); ver=strip_derive(item(LIB,r'^pub struct Version'))
def pubify(t):
    t=re.sub(r'^(enum|struct) ',r'pub \1 ',t,flags=re.M)
    t=re.sub(r'^(\s+)([a-z_]+): ',r'\1pub \2: ',t,flags=re.M)
    return t
pred=pubify(strip_derive(item(RNG,r'^enum Predicate'))); bound=pubify(strip_derive(item(RNG,r'^enum Bound \{'))); bset=pubify(strip_derive(item(RNG,r'^struct BoundSet')))
partial=pubify(strip_derive(item(RNG,r'^struct Partial')))
opn=pubify(strip_derive(item(RNG,r'^enum Operation')))
out+=[opn.replace('#[derive(Debug, Copy)]','#[derive(Debug, Copy, Clone, PartialEq, Eq)]'),ident,clone_impl('Identifier'),ver,clone_impl('Version'),pred,clone_impl('Predicate'),bound,clone_impl('Bound'),bset,clone_impl('BoundSet'),partial,clone_impl('Partial')]
out.append('pub const MAX_SAFE_INTEGER: u64 = 900_719_925_474_099;\n')
out.append(open('specs_ds.rs').read())
# From impls: expand macro for u64 (R: macro expansion, pattern param rewrite)
mac=item(LIB,r'^macro_rules! impl_from_unsigned_for_version')
i=mac.index('$(', mac.index('=>')); body=mac[i+2:mac.rindex(')+')]
body=body.replace('$t','u64')
body=re.sub(r'fn from\((\([a-z_, ]+\)): (\([a-z0-9, ]+\))\) -> Self \{', lambda m: f'fn from(arg: {m.group(2)}) -> (r: Self)\n ensures FROMENS{len(m.group(1).split(","))}\n {{\n let {m.group(1)} = arg;', body)
body=body.replace('FROMENS3','r.major == arg.0, r.minor == arg.1, r.patch == arg.2, r.build@.len() == 0, r.pre_release@.len() == 0, key(r) == k3(arg.0 as int, arg.1 as int, arg.2 as int)')
body=body.replace('FROMENS4','r.major == arg.0, r.minor == arg.1, r.patch == arg.2, r.build@.len() == 0, r.pre_release@ == seq![Identifier::Numeric(arg.3)], key(r) == k4(arg.0 as int, arg.1 as int, arg.2 as int, seq![Identifier::Numeric(arg.3)])')
out.append('''impl FromSpecImpl<(u64, u64, u64)> for Version { open spec fn obeys_from_spec() -> bool { false } open spec fn from_spec(v: (u64, u64, u64)) -> Self { arbitrary() } }
impl FromSpecImpl<(u64, u64, u64, u64)> for Version { open spec fn obeys_from_spec() -> bool { false } open spec fn from_spec(v: (u64, u64, u64, u64)) -> Self { arbitrary() } }
impl FromSpecImpl<(i32, i32, i32)> for Version { open spec fn obeys_from_spec() -> bool { false } open spec fn from_spec(v: (i32, i32, i32)) -> Self { arbitrary() } }
impl ::std::convert::From<(i32, i32, i32)> for Version {
    #[verifier::external_body]
    fn from(arg: (i32, i32, i32)) -> (r: Self)
        ensures arg.0 >= 0 && arg.1 >= 0 && arg.2 >= 0 ==> r.major == arg.0 && r.minor == arg.1 && r.patch == arg.2 && r.build@.len() == 0 && r.pre_release@.len() == 0 && key(r) == k3(arg.0 as int, arg.1 as int, arg.2 as int)
    { unimplemented!() }
}
''')
out.append(body)
fp=fn_in_impl(RNG,r'^impl From<Partial> for Version \{','from')
out.append('impl FromSpecImpl<Partial> for Version { open spec fn obeys_from_spec() -> bool { false } open spec fn from_spec(v: Partial) -> Self { arbitrary() } }\nimpl From<Partial> for Version {\n'+inject(fp,'r','''    ensures r.major == (match partial.major { Some(x) => x, None => 0 }), r.minor == (match partial.minor { Some(x) => x, None => 0 }), r.patch == (match partial.patch { Some(x) => x, None => 0 }), r.pre_release == partial.pre_release, r.build == partial.build''')+'\n}')
# BoundSet::new & friends with contracts (key-based)
newf='fn new(lower: Bound, upper: Bound) -> Option<Self> { unimplemented!() }'
out.append('impl BoundSet {\n #[verifier::external_body]\n'+inject(newf,'r','''    requires is_lower(lower), is_upper(upper),
    ensures (r is Some) <==> cut_cmp(cut_of(lower), cut_of(upper)) == Ordering::Less,
            r matches Some(bs) ==> *bs.lower == lower && *bs.upper == upper,''','')+'\n'
 +inject(fn_in_impl(RNG,r'^impl BoundSet \{','at_least'),'r','    ensures r matches Some(bs) && *bs.lower == Bound::Lower(p) && *bs.upper == Bound::Upper(Predicate::Unbounded),','reveal(cut_cmp);')+'\n'
 +inject(fn_in_impl(RNG,r'^impl BoundSet \{','at_most'),'r','    ensures r matches Some(bs) && *bs.lower == Bound::Lower(Predicate::Unbounded) && *bs.upper == Bound::Upper(p),','reveal(cut_cmp);')+'\n'
 +inject(fn_in_impl(RNG,r'^impl BoundSet \{','exact'),'r','    ensures r matches Some(bs) && *bs.lower == Bound::Lower(Predicate::Including(version)) && *bs.upper == Bound::Upper(Predicate::Including(version)),','reveal(cut_cmp); lemma_k_refl(key(version));')+'\n}')
bu=fn_in_impl(RNG,r'^impl Bound \{','upper'); bl=fn_in_impl(RNG,r'^impl Bound \{','lower')
out.append('impl Bound {\n'+inject(bu,'r','    ensures r == Bound::Upper(Predicate::Unbounded)')+'\n'+inject(bl,'r','    ensures r == Bound::Lower(Predicate::Unbounded)')+'\n}')
HINT="""{
 broadcast use group_k_order, group_sets;
 proof { reveal(cut_cmp);
        assert forall|s: Seq<Identifier>| #![trigger s.len()] s.len() == 1 && s[0] == Identifier::Numeric(0) implies s == pre0() by { assert(s =~= pre0()); }
        assert forall|s: Seq<Identifier>| #![trigger s.len()] s.len() == 0 implies s == Seq::<Identifier>::empty() by { assert(s =~= Seq::<Identifier>::empty()); }
 }
    """
out.append('fn caret_desugar(parsed: Partial) -> (r: Option<BoundSet>)\n'+open('contract_caret.rs').read()+HINT+caret_m+'\n}\n')
out.append('fn primitive_desugar(parsed: (Operation, Partial)) -> (r: Option<BoundSet>)\n'+open('contract_primitive.rs').read()+HINT+'use Operation::*;\n'+prim_m+'\n}\n')
out.append('fn tilde_desugar(parsed: (Option<&str>, Partial)) -> (r: Option<BoundSet>)\n'+open('contract_tilde.rs').read()+HINT+tilde_m+'\n}\n')
out.append('fn hyphen_desugar(lower: Option<Partial>, upper: Partial) -> (r: Option<BoundSet>)\n'+open('contract_hyphen.rs').read()+HINT+hy_text+'\n bounds\n}\n')
out.append('fn partial_desugar(partial: Partial) -> (r: Option<BoundSet>)\n'+open('contract_partial.rs').read()+HINT+partial_m+'\n}\n')
out.append('} // verus!\nfn main() {}')
open('ds.rs','w').write('\n'.join(out))
