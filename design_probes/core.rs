#![feature(allocator_api)]
#![allow(unused_imports, dead_code, unused_variables, unused_mut)]
use vstd::prelude::*;
use vstd::std_specs::cmp::*;
use std::cmp::{self, Ord, Ordering, PartialOrd};

verus! {

// ===================== trusted std axioms =====================
pub assume_specification<T: ?Sized, A: core::alloc::Allocator>[ <Box<T, A> as AsRef<T>>::as_ref ](b: &Box<T, A>) -> (r: &T)
    ensures r == &**b;

pub assume_specification<T: Ord>[ std::cmp::max ](a: T, b: T) -> (r: T)
    ensures T::obeys_cmp_spec() ==> r == (if a.cmp_spec(&b) == Ordering::Greater { a } else { b });
pub assume_specification<T: Ord>[ std::cmp::min ](a: T, b: T) -> (r: T)
    ensures T::obeys_cmp_spec() ==> r == (if a.cmp_spec(&b) == Ordering::Greater { b } else { a });

pub assume_specification<T: ?Sized + PartialOrd, A: core::alloc::Allocator>[ <Box<T, A> as PartialOrd>::le ](a: &Box<T, A>, b: &Box<T, A>) -> (r: bool)
    ensures T::obeys_partial_cmp_spec() ==> r == (PartialOrdSpec::partial_cmp_spec(&**a, &**b) matches Some(o) && o != Ordering::Greater);
pub assume_specification<T: ?Sized + PartialOrd, A: core::alloc::Allocator>[ <Box<T, A> as PartialOrd>::lt ](a: &Box<T, A>, b: &Box<T, A>) -> (r: bool)
    ensures T::obeys_partial_cmp_spec() ==> r == (PartialOrdSpec::partial_cmp_spec(&**a, &**b) == Some(Ordering::Less));
pub assume_specification<T: ?Sized + PartialEq, A: core::alloc::Allocator>[ <Box<T, A> as PartialEq>::eq ](a: &Box<T, A>, b: &Box<T, A>) -> (r: bool)
    ensures T::obeys_eq_spec() ==> r == PartialEqSpec::eq_spec(&**a, &**b);

// Vec<T>: Ord is lexicographic (std docs)
pub open spec fn vec_lex<T: Ord>(a: Seq<T>, b: Seq<T>) -> Ordering
    decreases a.len()
{
    if a.len() == 0 && b.len() == 0 { Ordering::Equal }
    else if a.len() == 0 { Ordering::Less }
    else if b.len() == 0 { Ordering::Greater }
    else if a[0].cmp_spec(&b[0]) != Ordering::Equal { a[0].cmp_spec(&b[0]) }
    else { vec_lex::<T>(a.drop_first(), b.drop_first()) }
}
pub assume_specification<T: Ord, A: core::alloc::Allocator>[ <Vec<T, A> as Ord>::cmp ](a: &Vec<T, A>, b: &Vec<T, A>) -> (r: Ordering)
    ensures T::obeys_cmp_spec() ==> r == vec_lex::<T>(a@, b@);


#[derive(Debug, PartialEq, Eq, PartialOrd, Ord)]
pub enum Identifier {
    /// An identifier that's solely numbers.
    Numeric(u64),
    /// An identifier with letters and numbers.
    AlphaNumeric(String),
}
impl Clone for Identifier {
    #[verifier::external_body]
    fn clone(&self) -> (r: Self) ensures r == *self { unimplemented!() }
}

#[derive(Debug)]
pub struct Version {
    pub major: u64,
    pub minor: u64,
    pub patch: u64,
    pub build: Vec<Identifier>,
    pub pre_release: Vec<Identifier>,
}
impl Clone for Version {
    #[verifier::external_body]
    fn clone(&self) -> (r: Self) ensures r == *self { unimplemented!() }
}

// ===================== spec: SemVer 2.0.0 section 11 precedence =====================
pub open spec fn flip(o: Ordering) -> Ordering {
    match o { Ordering::Less => Ordering::Greater, Ordering::Equal => Ordering::Equal, Ordering::Greater => Ordering::Less }
}
pub open spec fn int_cmp(a: int, b: int) -> Ordering {
    if a < b { Ordering::Less } else if a == b { Ordering::Equal } else { Ordering::Greater }
}
// Rust: String Ord is lexicographic by bytes == by code points (UTF-8 is order preserving); ASCII order on [0-9A-Za-z-]
pub open spec fn str_cmp(a: Seq<char>, b: Seq<char>) -> Ordering
    decreases a.len()
{
    if a.len() == 0 && b.len() == 0 { Ordering::Equal }
    else if a.len() == 0 { Ordering::Less }
    else if b.len() == 0 { Ordering::Greater }
    else if a[0] != b[0] { int_cmp(a[0] as int, b[0] as int) }
    else { str_cmp(a.drop_first(), b.drop_first()) }
}
pub open spec fn ident_cmp(a: Identifier, b: Identifier) -> Ordering {
    match (a, b) {
        (Identifier::Numeric(x), Identifier::Numeric(y)) => int_cmp(x as int, y as int),
        (Identifier::Numeric(_), Identifier::AlphaNumeric(_)) => Ordering::Less,
        (Identifier::AlphaNumeric(_), Identifier::Numeric(_)) => Ordering::Greater,
        (Identifier::AlphaNumeric(x), Identifier::AlphaNumeric(y)) => str_cmp(x@, y@),
    }
}
pub open spec fn pre_cmp(a: Seq<Identifier>, b: Seq<Identifier>) -> Ordering
    decreases a.len()
{
    if a.len() == 0 && b.len() == 0 { Ordering::Equal }
    else if a.len() == 0 { Ordering::Less }
    else if b.len() == 0 { Ordering::Greater }
    else if ident_cmp(a[0], b[0]) != Ordering::Equal { ident_cmp(a[0], b[0]) }
    else { pre_cmp(a.drop_first(), b.drop_first()) }
}
pub open spec fn ver_cmp(a: Version, b: Version) -> Ordering {
    if a.major != b.major { int_cmp(a.major as int, b.major as int) }
    else if a.minor != b.minor { int_cmp(a.minor as int, b.minor as int) }
    else if a.patch != b.patch { int_cmp(a.patch as int, b.patch as int) }
    else if a.pre_release@.len() == 0 && b.pre_release@.len() == 0 { Ordering::Equal }
    else if a.pre_release@.len() == 0 { Ordering::Greater }
    else if b.pre_release@.len() == 0 { Ordering::Less }
    else { pre_cmp(a.pre_release@, b.pre_release@) }
}
pub open spec fn vlt(a: Version, b: Version) -> bool { ver_cmp(a, b) == Ordering::Less }
pub open spec fn vle(a: Version, b: Version) -> bool { ver_cmp(a, b) != Ordering::Greater }
pub open spec fn veq(a: Version, b: Version) -> bool { ver_cmp(a, b) == Ordering::Equal }

// ---- lemmas: total order ----
pub proof fn lemma_str_refl(a: Seq<char>) ensures str_cmp(a, a) == Ordering::Equal decreases a.len()
{ if a.len() > 0 { lemma_str_refl(a.drop_first()); } }
pub proof fn lemma_str_flip(a: Seq<char>, b: Seq<char>) ensures str_cmp(a, b) == flip(str_cmp(b, a)) decreases a.len()
{ if a.len() > 0 && b.len() > 0 { lemma_str_flip(a.drop_first(), b.drop_first()); } }
pub proof fn lemma_str_eq(a: Seq<char>, b: Seq<char>) ensures (str_cmp(a, b) == Ordering::Equal) <==> a =~= b decreases a.len()
{
    if a.len() > 0 && b.len() > 0 {
        lemma_str_eq(a.drop_first(), b.drop_first());
        assert(a =~= seq![a[0]] + a.drop_first());
        assert(b =~= seq![b[0]] + b.drop_first());
    }
}
pub proof fn lemma_str_trans(a: Seq<char>, b: Seq<char>, c: Seq<char>)
    requires str_cmp(a, b) != Ordering::Greater, str_cmp(b, c) != Ordering::Greater
    ensures str_cmp(a, c) != Ordering::Greater,
            (str_cmp(a, b) == Ordering::Less || str_cmp(b, c) == Ordering::Less) ==> str_cmp(a, c) == Ordering::Less
    decreases a.len()
{
    if a.len() > 0 && b.len() > 0 && c.len() > 0 && a[0] == b[0] && b[0] == c[0] {
        lemma_str_trans(a.drop_first(), b.drop_first(), c.drop_first());
    }
}
pub proof fn lemma_ident_flip(a: Identifier, b: Identifier) ensures ident_cmp(a, b) == flip(ident_cmp(b, a))
{ match (a, b) { (Identifier::AlphaNumeric(x), Identifier::AlphaNumeric(y)) => lemma_str_flip(x@, y@), _ => {} } }
pub proof fn lemma_ident_refl(a: Identifier) ensures ident_cmp(a, a) == Ordering::Equal
{ match a { Identifier::AlphaNumeric(x) => lemma_str_refl(x@), _ => {} } }
pub proof fn lemma_ident_trans(a: Identifier, b: Identifier, c: Identifier)
    requires ident_cmp(a, b) != Ordering::Greater, ident_cmp(b, c) != Ordering::Greater
    ensures ident_cmp(a, c) != Ordering::Greater,
            (ident_cmp(a, b) == Ordering::Less || ident_cmp(b, c) == Ordering::Less) ==> ident_cmp(a, c) == Ordering::Less
{
    match (a, b, c) {
        (Identifier::AlphaNumeric(x), Identifier::AlphaNumeric(y), Identifier::AlphaNumeric(z)) => lemma_str_trans(x@, y@, z@),
        _ => {}
    }
}
pub proof fn lemma_pre_refl(a: Seq<Identifier>) ensures pre_cmp(a, a) == Ordering::Equal decreases a.len()
{ if a.len() > 0 { lemma_ident_refl(a[0]); lemma_pre_refl(a.drop_first()); } }
pub proof fn lemma_pre_flip(a: Seq<Identifier>, b: Seq<Identifier>) ensures pre_cmp(a, b) == flip(pre_cmp(b, a)) decreases a.len()
{ if a.len() > 0 && b.len() > 0 { lemma_ident_flip(a[0], b[0]); lemma_pre_flip(a.drop_first(), b.drop_first()); } }
pub proof fn lemma_pre_trans(a: Seq<Identifier>, b: Seq<Identifier>, c: Seq<Identifier>)
    requires pre_cmp(a, b) != Ordering::Greater, pre_cmp(b, c) != Ordering::Greater
    ensures pre_cmp(a, c) != Ordering::Greater,
            (pre_cmp(a, b) == Ordering::Less || pre_cmp(b, c) == Ordering::Less) ==> pre_cmp(a, c) == Ordering::Less
    decreases a.len()
{
    if a.len() > 0 && b.len() > 0 && c.len() > 0 {
        lemma_ident_trans(a[0], b[0], c[0]);
        lemma_ident_flip(a[0], b[0]); lemma_ident_flip(b[0], c[0]); lemma_ident_flip(a[0], c[0]);
        if ident_cmp(a[0], b[0]) == Ordering::Equal && ident_cmp(b[0], c[0]) == Ordering::Equal {
            lemma_pre_trans(a.drop_first(), b.drop_first(), c.drop_first());
        } else {
            if ident_cmp(a[0], b[0]) == Ordering::Equal { lemma_ident_trans(b[0], a[0], c[0]); }
            if ident_cmp(b[0], c[0]) == Ordering::Equal { lemma_ident_trans(a[0], c[0], b[0]); }
        }
    }
}

pub broadcast proof fn lemma_ver_refl(a: Version) ensures #[trigger] ver_cmp(a, a) == Ordering::Equal
{ lemma_pre_refl(a.pre_release@); }
pub broadcast proof fn lemma_ver_flip(a: Version, b: Version) ensures #[trigger] ver_cmp(a, b) == flip(ver_cmp(b, a))
{ lemma_pre_flip(a.pre_release@, b.pre_release@); }
pub broadcast proof fn lemma_ver_trans(a: Version, b: Version, c: Version)
    requires #[trigger] ver_cmp(a, b) != Ordering::Greater, #[trigger] ver_cmp(b, c) != Ordering::Greater
    ensures ver_cmp(a, c) != Ordering::Greater,
            (ver_cmp(a, b) == Ordering::Less || ver_cmp(b, c) == Ordering::Less) ==> ver_cmp(a, c) == Ordering::Less
{
    if a.pre_release@.len() > 0 && b.pre_release@.len() > 0 && c.pre_release@.len() > 0 {
        if a.major == b.major && b.major == c.major && a.minor == b.minor && b.minor == c.minor && a.patch == b.patch && b.patch == c.patch {
            lemma_pre_trans(a.pre_release@, b.pre_release@, c.pre_release@);
        }
    }
}
pub broadcast group group_ver_order { lemma_ver_refl, lemma_ver_flip, lemma_ver_trans }


// derived PartialEq/Ord on Identifier: variant order as declared, then payload (trusted derive semantics)
impl PartialEqSpecImpl for Identifier {
    open spec fn obeys_eq_spec() -> bool { true }
    open spec fn eq_spec(&self, other: &Self) -> bool { ident_cmp(*self, *other) == Ordering::Equal }
}
impl PartialOrdSpecImpl for Identifier {
    open spec fn obeys_partial_cmp_spec() -> bool { true }
    open spec fn partial_cmp_spec(&self, other: &Self) -> Option<Ordering> { Some(ident_cmp(*self, *other)) }
}
impl OrdSpecImpl for Identifier {
    open spec fn obeys_cmp_spec() -> bool { true }
    open spec fn cmp_spec(&self, other: &Self) -> Ordering { ident_cmp(*self, *other) }
}
impl PartialEqSpecImpl for Version {
    open spec fn obeys_eq_spec() -> bool { true }
    open spec fn eq_spec(&self, other: &Self) -> bool { ver_cmp(*self, *other) == Ordering::Equal }
}
impl PartialOrdSpecImpl for Version {
    open spec fn obeys_partial_cmp_spec() -> bool { true }
    open spec fn partial_cmp_spec(&self, other: &Self) -> Option<Ordering> { Some(ver_cmp(*self, *other)) }
}
impl OrdSpecImpl for Version {
    open spec fn obeys_cmp_spec() -> bool { true }
    open spec fn cmp_spec(&self, other: &Self) -> Ordering { ver_cmp(*self, *other) }
}
pub proof fn lemma_vec_lex_is_pre_cmp(a: Seq<Identifier>, b: Seq<Identifier>)
    ensures vec_lex::<Identifier>(a, b) == pre_cmp(a, b) decreases a.len()
{ if a.len() > 0 && b.len() > 0 { lemma_vec_lex_is_pre_cmp(a.drop_first(), b.drop_first()); } }
pub proof fn lemma_pre_eq(a: Seq<Identifier>, b: Seq<Identifier>)
    ensures (pre_cmp(a, b) == Ordering::Equal) <==> (a.len() == b.len() && forall|i: int| 0 <= i < a.len() ==> ident_cmp(#[trigger] a[i], b[i]) == Ordering::Equal)
    decreases a.len()
{
    if a.len() > 0 && b.len() > 0 {
        lemma_pre_eq(a.drop_first(), b.drop_first());
        if pre_cmp(a, b) == Ordering::Equal {
            assert forall|i: int| 0 <= i < a.len() implies ident_cmp(#[trigger] a[i], b[i]) == Ordering::Equal by {
                if i > 0 { assert(a[i] == a.drop_first()[i-1]); assert(b[i] == b.drop_first()[i-1]); }
            }
        } else if a.len() == b.len() && ident_cmp(a[0], b[0]) == Ordering::Equal {
            // some later index differs
            assert(!(forall|i: int| 0 <= i < a.drop_first().len() ==> ident_cmp(#[trigger] a.drop_first()[i], b.drop_first()[i]) == Ordering::Equal));
            let j = choose|j: int| 0 <= j < a.drop_first().len() && ident_cmp(a.drop_first()[j], b.drop_first()[j]) != Ordering::Equal;
            assert(a[j+1] == a.drop_first()[j]); assert(b[j+1] == b.drop_first()[j]);
        }
    }
}

impl Eq for Version {}
impl PartialEq for Version {
    fn eq(&self, other: &Self) -> bool 
{
 proof { lemma_pre_eq(self.pre_release@, other.pre_release@); }

        self.major == other.major
            && self.minor == other.minor
            && self.patch == other.patch
            && self.pre_release == other.pre_release
    }
}
impl cmp::PartialOrd for Version {
    fn partial_cmp(&self, other: &Version) -> Option<Ordering> {
        Some(self.cmp(other))
    }
}
impl cmp::Ord for Version {
    fn cmp(&self, other: &Version) -> cmp::Ordering 
{
 proof { lemma_vec_lex_is_pre_cmp(self.pre_release@, other.pre_release@); }

        match self.major.cmp(&other.major) {
            Ordering::Equal => {}
            //if difference in major version, just return result
            order_result => return order_result,
        }

        match self.minor.cmp(&other.minor) {
            Ordering::Equal => {}
            //if difference in minor version, just return result
            order_result => return order_result,
        }

        match self.patch.cmp(&other.patch) {
            Ordering::Equal => {}
            //if difference in patch version, just return result
            order_result => return order_result,
        }

        match (self.pre_release.len(), other.pre_release.len()) {
            //if no pre_release string, they're equal
            (0, 0) => Ordering::Equal,
            //if other has a pre-release string, but this doesn't, this one is greater
            (0, _) => Ordering::Greater,
            //if this one has a pre-release string, but other doesn't this one is less than
            (_, 0) => Ordering::Less,
            // if both have pre_release strings, compare the strings and return the result
            (_, _) => self.pre_release.cmp(&other.pre_release),
        }
    }
}
impl Version {
    pub fn is_prerelease(&self) -> (r: bool)
    ensures r == (self.pre_release@.len() > 0)
{
        !self.pre_release.is_empty()
    }
}
#[derive(Debug, Eq, PartialEq)]
pub enum Predicate {
    Excluding(Version), // < and >
    Including(Version), // <= and >=
    Unbounded,          // *
}
impl Clone for Predicate {
    #[verifier::external_body]
    fn clone(&self) -> (r: Self) ensures r == *self { unimplemented!() }
}

#[derive(Debug, Eq, PartialEq)]
pub enum Bound {
    Lower(Predicate),
    Upper(Predicate),
}
impl Clone for Bound {
    #[verifier::external_body]
    fn clone(&self) -> (r: Self) ensures r == *self { unimplemented!() }
}

#[derive(Debug, Eq, PartialEq)]
pub struct BoundSet {
    pub upper: Box<Bound>,
    pub lower: Box<Bound>,
}
impl Clone for BoundSet {
    #[verifier::external_body]
    fn clone(&self) -> (r: Self) ensures r == *self { unimplemented!() }
}

// ===================== spec: bounds as cuts in the version order =====================
pub enum Cut { NegInf, At(Version, bool), PosInf }   // At(v, after): false = just before v, true = just after v

pub open spec fn cut_of(b: Bound) -> Cut {
    match b {
        Bound::Lower(Predicate::Unbounded) => Cut::NegInf,
        Bound::Upper(Predicate::Unbounded) => Cut::PosInf,
        Bound::Lower(Predicate::Including(v)) => Cut::At(v, false),
        Bound::Lower(Predicate::Excluding(v)) => Cut::At(v, true),
        Bound::Upper(Predicate::Including(v)) => Cut::At(v, true),
        Bound::Upper(Predicate::Excluding(v)) => Cut::At(v, false),
    }
}
#[verifier::opaque]
pub open spec fn cut_cmp(a: Cut, b: Cut) -> Ordering {
    match (a, b) {
        (Cut::NegInf, Cut::NegInf) => Ordering::Equal,
        (Cut::PosInf, Cut::PosInf) => Ordering::Equal,
        (Cut::NegInf, _) => Ordering::Less,
        (_, Cut::PosInf) => Ordering::Less,
        (Cut::PosInf, _) => Ordering::Greater,
        (_, Cut::NegInf) => Ordering::Greater,
        (Cut::At(v, s), Cut::At(w, t)) =>
            if ver_cmp(v, w) != Ordering::Equal { ver_cmp(v, w) }
            else if s == t { Ordering::Equal } else if !s { Ordering::Less } else { Ordering::Greater },
    }
}
pub open spec fn is_lower(b: Bound) -> bool { b is Lower }
pub open spec fn is_upper(b: Bound) -> bool { b is Upper }

/// canonical total order on bounds: by cut; at equal cuts an Upper sorts before a Lower
pub open spec fn bound_cmp(a: Bound, b: Bound) -> Ordering {
    let c = cut_cmp(cut_of(a), cut_of(b));
    if c != Ordering::Equal { c }
    else if is_lower(a) == is_lower(b) { Ordering::Equal }
    else if is_upper(a) { Ordering::Less } else { Ordering::Greater }
}
/// v lies above the cut / below the cut
pub open spec fn above(c: Cut, v: Version) -> bool {
    match c { Cut::NegInf => true, Cut::PosInf => false, Cut::At(w, after) => if after { vlt(w, v) } else { vle(w, v) } }
}
pub open spec fn below(c: Cut, v: Version) -> bool {
    match c { Cut::PosInf => true, Cut::NegInf => false, Cut::At(w, after) => if after { vle(v, w) } else { vlt(v, w) } }
}
pub open spec fn bs_wf(bs: BoundSet) -> bool {
    is_lower(*bs.lower) && is_upper(*bs.upper) && cut_cmp(cut_of(*bs.lower), cut_of(*bs.upper)) == Ordering::Less
}
pub open spec fn within(bs: BoundSet, v: Version) -> bool {
    above(cut_of(*bs.lower), v) && below(cut_of(*bs.upper), v)
}
pub open spec fn same_tuple(a: Version, b: Version) -> bool { a.major == b.major && a.minor == b.minor && a.patch == b.patch }
pub open spec fn bound_version(b: Bound) -> Option<Version> {
    match b {
        Bound::Lower(Predicate::Including(v)) | Bound::Lower(Predicate::Excluding(v))
        | Bound::Upper(Predicate::Including(v)) | Bound::Upper(Predicate::Excluding(v)) => Some(v),
        _ => None,
    }
}
pub open spec fn optin(b: Bound, v: Version) -> bool {
    bound_version(b) matches Some(w) && w.pre_release@.len() > 0 && same_tuple(w, v)
}
/// npm: a prerelease only satisfies a comparator set if some comparator carries a prerelease on the same tuple
pub open spec fn gate(bs: BoundSet, v: Version) -> bool {
    v.pre_release@.len() == 0 || optin(*bs.lower, v) || optin(*bs.upper, v)
}
pub open spec fn sat(bs: BoundSet, v: Version) -> bool { within(bs, v) && gate(bs, v) }

// derived PartialEq on Predicate / Bound / BoundSet: structural, with Version::eq at the leaves (trusted derive semantics)
pub open spec fn pred_eq(a: Predicate, b: Predicate) -> bool {
    match (a, b) {
        (Predicate::Excluding(v), Predicate::Excluding(w)) => veq(v, w),
        (Predicate::Including(v), Predicate::Including(w)) => veq(v, w),
        (Predicate::Unbounded, Predicate::Unbounded) => true,
        _ => false,
    }
}
pub open spec fn bound_eq(a: Bound, b: Bound) -> bool {
    match (a, b) {
        (Bound::Lower(p), Bound::Lower(q)) => pred_eq(p, q),
        (Bound::Upper(p), Bound::Upper(q)) => pred_eq(p, q),
        _ => false,
    }
}

// ---- lemmas about cuts ----
pub proof fn lemma_cut_mono_above(c: Cut, d: Cut, v: Version)
    requires cut_cmp(c, d) != Ordering::Greater, above(d, v)
    ensures above(c, v)
{ reveal(cut_cmp); broadcast use group_ver_order; }
pub proof fn lemma_cut_mono_below(c: Cut, d: Cut, v: Version)
    requires cut_cmp(c, d) != Ordering::Greater, below(c, v)
    ensures below(d, v)
{ reveal(cut_cmp); broadcast use group_ver_order; }
pub proof fn lemma_cut_between(c: Cut, d: Cut, v: Version)
    requires above(c, v), below(d, v)
    ensures cut_cmp(c, d) == Ordering::Less
{ reveal(cut_cmp); broadcast use group_ver_order; }
/// v is either below or above any cut, never both
pub proof fn lemma_cut_side(c: Cut, v: Version)
    ensures above(c, v) != below(c, v)
{ broadcast use group_ver_order; }
pub proof fn lemma_cut_refl(c: Cut) ensures cut_cmp(c, c) == Ordering::Equal
{ reveal(cut_cmp); broadcast use group_ver_order; }
pub proof fn lemma_cut_total(c: Cut, d: Cut)
    ensures cut_cmp(c, d) == flip(cut_cmp(d, c))
{ reveal(cut_cmp); broadcast use group_ver_order; }
pub proof fn lemma_cut_trans(c: Cut, d: Cut, e: Cut)
    ensures (cut_cmp(c, d) != Ordering::Greater && cut_cmp(d, e) != Ordering::Greater) ==> cut_cmp(c, e) != Ordering::Greater,
        (cut_cmp(c, d) != Ordering::Greater && cut_cmp(d, e) != Ordering::Greater && (cut_cmp(c, d) == Ordering::Less || cut_cmp(d, e) == Ordering::Less)) ==> cut_cmp(c, e) == Ordering::Less,
        (cut_cmp(c, d) == Ordering::Equal && cut_cmp(d, e) == Ordering::Equal) ==> cut_cmp(c, e) == Ordering::Equal,
{ reveal(cut_cmp); broadcast use group_ver_order; }
pub proof fn lemma_cut_eq_congr(c: Cut, d: Cut, e: Cut)
    requires cut_cmp(c, d) == Ordering::Equal
    ensures cut_cmp(c, e) == cut_cmp(d, e), cut_cmp(e, c) == cut_cmp(e, d)
{ reveal(cut_cmp); broadcast use group_ver_order; }
pub proof fn lemma_cut_inf(c: Cut)
    ensures cut_cmp(c, Cut::NegInf) != Ordering::Less, cut_cmp(Cut::PosInf, c) != Ordering::Less,
            (c != Cut::NegInf) ==> cut_cmp(Cut::NegInf, c) == Ordering::Less, (c != Cut::PosInf) ==> cut_cmp(c, Cut::PosInf) == Ordering::Less
{ reveal(cut_cmp); }
/// all order facts among four cuts
pub proof fn lemma_cut4(a: Cut, b: Cut, c: Cut, d: Cut)
    ensures
        cut_cmp(a, a) == Ordering::Equal, cut_cmp(b, b) == Ordering::Equal, cut_cmp(c, c) == Ordering::Equal, cut_cmp(d, d) == Ordering::Equal,
        cut_cmp(a, b) == flip(cut_cmp(b, a)), cut_cmp(a, c) == flip(cut_cmp(c, a)), cut_cmp(a, d) == flip(cut_cmp(d, a)),
        cut_cmp(b, c) == flip(cut_cmp(c, b)), cut_cmp(b, d) == flip(cut_cmp(d, b)), cut_cmp(c, d) == flip(cut_cmp(d, c)),
        forall|x: Cut, y: Cut, z: Cut| #![trigger cut_cmp(x, y), cut_cmp(y, z)]
            (x == a || x == b || x == c || x == d) && (y == a || y == b || y == c || y == d) && (z == a || z == b || z == c || z == d) ==> {
                &&& (cut_cmp(x, y) != Ordering::Greater && cut_cmp(y, z) != Ordering::Greater) ==> cut_cmp(x, z) != Ordering::Greater
                &&& (cut_cmp(x, y) != Ordering::Greater && cut_cmp(y, z) != Ordering::Greater && (cut_cmp(x, y) == Ordering::Less || cut_cmp(y, z) == Ordering::Less)) ==> cut_cmp(x, z) == Ordering::Less
            },
{
    lemma_cut_refl(a); lemma_cut_refl(b); lemma_cut_refl(c); lemma_cut_refl(d);
    lemma_cut_total(a, b); lemma_cut_total(a, c); lemma_cut_total(a, d); lemma_cut_total(b, c); lemma_cut_total(b, d); lemma_cut_total(c, d);
    assert forall|x: Cut, y: Cut, z: Cut| #![trigger cut_cmp(x, y), cut_cmp(y, z)]
            (x == a || x == b || x == c || x == d) && (y == a || y == b || y == c || y == d) && (z == a || z == b || z == c || z == d) implies {
                &&& (cut_cmp(x, y) != Ordering::Greater && cut_cmp(y, z) != Ordering::Greater) ==> cut_cmp(x, z) != Ordering::Greater
                &&& (cut_cmp(x, y) != Ordering::Greater && cut_cmp(y, z) != Ordering::Greater && (cut_cmp(x, y) == Ordering::Less || cut_cmp(y, z) == Ordering::Less)) ==> cut_cmp(x, z) == Ordering::Less
            } by { lemma_cut_trans(x, y, z); }
}
/// derived equality of bounds implies equal cuts and same kind
pub proof fn lemma_bound_eq_cut(a: Bound, b: Bound)
    ensures bound_eq(a, b) <==> (cut_cmp(cut_of(a), cut_of(b)) == Ordering::Equal && is_lower(a) == is_lower(b))
{ reveal(cut_cmp); broadcast use group_ver_order; }

impl PartialEqSpecImpl for Predicate {
    open spec fn obeys_eq_spec() -> bool { true }
    open spec fn eq_spec(&self, other: &Self) -> bool { pred_eq(*self, *other) }
}
impl PartialEqSpecImpl for Bound {
    open spec fn obeys_eq_spec() -> bool { true }
    open spec fn eq_spec(&self, other: &Self) -> bool { bound_eq(*self, *other) }
}
impl PartialEqSpecImpl for BoundSet {
    open spec fn obeys_eq_spec() -> bool { true }
    open spec fn eq_spec(&self, other: &Self) -> bool { bound_eq(*self.upper, *other.upper) && bound_eq(*self.lower, *other.lower) }
}
impl PartialOrdSpecImpl for Bound {
    open spec fn obeys_partial_cmp_spec() -> bool { true }
    open spec fn partial_cmp_spec(&self, other: &Self) -> Option<Ordering> { Some(bound_cmp(*self, *other)) }
}
impl OrdSpecImpl for Bound {
    open spec fn obeys_cmp_spec() -> bool { true }
    open spec fn cmp_spec(&self, other: &Self) -> Ordering { bound_cmp(*self, *other) }
}

impl Predicate {
    fn flip(self) -> (r: Self)
    ensures r == (match self { Predicate::Excluding(v) => Predicate::Including(v), Predicate::Including(v) => Predicate::Excluding(v), Predicate::Unbounded => Predicate::Unbounded })
{
        use Predicate::*;
        match self {
            Excluding(v) => Including(v),
            Including(v) => Excluding(v),
            Unbounded => Unbounded,
        }
    }
}
impl Bound {
    fn upper() -> (r: Self)
    ensures r == Bound::Upper(Predicate::Unbounded)
{
        Bound::Upper(Predicate::Unbounded)
    }

    fn lower() -> (r: Self)
    ensures r == Bound::Lower(Predicate::Unbounded)
{
        Bound::Lower(Predicate::Unbounded)
    }

    fn predicate(self) -> (r: Predicate)
    ensures r == (match self { Bound::Lower(p) => p, Bound::Upper(p) => p })
{
        use Bound::*;

        match self {
            Lower(p) => p,
            Upper(p) => p,
        }
    }
}
impl Ord for Bound {
    fn cmp(&self, other: &Self) -> Ordering 
{
 proof { reveal(cut_cmp); broadcast use group_ver_order; }

        use Bound::*;
        use Predicate::*;

        match (self, other) {
            (Lower(Unbounded), Lower(Unbounded)) | (Upper(Unbounded), Upper(Unbounded)) => {
                Ordering::Equal
            }
            (Upper(Unbounded), _) | (_, Lower(Unbounded)) => Ordering::Greater,
            (Lower(Unbounded), _) | (_, Upper(Unbounded)) => Ordering::Less,

            (Upper(Including(v1)), Upper(Including(v2)))
            | (Upper(Excluding(v1)), Upper(Excluding(v2)))
            | (Lower(Including(v1)), Lower(Including(v2)))
            | (Lower(Excluding(v1)), Lower(Excluding(v2))) => v1.cmp(v2),

            (Lower(Excluding(v1)), Upper(Excluding(v2)))
            | (Lower(Including(v1)), Upper(Excluding(v2)))
            | (Lower(Excluding(v1)), Upper(Including(v2)))
            | (Lower(Excluding(v1)), Lower(Including(v2)))
            | (Upper(Including(v1)), Upper(Excluding(v2)))
            | (Upper(Including(v1)), Lower(Including(v2))) => {
                if v1 < v2 {
                    Ordering::Less
                } else {
                    Ordering::Greater
                }
            }
            (Upper(Including(v1)), Lower(Excluding(v2)))
            | (Upper(Excluding(v1)), Lower(Excluding(v2)))
            | (Lower(Including(v1)), Upper(Including(v2)))
            | (Lower(Including(v1)), Lower(Excluding(v2)))
            | (Upper(Excluding(v1)), Lower(Including(v2)))
            | (Upper(Excluding(v1)), Upper(Including(v2))) => {
                if v1 <= v2 {
                    Ordering::Less
                } else {
                    Ordering::Greater
                }
            }
        }
    }
}
impl PartialOrd for Bound {
    fn partial_cmp(&self, other: &Self) -> Option<Ordering> {
        Some(self.cmp(other))
    }
}
impl BoundSet {
    fn new(lower: Bound, upper: Bound) -> (r: Option<Self>)
    requires is_lower(lower), is_upper(upper),
    ensures (r is Some) <==> cut_cmp(cut_of(lower), cut_of(upper)) == Ordering::Less,
            r matches Some(bs) ==> *bs.lower == lower && *bs.upper == upper,
{
 proof { reveal(cut_cmp); broadcast use group_ver_order; }

        use Bound::*;
        use Predicate::*;

        match (lower, upper) {
            (Lower(Excluding(v1)), Upper(Including(v2)))
                if v1 == v2 =>
            {
                None
            }
            (Lower(Including(v1)), Upper(Excluding(v2)))
                if v1 == v2 =>
            {
                None
            }
            (Lower(Including(v1)), Upper(Including(v2))) if v1 == v2 => Some(Self {
                lower: Box::new(Lower(Including(v1))),
                upper: Box::new(Upper(Including(v2))),
            }),
            (lower, upper) if lower < upper => Some(Self {
                lower: Box::new(lower),
                upper: Box::new(upper),
            }),
            _ => None,
        }
    }


    fn at_least(p: Predicate) -> (r: Option<Self>)
    ensures r matches Some(bs) && *bs.lower == Bound::Lower(p) && *bs.upper == Bound::Upper(Predicate::Unbounded),
{
 proof { reveal(cut_cmp); }

        BoundSet::new(Bound::Lower(p), Bound::upper())
    }


    fn at_most(p: Predicate) -> (r: Option<Self>)
    ensures r matches Some(bs) && *bs.lower == Bound::Lower(Predicate::Unbounded) && *bs.upper == Bound::Upper(p),
{
 proof { reveal(cut_cmp); }

        BoundSet::new(Bound::lower(), Bound::Upper(p))
    }


    fn exact(version: Version) -> (r: Option<Self>)
    ensures r matches Some(bs) && *bs.lower == Bound::Lower(Predicate::Including(version)) && *bs.upper == Bound::Upper(Predicate::Including(version)),
{
 proof { reveal(cut_cmp); broadcast use group_ver_order; }

        BoundSet::new(
            Bound::Lower(Predicate::Including(version.clone())),
            Bound::Upper(Predicate::Including(version)),
        )
    }


    fn satisfies(&self, version: &Version) -> (r: bool)
    requires bs_wf(*self),
    ensures r == sat(*self, *version),
{
 proof { broadcast use group_ver_order; }

        use Bound::*;
        use Predicate::*;

        let lower_bound = match &self.lower.as_ref() {
            Lower(Including(lower)) => lower <= version,
            Lower(Excluding(lower)) => lower < version,
            Lower(Unbounded) => true,
            _ => unreachable!(
                "There should not have been an upper bound: {:#?}",
                self.lower
            ),
        };

        let upper_bound = match &self.upper.as_ref() {
            Upper(Including(upper)) => version <= upper,
            Upper(Excluding(upper)) => version < upper,
            Upper(Unbounded) => true,
            _ => unreachable!(
                "There should not have been an lower bound: {:#?}",
                self.lower
            ),
        };

        if !lower_bound || !upper_bound {
            return false;
        }

        if version.is_prerelease() {
            let lower_version = match &self.lower.as_ref() {
                Lower(Including(v)) => Some(v),
                Lower(Excluding(v)) => Some(v),
                _ => None,
            };
            if let Some(lower_version) = lower_version {
                if lower_version.is_prerelease()
                    && version.major == lower_version.major
                    && version.minor == lower_version.minor
                    && version.patch == lower_version.patch
                {
                    return true;
                }
            }

            let upper_version = match &self.upper.as_ref() {
                Upper(Including(v)) => Some(v),
                Upper(Excluding(v)) => Some(v),
                _ => None,
            };
            if let Some(upper_version) = upper_version {
                if upper_version.is_prerelease()
                    && version.major == upper_version.major
                    && version.minor == upper_version.minor
                    && version.patch == upper_version.patch
                {
                    return true;
                }
            }

            return false;
        }

        true
    }


    fn allows_all(&self, other: &BoundSet) -> (r: bool)
    requires bs_wf(*self), bs_wf(*other),
    ensures r == (cut_cmp(cut_of(*self.lower), cut_of(*other.lower)) != Ordering::Greater && cut_cmp(cut_of(*other.upper), cut_of(*self.upper)) != Ordering::Greater),
            r ==> forall|v: Version| within(*other, v) ==> within(*self, v),
{
 proof { broadcast use group_ver_order;
        assert forall|v: Version| (cut_cmp(cut_of(*self.lower), cut_of(*other.lower)) != Ordering::Greater && cut_cmp(cut_of(*other.upper), cut_of(*self.upper)) != Ordering::Greater) && within(*other, v) implies within(*self, v) by {
            lemma_cut_mono_above(cut_of(*self.lower), cut_of(*other.lower), v);
            lemma_cut_mono_below(cut_of(*other.upper), cut_of(*self.upper), v);
        } }

        self.lower < other.lower && other.upper <= self.upper
    }


    fn allows_any(&self, other: &BoundSet) -> (r: bool)
    requires bs_wf(*self), bs_wf(*other),
    ensures r == (cut_cmp(cut_of(*self.lower), cut_of(*other.upper)) == Ordering::Less && cut_cmp(cut_of(*other.lower), cut_of(*self.upper)) == Ordering::Less),
            !r ==> forall|v: Version| !(within(*self, v) && within(*other, v)),
{
 proof { broadcast use group_ver_order;
        assert forall|v: Version| within(*self, v) && within(*other, v) implies (cut_cmp(cut_of(*self.lower), cut_of(*other.upper)) == Ordering::Less && cut_cmp(cut_of(*other.lower), cut_of(*self.upper)) == Ordering::Less) by {
            lemma_cut_between(cut_of(*self.lower), cut_of(*other.upper), v);
            lemma_cut_between(cut_of(*other.lower), cut_of(*self.upper), v);
        }
        lemma_cut_total(cut_of(*other.upper), cut_of(*self.lower));
        lemma_cut_total(cut_of(*self.upper), cut_of(*other.lower)); }

        if other.upper < self.lower {
            return false;
        }

        if self.upper < other.lower {
            return false;
        }

        true
    }


    fn intersect(&self, other: &Self) -> (r: Option<Self>)
    requires bs_wf(*self), bs_wf(*other),
    ensures (r is Some) <==> (cut_cmp(cut_of(*self.lower), cut_of(*other.upper)) == Ordering::Less && cut_cmp(cut_of(*other.lower), cut_of(*self.upper)) == Ordering::Less),
            r matches Some(b) ==> bs_wf(b)
                && *b.lower == (if bound_cmp(*self.lower, *other.lower) == Ordering::Greater { *self.lower } else { *other.lower })
                && *b.upper == (if bound_cmp(*self.upper, *other.upper) == Ordering::Greater { *other.upper } else { *self.upper }),
            r matches Some(b) ==> forall|v: Version| #![trigger within(b, v)] (within(b, v) <==> (within(*self, v) && within(*other, v))),
            r is None ==> forall|v: Version| #![trigger within(*self, v), within(*other, v)] !(within(*self, v) && within(*other, v)),
{
 proof { 
        let cl = cut_of(*self.lower); let cu = cut_of(*self.upper); let ol = cut_of(*other.lower); let ou = cut_of(*other.upper);
        lemma_cut4(cl, cu, ol, ou);
        assert forall|v: Version| #![trigger within(*self, v), within(*other, v)] within(*self, v) && within(*other, v) implies cut_cmp(cl, ou) == Ordering::Less && cut_cmp(ol, cu) == Ordering::Less by {
            lemma_cut_between(cl, ou, v); lemma_cut_between(ol, cu, v);
        }
        assert forall|v: Version| #![trigger above(cl, v), above(ol, v)] (above(cl, v) && above(ol, v)) <==> above(if cut_cmp(cl, ol) == Ordering::Greater { cl } else { ol }, v) by {
            if cut_cmp(cl, ol) == Ordering::Greater { if above(cl, v) { lemma_cut_mono_above(ol, cl, v); } } else { if above(ol, v) { lemma_cut_mono_above(cl, ol, v); } }
        }
        assert forall|v: Version| #![trigger below(cu, v), below(ou, v)] (below(cu, v) && below(ou, v)) <==> below(if cut_cmp(cu, ou) == Ordering::Greater { ou } else { cu }, v) by {
            if cut_cmp(cu, ou) == Ordering::Greater { if below(ou, v) { lemma_cut_mono_below(ou, cu, v); } } else { if below(cu, v) { lemma_cut_mono_below(cu, ou, v); } }
        }
 }

        let lower: &Bound = std::cmp::max(&self.lower, &other.lower);
        let upper: &Bound = std::cmp::min(&self.upper, &other.upper);

        BoundSet::new(lower.clone(), upper.clone())
    }


    fn difference(&self, other: &Self) -> (r: Option<Vec<Self>>)
    requires bs_wf(*self), bs_wf(*other),
    ensures ({
        let cl = cut_of(*self.lower); let cu = cut_of(*self.upper); let ol = cut_of(*other.lower); let ou = cut_of(*other.upper);
        let overlap = cut_cmp(cl, ou) == Ordering::Less && cut_cmp(ol, cu) == Ordering::Less;
        let left = cut_cmp(cl, ol) == Ordering::Less;
        let right = cut_cmp(ou, cu) == Ordering::Less;
        &&& (r is None) <==> (overlap && !left && !right)
        &&& r matches Some(vs) ==> {
            &&& forall|k: int| 0 <= k < vs@.len() ==> bs_wf(#[trigger] vs@[k])
            &&& !overlap ==> vs@.len() == 1 && vs@[0] == *self
            &&& overlap && left && right ==> vs@.len() == 2 && cut_of(*vs@[0].lower) == cl && cut_of(*vs@[0].upper) == ol && cut_of(*vs@[1].lower) == ou && cut_of(*vs@[1].upper) == cu
            &&& overlap && left && !right ==> vs@.len() == 1 && cut_of(*vs@[0].lower) == cl && cut_of(*vs@[0].upper) == ol
            &&& overlap && !left && right ==> vs@.len() == 1 && cut_of(*vs@[0].lower) == ou && cut_of(*vs@[0].upper) == cu
        }
    }),
{
 proof { lemma_cut4(cut_of(*self.lower), cut_of(*self.upper), cut_of(*other.lower), cut_of(*other.upper));
        lemma_cut_inf(cut_of(*self.lower)); lemma_cut_inf(cut_of(*self.upper)); lemma_cut_inf(cut_of(*other.lower)); lemma_cut_inf(cut_of(*other.upper));
        assert forall|a: Bound, b: Bound| #![trigger bound_eq(a, b)] bound_eq(a, b) <==> (cut_cmp(cut_of(a), cut_of(b)) == Ordering::Equal && is_lower(a) == is_lower(b)) by { lemma_bound_eq_cut(a, b); }
 }

        use Bound::*;

        if let Some(overlap) = self.intersect(other) {
            if &overlap == self {
                return None;
            }

            if self.lower < overlap.lower && overlap.upper < self.upper {
                return Some(vec![
                    BoundSet::new(*self.lower.clone(), Upper(overlap.lower.predicate().flip()))
                        .unwrap(),
                    BoundSet::new(Lower(overlap.upper.predicate().flip()), *self.upper.clone())
                        .unwrap(),
                ]);
            }

            if self.lower < overlap.lower {
                return BoundSet::new(*self.lower.clone(), Upper(overlap.lower.predicate().flip()))
                    .map(|f: BoundSet| -> (rr: Vec<BoundSet>) ensures rr@.len() == 1 && rr@[0] == f { vec![f] });
            }

            BoundSet::new(Lower(overlap.upper.predicate().flip()), *self.upper.clone())
                .map(|f: BoundSet| -> (rr: Vec<BoundSet>) ensures rr@.len() == 1 && rr@[0] == f { vec![f] })
        } else {
            Some(vec![self.clone()])
        }
    }
}
} // verus!
fn main() {}