#!/usr/bin/env python3
"""development aid: run checks against patches on scratch copies of /repo (never touches /repo, evidence/ or replays/)
usage: try_patch.py <ABSOLUTE glob of dirs containing patch.diff> [--props C01,C02 | --all] [--jobs N]
The checks read contracts/ and tools/ of this working tree on every run: do not edit them while a series runs (or start the series with
`vp run`, which works on a snapshot of the committed files)."""
import sys, os, glob, json, re
from concurrent.futures import ThreadPoolExecutor
HERE = os.path.dirname(os.path.abspath(__file__))
sys.path.insert(0, HERE); sys.path.insert(0, os.path.join(HERE, '..', 'contracts'))
import selfcheck, properties as PR
args = sys.argv[1:]
dirs = sorted(glob.glob(args[0]))
props = None
jobs = 4
if '--props' in args: props = args[args.index('--props') + 1].split(',')
if '--all' in args: props = list(PR.PROPS)
if '--jobs' in args: jobs = int(args[args.index('--jobs') + 1])
work = []
for d in dirs:
    name = re.sub(r'[^A-Za-z0-9]+', '-', d.strip('/'))[-40:]
    m = re.search(r'(C\d\d)', d)
    ps = props or ([m.group(1)] if m else list(PR.PROPS))
    for p in ps: work.append((d, name, p))
def run(w):
    d, name, p = w
    return w, selfcheck.one(p, '/repo', os.path.join(HERE, '..', 'gen', '_try', p), name, os.path.join(d, 'patch.diff'))
res = {}
with ThreadPoolExecutor(max_workers=jobs) as ex:
    for (d, name, p), r in ex.map(run, work):
        res.setdefault(d, {})[p] = r
        print(d, p, 'exit=%s' % r.get('exit', r.get('status')), (r.get('lines') or [''])[0][:150], flush=True)
json.dump(res, open('/tmp/try_patch_last.json', 'w'), indent=1)
