"""Run Verus on the generated file and turn its JSON into an obligation table."""
import os, re, json, subprocess, time


def fn_index(text):
    """[(line, qualified name)] of every fn in the generated file, with impl context (brace matched)"""
    from xtract import match_brace
    spans = []   # (start_off, end_off, type name)
    for m in re.finditer(r'^[ \t]*impl(?:<[^>]*>)?\s+([^{\n]*?)\s*\{', text, re.M):
        hdr = m.group(1)
        forty = re.search(r'\bfor\s+(\w+)', hdr)
        mm = re.match(r'(\w+)', hdr)
        ty = forty.group(1) if forty else (mm.group(1) if mm else None)
        try:
            end = match_brace(text, m.end() - 1)
        except Exception:
            continue
        spans.append((m.start(), end, ty))
    out = []
    for m in re.finditer(r'^[ \t]*(?:pub(?:\(crate\))?\s+)?(?:open\s+|closed\s+|uninterp\s+)?(?:broadcast\s+)?(?:proof\s+|spec\s+|exec\s+|axiom\s+)?fn\s+(\w+)', text, re.M):
        off = m.start()
        ctx = None
        for (a, b, ty) in spans:
            if a <= off < b:
                ctx = ty
        line = text.count('\n', 0, off) + 1
        # nested fns (closures lifted by hand do not exist); a fn inside an impl is a method
        out.append((line, (ctx + '::' + m.group(1)) if ctx else m.group(1)))
    out.sort()
    return out


def fn_spans(text):
    """[(first line, last line, qualified name)] of every fn of the generated file that is NOT nested inside another fn"""
    from xtract import match_brace, mask_code
    code = mask_code(text)
    idx = fn_index(text)
    lines_off = [0]
    for m in re.finditer(r'\n', code):
        lines_off.append(m.end())
    out = []
    for (line, name) in idx:
        off = lines_off[line - 1]
        ob = code.find('{', off)
        semi = code.find(';', off)
        if ob < 0 or (0 <= semi < ob and code[off:semi].count('(') == code[off:semi].count(')') and 'fn' in code[off:semi]):
            end_line = code.count('\n', 0, semi if semi >= 0 else off) + 1
        else:
            try:
                end_line = code.count('\n', 0, match_brace(code, ob)) + 1
            except Exception:
                end_line = line
        out.append((line, end_line, name))
    # drop nested fns: a fn whose span lies inside another fn's span
    top = []
    for (a, b, n) in out:
        if any(a2 < a and b <= b2 for (a2, b2, n2) in out if (a2, b2, n2) != (a, b, n)):
            continue
        top.append((a, b, n))
    return top


def norm(fname):
    """semver_verus::m_x::foo -> foo ; semver_verus::BoundSet::new -> BoundSet::new"""
    parts = fname.split('::')
    parts = [p for p in parts[1:] if not re.match(r'm_[a-z_]+$', p)]
    return '::'.join(parts)


def run(path, modules, workdir, seed=0, rlimit=None, timeout=1500, extra=()):
    cmd = ['verus', os.path.basename(path), '--multiple-errors', '400', '--triggers-mode', 'silent', '--output-json', '--time-expanded', '--error-format=json']
    for m in modules:
        cmd += ['--verify-module', m]
    if seed:
        cmd += ['--smt-option', 'smt.random_seed=%d' % seed]
    if rlimit:
        cmd += ['--rlimit', str(rlimit)]
    cmd += list(extra)
    t0 = time.time()
    try:
        p = subprocess.run(cmd, cwd=workdir, capture_output=True, text=True, timeout=timeout)
    except subprocess.TimeoutExpired:
        return {'cmd': ' '.join(cmd), 'timeout': True, 'wall_s': time.time() - t0}
    wall = time.time() - t0
    res = {'cmd': ' '.join(cmd), 'wall_s': wall, 'returncode': p.returncode, 'timeout': False}
    try:
        res['json'] = json.loads(p.stdout)
    except Exception:
        res['json'] = None
        res['stdout'] = p.stdout[-4000:]
    diags = []
    for line in p.stderr.split('\n'):
        line = line.strip()
        if not line.startswith('{'):
            continue
        try:
            diags.append(json.loads(line))
        except Exception:
            pass
    res['diags'] = diags
    res['stderr_tail'] = p.stderr[-3000:] if not diags else ''
    return res


def table(res, gen_text, clauses):
    """-> dict with
         functions: {name: {success, time_ms, rlimit, mode, module}}
         errors: [{fn, kind, clause, message, lines}]   (kind: postcondition | precondition | assertion | rlimit | other)
         fatal: compile level problems (unsupported construct, rustc error) -> undecided
    """
    out = {'functions': {}, 'errors': [], 'fatal': []}
    j = res.get('json')
    if res.get('timeout'):
        out['fatal'].append('verus timed out')
        return out
    if not j or 'times-ms' not in j:
        # rustc / VIR level error: nothing was verified
        for d in res.get('diags', []):
            if d.get('level') == 'error':
                sp = d.get('spans') or [{}]
                out['fatal'].append('%s (generated line %s)' % (d.get('message'), sp[0].get('line_start')))
        if not out['fatal']:
            out['fatal'].append('verus produced no result: ' + (res.get('stderr_tail') or res.get('stdout', ''))[-600:])
        return out
    vr = j.get('verification-results', {})
    if vr.get('encountered-vir-error'):
        for d in res.get('diags', []):
            # (ordinary verification failures of other modules are not what stopped the verifier)
            if d.get('level') == 'error' and 'aborting' not in d.get('message', '') and not re.search(r'postcondition not satisfied|precondition not satisfied|assertion failed|invariant not satisfied|possible arithmetic|underflow/overflow|unreachable|rlimit|resource limit|decreases not satisfied|might not terminate', d.get('message', '')):
                sp = d.get('spans') or [{}]
                out['fatal'].append('%s (generated line %s)' % (d.get('message'), sp[0].get('line_start')))
    # rustc level errors (an annotation that no longer type checks, a call to something that does not exist): nothing was verified
    for d in res.get('diags', []):
        code = (d.get('code') or {}).get('code') if isinstance(d.get('code'), dict) else None
        if d.get('level') == 'error' and code and re.match(r'E\d+', code):
            sp = d.get('spans') or [{}]
            prim = [x for x in sp if x.get('is_primary')] or sp
            out['fatal'].append('%s [%s] (generated line %s)' % (d.get('message'), code, prim[0].get('line_start')))
    for m in j['times-ms'].get('smt', {}).get('smt-run-module-times', []):
        for f in m.get('function-breakdown', []):
            n = norm(f['function'])
            for key in (n, n + '@' + m['module']):
                e = out['functions'].setdefault(key, {'success': True, 'time_ms': 0, 'rlimit': 0, 'mode': f.get('mode:'), 'module': m['module'], 'instances': 0})
                e['success'] = e['success'] and bool(f.get('success'))
                e['time_ms'] += f.get('time', 0)
                e['rlimit'] += f.get('rlimit', 0)
                e['instances'] += 1
    spans_idx = fn_spans(gen_text)

    def fn_at(line):
        """the (outermost) function of the generated file whose text contains that line"""
        for (a, b, n) in spans_idx:
            if a <= line <= b:
                return n
        return None

    def own_spans(d):
        """all spans of a diagnostic that lie in the generated file, following macro expansions back to the call site
        (`panic!`, `unreachable!`, `todo!`, `assert!` report a primary span inside core)"""
        got = []

        def walk(sp):
            if not sp:
                return
            fnm = sp.get('file_name') or ''
            if fnm.endswith('semver_verus.rs'):
                got.append(sp)
            ex = sp.get('expansion')
            if ex and ex.get('span'):
                walk(ex['span'])
        for sp in d.get('spans', []):
            walk(sp)
        return got
    for d in res.get('diags', []):
        if d.get('level') != 'error':
            continue
        msg = d.get('message', '')
        if msg.startswith('aborting due to'):
            continue
        spans = own_spans(d)
        lines = [(s.get('line_start'), s.get('label')) for s in spans]
        kind = 'other'
        clause = None
        if 'postcondition not satisfied' in msg:
            kind = 'postcondition'
            for s in spans:
                if s.get('label') and 'failed this postcondition' in s['label']:
                    for ln in range(s['line_start'], s['line_end'] + 1):
                        if ln in clauses or str(ln) in clauses:
                            clause = clauses.get(ln) or clauses.get(str(ln))
        elif 'precondition not satisfied' in msg:
            kind = 'precondition'
        elif 'assertion failed' in msg or 'invariant not satisfied' in msg or 'possible arithmetic' in msg or 'underflow/overflow' in msg or 'unreachable' in msg:
            kind = 'assertion'
        elif 'rlimit' in msg.lower() or 'resource limit' in msg.lower():
            kind = 'rlimit'
        # the function: the exit / body span is inside it; a postcondition span is in its header
        fline = None
        for s in spans:
            lab = s.get('label') or ''
            if 'at the end of the function body' in lab or 'at this exit' in lab or s.get('is_primary'):
                fline = s.get('line_start')
                if 'at the end' in lab or 'at this exit' in lab:
                    break
        if fline is None and spans:
            fline = spans[-1].get('line_start')     # (the call site of an expanded macro comes last)
        fn = fn_at(fline) if fline else None
        out['errors'].append({'fn': fn, 'kind': kind, 'clause': clause, 'message': msg, 'lines': lines})
    return out
