"""bounded cross-check of assumption A15 (the winnow combinator contracts) against the real winnow crate the repository locks
(tools/winnow_check: the assumed relations re-stated as an interpreter, compared with winnow on every string up to a length bound).
Labelled bounded, never counted as proof; a disagreement makes the check that asked for it undecided."""
import os, shutil, subprocess, re, time
HERE = os.path.dirname(os.path.abspath(__file__))


def run(repo, workdir, maxlen=6):
    t0 = time.time()
    shutil.rmtree(workdir, ignore_errors=True)
    shutil.copytree(os.path.join(HERE, 'winnow_check'), workdir, ignore=shutil.ignore_patterns('target'))
    shutil.copy(os.path.join(repo, 'Cargo.lock'), os.path.join(workdir, 'Cargo.lock'))
    env = dict(os.environ, CARGO_NET_OFFLINE='true', CARGO_TARGET_DIR=os.path.join(workdir, 'target'))
    p = subprocess.run(['cargo', 'build', '--offline', '--release'], cwd=workdir, env=env, capture_output=True, text=True, timeout=900)
    if p.returncode != 0:
        os.remove(os.path.join(workdir, 'Cargo.lock'))
        p = subprocess.run(['cargo', 'build', '--offline', '--release'], cwd=workdir, env=env, capture_output=True, text=True, timeout=900)
    if p.returncode != 0:
        return {'ok': False, 'bounded': True, 'error': 'does not build: ' + p.stderr[-400:]}
    lock = open(os.path.join(workdir, 'Cargo.lock')).read()
    m = re.search(r'name = "winnow"\nversion = "([^"]+)"', lock)
    r = subprocess.run([os.path.join(workdir, 'target', 'release', 'winnow_check'), str(maxlen)], capture_output=True, text=True, timeout=900)
    out = r.stdout.strip().split('\n')[-1] if r.stdout.strip() else ''
    res = {'ok': r.returncode == 0 and out.startswith('AGREE'), 'bounded': True, 'counts_as_proof': False, 'winnow_version': m.group(1) if m else None,
           'what': 'A15: 30 composite parsers built from the combinators the grammar uses (literal, take_while, digit1, space0/1, eof, any, opt, alt, tuples, preceded, terminated, delimited, peek, separated 0../1.., repeat_till, take, try_map), real winnow vs the assumed relations, every string of length <= %d over 9 symbols; plus A13\' (std u64 parse on every string of <= 6 symbols over digits, +, -, a letter, a blank, and boundary values) and dec_text (200 000 numbers print as digits that parse back)' % maxlen,
           'result': out, 'wall_s': round(time.time() - t0, 1)}
    return res
