"""thorough tier: BOUNDED cross-checks of trusted std / derive assumptions against the real std and the real derives (Kani).

These never count as proof; they are evidence that the axioms of contracts/prelude.rs and the generated derive model say what the
real code does, on small domains:
  A3  core::cmp::max/min tie-breaking            pairs of keys < 4 with distinct tags
  A4  <Vec<Identifier> as Ord>::cmp lexicographic lists of <= 2 numeric identifiers < 3
  A5  <String as Ord>::cmp by bytes               strings of <= 2 bytes over {'-','0','a'}
  A6  derived Ord/PartialEq on Identifier         Numeric(< 3) / AlphaNumeric(<= 1 byte over {'-','0','a'})
  A8  slice.iter().filter(p).max()/min()          slices of 3 keys < 3 (last maximal / first minimal selected element, None iff none)
The harness module is appended to a scratch copy of /repo (the real `Identifier` with its real derive list is what is compared).
"""
import os, re, subprocess, time
import kani_c18

HARNESS = r'''
// ---- appended by /verif/tools/kani_assume.py (scratch copy only) ----
#[cfg(kani)]
mod verif_assume {
    use super::*;
    use std::cmp::Ordering;

    fn small_byte() -> u8 { let k: u8 = kani::any(); kani::assume(k < 3); [b'-', b'0', b'a'][k as usize] }
    fn small_string(max: usize) -> String {
        let n: usize = kani::any(); kani::assume(n <= max);
        let mut s = String::new();
        let mut i = 0;
        while i < n { s.push(small_byte() as char); i += 1; }
        s
    }
    fn bytes_cmp(a: &[u8], b: &[u8]) -> Ordering {
        let mut i = 0;
        loop {
            if i == a.len() && i == b.len() { return Ordering::Equal; }
            if i == a.len() { return Ordering::Less; }
            if i == b.len() { return Ordering::Greater; }
            if a[i] != b[i] { return if a[i] < b[i] { Ordering::Less } else { Ordering::Greater }; }
            i += 1;
        }
    }
    /// the SemVer identifier order, as in contracts/order_spec.rs
    fn ident_ref(a: &Identifier, b: &Identifier) -> Ordering {
        match (a, b) {
            (Identifier::Numeric(x), Identifier::Numeric(y)) => if x < y { Ordering::Less } else if x == y { Ordering::Equal } else { Ordering::Greater },
            (Identifier::Numeric(_), Identifier::AlphaNumeric(_)) => Ordering::Less,
            (Identifier::AlphaNumeric(_), Identifier::Numeric(_)) => Ordering::Greater,
            (Identifier::AlphaNumeric(x), Identifier::AlphaNumeric(y)) => bytes_cmp(x.as_bytes(), y.as_bytes()),
        }
    }
    fn small_ident(strlen: usize) -> Identifier {
        if kani::any() { let n: u8 = kani::any(); kani::assume(n < 3); Identifier::Numeric(n as u64) } else { Identifier::AlphaNumeric(small_string(strlen)) }
    }

    #[kani::proof]
    #[kani::unwind(4)]
    fn a5_string_cmp_is_bytewise() {
        let a = small_string(2); let b = small_string(2);
        assert!(a.cmp(&b) == bytes_cmp(a.as_bytes(), b.as_bytes()));
        assert!((a == b) == (bytes_cmp(a.as_bytes(), b.as_bytes()) == Ordering::Equal));
    }
    #[kani::proof]
    #[kani::unwind(3)]
    fn a6_identifier_derive_is_semver_order() {
        let a = small_ident(1); let b = small_ident(1);
        assert!(a.cmp(&b) == ident_ref(&a, &b));
        assert!(a.partial_cmp(&b) == Some(ident_ref(&a, &b)));
        assert!((a == b) == (ident_ref(&a, &b) == Ordering::Equal));
    }
    #[kani::proof]
    #[kani::unwind(4)]
    fn a4_vec_cmp_is_lexicographic() {
        let mk = || { let n: u8 = kani::any(); kani::assume(n < 3); Identifier::Numeric(n as u64) };
        let la: usize = kani::any(); let lb: usize = kani::any(); kani::assume(la <= 2 && lb <= 2);
        let mut a: Vec<Identifier> = Vec::new(); let mut b: Vec<Identifier> = Vec::new();
        let mut i = 0; while i < la { a.push(mk()); i += 1; }
        let mut j = 0; while j < lb { b.push(mk()); j += 1; }
        // reference: first difference decides, then a strict prefix is lower
        let mut k = 0;
        let want = loop {
            if k == a.len() && k == b.len() { break Ordering::Equal; }
            if k == a.len() { break Ordering::Less; }
            if k == b.len() { break Ordering::Greater; }
            let c = ident_ref(&a[k], &b[k]);
            if c != Ordering::Equal { break c; }
            k += 1;
        };
        assert!(a.cmp(&b) == want);
        assert!((a == b) == (want == Ordering::Equal));
    }
    #[derive(Clone, Copy, Debug)]
    struct Tagged { key: u8, tag: u8 }
    impl PartialEq for Tagged { fn eq(&self, o: &Self) -> bool { self.key == o.key } }
    impl Eq for Tagged {}
    impl PartialOrd for Tagged { fn partial_cmp(&self, o: &Self) -> Option<Ordering> { Some(self.cmp(o)) } }
    impl Ord for Tagged { fn cmp(&self, o: &Self) -> Ordering { self.key.cmp(&o.key) } }
    #[kani::proof]
    fn a3_max_min_tie_breaking() {
        let ka: u8 = kani::any(); let kb: u8 = kani::any(); kani::assume(ka < 4 && kb < 4);
        let a = Tagged { key: ka, tag: 1 }; let b = Tagged { key: kb, tag: 2 };
        let mx = std::cmp::max(&a, &b); let mn = std::cmp::min(&a, &b);
        // the axioms of contracts/prelude.rs
        let want_max = if a.cmp(&b) == Ordering::Greater { 1 } else { 2 };
        let want_min = if a.cmp(&b) == Ordering::Greater { 2 } else { 1 };
        assert!(mx.tag == want_max);
        assert!(mn.tag == want_min);
    }
    #[kani::proof]
    #[kani::unwind(5)]
    fn a8_filter_max_min() {
        let mut v = [Tagged { key: 0, tag: 0 }; 3];
        let mut sel = [false; 3];
        let mut i = 0;
        while i < 3 { let k: u8 = kani::any(); kani::assume(k < 3); v[i] = Tagged { key: k, tag: i as u8 }; sel[i] = kani::any(); i += 1; }
        let pick = |t: &&Tagged| sel[t.tag as usize];
        let mx = v.iter().filter(pick).max();
        let mn = v.iter().filter(pick).min();
        let any = sel[0] || sel[1] || sel[2];
        assert!(mx.is_some() == any && mn.is_some() == any);
        if let Some(m) = mx {
            assert!(sel[m.tag as usize]);
            let mut j = 0;
            while j < 3 { if sel[j] { assert!(v[j].key <= m.key); if v[j].key == m.key { assert!(j as u8 <= m.tag); } } j += 1; }   // last maximal
        }
        if let Some(m) = mn {
            assert!(sel[m.tag as usize]);
            let mut j = 0;
            while j < 3 { if sel[j] { assert!(v[j].key >= m.key); if v[j].key == m.key { assert!(j as u8 >= m.tag); } } j += 1; }   // first minimal
        }
    }
    #[kani::proof]
    fn canary_must_fail() { let a: u8 = kani::any(); assert!(a < 200); }
}
'''

NAMES = ['a3_max_min_tie_breaking', 'a4_vec_cmp_is_lexicographic', 'a5_string_cmp_is_bytewise', 'a6_identifier_derive_is_semver_order', 'a8_filter_max_min', 'canary_must_fail']
FOR = {'C04': ['a4_vec_cmp_is_lexicographic', 'a5_string_cmp_is_bytewise', 'a6_identifier_derive_is_semver_order'],
       'C07': ['a3_max_min_tie_breaking'], 'C08': ['a3_max_min_tie_breaking'], 'C09': ['a3_max_min_tie_breaking'],
       'C14': ['a8_filter_max_min', 'a4_vec_cmp_is_lexicographic']}


def run(pid, repo, work, timeout=1500):
    names = FOR.get(pid)
    if not names:
        return None
    names = names + ['canary_must_fail']
    t0 = time.time()
    crate = os.path.join(work, 'crate')
    kani_c18.scratch_crate(repo, crate)
    with open(os.path.join(crate, 'src', 'lib.rs'), 'a') as f:
        f.write(HARNESS)
    env = dict(os.environ, CARGO_NET_OFFLINE='true', CARGO_TARGET_DIR=os.path.join(work, 'target'))
    cmd = ['cargo', 'kani', '--output-format', 'terse', '-j', '6']
    for n in names:
        cmd += ['--harness', 'verif_assume::' + n]
    try:
        p = subprocess.run(cmd, cwd=crate, env=env, capture_output=True, text=True, timeout=timeout)
        out = p.stdout + '\n' + p.stderr
    except subprocess.TimeoutExpired:
        out = 'TIMEOUT'
    open(os.path.join(work, 'kani_assume.log'), 'w').write(out)
    m = re.search(r'Complete - (\d+) successfully verified harnesses, (\d+) failures, (\d+) total', out)
    failed = [x.split('::')[-1] for x in re.findall(r'Verification failed for - ([\w:]+)', out)]
    res = {'cmd': ' '.join(cmd), 'bounded': True, 'counts_as_proof': False, 'wall_s': round(time.time() - t0, 1), 'harnesses': [], 'log': os.path.join(work, 'kani_assume.log')}
    ok = bool(m) and int(m.group(3)) == len(names) and 'canary_must_fail' in failed
    for n in names:
        if n == 'canary_must_fail':
            continue
        st = 'NOT-RUN' if not ok else ('FAILURE' if n in failed else 'SUCCESS')
        res['harnesses'].append({'name': n, 'status': st, 'doc': __doc__.split('\n')[4:10]})
    res['ok'] = ok and all(h['status'] == 'SUCCESS' for h in res['harnesses'])
    return res
