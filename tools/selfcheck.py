"""thorough tier: run the check of a property against the seeded changes kept for it.

seeded/<P>-*        property-breaking changes (confirmed): each must be reported (exit 1)
seeded_benign/*     behaviour-preserving changes: none may raise an alarm (exit 1); exit 2 (undecided) is tolerated and listed
Each patch is applied to a scratch copy of /repo's working tree under /verif/gen (never to /repo).
"""
import os, glob, json, shutil, subprocess

HERE = os.path.dirname(os.path.abspath(__file__))
VERIF = os.path.abspath(os.path.join(HERE, '..'))


def scratch(repo, dst, patch):
    shutil.rmtree(dst, ignore_errors=True)
    os.makedirs(dst)
    for f in ('Cargo.toml', 'Cargo.lock', 'README.md'):
        if os.path.exists(os.path.join(repo, f)):
            shutil.copy(os.path.join(repo, f), os.path.join(dst, f))
    for d in ('src', 'examples', 'benches'):
        if os.path.isdir(os.path.join(repo, d)):
            shutil.copytree(os.path.join(repo, d), os.path.join(dst, d))
    p = subprocess.run(['git', 'apply', '--unsafe-paths', '--directory=' + dst, patch], cwd='/', capture_output=True, text=True)
    if p.returncode != 0:
        p = subprocess.run(['patch', '-p1', '-s', '-i', patch], cwd=dst, capture_output=True, text=True)
    return p.returncode == 0


def one(pid, repo, work, name, patch):
    dst = os.path.join(work, name)
    if not scratch(repo, os.path.join(dst, 'repo'), patch):
        return {'name': name, 'status': 'patch does not apply to the current tree'}
    env = dict(os.environ, VERIF_REPO=os.path.join(dst, 'repo'), VERIF_GEN_TAG='-self-' + name, VERIF_EVIDENCE_DIR=os.path.join(dst, 'evidence'),
               VERIF_REPLAY_DIR=os.path.join(dst, 'replays'), VERIF_TIER='quick')
    p = subprocess.run([os.path.join(VERIF, 'check'), pid, '--tier', 'quick', '--no-self'], cwd=VERIF, env=env, capture_output=True, text=True)
    shutil.rmtree(os.path.join(VERIF, 'gen', pid + '-self-' + name), ignore_errors=True)
    shutil.rmtree(dst, ignore_errors=True)
    lines = [l for l in p.stdout.split('\n') if l.startswith(('VIOLATION', 'UNDECIDED', 'OK'))]
    return {'name': name, 'exit': p.returncode, 'lines': lines[:3]}


def run(pid, repo, work):
    os.makedirs(work, exist_ok=True)
    res = {'breaking': [], 'benign': [], 'missed': [], 'false_alarms': [], 'benign_undecided': []}
    for d in sorted(glob.glob(os.path.join(VERIF, 'seeded', pid + '-*'))):
        meta = json.load(open(os.path.join(d, 'meta.json'))) if os.path.exists(os.path.join(d, 'meta.json')) else {}
        if str(meta.get('note', '')).startswith('NOT reported'):
            continue    # kept for the record; see its meta.json
        r = one(pid, repo, work, os.path.basename(d), os.path.join(d, 'patch.diff'))
        res['breaking'].append(r)
        if r.get('exit') != 1 and 'status' not in r:
            res['missed'].append(r['name'])
    for d in sorted(glob.glob(os.path.join(VERIF, 'seeded_benign', '*'))):
        meta = json.load(open(os.path.join(d, 'meta.json'))) if os.path.exists(os.path.join(d, 'meta.json')) else {}
        if pid not in meta.get('properties', [pid]):
            continue
        r = one(pid, repo, work, os.path.basename(d), os.path.join(d, 'patch.diff'))
        res['benign'].append(r)
        if r.get('exit') == 1:
            res['false_alarms'].append(r['name'])
        elif r.get('exit') == 2:
            res['benign_undecided'].append(r['name'])
    return res
