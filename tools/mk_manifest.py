#!/usr/bin/env python3
"""rebuild the level_note of every check in MANIFEST.json from contracts/properties.py (assumptions, not_decided), so that the
manifest and the evidence files say the same thing; everything else in MANIFEST.json is kept as it is"""
import json, os, sys
HERE = os.path.dirname(os.path.abspath(__file__))
sys.path.insert(0, os.path.join(HERE, '..', 'contracts'))
import properties as PR
STANDIN = ('The text layer (winnow parser, printing, error accessors) cannot be brought under contract; a BOUNDED stand-in runs on every check of '
           'every property: the real crate, built from the working tree, is exercised through its public API over the finite grid and the seeded '
           'random texts of witness/src/main.rs (range texts generated together with npm\'s reading of them, loose spellings, separator spellings, '
           'boundary numbers; for C06 every short string and long inputs). It is reported in evidence under coverage.bounded_standin, is never '
           'counted among the proof obligations, and only a concrete failing input it finds is reported as a violation.')
path = os.path.join(HERE, '..', 'MANIFEST.json')
m = json.load(open(path))
for c in m['checks']:
    p = PR.PROPS[c['property_id']]
    note = 'Trusted: ' + '; '.join(p['assumptions']) + '.'
    if p.get('not_decided'):
        note += ' Not decided: ' + '; '.join(p['not_decided']) + '.'
    c['level_note'] = note + ' ' + STANDIN
m['not_applicable'] = [{'property_id': k, 'reason': v} for k, v in sorted(PR.NOT_APPLICABLE.items())]
json.dump(m, open(path, 'w'), indent=1)
print('MANIFEST.json: %d checks, %d not applicable' % (len(m['checks']), len(m['not_applicable'])))
