#!/bin/bash
# regenerate every evidence file on the current tree (run before committing evidence)
cd "$(dirname "$(readlink -f "$0")")/.." || exit 1
rc=0
for p in C01 C02 C03 C04 C05 C06 C07 C08 C09 C10 C11 C12 C14 C15 C16 C18; do
  ./check $p --tier ${1:-quick} | tail -1
  [ ${PIPESTATUS[0]} -eq 0 ] || rc=1
done
exit $rc
