#!/usr/bin/env python3
"""development aid: confirm a property-breaking change delivered by a sub-agent and file it under seeded/<id>/
usage: confirm_seed.py <dir with patch.diff demo.rs notes.md> <id e.g. C05-mutA> <property> <round text>
Runs in a scratch worktree of /repo HEAD under /tmp (removed afterwards): demo on the clean tree must exit 0, patch must apply, suite must
pass, demo on the changed tree must fail."""
import sys, os, subprocess, shutil, json, re
src, sid, prop, origin = sys.argv[1], sys.argv[2], sys.argv[3], sys.argv[4]
VERIF = os.path.abspath(os.path.join(os.path.dirname(os.path.abspath(__file__)), '..'))
wt = '/tmp/confirm_' + sid
subprocess.run(['git', '-C', '/repo', 'worktree', 'remove', '--force', wt], capture_output=True)
shutil.rmtree(wt, ignore_errors=True)
subprocess.run(['git', '-C', '/repo', 'worktree', 'add', '-q', '--detach', wt, 'HEAD'], check=True)
env = dict(os.environ, CARGO_NET_OFFLINE='true', CARGO_TARGET_DIR=wt + '/target')
demo = os.path.join(wt, 'demo_runner')
os.makedirs(demo + '/src')
serde = os.environ.get('SERDE') == '1'
open(demo + '/Cargo.toml', 'w').write('[package]\nname = "demo"\nversion = "0.0.0"\nedition = "2021"\n[dependencies]\nnodejs-semver = { path = ".."%s }\n%s[workspace]\n' % (', features = ["serde"]' if serde else '', 'serde_json = "1.0"\n' if serde else ''))
shutil.copy(os.path.join(src, 'demo.rs'), demo + '/src/main.rs')
shutil.copy('/repo/Cargo.lock', demo + '/Cargo.lock')
def run_demo():
    p = subprocess.run(['cargo', 'run', '--offline', '-q'], cwd=demo, env=env, capture_output=True, text=True)
    if p.returncode != 0 and 'lock file' in p.stderr:
        os.remove(demo + '/Cargo.lock'); p = subprocess.run(['cargo', 'run', '--offline', '-q'], cwd=demo, env=env, capture_output=True, text=True)
    return p
try:
    c = run_demo()
    a = subprocess.run(['git', '-C', wt, 'apply', os.path.abspath(os.path.join(src, 'patch.diff'))], capture_output=True, text=True)
    t = subprocess.run(['cargo', 'test', '--offline'] + (['--features', 'serde'] if serde else []), cwd=wt, env=env, capture_output=True, text=True)
    tl = [l for l in t.stdout.split('\n') if l.startswith('test result')]
    m = run_demo()
    ok = c.returncode == 0 and a.returncode == 0 and t.returncode == 0 and m.returncode != 0
    print('demo_on_clean=%s apply=%s tests=%s (%s) demo_on_mutant=%s => %s' % (c.returncode, a.returncode, t.returncode, tl[:1], m.returncode, 'CONFIRMED' if ok else 'NOT CONFIRMED'))
    if not ok:
        print(c.stderr[-500:], a.stderr[-300:], t.stdout[-500:], m.stderr[-300:])
        sys.exit(1)
    dst = os.path.join(VERIF, 'seeded', sid)
    os.makedirs(dst, exist_ok=True)
    for f in ('patch.diff', 'demo.rs', 'notes.md'):
        if os.path.exists(os.path.join(src, f)):
            shutil.copy(os.path.join(src, f), os.path.join(dst, f))
    notes = open(os.path.join(src, 'notes.md')).read() if os.path.exists(os.path.join(src, 'notes.md')) else ''
    json.dump({'property': prop, 'id': sid, 'origin': origin, 'needs_to_manifest': ' '.join(notes.split())[:900],
               'confirmed_by_me': {'how': 'scratch worktree of /repo HEAD (removed afterwards): demo on clean tree, `git apply patch.diff`, `cargo test --offline`, demo on changed tree',
                                   'result': 'demo_on_clean=%d demo_on_mutant=%d tests: %s' % (c.returncode, m.returncode, tl[0] if tl else '')}}, open(os.path.join(dst, 'meta.json'), 'w'), indent=1)
finally:
    subprocess.run(['git', '-C', '/repo', 'worktree', 'remove', '--force', wt], capture_output=True)
    shutil.rmtree(wt, ignore_errors=True)
