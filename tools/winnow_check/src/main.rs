//! Bounded cross-check of assumption A15: the relations `contracts/winnow_shim.rs` assumes for the winnow combinators, re-stated as a small
//! interpreter (`run`), against the REAL winnow 0.6.26 on every string up to a length bound over an alphabet of token classes.
//! Bounded, never counted as proof; a disagreement means the assumed contracts are wrong (the check that asked for it goes undecided).
use winnow::ascii::{digit1, space0, space1};
use winnow::combinator::{alt, delimited, eof, opt, peek, preceded, repeat_till, separated, terminated};
use winnow::error::ContextError;
use winnow::token::{any, literal, take_while};
use winnow::{PResult, Parser};

#[derive(Clone)]
enum M {
    Lit(&'static str), Tw(usize, fn(char) -> bool), Eof, Any,
    Opt(Box<M>), Alt(Vec<M>), Seq(Vec<M>), Preceded(Box<M>, Box<M>), Terminated(Box<M>, Box<M>), Delimited(Box<M>, Box<M>, Box<M>), Peek(Box<M>),
    Sep(usize, Box<M>, Box<M>), RepeatTill(Box<M>, Box<M>), Take(Box<M>), TryU8(Box<M>),
}
/// the assumed contract, as a function: Some((bytes consumed, summary of the output)) = accepts, None = rejects
fn run(m: &M, s: &str) -> Option<(usize, usize)> {
    match m {
        M::Lit(t) => if s.starts_with(t) { Some((t.len(), 0)) } else { None },
        M::Tw(lo, f) => { let n: usize = s.chars().take_while(|c| f(*c)).map(|c| c.len_utf8()).sum(); let k = s.chars().take_while(|c| f(*c)).count(); if k >= *lo { Some((n, 0)) } else { None } },
        M::Eof => if s.is_empty() { Some((0, 0)) } else { None },
        M::Any => s.chars().next().map(|c| (c.len_utf8(), 0)),
        M::Opt(p) => match run(p, s) { Some((n, _)) => Some((n, 1)), None => Some((0, 0)) },
        M::Alt(ps) => { for p in ps { if let Some(r) = run(p, s) { return Some(r); } } None },
        M::Seq(ps) => { let mut off = 0; for p in ps { let (n, _) = run(p, &s[off..])?; off += n; } Some((off, 0)) },
        M::Preceded(a, b) => { let (n, _) = run(a, s)?; let (k, o) = run(b, &s[n..])?; Some((n + k, o)) },
        M::Terminated(a, b) => { let (n, o) = run(a, s)?; let (k, _) = run(b, &s[n..])?; Some((n + k, o)) },
        M::Delimited(a, b, c) => { let (n, _) = run(a, s)?; let (k, o) = run(b, &s[n..])?; let (j, _) = run(c, &s[n + k..])?; Some((n + k + j, o)) },
        M::Peek(p) => run(p, s).map(|(_, o)| (0, o)),
        M::Sep(lo, p, sp) => {
            // p (sp p)*; a separator that is not followed by an element is given back; lo in {0, 1}
            let mut off; let mut cnt;
            match run(p, s) { Some((n, _)) => { off = n; cnt = 1; } None => return if *lo == 0 { Some((0, 0)) } else { None } }
            loop {
                let Some((k, _)) = run(sp, &s[off..]) else { break };
                let Some((n, _)) = run(p, &s[off + k..]) else { break };
                off += k + n; cnt += 1;
            }
            Some((off, cnt))
        }
        M::RepeatTill(f, g) => { let mut off = 0; loop { if let Some((n, _)) = run(g, &s[off..]) { return Some((off + n, 0)); } let (k, _) = run(f, &s[off..])?; off += k; } },
        M::Take(p) => run(p, s).map(|(n, _)| (n, n)),
        M::TryU8(p) => { let (n, _) = run(p, s)?; s[..n].parse::<u8>().ok().map(|v| (n, v as usize)) },
    }
}
type R<'s> = PResult<usize, ContextError>;
fn idc(c: char) -> bool { c.is_ascii_alphanumeric() || c == '-' }
fn b<T>(x: T) -> Box<T> { Box::new(x) }
fn term() -> M { M::Peek(b(M::Alt(vec![M::Tw(1, |c| c == ' ' || c == '\t'), M::Lit("||"), M::Eof]))) }
fn garbage_m() -> M { M::RepeatTill(b(M::Any), b(M::Alt(vec![M::Peek(b(M::Tw(1, |c| c == ' ' || c == '\t'))), M::Peek(b(M::Lit("||"))), M::Eof]))) }
fn digits() -> M { M::Tw(1, |c| c.is_ascii_digit()) }
fn ident() -> M { M::Tw(1, idc) }
fn sep_id() -> M { M::Sep(1, b(ident()), b(M::Lit("."))) }
fn pre_m() -> M { M::Preceded(b(M::Opt(b(M::Lit("-")))), b(sep_id())) }
fn build_m() -> M { M::Preceded(b(M::Lit("+")), b(sep_id())) }

fn r_garbage<'s>(i: &mut &'s str) -> R<'s> { repeat_till(0.., any, alt((peek(space1), peek(literal("||")), eof))).map(|_: ((), &str)| 0usize).parse_next(i) }
fn r_ident<'s>(i: &mut &'s str) -> PResult<&'s str, ContextError> { take_while(1.., idc).parse_next(i) }
fn r_pre<'s>(i: &mut &'s str) -> PResult<Vec<&'s str>, ContextError> { preceded(opt(literal("-")), separated(1.., r_ident, literal("."))).parse_next(i) }
fn r_build<'s>(i: &mut &'s str) -> PResult<Vec<&'s str>, ContextError> { preceded(literal("+"), separated(1.., r_ident, literal("."))).parse_next(i) }

fn cases() -> Vec<(&'static str, M, fn(&mut &str) -> PResult<usize, ContextError>)> {
    vec![
        ("literal", M::Lit("."), |i| literal(".").map(|_| 0usize).parse_next(i)),
        ("literal2", M::Lit("||"), |i| literal("||").map(|_| 0usize).parse_next(i)),
        ("take_while1", ident(), |i| take_while(1.., idc).map(|_| 0usize).parse_next(i)),
        ("take_while0", M::Tw(0, idc), |i| take_while(0.., idc).map(|_| 0usize).parse_next(i)),
        ("digit1", digits(), |i| digit1.map(|_| 0usize).parse_next(i)),
        ("space0", M::Tw(0, |c| c == ' ' || c == '\t'), |i| space0.map(|_| 0usize).parse_next(i)),
        ("space1", M::Tw(1, |c| c == ' ' || c == '\t'), |i| space1.map(|_| 0usize).parse_next(i)),
        ("eof", M::Eof, |i| eof.map(|_| 0usize).parse_next(i)),
        ("any", M::Any, |i| any.map(|_| 0usize).parse_next(i)),
        ("opt", M::Opt(b(M::Lit("-"))), |i| opt(literal("-")).map(|o| o.is_some() as usize).parse_next(i)),
        ("alt2", M::Alt(vec![M::Lit("a"), M::Lit("1")]), |i| alt((literal("a"), literal("1"))).map(|_| 0usize).parse_next(i)),
        ("alt-overlap", M::Alt(vec![M::Seq(vec![digits(), M::Lit(".")]), digits(), ident()]), |i| alt(((digit1, literal(".")).map(|_| 0usize), digit1.map(|_| 0usize), take_while(1.., idc).map(|_| 0usize))).parse_next(i)),
        ("seq3", M::Seq(vec![digits(), M::Lit("."), digits()]), |i| (digit1, literal("."), digit1).map(|_| 0usize).parse_next(i)),
        ("seq5", M::Seq(vec![digits(), M::Lit("."), digits(), M::Lit("."), digits()]), |i| (digit1, literal("."), digit1, literal("."), digit1).map(|_| 0usize).parse_next(i)),
        ("preceded", M::Preceded(b(M::Opt(b(M::Lit("-")))), b(ident())), |i| preceded(opt(literal("-")), take_while(1.., idc)).map(|_| 0usize).parse_next(i)),
        ("terminated-peek", M::Terminated(b(digits()), b(term())), |i| terminated(digit1, peek(alt((space1, literal("||"), eof)))).map(|_| 0usize).parse_next(i)),
        ("terminated-eof", M::Terminated(b(M::Seq(vec![digits()])), b(M::Seq(vec![M::Tw(0, |c| c == ' ' || c == '\t'), M::Eof]))), |i| terminated(digit1, (space0, eof)).map(|_| 0usize).parse_next(i)),
        ("delimited", M::Delimited(b(M::Tw(0, |c| c == ' ' || c == '\t')), b(M::Lit("||")), b(M::Tw(0, |c| c == ' ' || c == '\t'))), |i| delimited(space0, literal("||"), space0).map(|_| 0usize).parse_next(i)),
        ("peek", M::Peek(b(digits())), |i| peek(digit1).map(|_| 0usize).parse_next(i)),
        ("separated1", sep_id(), |i| separated(1.., r_ident, literal(".")).map(|v: Vec<&str>| v.len()).parse_next(i)),
        ("separated0", M::Sep(0, b(digits()), b(M::Tw(1, |c| c == ' ' || c == '\t'))), |i| separated(0.., digit1, space1).map(|v: Vec<&str>| v.len()).parse_next(i)),
        ("separated0-or", M::Sep(0, b(M::Sep(0, b(digits()), b(M::Tw(1, |c| c == ' ' || c == '\t')))), b(M::Delimited(b(M::Tw(0, |c| c == ' ' || c == '\t')), b(M::Lit("||")), b(M::Tw(0, |c| c == ' ' || c == '\t'))))),
            |i| separated(0.., separated(0.., digit1, space1).map(|v: Vec<&str>| v.len()), delimited(space0, literal("||"), space0)).map(|v: Vec<usize>| v.len()).parse_next(i)),
        ("repeat_till", garbage_m(), r_garbage),
        ("simple-like", M::Sep(0, b(M::Alt(vec![M::Terminated(b(digits()), b(term())), garbage_m()])), b(M::Tw(1, |c| c == ' ' || c == '\t'))),
            |i| separated(0.., alt((terminated(digit1.map(|_| 0usize), peek(alt((space1, literal("||"), eof)))), r_garbage)), space1).map(|v: Vec<usize>| v.len()).parse_next(i)),
        ("take", M::Take(b(M::Seq(vec![digits(), M::Lit(".")]))), |i| (digit1, literal(".")).take().map(|s: &str| s.len()).parse_next(i)),
        ("take-digit1", M::Take(b(digits())), |i| Parser::take(digit1).map(|s: &str| s.len()).parse_next(i)),
        ("opt-preceded-alt", M::Opt(b(M::Preceded(b(M::Lit(".")), b(M::Alt(vec![M::Lit("a"), digits()]))))), |i| opt(preceded(literal("."), alt((literal("a"), digit1)))).map(|o| o.is_some() as usize).parse_next(i)),
        ("try_map", M::TryU8(b(digits())), |i| Parser::try_map(digit1, |s: &str| s.parse::<u8>()).map(|v| v as usize).parse_next(i)),
        ("extras-like", M::Opt(b(M::Alt(vec![M::Seq(vec![pre_m(), build_m()]), pre_m(), build_m()]))),
            |i| opt(alt(((r_pre, r_build).map(|_| 0usize), r_pre.map(|_| 0usize), r_build.map(|_| 0usize)))).map(|o| o.is_some() as usize).parse_next(i)),
        ("value", M::Alt(vec![M::Lit("a1"), M::Lit("a")]), |i| alt((literal("a1").value(7usize), literal("a").value(7usize))).map(|_| 0usize).parse_next(i)),
        ("void", M::Seq(vec![M::Tw(0, |c| c == ' ' || c == '\t'), M::Lit("||"), M::Tw(0, |c| c == ' ' || c == '\t')]), |i| (space0, literal("||"), space0).void().map(|_| 0usize).parse_next(i)),
        ("version-like", M::Seq(vec![M::Opt(b(M::Alt(vec![M::Lit("v"), M::Lit("V")]))), M::Tw(0, |c| c == ' ' || c == '\t'), digits(), M::Lit("."), digits()]),
            |i| (opt(alt((literal("v"), literal("V")))), space0, digit1, literal("."), digit1).map(|_| 0usize).parse_next(i)),
    ]
}
fn main() {
    let alpha: Vec<char> = "a1.- |+v\u{141}".chars().collect();
    let maxlen: usize = std::env::args().nth(1).and_then(|s| s.parse().ok()).unwrap_or(6);
    let mut all: Vec<String> = vec![String::new()];
    let mut frontier: Vec<String> = vec![String::new()];
    for _ in 0..maxlen {
        let mut next = Vec::with_capacity(frontier.len() * alpha.len());
        for s in &frontier { for c in &alpha { let mut t = s.clone(); t.push(*c); next.push(t); } }
        all.extend(next.iter().cloned());
        frontier = next;
    }
    for t in ["300", "256", "255", "1.2.3-a.b+c.d", "1.2.3 || 4 5  6||7", "1 2\t3  x 4", "a..b", "1.2.3-a..b", "   ", "||||", "1 ||", "|| 1"] { all.push(t.to_string()); }
    let mut checked = 0u64;
    for (name, m, real) in cases() {
        for s in &all {
            let mut i: &str = s.as_str();
            let got = real(&mut i);
            let want = run(&m, s);
            let ok = match (&got, &want) {
                (Ok(o), Some((n, w))) => s.len() - i.len() == *n && (*o == *w || !matches!(m, M::Opt(_) | M::Sep(..) | M::Take(_) | M::TryU8(_))),
                (Err(_), None) => true,
                _ => false,
            };
            checked += 1;
            if !ok {
                println!("DISAGREE combinator={} input={:?} winnow={:?} rest={:?} contract={:?}", name, s, got.as_ref().map_err(|e| e.to_string()), i, want);
                std::process::exit(1);
            }
        }
    }
    // A13' (what std's str::parse::<u64> answers) and A16's dec_text (what `{}` prints for a u64), as the axioms state them
    let mut std_checked = 0u64;
    let digs: Vec<char> = "0189+-a ".chars().collect();
    let mut strs: Vec<String> = vec![String::new()];
    let mut fr: Vec<String> = vec![String::new()];
    for _ in 0..6 { let mut nx = vec![]; for s in &fr { for c in &digs { let mut t = s.clone(); t.push(*c); nx.push(t); } } strs.extend(nx.iter().cloned()); fr = nx; }
    for t in ["18446744073709551615", "18446744073709551616", "018446744073709551615", "99999999999999999999", "00000000000000000000000000000000000000001", "900719925474099", "+5", "+", "-0", "１２"] { strs.push(t.to_string()); }
    for t in &strs {
        let got = t.parse::<u64>().ok();
        let all_digits = !t.is_empty() && t.chars().all(|c| c.is_ascii_digit());
        if all_digits {
            // ax_parse_u64_digits: Some(value) iff the decimal value fits
            let mut v: u128 = 0; let mut over = false;
            for c in t.chars() { v = v * 10 + (c as u128 - '0' as u128); if v > u64::MAX as u128 { over = true; v = u64::MAX as u128 + 1; } }
            let want = if over { None } else { Some(v as u64) };
            if got != want { println!("DISAGREE std u64 parse input={:?} std={:?} axiom={:?}", t, got, want); std::process::exit(1); }
        } else if t.chars().any(|c| !c.is_ascii_digit() && c != '+') {
            // ax_parse_u64_nondigit: None
            if got.is_some() { println!("DISAGREE std u64 parse input={:?} std={:?} axiom=None", t, got); std::process::exit(1); }
        }
        std_checked += 1;
    }
    let mut n: u64 = 0;
    for k in 0..200000u64 {
        let txt = format!("{}", n);
        if txt.is_empty() || !txt.chars().all(|c| c.is_ascii_digit()) || txt.parse::<u64>() != Ok(n) { println!("DISAGREE dec_text n={} text={:?}", n, txt); std::process::exit(1); }
        std_checked += 1;
        n = if k < 70000 { n + 1 } else { n.wrapping_mul(6364136223846793005).wrapping_add(1442695040888963407) };
    }
    for n in [u64::MAX, u64::MAX - 1, 900719925474099, 900719925474100, 1u64 << 32, 1u64 << 63] { if format!("{}", n).parse::<u64>() != Ok(n) { std::process::exit(1); } }
    println!("AGREE cases={} inputs={} comparisons={} std_axiom_checks={}", cases().len(), all.len(), checked, std_checked);
}
