#!/usr/bin/env python3
"""setup: nothing is built ahead of time (every check regenerates from /repo); this only confirms the tools are present"""
import shutil, subprocess, sys
for t in ('verus', 'cargo', 'kani'):
    if not shutil.which(t):
        print('missing tool', t); sys.exit(1)
print(subprocess.run(['verus', '--version'], capture_output=True, text=True).stdout.strip().split('\n')[1].strip())
print('ok')
