"""Bounded witness search and replay.

Not a deciding step.  When a proof obligation fails (or a proof cannot be rebuilt because the code left the shape the contracts are
attached to), the real crate -- a scratch copy of /repo's working tree, built natively with overflow checks and debug assertions --
is run over a finite grid of inputs by /verif/witness (public API only) looking for a concrete input on which the property
statement itself is false.  A hit is a sound alarm (it replays on the real code); no hit proves nothing.
Bound: see `grid()`, `versions()`, `order_versions()`, `op_ranges()` in witness/src/main.rs (about 2.3k range texts, 200 versions).
"""
import os, re, json, shutil, subprocess, time

HERE = os.path.dirname(os.path.abspath(__file__))
VERIF = os.path.abspath(os.path.join(HERE, '..'))


def build(repo, workdir, serde=False):
    crate = os.path.join(workdir, 'crate')
    shutil.rmtree(crate, ignore_errors=True)
    os.makedirs(crate)
    for f in ('Cargo.toml', 'Cargo.lock', 'README.md'):
        if os.path.exists(os.path.join(repo, f)):
            shutil.copy(os.path.join(repo, f), os.path.join(crate, f))
    for d in ('src', 'examples', 'benches'):
        if os.path.isdir(os.path.join(repo, d)):
            shutil.copytree(os.path.join(repo, d), os.path.join(crate, d))
    w = os.path.join(workdir, 'w')
    shutil.rmtree(w, ignore_errors=True)
    os.makedirs(os.path.join(w, 'src'))
    shutil.copy(os.path.join(VERIF, 'witness', 'src', 'main.rs'), os.path.join(w, 'src', 'main.rs'))
    # the stand-in is built in the crate's DEFAULT configuration (what Verus and the suite see); only C12, whose statement has a serde half,
    # gets a second pass with that feature on
    open(os.path.join(w, 'Cargo.toml'), 'w').write("""[package]
name = "witness"
version = "0.0.0"
edition = "2021"

[features]
default = [%s]
serde = []

[dependencies]
nodejs-semver = { path = "../crate"%s }
miette = "7.4"
%s
[profile.dev]
opt-level = 1
overflow-checks = true
debug-assertions = true

[workspace]
""" % ('"serde"' if serde else '', ', features = ["serde"]' if serde else '', 'serde_json = "1.0"\n' if serde else ''))
    shutil.copy(os.path.join(repo, 'Cargo.lock'), os.path.join(w, 'Cargo.lock'))
    os.makedirs(os.path.join(w, '.cargo'), exist_ok=True)
    open(os.path.join(w, '.cargo', 'config.toml'), 'w').write('[net]\noffline = true\n')
    env = dict(os.environ, CARGO_NET_OFFLINE='true', CARGO_TARGET_DIR=os.path.join(workdir, 'target'))
    p = subprocess.run(['cargo', 'build', '--offline'], cwd=w, env=env, capture_output=True, text=True, timeout=1200)
    if p.returncode != 0:
        # the lock file of the library names dev-dependencies too; let cargo rewrite it offline
        os.remove(os.path.join(w, 'Cargo.lock'))
        p = subprocess.run(['cargo', 'build', '--offline'], cwd=w, env=env, capture_output=True, text=True, timeout=1200)
    return w, env, p


def search(pid, repo, workdir, tier, level=None):
    t0 = time.time()
    os.makedirs(workdir, exist_ok=True)
    if pid == 'C12' and not os.environ.get('VERIF_STANDIN_NOSERDE'):
        # first in the default configuration (no serde), then with the serde half
        os.environ['VERIF_STANDIN_NOSERDE'] = '1'
        try:
            first = search(pid, repo, workdir, tier, level)
        finally:
            del os.environ['VERIF_STANDIN_NOSERDE']
        if first.get('found') or first.get('error'):
            return first
        w, env, p = build(repo, workdir, serde=True)
        env_extra = {'VERIF_SERDE': '1'}
    else:
        w, env, p = build(repo, workdir, serde=False)
        env_extra = {}
    if p.returncode != 0:
        return {'found': False, 'by': 'native bounded search', 'error': 'witness crate does not build: ' + p.stderr[-800:]}
    lvl = level if level is not None else (1 if tier == 'thorough' else 0)
    exe = os.path.join(workdir, 'target', 'debug', 'witness')
    try:
        seed = int(os.environ.get('VERIF_SEED', '0') or 0)
        kf = json.load(open(os.path.join(VERIF, 'known_findings.json')))
        known = [k['standin_input'] for k in kf.get('findings', []) if k.get('property') == pid and k.get('standin_input')]
        r = subprocess.run([exe, pid, str(lvl), str(seed)], capture_output=True, text=True, timeout=1500, env=dict(os.environ, VERIF_KNOWN='\n'.join(known), **env_extra))
    except subprocess.TimeoutExpired:
        return {'found': False, 'by': 'native bounded search', 'error': 'timeout', 'wall_s': round(time.time() - t0, 1)}
    out = r.stdout
    m = re.search(r'^WITNESS (\{.*\})\s*$', out, re.M)
    res = {'by': 'bounded native search over the grid of /verif/witness/src/main.rs, run against a scratch copy of the working tree (overflow checks on)',
           'bounded': True, 'level': lvl, 'wall_s': round(time.time() - t0, 1), 'cmd': '%s %s %d %d' % (exe, pid, lvl, int(os.environ.get('VERIF_SEED', '0') or 0))}
    res['known_hits'] = []
    for km in re.finditer(r'^KNOWN (\{.*\})\s*$', out, re.M):
        try:
            res['known_hits'].append(json.loads(km.group(1)))
        except Exception:
            res['known_hits'].append({'raw': km.group(1)})
    if m:
        try:
            j = json.loads(m.group(1))
        except Exception:
            j = {'raw': m.group(1)}
        res.update({'found': True, 'input': j, 'replay_cmd': './check %s --replay <this file>' % pid})
    elif 'NO-WITNESS' in out:
        res.update({'found': False})
    else:
        res.update({'found': False, 'error': 'witness program ended abnormally (exit %s): %s' % (r.returncode, (r.stdout + r.stderr)[-400:])})
    return res


def replay(path, repo):
    """Replay a violation file against the current working tree.
    - with a recorded failing input: rebuild the scratch copy and re-run the bounded search of that property (deterministic):
      the violation is reproduced iff the search fails again;
    - without one (the verifier gave no model): re-run the proof of that property and report whether the named obligation still fails."""
    import subprocess, tempfile
    j = json.load(open(path))
    pid = j['property']
    rec = j.get('failing_input')
    print('replay of %s: property %s, obligation %s' % (path, pid, j.get('obligation')))
    if rec:
        print('recorded failing input:', json.dumps(rec))
        workdir = os.path.join(VERIF, 'gen', pid + '-replay', 'witness')
        res = search(pid, repo, workdir, 'quick', level=(j.get('witness') or {}).get('level', 0))
        shutil.rmtree(os.path.join(VERIF, 'gen', pid + '-replay'), ignore_errors=True)
        if res.get('found'):
            print('REPLAY-VIOLATION: %s' % json.dumps(res['input']))
            print('VIOLATION property=%s replay=%s' % (pid, path))
            return 1
        print('the recorded input no longer fails and the bounded search finds no other failing input on the current tree (%s)' % (res.get('error') or 'search finished'))
        return 0
    print('the verifier gave no failing input for this obligation; re-running the proof of %s on the current tree' % pid)
    tmp = tempfile.mkdtemp(prefix='replay-', dir=os.path.join(VERIF, 'gen')) if os.path.isdir(os.path.join(VERIF, 'gen')) else tempfile.mkdtemp()
    env = dict(os.environ, VERIF_GEN_TAG='-replay', VERIF_EVIDENCE_DIR=os.path.join(tmp, 'ev'), VERIF_REPLAY_DIR=os.path.join(tmp, 'rp'))
    p = subprocess.run([os.path.join(VERIF, 'check'), pid, '--no-witness', '--no-self'], cwd=VERIF, env=env, capture_output=True, text=True)
    shutil.rmtree(tmp, ignore_errors=True)
    shutil.rmtree(os.path.join(VERIF, 'gen', pid + '-replay'), ignore_errors=True)
    ob = str(j.get('obligation'))
    still = [l for l in p.stdout.split('\n') if l.strip().startswith('failed obligation ' + ob)]
    for l in p.stdout.split('\n'):
        if l.startswith(('UNDECIDED', 'OK', 'KNOWN-FINDING')) or 'failed obligation' in l:
            print('  ' + l)
    if still:
        print('REPLAY-VIOLATION: obligation %s still fails (no-failing-input-found)' % ob)
        print('VIOLATION property=%s replay=%s no-failing-input-found' % (pid, path))
        return 1
    print('obligation %s is discharged (or no longer generated) on the current tree' % ob)
    return 0 if p.returncode == 0 else p.returncode
