"""bounded witness search / replay (filled in below)"""
def search(pid, repo, workdir, tier):
    return {'found': False, 'by': None, 'note': 'no witness harness for this property yet'}
def replay(path, repo):
    print('replay not implemented yet'); return 2
