"""C18: Kani harnesses over the full domain of each of the ten integer types (loop free => complete proofs, not bounded).

The harness module is appended to a scratch copy of /repo's working tree (nothing is added to /repo); the copy lives under
/verif/gen and is rebuilt on every run.
"""
import os, re, shutil, subprocess, time, json

HARNESS = r'''
// ---- appended by /verif/tools/kani_c18.py (scratch copy only) ----
#[cfg(kani)]
mod verif_c18 {
    use super::*;

    macro_rules! from_harness {
        ($t:ident, $n3:ident, $n4:ident, $signed:expr) => {
            #[kani::proof]
            fn $n3() {
                let a: $t = kani::any();
                let b: $t = kani::any();
                let c: $t = kani::any();
                if $signed {
                    // the property quantifies over non-negative values
                    kani::assume(a as i128 >= 0 && b as i128 >= 0 && c as i128 >= 0);
                }
                let v = Version::from((a, b, c));
                // exactly the denoted numbers, no prerelease, no build: what `a.b.c` denotes
                assert!(v.major as i128 == a as i128);
                assert!(v.minor as i128 == b as i128);
                assert!(v.patch as i128 == c as i128);
                assert!(v.pre_release.is_empty());
                assert!(v.build.is_empty());
            }
            #[kani::proof]
            fn $n4() {
                let a: $t = kani::any();
                let b: $t = kani::any();
                let c: $t = kani::any();
                let d: $t = kani::any();
                if $signed {
                    kani::assume(a as i128 >= 0 && b as i128 >= 0 && c as i128 >= 0 && d as i128 >= 0);
                }
                let v = Version::from((a, b, c, d));
                assert!(v.major as i128 == a as i128);
                assert!(v.minor as i128 == b as i128);
                assert!(v.patch as i128 == c as i128);
                assert!(v.build.is_empty());
                // a single numeric prerelease identifier: what `a.b.c-d` denotes
                assert!(v.pre_release.len() == 1);
                match &v.pre_release[0] {
                    Identifier::Numeric(n) => { assert!(*n as i128 == d as i128); }
                    Identifier::AlphaNumeric(_) => { assert!(false); }
                }
            }
        };
    }
    from_harness!(u8, from_u8_3, from_u8_4, false);
    from_harness!(u16, from_u16_3, from_u16_4, false);
    from_harness!(u32, from_u32_3, from_u32_4, false);
    from_harness!(u64, from_u64_3, from_u64_4, false);
    from_harness!(usize, from_usize_3, from_usize_4, false);
    from_harness!(i8, from_i8_3, from_i8_4, true);
    from_harness!(i16, from_i16_3, from_i16_4, true);
    from_harness!(i32, from_i32_3, from_i32_4, true);
    from_harness!(i64, from_i64_3, from_i64_4, true);
    from_harness!(isize, from_isize_3, from_isize_4, true);

    // vacuity guard: a harness that must FAIL (a negative value through a signed impl does not give that value back)
    #[kani::proof]
    fn canary_must_fail() {
        let a: u8 = kani::any();
        let v = Version::from((a, a, a));
        assert!(v.major == 0);
    }
}
'''

TYPES = ['u8', 'u16', 'u32', 'u64', 'usize', 'i8', 'i16', 'i32', 'i64', 'isize']


def scratch_crate(repo, work):
    shutil.rmtree(work, ignore_errors=True)
    os.makedirs(work)
    for f in ('Cargo.toml', 'Cargo.lock', 'README.md'):
        shutil.copy(os.path.join(repo, f), os.path.join(work, f))
    shutil.copytree(os.path.join(repo, 'src'), os.path.join(work, 'src'))
    for d in ('examples', 'benches'):
        if os.path.isdir(os.path.join(repo, d)):
            shutil.copytree(os.path.join(repo, d), os.path.join(work, d))
    os.makedirs(os.path.join(work, '.cargo'), exist_ok=True)
    open(os.path.join(work, '.cargo', 'config.toml'), 'w').write('[net]\noffline = true\n')


def run(repo, work, tier):
    t0 = time.time()
    crate = os.path.join(work, 'crate')
    scratch_crate(repo, crate)
    with open(os.path.join(crate, 'src', 'lib.rs'), 'a') as f:
        f.write(HARNESS)
    names = ['%s_%d' % ('from_' + t, n) for t in TYPES for n in (3, 4)] + ['canary_must_fail']
    env = dict(os.environ, CARGO_NET_OFFLINE='true', CARGO_TARGET_DIR=os.path.join(work, 'target'))
    cmd = ['cargo', 'kani', '--output-format', 'terse', '-j', '8']
    for n in names:
        cmd += ['--harness', 'verif_c18::' + n]
    try:
        p = subprocess.run(cmd, cwd=crate, env=env, capture_output=True, text=True, timeout=3000)
        out = p.stdout + '\n' + p.stderr
    except subprocess.TimeoutExpired as e:
        out = 'TIMEOUT'
    open(os.path.join(work, 'kani.log'), 'w').write(out)
    harnesses = []
    # with -j the per-harness output interleaves; the summary at the end names every failed harness
    status = {}
    m = re.search(r'Complete - (\d+) successfully verified harnesses, (\d+) failures, (\d+) total', out)
    failed_names = [x.split('::')[-1] for x in re.findall(r'Verification failed for - ([\w:]+)', out)]
    if m and int(m.group(3)) == len(names):
        for n in names:
            status[n] = ('FAILURE', 'see kani.log') if n in failed_names else ('SUCCESS', '')
        if int(m.group(1)) != len([n for n in names if n not in failed_names]):
            status = {}
    for n in names:
        st, det = status.get(n, ('NOT-RUN', out[-400:] if not status else ''))
        if n == 'canary_must_fail':
            continue
        harnesses.append({'name': n, 'status': st, 'detail': det, 'bounded': False, 'domain': 'all values of the type (non-negative for signed types)'})
    can = status.get('canary_must_fail', ('NOT-RUN', ''))
    if can[0] != 'FAILURE':
        # vacuity: the must-fail harness did not fail => nothing is believed
        for h in harnesses:
            h['status'] = 'VACUOUS(canary %s)' % can[0]
    return {'cmd': ' '.join(cmd), 'harnesses': harnesses, 'canary': can[0], 'wall_s': round(time.time() - t0, 1), 'log': os.path.join(work, 'kani.log'),
            'backend': 'Kani 0.68 / CBMC 6.11, loop free harnesses over kani::any() of the whole type: complete, no unwinding bound'}
