#!/usr/bin/env python3
"""Build gen/<tag>/semver_verus.rs from /repo's current working tree + /verif/contracts.

Layout of the generated crate (one file, modules so that a check verifies only what its property needs):
  root        std axioms (prelude), extracted types, Clone stubs, derive models, `pub use` of every module
  m_order     SemVer precedence spec + order lemmas
  m_version   Version::{eq, partial_cmp, cmp, is_prerelease, diff, hash, satisfies}, tuple From impls, diff / hash specs
  m_bound_spec, m_bound   cut semantics + Predicate / Bound / BoundSet functions
  m_range_spec, m_range   range relations + Range functions
  m_npm       npm comparator semantics, representation lemmas
  m_desugar   the five desugaring closures (R5), Partial::normalize, From<Partial>
  m_conj      intersect_all
  m_props     property level lemmas
  m_canary    must-fail obligations (vacuity guard)
"""
import os, re, sys, json, hashlib
sys.path.insert(0, os.path.dirname(os.path.abspath(__file__)))
sys.path.insert(0, os.path.join(os.path.dirname(os.path.abspath(__file__)), '..', 'contracts'))
from xtract import *
import contracts as K

VERIF = os.path.abspath(os.path.join(os.path.dirname(os.path.abspath(__file__)), '..'))
CDIR = os.path.join(VERIF, 'contracts')


def P(name):
    return open(os.path.join(CDIR, name)).read()


class Gen:
    def __init__(self, repo):
        self.overrides = {}
        self.repo = repo
        self.lib = Source(os.path.join(repo, 'src/lib.rs'), 'src/lib.rs')
        self.rng = Source(os.path.join(repo, 'src/range.rs'), 'src/range.rs')
        self.mods = {}
        self.order = []
        self.functions = []     # extraction records
        self.lost_hints = []
        self.lost_items = []    # (unit id, reason): extraction units that are not in the source (any more)
        self.stubbed = []       # functions handed to Verus as external_body because their body is outside its reach
        self.stub = set()
        self.dropped = []
        self.pins = []
        self.uncontracted = []  # extracted functions this framework has no contract for (helpers added by a change)
        self.texts = {}

    def emit(self, mod, text):
        if mod not in self.mods:
            self.mods[mod] = []
            self.order.append(mod)
        self.mods[mod].append(text)

    def rec(self, sl, oid, mod, kind='fn', dropped=None):
        self.texts[oid] = sl.verbatim
        r = sl.record()
        r.update({'id': oid, 'module': mod, 'kind': kind})
        if dropped:
            r['dropped'] = dropped
        self.functions.append(r)

    def inj(self, sl, oid, mod, kw, kind='fn', make_pub=False):
        if oid in self.stub:
            # the body uses a construct Verus (or rustc on the generated crate) rejects: keep the contract as an *assumption*
            # so that the rest of the file can be checked; the function itself counts as not verified
            kw2 = {k: v for k, v in kw.items() if k in ('ret', 'contract')}
            text, _ = inject(sl, make_pub=make_pub, **kw2)
            ob = text.index('{', len(text) - len(sl.text[sl.text.index('{'):]) - 1) if False else None
            head_end = text.rindex(sl.text[sl.text.index('{'):])
            # a stub has no body: `mut` on its parameters means nothing (and `mut self` is itself outside Verus's reach)
            stub_head = re.sub(r'([(,]\s*)mut\s+(\w+\s*[:,)])', r'\1\2', text[:head_end])
            text = '#[verifier::external_body]\n' + stub_head + '{ unimplemented!() }'
            self.stubbed.append(oid)
            self.rec(sl, oid, mod, kind, dropped='BODY NOT VERIFIED (stubbed as external_body)')
            return text
        if oid in getattr(self, 'nohints', ()):
            # an annotation of this function no longer type checks against the code (renamed local, changed shape): keep the
            # contract, drop every in-body annotation; a failure of its proof is then a soft failure
            kw = {k: v for k, v in kw.items() if k in ('ret', 'contract')}
            self.lost_hints.append('%s: all in-body annotations dropped (they no longer fit the code)' % oid)
        try:
            text, lost = inject(sl, make_pub=make_pub, **kw)
        except AnchorLost as e:
            # the loops the invariants belong to are gone: hand the function over with its contract only
            kw2 = {k: v for k, v in kw.items() if k in ('ret', 'contract', 'entry', 'closures')}
            self.lost_hints.append('%s: loop annotations dropped (%s)' % (oid, e))
            try:
                text, lost = inject(sl, make_pub=make_pub, **kw2)
            except AnchorLost as e2:
                kw3 = {k: v for k, v in kw.items() if k in ('ret', 'contract')}
                self.lost_hints.append('%s: closure annotations dropped (%s)' % (oid, e2))
                text, lost = inject(sl, make_pub=make_pub, **kw3)
        self.lost_hints += lost
        self.rec(sl, oid, mod, kind)
        return text

    def trait_impl(self, src, impl_re, header, main, oid, mod, kw, ty):
        """one hand written trait impl: the method under contract (`main`) plus EVERY other method the block defines.  An overridden
        provided method (`lt`, `ne`, `max`, `hash_slice`, ...) is what the binary runs for `<`, `!=`, ...; it is extracted verbatim and
        Verus checks it against the trait's own specification (vstd: `lt == (partial_cmp == Some(Less))`, ...).  Its id is recorded
        in `overrides`, and every property that needs `main` needs it too."""
        lo, hi, names = self.impl_fns(src, impl_re)
        if main not in names:
            raise AnchorLost('%s in %s' % (main, impl_re))
        parts = []
        for n in names:
            sl = fn_in(src, lo, hi, n, ty + '::' + n)
            if n == main:
                parts.append(self.inj(sl, oid, mod, kw))
            else:
                o2 = ty + '::' + n
                parts.append(self.inj(sl, o2, mod, {}))
                self.overrides[o2] = oid
        return header + ' {\n' + '\n'.join(parts) + '\n}'

    def unit(self, uid, f):
        """run one extraction unit; a lost anchor loses that unit, not the whole file"""
        try:
            return f()
        except AnchorLost as e:
            self.lost_items.append((uid, str(e)))
            return None

    # ------------------------------------------------------------------ impl blocks: every fn, contracted or not
    def impl_fns(self, src, impl_re):
        lo, hi = impl_span(src, impl_re)
        body = src.code[lo:hi]
        names = []
        depth = 0
        i = 0
        # functions declared at depth 1 of the impl block
        for m in re.finditer(r'^[ \t]*(?:pub(?:\(crate\))? )?fn (\w+)', body, re.M):
            # depth check by counting braces before (cheap: impl bodies here have fns at 4 spaces)
            line = body[body.rfind('\n', 0, m.start()) + 1:m.start() + len(m.group(0))]
            if re.match(r'^    (?:pub(?:\(crate\))? )?fn ', line):
                names.append(m.group(1))
        return lo, hi, names

    def impl_block(self, src, impl_re, header, table, prefix, mod, skip=(), pre=None, per_fn=None):
        lo, hi, names = self.impl_fns(src, impl_re)
        out = []
        for n in names:
            if n in skip:
                self.dropped.append('%s::%s (text shell: winnow / error construction)' % (prefix, n))
                continue
            sl = fn_in(src, lo, hi, n, prefix + '::' + n)
            # R7: drop doc-include attributes inside (none inside fn text) ; R1 where needed
            if pre:
                pre(sl)
            if per_fn and n in per_fn:
                per_fn[n](sl)
            kw = table.get(n)
            if kw is None:
                # a function this framework has no contract for (e.g. a helper added by a change): verified as is,
                # callers see no postcondition
                kw = {}
                self.uncontracted.append(prefix + '::' + n)
                self.dropped.append('%s::%s has no contract (verified for panics/overflow only)' % (prefix, n))
            out.append(self.inj(sl, prefix + '::' + n, mod, kw, make_pub=True))
        for n in table:
            if n not in names:
                self.lost_items.append((prefix + '::' + n, 'function is not in the source any more'))
        return header + ' {\n' + '\n\n'.join(out) + '\n}\n'


def derive_list(sl):
    m = re.search(r'#\[derive\(([^)]*)\)\]', sl.verbatim)
    return [x.strip() for x in m.group(1).split(',')] if m else []


R16_PINNED = {
    'SemverError { input: input.into(), span: (input.char_indices().last().map_or(0, |(i, _)| i), 0).into(), kind: SemverErrorKind::MaxLengthError, }',
    'SemverError { input: input.into(), span: (e.input.as_ptr() as usize - input.as_ptr() as usize, 0).into(), kind: if let Some(kind) = e.kind { kind } else if let Some(ctx) = e.context { SemverErrorKind::Context(ctx) } else { SemverErrorKind::Other }, }',
    'SemverError { input: input.into(), span: (input.len() - 1, 0).into(), kind: SemverErrorKind::IncompleteInput, }',
}


def build(repo, outdir, stub=(), nohints=()):
    g = Gen(repo)
    g.stub = set(stub)
    g.nohints = set(nohints)
    LIB, RNG = g.lib, g.rng
    os.makedirs(outdir, exist_ok=True)

    # ---------------------------------------------------------------- root: types
    ident = item(LIB, r'^pub enum Identifier', 'enum Identifier')
    dl = derive_list(ident)
    ident_handwritten = [t for t in ('PartialEq', 'PartialOrd', 'Ord') if t not in dl]
    strip_derive(ident, ('Clone',))
    g.rec(ident, 'type Identifier', 'root', 'type')
    ver = item(LIB, r'^pub struct Version', 'struct Version')
    vdl = derive_list(ver)
    # a derived impl on Version would be *trusted* by Verus against the hand written spec impls below: never let one through
    bad_derives = tuple(b for b in ('PartialEq', 'Eq', 'PartialOrd', 'Ord', 'Hash') if b in vdl)
    for b in bad_derives:
        g.lost_items.append(('Version::' + {'PartialEq': 'eq', 'Eq': 'eq', 'PartialOrd': 'partial_cmp', 'Ord': 'cmp', 'Hash': 'hash'}[b], 'derive(%s) on Version replaces the hand written impl under contract' % b))
    strip_derive(ver, ('Clone', 'Hash') + bad_derives)
    g.rec(ver, 'type Version', 'root', 'type')
    vdiff = item(LIB, r'^pub enum VersionDiff', 'enum VersionDiff')
    strip_derive(vdiff, ('Hash',))
    g.rec(vdiff, 'type VersionDiff', 'root', 'type')
    tys = []
    for (hdr, nm, drop) in ((r'^enum Predicate', 'Predicate', ('Clone', 'Hash')), (r'^enum Bound \{', 'Bound', ('Clone', 'Hash')),
                            (r'^struct BoundSet', 'BoundSet', ('Clone', 'Hash')), (r'^pub struct Range', 'Range', ('Clone', 'Hash')),
                            (r'^struct Partial', 'Partial', ('Clone',)), (r'^enum Operation', 'Operation', ('Hash',))):
        sl = item(RNG, hdr, 'type ' + nm)
        if nm in ('Predicate', 'Bound', 'BoundSet', 'Range') and 'PartialEq' not in derive_list(sl):
            # `==` on these types is modelled as the derived, structural one (pred_eq / bound_eq); a hand written impl is outside that model
            g.lost_items.append(('impl ' + nm, 'derive(PartialEq) on %s replaced: the structural equality model (A6) no longer applies' % nm))
        strip_derive(sl, drop)
        pubify(sl)
        g.rec(sl, 'type ' + nm, 'root', 'type')
        tys.append((nm, sl))
    m = re.search(r'^pub const MAX_SAFE_INTEGER: u64 = ([0-9_]+);', LIB.code, re.M)
    if not m:
        raise AnchorLost('const MAX_SAFE_INTEGER')
    maxsafe = m.group(0)

    root = [P('prelude.rs')]
    # A7 (`clone` returns an equal value) is an axiom about the DERIVED Clone only: a hand written `impl Clone` is extracted and has to
    # prove `r == *self` itself (obligation of every property)
    handwritten_clone = []
    derived = {'Identifier': dl, 'Version': vdl}
    derived.update({nm: derive_list(sl) for nm, sl in tys})
    root += [vdiff.text, ident.text, ver.text]
    for nm in ('Identifier', 'Version'):
        if 'Clone' in derived[nm]:
            root.append(clone_impl(nm))
        else:
            handwritten_clone.append((nm, LIB, 'm_version'))
    for nm, sl in tys:
        root.append(sl.text)
        if nm != 'Operation':
            if 'Clone' in derived[nm]:
                root.append(clone_impl(nm))
            else:
                handwritten_clone.append((nm, RNG, 'm_bound'))
    root.append(maxsafe + '\n')
    mlen = re.search(r'^pub const MAX_LENGTH: usize = ([0-9_]+);', LIB.code, re.M)
    root.append((mlen.group(0) if mlen else '// MAX_LENGTH not found') + '\n')
    # error types used by the lifted closures of number() and range_set() (R11: doc comments and the attributes of the
    # thiserror / miette derive macros are stripped; only the shape of the types matters to the contracts)
    err_types_ok = True
    try:
        ek = item(LIB, r'^pub enum SemverErrorKind', 'enum SemverErrorKind')
        ek.text = re.sub(r'/\*\*.*?\*/', '', ek.text, flags=re.S)
        ek.text = re.sub(r'^\s*#\[(error|diagnostic)\(.*\)\]\s*$\n', '', ek.text, flags=re.M)
        ek.text = re.sub(r'#\[derive\([^)]*\)\]', '#[derive(Debug, Eq, PartialEq)]', ek.text)
        ek.rewrites.append('R11 doc comments, #[error]/#[diagnostic] attributes and the Clone/Error/Diagnostic derives stripped')
        g.rec(ek, 'type SemverErrorKind', 'root', 'type')
        pe = item(LIB, r'^struct SemverParseError<I>', 'struct SemverParseError')
        pe.text = pe.text.replace('pub(crate) ', 'pub ')
        pubify(pe)
        g.rec(pe, 'type SemverParseError', 'root', 'type')
        root.append(P('parse_model.rs'))
        root.append(ek.text)
        root.append(pe.text)
    except AnchorLost as e:
        err_types_ok = False
        g.lost_items.append(('number_check', str(e)))
        g.lost_items.append(('range_set_check', str(e)))

    # A6: model of the derived Ord on Identifier, generated from the enum text (variant order as declared)
    variants = re.findall(r'^\s*(\w+)\((\w+)\),', ident.verbatim, re.M)
    if sorted(v for v, _ in variants) != ['AlphaNumeric', 'Numeric']:
        raise AnchorLost('variants of Identifier')
    idx = '\n'.join('        Identifier::%s(_) => %d,' % (v, i) for i, (v, _) in enumerate(variants))
    pay = []
    for v, t in variants:
        if t == 'u64':
            pay.append('        (Identifier::%s(x), Identifier::%s(y)) => int_cmp(x as int, y as int),' % (v, v))
        elif t == 'String':
            pay.append('        (Identifier::%s(x), Identifier::%s(y)) => str_cmp(x@, y@),' % (v, v))
        else:
            raise AnchorLost('payload type of Identifier::' + v)
    derive_model = '''
// ---- A6: derived PartialOrd/Ord/PartialEq on Identifier (generated from the enum text: variants in declaration order, then payload)
pub open spec fn ident_variant_index(a: Identifier) -> int {
    match a {
%s
    }
}
pub open spec fn derived_ident_cmp(a: Identifier, b: Identifier) -> Ordering {
    if ident_variant_index(a) != ident_variant_index(b) { int_cmp(ident_variant_index(a), ident_variant_index(b)) } else { match (a, b) {
%s
        _ => Ordering::Equal,
    } }
}
impl PartialEqSpecImpl for Identifier { open spec fn obeys_eq_spec() -> bool { true } open spec fn eq_spec(&self, other: &Self) -> bool { derived_ident_cmp(*self, *other) == Ordering::Equal } }
impl PartialOrdSpecImpl for Identifier { open spec fn obeys_partial_cmp_spec() -> bool { true } open spec fn partial_cmp_spec(&self, other: &Self) -> Option<Ordering> { Some(derived_ident_cmp(*self, *other)) } }
impl OrdSpecImpl for Identifier { open spec fn obeys_cmp_spec() -> bool { true } open spec fn cmp_spec(&self, other: &Self) -> Ordering { derived_ident_cmp(*self, *other) } }
impl PartialEqSpecImpl for Version { open spec fn obeys_eq_spec() -> bool { true } open spec fn eq_spec(&self, other: &Self) -> bool { ver_cmp(*self, *other) == Ordering::Equal } }
impl PartialOrdSpecImpl for Version { open spec fn obeys_partial_cmp_spec() -> bool { true } open spec fn partial_cmp_spec(&self, other: &Self) -> Option<Ordering> { Some(ver_cmp(*self, *other)) } }
impl OrdSpecImpl for Version { open spec fn obeys_cmp_spec() -> bool { true } open spec fn cmp_spec(&self, other: &Self) -> Ordering { ver_cmp(*self, *other) } }
''' % (idx, '\n'.join(pay))
    if ident_handwritten:
        # hand written ordering on Identifier: it has to meet the SemVer identifier order itself (no derive model)
        derive_model = derive_model.replace('open spec fn eq_spec(&self, other: &Self) -> bool { derived_ident_cmp(*self, *other) == Ordering::Equal }', 'open spec fn eq_spec(&self, other: &Self) -> bool { ident_cmp(*self, *other) == Ordering::Equal }')
        derive_model = derive_model.replace('Some(derived_ident_cmp(*self, *other))', 'Some(ident_cmp(*self, *other))').replace('open spec fn cmp_spec(&self, other: &Self) -> Ordering { derived_ident_cmp(*self, *other) }', 'open spec fn cmp_spec(&self, other: &Self) -> Ordering { ident_cmp(*self, *other) }')
    root.append(derive_model)

    g.handwritten_clone = handwritten_clone
    # ---------------------------------------------------------------- m_order
    g.emit('m_order', P('order_spec.rs'))
    g.emit('m_order', P('order_glue.rs'))

    # ---------------------------------------------------------------- m_version
    V = K.VERSION
    if ident_handwritten:
        for tr, fnn in (('PartialEq', 'eq'), ('PartialOrd', 'partial_cmp'), ('Ord', 'cmp')):
            if tr in ident_handwritten:
                def u(tr=tr, fnn=fnn):
                    g.emit('m_version', g.trait_impl(LIB, r'^impl (?:::)?(?:std::|core::)?(?:cmp::)?%s for Identifier \{' % tr, 'impl %s for Identifier' % tr, fnn, 'Identifier::' + fnn, 'm_version', {}, 'Identifier'))
                g.unit('Identifier::' + fnn, u)
        if 'Eq' not in dl:
            g.emit('m_version', 'impl Eq for Identifier {}')

    def u_eq():
        g.emit('m_version', 'impl Eq for Version {}\n' + g.trait_impl(LIB, r'^impl (?:::)?(?:std::|core::)?(?:cmp::)?PartialEq for Version \{', 'impl PartialEq for Version', 'eq', 'Version::eq', 'm_version', V['eq'], 'Version'))
    g.unit('Version::eq', u_eq)

    def u_pcmp():
        g.emit('m_version', g.trait_impl(LIB, r'^impl (?:::)?(?:std::|core::)?(?:cmp::)?PartialOrd for Version \{', 'impl cmp::PartialOrd for Version', 'partial_cmp', 'Version::partial_cmp', 'm_version', V['partial_cmp'], 'Version'))
    g.unit('Version::partial_cmp', u_pcmp)

    def u_cmp():
        g.emit('m_version', g.trait_impl(LIB, r'^impl (?:::)?(?:std::|core::)?(?:cmp::)?Ord for Version \{', 'impl cmp::Ord for Version', 'cmp', 'Version::cmp', 'm_version', V['cmp'], 'Version'))
    g.unit('Version::cmp', u_cmp)
    g.emit('m_version', P('diff_spec.rs'))
    g.emit('m_version', P('hash_model.rs'))
    tbl = {k: V[k] for k in ('is_prerelease', 'diff', 'satisfies')}
    g.unit('impl Version', lambda: g.emit('m_version', g.impl_block(LIB, r'^impl Version \{', 'impl Version', tbl, 'Version', 'm_version', skip=('parse',))))

    def u_hash():
        g.emit('m_version', g.trait_impl(LIB, r'^impl (?:::)?(?:std::|core::)?(?:hash::)?Hash for Version \{', 'impl std::hash::Hash for Version', 'hash', 'Version::hash', 'm_version', V['hash'], 'Version'))
    g.unit('Version::hash', u_hash)

    # R3: macro instantiation for u64 (verified here); the signed instance used by literals is i32 (contract proved by Kani, C18)
    g.emit('m_version', P('from_model.rs'))

    def u_from():
        mac = item(LIB, r'^macro_rules! impl_from_unsigned_for_version', 'macro impl_from_unsigned_for_version')
        i0 = mac.verbatim.index('$(', mac.verbatim.index('=>'))
        fbody = mac.verbatim[i0 + 2:mac.verbatim.rindex(')+')].replace('$t', 'u64')
        mac.rewrites.append('R3 macro body instantiated for $t = u64')
        fbody, n = re.subn(r'fn from\((\([a-z_, ]+\)): (\([a-z0-9, ]+\))\) -> Self \{', lambda m: f'fn from(arg: {m.group(2)}) -> (r: Self)\n ensures FROMENS{len(m.group(1).split(","))}\n {{\n let {m.group(1)} = arg;', fbody)
        if n != 2:
            raise AnchorLost('From impls inside impl_from_unsigned_for_version')
        mac.rewrites.append('R2 tuple pattern parameter bound by `let` (2)')
        fbody = fbody.replace('FROMENS3', 'key(r) == k3(arg.0 as int, arg.1 as int, arg.2 as int), r.build@.len() == 0')
        fbody = fbody.replace('FROMENS4', 'key(r).major == arg.0, key(r).minor == arg.1, key(r).patch == arg.2, key(r).pre =~= seq![Identifier::Numeric(arg.3)], r.build@.len() == 0')
        g.rec(mac, 'From<(u64,u64,u64[,u64])> for Version', 'm_version', 'macro-instance')
        g.emit('m_version', fbody)
    g.unit('Version::from@m_version', u_from)

    # ---------------------------------------------------------------- m_bound_spec / m_bound
    g.emit('m_bound_spec', P('bound_spec.rs'))
    g.unit('impl Predicate', lambda: g.emit('m_bound', g.impl_block(RNG, r'^impl Predicate \{', 'impl Predicate', K.PREDICATE, 'Predicate', 'm_bound')))
    g.unit('impl Bound', lambda: g.emit('m_bound', g.impl_block(RNG, r'^impl Bound \{', 'impl Bound', K.BOUND, 'Bound', 'm_bound')))
    g.unit('Bound::cmp', lambda: g.emit('m_bound', g.trait_impl(RNG, r'^impl (?:::)?(?:std::|core::)?(?:cmp::)?Ord for Bound \{', 'impl Ord for Bound', 'cmp', 'Bound::cmp', 'm_bound', K.BOUND_ORD['cmp'], 'Bound')))
    g.unit('Bound::partial_cmp', lambda: g.emit('m_bound', g.trait_impl(RNG, r'^impl (?:::)?(?:std::|core::)?(?:cmp::)?PartialOrd for Bound \{', 'impl PartialOrd for Bound', 'partial_cmp', 'Bound::partial_cmp', 'm_bound', {}, 'Bound')))
    g.unit('impl BoundSet', lambda: g.emit('m_bound', g.impl_block(RNG, r'^impl BoundSet \{', 'impl BoundSet', K.BOUNDSET, 'BoundSet', 'm_bound', pre=r1_split_or_guard)))
    g.emit('m_bound', P('fmt_model.rs'))


    # ---------------------------------------------------------------- m_range_spec / m_range
    g.emit('m_range_spec', P('range_spec.rs'))
    g.emit('m_range_spec', P('iter_spec.rs'))
    g.emit('m_range_spec', P('minv_spec.rs'))

    def r6(sl):
        # R6: `E.iter().filter(C).max()` -> stub(E, C') with the closure contract spliced in
        pat = re.compile(r'(\w+)\.iter\(\)\.filter\(\|(\w+)\| ([^\n]*?)\)\.(max|min)\(\)')
        def f(m):
            return f"verif_std_filter_{m.group(4)}({m.group(1)}, |{m.group(2)}: &&Version| -> (b: bool) requires rwf(*self) ensures b == rsat(*self, key(**{m.group(2)})) {{ {m.group(3)} }})"
        t, n = pat.subn(f, sl.text)
        if n == 1:
            sl.rewrites.append('R6 std iterator idiom routed through verif_std_filter_* (body = the original expression)')
            sl.text = t
        else:
            g.lost_hints.append('%s: the `iter().filter(..).max()/min()` idiom (R6) is gone; the function is handed to Verus as written' % sl.what)
    g.unit('impl Range', lambda: g.emit('m_range', g.impl_block(RNG, r'^impl Range \{', 'impl Range', K.RANGE, 'Range', 'm_range', skip=('parse',),
                                   per_fn={'max_satisfying': r6, 'min_satisfying': r6},
                                   pre=lambda sl: setattr(sl, 'text', re.sub(r'^\s*#\[doc = include_str!\([^\n]*\n', '', sl.text, flags=re.M)))))

    # ---------------------------------------------------------------- m_npm
    g.emit('m_npm', P('npm_spec.rs'))
    g.emit('m_npm', P('repr_spec.rs'))
    g.emit('m_npm', P('equiv_spec.rs'))
    g.emit('m_npm', P('conj_spec.rs'))

    # ---------------------------------------------------------------- m_conj
    def u_conj():
        sl = top_fn(RNG, 'intersect_all')
        # plumbing pin (R5): range() maps exactly this function over the separated comparator list
        rng_fn = top_fn(RNG, 'range').verbatim
        rng_code = top_fn(RNG, 'range').code
        flat = re.sub(r'\s+', '', rng_code)
        body = flat[flat.index('{'):]
        # the WHOLE body is pinned: the comparator list reaches intersect_all as the parser produced it, nothing wraps the result
        if not re.fullmatch(r'\{alt\(\(Parser::map\(preceded\(space0,peek\(alt\(\(literal\(""\),eof\)\)\)\),\|_\|\{.*?\}\),Parser::map\(separated\(0\.\.,simple,space1\),\|(\w+)(?::Vec<Option<BoundSet>>)?\|\{?intersect_all\(&\1\);?\}?,?\),?\)\)\.parse_next\(input\)\}', body):
            raise AnchorLost('range(): `alt((Parser::map(<empty range>, |_| {..}), Parser::map(separated(0.., simple, space1), |bs| intersect_all(&bs)))).parse_next(input)` and nothing else')
        g.pins.append('range() = alt((empty-range arm, Parser::map(separated(0.., simple, space1), |bs| intersect_all(&bs)))).parse_next(input) -- whole body pinned: the closure hands the list over untouched, nothing wraps the result')
        bs_flat = re.sub(r'\s+', '', top_fn(RNG, 'bound_sets').code)
        bs_body = bs_flat[bs_flat.index('{'):]
        if not re.fullmatch(r'\{Parser::map\(separated\(0\.\.,range,logical_or\),\|(\w+)(?::Vec<Vec<BoundSet>>)?\|\{?\1\.into_iter\(\)\.flatten\(\)\.collect\(\);?\}?,?\)\.parse_next\(input\)\}', bs_body):
            raise AnchorLost('bound_sets(): `Parser::map(separated(0.., range, logical_or), |sets| sets.into_iter().flatten().collect()).parse_next(input)` and nothing else')
        g.pins.append('bound_sets() = Parser::map(separated(0.., range, logical_or), |sets| sets.into_iter().flatten().collect()).parse_next(input) -- whole body pinned: every alternative is kept')
        g.emit('m_conj', g.inj(sl, 'intersect_all', 'm_conj', K.INTERSECT_ALL, make_pub=True))
        # the closure of the other arm of range(): the empty range is `*`
        mk = re.search(r'Parser::map\(preceded\(space0, peek\(alt\(\(literal\("\|\|"\), eof\)\)\)\), \|_\| \{', rng_fn)
        if not mk:
            raise AnchorLost('range(): the arm for the empty range `Parser::map(preceded(space0, peek(alt((literal("||"), eof)))), |_| {..})`')
        f = top_fn(RNG, 'range')
        k = mk.end() - 1
        e = match_brace(f.verbatim, k)
        esl = Slice(RNG, f.start + k, f.start + e, 'closure for the empty range in range()')
        esl.rewrites.append('R5 closure body lifted into fn empty_range_desugar()')
        g.rec(esl, 'empty_range_desugar', 'm_conj', 'closure', dropped='winnow combinator call around the closure')
        g.emit('m_conj', 'pub fn empty_range_desugar() -> (r: Vec<BoundSet>)\n    ensures r@.len() == 1, shape_ok_c(Some(r@[0]), any_c()), bs_small(r@[0]),  // @range#empty-is-star\n{\n proof { reveal(cut_cmp); }\n' + esl.text + '\n}\n')
    g.emit('m_conj', '// the comparator list of one alternative')
    g.unit('intersect_all', u_conj)

    # ---------------------------------------------------------------- m_desugar
    g.emit('m_desugar', P('desugar_model.rs'))

    def u_norm():
        blk = g.impl_block(RNG, r'^impl Partial \{', 'impl Partial', {'normalize': K.PARTIAL_NORMALIZE}, 'Partial', 'm_desugar')
        pv = top_fn(RNG, 'partial_version').code
        if not re.search(r'\.normalize\(\)\)\s*\}\s*$', pv, re.S) or len(re.findall(r'Ok\(', pv)) != 1 or len(re.findall(r'PResult<Partial,', RNG.code)) != 1:
            raise AnchorLost('partial_version(): the only parser producing a Partial, ending in `Ok(Partial { .. }.normalize())`')
        g.pins.append('partial_version() returns Partial{..}.normalize() and is the only constructor of Partial')
        g.emit('m_desugar', blk)
    g.unit('Partial::normalize', u_norm)
    g.unit('Version::from@m_desugar', lambda: g.emit('m_desugar', 'impl From<Partial> for Version {\n' + g.inj(fn_in_impl(RNG, r'^impl From<Partial> for Version \{', 'from', 'From<Partial> for Version'), 'Version::from@m_desugar', 'm_desugar', K.FROM_PARTIAL) + '\n}'))

    def lifted(name, sig, grid, sl, hint=K.DESUGAR_HINT, tail='', head=''):
        sl.rewrites.append('R5 closure body lifted into fn ' + name)
        r13_asserts(sl)
        if name in g.stub:
            g.stubbed.append(name)
            g.rec(sl, name, 'm_desugar', 'closure', dropped='BODY NOT VERIFIED (stubbed as external_body)')
            return '#[verifier::external_body]\npub fn ' + name + sig + '\n' + '\n'.join(grid) + '\n{ unimplemented!() }\n'
        g.rec(sl, name, 'm_desugar', 'closure', dropped='winnow combinator call around the closure (Parser::map / context / parse_next)')
        if name in g.nohints:
            g.lost_hints.append('%s: all in-body annotations dropped (they no longer fit the code)' % name)
            hint = '{\n'
        return 'pub fn ' + name + sig + '\n' + '\n'.join(grid) + '\n' + hint + head + sl.text + tail + '\n}\n'
    def u_caret():
        sl = closure_match(RNG, 'caret', None, 'closure in caret()')
        g.emit('m_desugar', lifted('caret_desugar', '(%s: Partial) -> (r: Option<BoundSet>)' % sl.param, K.grid_caret(sl.param), sl))
    g.unit('caret_desugar', u_caret)

    def u_partial():
        sl = closure_match(RNG, 'partial', None, 'closure in partial()')
        g.emit('m_desugar', lifted('partial_desugar', '(%s: Partial) -> (r: Option<BoundSet>)' % sl.param, K.grid_partial(sl.param), sl))
    g.unit('partial_desugar', u_partial)

    def u_tilde():
        sl = closure_match(RNG, 'tilde', None, 'closure in tilde()')
        g.emit('m_desugar', lifted('tilde_desugar', '(%s: (Option<&str>, Partial)) -> (r: Option<BoundSet>)' % sl.param, K.grid_tilde(sl.param), sl))
    g.unit('tilde_desugar', u_tilde)
    for op in K.OPS:
        def u_prim(op=op):
            prim_m = closure_match(RNG, 'primitive', None, 'closure in primitive()')
            prim_m.rewrites.append('checked once per operator (requires <param>.0 == Operation::%s)' % op)
            g.emit('m_desugar', lifted('primitive_desugar_' + op, '(%s: (Operation, Partial)) -> (r: Option<BoundSet>)' % prim_m.param, K.grid_primitive(op, prim_m.param), prim_m,
                                       hint=K.desugar_hint_le(prim_m.param) if op == 'LessThanEquals' else K.DESUGAR_HINT, head='use Operation::*;\n'))
        g.unit('primitive_desugar_' + op, u_prim)

    # the clause grids as one relation per form, and one more instance of each closure body proved against it (used by the whole
    # comparator functions below: there the closure body is replaced by a call to this instance -- same text, R5)
    g.emit('m_desugar', K.comparator_posts())
    WHOLE = {'partial': ('Partial', 'partial_post', 'wf_partial($P)', K.DESUGAR_HINT, ''), 'caret': ('Partial', 'caret_post', 'wf_partial($P)', K.DESUGAR_HINT, ''),
             'tilde': ('(Option<&str>, Partial)', 'tilde_post', 'wf_partial($P.1)', K.DESUGAR_HINT, ''),
             'primitive': ('(Operation, Partial)', 'primitive_post', 'wf_partial($P.1)', None, 'use Operation::*;\n')}
    for form, (ty, post, pre, hint, head) in WHOLE.items():
        def u_whole(form=form, ty=ty, post=post, pre=pre, hint=hint, head=head):
            sl = closure_match(RNG, form, None, 'closure in %s()' % form)
            h = hint if hint is not None else K.desugar_hint_le(sl.param)
            grid = ['    requires ' + pre.replace('$P', sl.param) + ',', '    ensures %s(%s, r),  // @%s#post' % (post, sl.param, form)]
            g.emit('m_desugar', lifted(form + '_desugar_whole', '(%s: %s) -> (r: Option<BoundSet>)' % (sl.param, ty), grid, sl, hint=h, head=head))
        g.unit(form + '_desugar_whole', u_whole)


    def hyphen_block():
        """the nested `fn parser` of hyphen and, inside it, the block that computes the bounds: from `let <up> = match <up> {` up to (not including)
        the final `Ok(<bd>)` that is the tail expression of the nested fn.  Cut once, used by every unit that lifts or replaces it, so that the
        lifted text and the replaced text cannot differ (white-box find wb81)."""
        f = top_fn(RNG, 'hyphen')
        m0 = re.search(r"fn parser<'s>\(input: &mut &'s str\) -> PResult<Option<BoundSet>, SemverParseError<&'s str>> \{", f.code)
        if not m0:
            raise AnchorLost('hyphen(): nested `fn parser`')
        ob = m0.end() - 1
        e = match_brace(f.code, ob)
        body = f.code[ob:e]
        mm = re.search(r'let (\w+) = opt\(partial_version\)\.parse_next\(input\)\?;.*?let (\w+) = partial_version\(input\)\?;\s*(let \2 = match \2 \{.*)\n\s*Ok\((\w+)\)\s*\}\s*$', body, re.S)
        if not mm:
            raise AnchorLost('hyphen::parser: lower = opt(partial_version), upper = partial_version, <bounds block>, tail expression Ok(bounds)')
        if re.search(r'\breturn\b|\?', mm.group(3)):
            raise AnchorLost('hyphen::parser: the bounds block leaves the function on its own (`return` / `?`)')
        blk = Slice(RNG, f.start + ob + mm.start(3), f.start + ob + mm.end(3), 'block in hyphen::parser')
        return f, m0, e, mm.group(1), mm.group(2), mm.group(4), blk, ob + mm.start(3), ob + mm.end(3)

    def u_hyphen():
        f, m0, e, lo, up, bd, hy, a, b = hyphen_block()
        g.pins.append('hyphen::parser: lower = opt(partial_version), upper = partial_version, bounds block, tail expression Ok(bounds)')
        g.emit('m_desugar', lifted('hyphen_desugar', '(%s: Option<Partial>, %s: Partial) -> (r: Option<BoundSet>)' % (lo, up), K.grid_hyphen(lo, up), hy, tail='\n ' + bd))
    g.unit('hyphen_desugar', u_hyphen)

    # ---------------------------------------------------------------- m_parse: the two pure closures of the text shell
    g.emit('m_parse', '// pure closures of the text shell')

    def u_number():
        f = top_fn(LIB, 'number')
        body = f.code
        mk = 'Parser::try_map(Parser::take(digit1), |raw| {'
        i = body.find(mk)
        if i < 0 or 'let copied = input.clone();' not in body:
            raise AnchorLost('number(): `Parser::try_map(Parser::take(digit1), |raw| {..})` with `copied = input.clone()`')
        k = i + len(mk) - 1
        e = match_brace(body, k)
        sl = Slice(LIB, f.start + k, f.start + e, 'closure in number()')
        sl.rewrites.append('R5 closure body lifted into fn number_check(raw, copied)')
        # pins: every numeric component of a Partial / Version comes out of number()
        # (pins are syntactic and deliberately loose: they say which parser a number can come from, not how the combinators are written)
        comp = top_fn(RNG, 'component').code
        if not re.search(r'\bnumber\b', comp) or re.search(r'digit1|parse::<|\.parse\(\)|from_str', comp):
            raise AnchorLost('component(): numbers come from number() only')
        pvf = top_fn(RNG, 'partial_version').code
        if not re.search(r'\bcomponent\b', pvf) or re.search(r'\bnumber\b|digit1|parse::<|\.parse\(\)|from_str', pvf):
            raise AnchorLost('partial_version(): major/minor/patch come from component() only')
        g.pins.append('component() = alt(x_or_asterisk -> None, number -> Some); partial_version() takes major/minor/patch from component()')
        if 'number_check' in g.stub:
            g.stubbed.append('number_check')
            g.rec(sl, 'number_check', 'm_parse', 'closure', dropped='BODY NOT VERIFIED (stubbed as external_body)')
            g.emit('m_parse', "#[verifier::external_body]\npub fn number_check<'s>(raw: &'s str, copied: &'s str) -> (r: Result<u64, SemverParseError<&'s str>>)\n    ensures r matches Ok(v) ==> v <= MAX_SAFE_INTEGER,\n{ unimplemented!() }\n")
            return
        g.rec(sl, 'number_check', 'm_parse', 'closure', dropped='winnow combinator call around the closure (Parser::try_map / take(digit1) / context / parse_next)')
        g.emit('m_parse', "pub fn number_check<'s>(raw: &'s str, copied: &'s str) -> (r: Result<u64, SemverParseError<&'s str>>)\n    ensures r matches Ok(v) ==> v <= MAX_SAFE_INTEGER,  // @number#max-safe\n" + sl.text + '\n')
    if err_types_ok:
        g.unit('number_check', u_number)

    def u_identifier():
        f = top_fn(LIB, 'identifier')
        body = f.verbatim
        mk = '|s: &str| {'
        i = f.code.find(mk)
        if i < 0 or 'take_while(1.., |x: char|' not in body:
            raise AnchorLost('identifier(): `Parser::map(take_while(1.., alnum or -), |s: &str| {..})`')
        k = i + len(mk) - 1
        e = match_brace(body, k)
        sl = Slice(LIB, f.start + k, f.start + e, 'closure in identifier()')
        sl.rewrites.append('R5 closure body lifted into fn identifier_classify(s)')
        t = sl.text
        # R12: a datatype constructor used as a function value is eta-expanded (Verus does not support the former); the two closures
        # receive their contracts
        t2 = t.replace('.map(Identifier::Numeric)', '.map(|n: u64| -> (i: Identifier) ensures i == Identifier::Numeric(n) { Identifier::Numeric(n) })')
        if t2 != t:
            sl.rewrites.append('R12 `.map(Identifier::Numeric)` eta-expanded to a closure')
        t3 = t2.replace('.unwrap_or_else(|_err| Identifier::AlphaNumeric(s.to_string()))', '.unwrap_or_else(|_err: std::num::ParseIntError| -> (i: Identifier) ensures i matches Identifier::AlphaNumeric(t) && t@ == s@ { Identifier::AlphaNumeric(s.to_string()) })')
        if t3 == t2 or t2 == t:
            g.lost_hints.append('identifier_classify: closure annotations dropped (the expression no longer has the shape `parse.map(Numeric).unwrap_or_else(..)`)')
        sl.text = t3
        sig = "pub fn identifier_classify(s: &str) -> (r: Identifier)\n    ensures match parse_spec::<u64>(s@) { Some(n) => r == Identifier::Numeric(n), None => r matches Identifier::AlphaNumeric(t) && t@ == s@ },  // @identifier#classify\n"
        if 'identifier_classify' in g.stub:
            g.stubbed.append('identifier_classify')
            g.rec(sl, 'identifier_classify', 'm_parse', 'closure', dropped='BODY NOT VERIFIED (stubbed as external_body)')
            g.emit('m_parse', '#[verifier::external_body]\n' + sig + '{ unimplemented!() }\n')
            return
        g.rec(sl, 'identifier_classify', 'm_parse', 'closure', dropped='winnow combinator call around the closure (Parser::map / take_while / context / parse_next)')
        g.emit('m_parse', sig + sl.text + '\n')
    g.unit('identifier_classify', u_identifier)

    def u_range_set():
        f = top_fn(RNG, 'range_set')
        body = f.code
        mk = 'Parser::try_map(bound_sets, |sets| {'
        i = body.find(mk)
        if i < 0:
            raise AnchorLost('range_set(): `Parser::try_map(bound_sets, |sets| {..})`')
        k = i + len(mk) - 1
        e = match_brace(body, k)
        sl = Slice(RNG, f.start + k, f.start + e, 'closure in range_set()')
        sl.rewrites.append('R5 closure body lifted into fn range_set_check(sets, input)')
        if not re.search(r'pub fn parse<S: AsRef<str>>\(input: S\) -> Result<Self, SemverError> \{\s*let mut input = input\.as_ref\(\);\s*match range_set\.parse_next\(&mut input\) \{\s*Ok\(range\) => Ok\(range\),', RNG.code):
            raise AnchorLost('Range::parse(): `match range_set.parse_next(&mut input) { Ok(range) => Ok(range), ..`')
        g.pins.append('Range::parse() returns what range_set yields; range_set = Parser::try_map(bound_sets, closure)')
        sig = "pub fn range_set_check<I>(sets: Vec<BoundSet>, input: I) -> (r: Result<Range, SemverParseError<I>>)\n    ensures (r is Err) <==> sets@.len() == 0, r matches Ok(x) ==> x.0@ == sets@,\n"
        if 'range_set_check' in g.stub:
            g.stubbed.append('range_set_check')
            g.rec(sl, 'range_set_check', 'm_parse', 'closure', dropped='BODY NOT VERIFIED (stubbed as external_body)')
            g.emit('m_parse', '#[verifier::external_body]\n' + sig + '{ unimplemented!() }\n')
            return
        g.rec(sl, 'range_set_check', 'm_parse', 'closure', dropped='winnow combinator call around the closure (Parser::try_map / parse_next)')
        g.emit('m_parse', sig + sl.text + '\n')
    if err_types_ok:
        g.unit('range_set_check', u_range_set)

    # ---------------------------------------------------------------- hand written Clone impls (see root)
    for (nm, src, mod) in g.handwritten_clone:
        def u_clone(nm=nm, src=src, mod=mod):
            oid = nm + '::clone'
            g.emit(mod, g.trait_impl(src, r'^impl (?:::)?(?:std::|core::)?(?:clone::)?Clone for %s \{' % nm, 'impl Clone for %s' % nm, 'clone', oid, mod, dict(ret='r', contract='    ensures r == *self,'), nm))
            g.overrides[oid] = '*'
        before = len(g.lost_items)
        g.unit(nm + '::clone', u_clone)
        if len(g.lost_items) > before:
            # no derive and no impl found where expected: fall back to the axiom so that the file still type checks; the unit stays lost
            g.mods.setdefault(mod, []).append(clone_impl(nm))

    # ---------------------------------------------------------------- impls of the core types the generator does not know
    KNOWN_IMPL = [r'(?:fmt::|std::fmt::)?Display', r'(?:fmt::|std::fmt::)?Debug', r'(?:std::str::|str::)?FromStr', r'Serialize', r"Deserialize<'de>", r'(?:std::error::)?Error', r'Diagnostic',
                  r'PartialEq', r'Eq', r'(?:std::)?(?:cmp::)?PartialOrd', r'(?:std::)?(?:cmp::)?Ord', r'(?:std::hash::|hash::)?Hash', r'(?:std::clone::|clone::)?Clone',
                  r'(?:::std::convert::|std::convert::)?From<.*>']
    CORE = ('Version', 'Identifier', 'VersionDiff', 'Predicate', 'Bound', 'BoundSet', 'Range', 'Partial', 'Operation')
    for src in (LIB, RNG):
        cut = re.search(r'^#\[cfg\(test\)\]', src.code, re.M)
        body = src.code[:cut.start()] if cut else src.code
        for m in re.finditer(r'^impl(?:<[^>]*>)?\s+(.+?)\s+for\s+(\w+)(?:<[^>]*>)?\s*\{', body, re.M):
            tr, ty = m.group(1), m.group(2)
            if ty not in CORE:
                continue
            if not any(re.fullmatch(k, tr) for k in KNOWN_IMPL):
                g.lost_items.append(('impl ' + ty, 'an impl the contracts do not know: `impl %s for %s` (%s:%d); the operations of %s may not mean what the model says' % (tr, ty, src.rel if hasattr(src, 'rel') else '', body.count('\n', 0, m.start()) + 1, ty)))
            # semantic traits must be the hand written / derived ones the model is built on
            sem = re.sub(r'^(?:std::)?(?:cmp::|hash::|clone::)?', '', tr)
            expected = {'Version': ('PartialEq', 'Eq', 'PartialOrd', 'Ord', 'Hash'), 'Bound': ('PartialOrd', 'Ord')}
            if sem in ('PartialEq', 'Eq', 'PartialOrd', 'Ord', 'Hash') and sem not in expected.get(ty, ()) and not (ty == 'Identifier' and sem in ident_handwritten + ['Eq']):
                g.lost_items.append(('impl ' + ty, 'hand written `impl %s for %s` where the model assumes the derived one' % (tr, ty)))


    # ---------------------------------------------------------------- text shell, version grammar (C05): the grammar functions of
    # src/lib.rs, whole and verbatim, under the assumed winnow contracts (A15).  Layout: m_winnow (the combinator contracts),
    # m_vspec (reference grammar + lemmas), m_vtwins (the caller's view of each grammar function: contract without body, and the
    # axioms "as a parser value the function accepts what its contract says"), one private module per function with the real body.
    # The split is what modular verification means anyway (a caller sees the callee's contract); it is also needed: a function that
    # is used as a parser value *and* whose body uses the blanket impl for fn items sits in a dependency cycle in which Verus drops
    # the trait-bound axioms.
    g.private_mods = set()
    g.emit('m_winnow', P('winnow_shim.rs'))
    g.emit('m_vspec', P('vgrammar_spec.rs'))
    g.emit('m_rspec', P('rgrammar_spec.rs'))
    g.emit('m_rspec', K.STD_FLATTEN)
    g.emit('m_vtwins', K.grammar_twins())
    g.emit('m_vtwins', K.PARSE_SPEC)
    g.emit('m_vtwins', K.PARSE_POST)
    g.emit('m_vtwins', K.RANGE_SET_SPEC)

    def u_extras_type():
        sl = item(LIB, r'^enum Extras \{', 'enum Extras')
        pubify(sl)
        g.rec(sl, 'type Extras', 'm_vtwins', 'type')
        g.emit('m_vtwins', sl.text)
        g.emit('m_vtwins', K.EXTRAS_SPEC)
        g.emit('m_vtwins', g.impl_block(LIB, r'^impl Extras \{', 'impl Extras', {'values': dict(ret='r', contract='        ensures extras_vals(Some(self), r),')}, 'Extras', 'm_vtwins'))
    g.unit('Extras::values', u_extras_type)

    def grammar_fn(n):
        def u():
            d = K.GRAMMAR[n]
            f = top_fn(RNG if d.get('src') == 'rng' else LIB, n)
            sig_re = r"(?:pub(?:\(crate\))? )?fn %s<'s>\(\s*input: &mut &'s str,?\s*\) -> PResult<%s, SemverParseError<&'s str>> \{" % (re.escape(n), re.escape(d['O']))
            if not re.match(sig_re, ' '.join(f.verbatim[:f.verbatim.index('{') + 1].split()).replace('( input', '(input').replace("str, )", "str)")):
                raise AnchorLost('signature of grammar function %s' % n)
            body = f.verbatim[f.verbatim.index('{'):]
            lost = []
            if d.get('comparator'):
                # R5b: the closure body -- verified as `<form>_desugar_whole`, the same text lifted (R5) -- is replaced by a call to it
                cm = closure_match(RNG, n, None, 'closure in %s()' % n)
                c = K.COMPARATORS[n]
                a, b2 = cm.start - f.start - f.verbatim.index('{'), cm.end - f.start - f.verbatim.index('{')
                k0 = body.rfind('|' + cm.param + '|', 0, a)
                if k0 < 0 or body[k0:a].strip() != '|%s|' % cm.param:
                    raise AnchorLost('%s(): `|%s| match %s {..}`' % (n, cm.param, cm.param))
                ann = "|%s: %s| -> (o: Option<BoundSet>) requires %s ensures %s { %s_desugar_whole(%s) }" % (cm.param, c['ty'], c['pre'].replace('x', cm.param), c['post'].replace('(x, o)', '(%s, o)' % cm.param), n, cm.param)
                body = body[:k0] + ann + body[b2:]
                f.rewrites.append('R5b closure body replaced by a call to %s_desugar_whole (the same text, lifted and proved against %s)' % (n, c['post'].split('(')[0]))
            for (a, b, why) in d['rewrites']:
                if hasattr(a, 'sub'):
                    if not a.search(body):
                        lost.append('%s: closure annotation dropped, its anchor /%s/ is gone' % (n, a.pattern[:50]))
                        continue
                    body = a.sub(b, body)
                    f.rewrites.append('%s' % why)
                    continue
                if a not in body:
                    lost.append('%s: closure annotation dropped, its anchor `%s` is gone' % (n, a.split('\n')[0][:50]))
                    continue
                body = body.replace(a, b)
                f.rewrites.append('%s: `%s`' % (why, a.split('\n')[0][:60]))
            # a closure that received no contract (one the tables do not know: the code changed shape) tells Verus nothing about its result;
            # a failure of this function's proof is then not an alarm by itself (soft failure, like a call to a helper without contract)
            for cm2 in re.finditer(r'(?<![\w)\]|])\s*(?:move\s+)?\|(?!\|)([^|\n]*)\|(?!\|)(?!\s*->)', mask_code(body)):
                lost.append('%s: a closure without contract (`|%s|`): its effect is unknown to the verifier' % (n, cm2.group(1).strip()[:30]))
            mod = 'm_vg_' + n
            g.private_mods.add(mod)
            head = K.grammar_sig(n) + '\n' + (K.GRAMMAR_CONTRACT % (n, n)) + '\n'
            if n in g.stub:
                g.stubbed.append(n)
                g.rec(f, n, mod, 'fn', dropped='BODY NOT VERIFIED (stubbed as external_body)')
                g.emit(mod, '#[verifier::external_body]\n' + head + '{ unimplemented!() }\n')
                return
            if n in getattr(g, 'nohints', ()):
                g.lost_hints.append('%s: all in-body annotations dropped (they no longer fit the code)' % n)
                text = head + '{\n    broadcast use winnow_defs, grammar_defs;\n' + f.verbatim[f.verbatim.index('{') + 1:]
            else:
                g.lost_hints += lost
                text = head + '{\n    broadcast use winnow_defs, grammar_defs;\n    ' + d['entry'] + body[1:]
            g.rec(f, n, mod, 'fn', dropped='nothing of the function; the winnow combinators it calls are assumed contracts (A15)')
            g.emit(mod, text + '\n')
        return u
    for n in K.GRAMMAR_ORDER:
        if not K.GRAMMAR[n].get('custom'):
            g.unit(n, grammar_fn(n))

    # hyphen: the nested `fn parser` is a unit of its own (R18: it is removed from `hyphen`'s body, where the name then resolves to the
    # caller's view of it); inside it the block that computes the bounds is replaced by a call to hyphen_desugar_whole (R5b)
    def u_hy_whole():
        f, m0, e, lo, up, bd, hy, a, b = hyphen_block()
        grid = ['    requires wf_partial(%s), %s matches Some(f) ==> wf_partial(f),' % (up, lo), '    ensures hyphen_post(%s, %s, r),  // @hyphen#post' % (lo, up)]
        g.emit('m_desugar', lifted('hyphen_desugar_whole', '(%s: Option<Partial>, %s: Partial) -> (r: Option<BoundSet>)' % (lo, up), grid, hy, tail='\n ' + bd))
    g.emit('m_desugar', K.hyphen_post_text())
    g.unit('hyphen_desugar_whole', u_hy_whole)

    def u_hy_parser():
        f, m0, e, lo, up, bd, hy, a, b = hyphen_block()
        t = f.verbatim
        nested = Slice(RNG, f.start + m0.start(), f.start + e, 'hyphen::parser')
        ob = m0.end() - 1
        body = t[ob:e]
        body = body[:a - ob] + 'let %s = hyphen_desugar_whole(%s, %s);' % (bd, lo, up) + body[b - ob:]
        nested.rewrites.append('R5b the block that computes the bounds replaced by a call to hyphen_desugar_whole (the same text, lifted and proved against hyphen_post)')
        d = K.GRAMMAR['parser']
        mod = 'm_vg_parser'
        g.private_mods.add(mod)
        g.rec(nested, 'parser', mod, 'fn', dropped='nothing of the function; winnow combinators are assumed contracts (A15)')
        g.emit(mod, K.grammar_sig('parser') + '\n' + (K.GRAMMAR_CONTRACT % ('parser', 'parser')) + '\n{\n    broadcast use winnow_defs, grammar_defs;\n    ' + d['entry'] + body[1:] + '\n')
        # the wrapper
        outer = t[:m0.start()] + t[e:]
        ob2 = outer.index('{')
        w = Slice(RNG, f.start, f.end, 'hyphen (wrapper)')
        w.rewrites.append('R18 nested fn parser removed (verified as its own unit); `parser` resolves to its contract')
        mod2 = 'm_vg_hyphen'
        g.private_mods.add(mod2)
        g.rec(w, 'hyphen', mod2, 'fn', dropped='the nested fn (own unit)')
        g.emit(mod2, K.grammar_sig('hyphen') + '\n' + (K.GRAMMAR_CONTRACT % ('hyphen', 'hyphen')) + '\n{\n    broadcast use winnow_defs, grammar_defs;\n    ' + outer[ob2 + 1:] + '\n')
    g.unit('parser', u_hy_parser)

    def u_version_parse():
        lo, hi = impl_span(LIB, r'^impl Version \{')
        sl = fn_in(LIB, lo, hi, 'parse', 'Version::parse')
        t = sl.verbatim
        m = re.match(r"\s*pub fn parse<S: AsRef<str>>\(input: S\) -> Result<Version, SemverError> \{\s*let mut input = input\.as_ref\(\);", t)
        if not m:
            raise AnchorLost('Version::parse: `pub fn parse<S: AsRef<str>>(input: S) -> Result<Version, SemverError> { let mut input = input.as_ref(); ..`')
        rest = t[m.end():]
        sl.rewrites.append("R15 `parse<S: AsRef<str>>(input: S)` + `let mut input = input.as_ref();` -> `parse_str<'s>(text: &'s str)` + `let mut input = text;`")
        # R16: every `SemverError { .. }` literal -> opaque constructor
        code = mask_code(rest)
        out, pos, nrep = [], 0, 0
        for mm in re.finditer(r'\bSemverError\s*\{', code):
            if mm.start() < pos:
                continue
            e = match_brace(code, mm.end() - 1)
            lit = ' '.join(code[mm.start():e].split())
            # what R16 drops is pinned, text for text: the three error literals as they stand (whatever else is written there -- control flow,
            # slicing, a call -- is behaviour this unit would silently lose: the unit is lost instead)
            if lit not in R16_PINNED:
                raise AnchorLost('a `SemverError { .. }` literal that is not one of the three pinned ones (`%s`): R16 would drop behaviour' % lit[:70])
            out.append(rest[pos:mm.start()])
            out.append('verif_semver_error()')
            pos = e
            nrep += 1
        out.append(rest[pos:])
        rest = ''.join(out)
        sl.rewrites.append('R16 %d `SemverError { .. }` literals -> verif_semver_error() (error payload: C17, not under contract)' % nrep)
        mod = 'm_vg_parse'
        g.private_mods.add(mod)
        head = "impl Version {\n    pub fn parse_str<'s>(text: &'s str) -> (r: Result<Version, SemverError>)\n" + K.PARSE_CONTRACT + '\n'
        if 'Version::parse_str' in g.stub:
            g.stubbed.append('Version::parse_str')
            g.rec(sl, 'Version::parse_str', mod, 'fn', dropped='BODY NOT VERIFIED (stubbed as external_body)')
            g.emit(mod, head.replace('    pub fn parse_str', '    #[verifier::external_body]\n    pub fn parse_str') + '    { unimplemented!() }\n}\n')
            return
        entry = K.PARSE_ENTRY if 'Version::parse_str' not in getattr(g, 'nohints', ()) else 'broadcast use winnow_defs, grammar_defs;\n        '
        g.rec(sl, 'Version::parse_str', mod, 'fn', dropped='generic AsRef<str> entry (R15), the payload of the errors (R16)')
        g.emit(mod, head + '    {\n        ' + entry + 'let mut input = text;' + rest + '\n}\n')
    g.unit('Version::parse_str', u_version_parse)

    def u_range_parse():
        lo, hi = impl_span(RNG, r'^impl Range \{')
        sl = fn_in(RNG, lo, hi, 'parse', 'Range::parse')
        t = sl.verbatim
        m = re.match(r"\s*(?:///[^\n]*\n\s*|#\[[^\n]*\n\s*)*pub fn parse<S: AsRef<str>>\(input: S\) -> Result<Self, SemverError> \{\s*let mut input = input\.as_ref\(\);", t)
        if not m:
            raise AnchorLost('Range::parse: `pub fn parse<S: AsRef<str>>(input: S) -> Result<Self, SemverError> { let mut input = input.as_ref(); ..`')
        rest = t[m.end():]
        sl.rewrites.append("R15 `parse<S: AsRef<str>>(input: S)` + `let mut input = input.as_ref();` -> `parse_str<'s>(text: &'s str)` + `let mut input = text;`")
        code = mask_code(rest)
        out, pos, nrep = [], 0, 0
        for mm in re.finditer(r'\bSemverError\s*\{', code):
            if mm.start() < pos:
                continue
            e = match_brace(code, mm.end() - 1)
            lit = ' '.join(code[mm.start():e].split())
            if lit not in R16_PINNED:
                raise AnchorLost('a `SemverError { .. }` literal that is not one of the three pinned ones (`%s`): R16 would drop behaviour' % lit[:70])
            out.append(rest[pos:mm.start()])
            out.append('verif_semver_error()')
            pos = e
            nrep += 1
        out.append(rest[pos:])
        rest = ''.join(out)
        sl.rewrites.append('R16 %d `SemverError { .. }` literals -> verif_semver_error() (error payload: C17, not under contract)' % nrep)
        # R19: `range_set.parse_next(&mut input)` -> `range_set(&mut input)`: winnow's blanket impl for functions is exactly this call
        # (`fn parse_next(&mut self, i: &mut I) -> PResult<O, E> { self(i) }`); Verus loses the identity of a function value behind `&mut`
        if 'range_set.parse_next(&mut input)' not in rest:
            raise AnchorLost('Range::parse: `range_set.parse_next(&mut input)`')
        rest = rest.replace('range_set.parse_next(&mut input)', 'range_set(&mut input)')
        sl.rewrites.append('R19 `range_set.parse_next(&mut input)` -> `range_set(&mut input)` (the blanket impl of Parser for functions is this call)')
        mod = 'm_vg_rparse'
        g.private_mods.add(mod)
        head = "impl Range {\n    pub fn parse_str<'s>(text: &'s str) -> (r: Result<Range, SemverError>)\n" + K.RPARSE_CONTRACT + '\n'
        if 'Range::parse_str' in g.stub:
            g.stubbed.append('Range::parse_str')
            g.rec(sl, 'Range::parse_str', mod, 'fn', dropped='BODY NOT VERIFIED (stubbed as external_body)')
            g.emit(mod, head.replace('    pub fn parse_str', '    #[verifier::external_body]\n    pub fn parse_str') + '    { unimplemented!() }\n}\n')
            return
        g.rec(sl, 'Range::parse_str', mod, 'fn', dropped='generic AsRef<str> entry (R15), the payload of the errors (R16)')
        g.emit(mod, head + '    {\n        broadcast use winnow_defs, grammar_defs, def_range_set_reads_intro;\n        let mut input = text;' + rest + '\n}\n')
    g.unit('Range::parse_str', u_range_parse)

    # FromStr (the README's and serde's way in): lifted (R9), `X::parse(s)` is the renamed `X::parse_str(s)` (R15)
    def fromstr_unit(ty, src, contract):
        def u():
            sl = fn_in_impl(src, r'^impl std::str::FromStr for %s \{' % ty, 'from_str', '%s::from_str (FromStr)' % ty)
            if '%s::parse(s)' % ty not in sl.text:
                raise AnchorLost('%s::from_str: `%s::parse(s)`' % (ty, ty))
            sl.text = sl.text.replace('%s::parse(s)' % ty, '%s::parse_str(s)' % ty).replace('fn from_str(s: &str) -> Result<Self, Self::Err>', "fn from_str_lifted<'s>(s: &'s str) -> Result<%s, SemverError>" % ty)
            sl.rewrites += ['R9 trait method body lifted to inherent fn from_str_lifted', 'R15 `parse` is `parse_str`']
            if ('m_vg_parse' if ty == 'Version' else 'm_vg_rparse') not in g.mods:
                raise AnchorLost('%s::from_str: the parse function it delegates to is not under contract on this run' % ty)
            mod = 'm_vg_fromstr_' + ty.lower()
            g.private_mods.add(mod)
            g.emit(mod, 'use crate::m_vg_%s::*;\nimpl %s {\n' % ('parse' if ty == 'Version' else 'rparse', ty) + g.inj(sl, '%s::from_str_lifted' % ty, mod, dict(ret='r', contract=contract), make_pub=True) + '\n}')
        g.unit('%s::from_str_lifted' % ty, u)
    fromstr_unit('Version', LIB, '        ensures parse_post(s, r),  // @Version::from_str#is-parse')
    fromstr_unit('Range', RNG, '        ensures (r is Ok ==> range_set_reads(s, r->Ok_0)), (r is Err ==> range_set_rej(s)),  // @Range::from_str#is-parse')
    g.emit('m_vprops', P('vprops.rs'))
    g.emit('m_rprops', P('rprops.rs'))
    g.emit('m_c13', P('c13_groundwork.rs'))
    g.emit('m_vprops', P('vcomplete.rs'))
    g.emit('m_vprops', P('vsound.rs'))


    # ---------------------------------------------------------------- Display under contract (m_fmt): the printed text of Identifier,
    # VersionDiff and Version.  R9 (trait method lifted to an inherent fn), R10' (every `write!(f, "p0{}p1..", a, ..)` with plain `{}`
    # placeholders becomes verif_writeN(f, "p0", a, "p1", ..) -- A16), R17 (`for (i, x) in e.iter().enumerate()` -> a counter next to
    # `for x in e.iter()`: std's Enumerate is outside Verus).
    g.emit('m_fmt', P('fmt_spec.rs'))

    def write_calls(t):
        """R10': -> (text, number of rewritten invocations) ; raises AnchorLost on a format string it cannot split"""
        n = 0
        pos = 0
        while True:
            i = t.find('write!(', pos)
            if i < 0:
                break
            depth = 0
            j = i + len('write!')
            while j < len(t):
                if t[j] == '(':
                    depth += 1
                elif t[j] == ')':
                    depth -= 1
                    if depth == 0:
                        break
                elif t[j] == '"':
                    j += 1
                    while t[j] != '"':
                        if t[j] == '\\':
                            j += 1
                        j += 1
                j += 1
            inner = t[i + len('write!('):j]
            m = re.match(r'\s*(\w+)\s*,\s*"((?:[^"\\]|\\.)*)"\s*((?:,\s*[^,]+)*),?\s*$', inner, re.S)
            if not m:
                raise AnchorLost('a write! invocation that is not `write!(f, "literal", args..)`: %s' % inner[:60])
            fvar, lit, rest = m.group(1), m.group(2), m.group(3)
            args = [a.strip() for a in rest.split(',') if a.strip()]
            pieces = lit.split('{}')
            if '{' in ''.join(pieces) or '}' in ''.join(pieces) or len(pieces) != len(args) + 1 or len(args) > 3:
                raise AnchorLost('a write! format string with something other than plain `{}` placeholders: "%s"' % lit)
            parts = ['"%s"' % pieces[0]]
            for a, p in zip(args, pieces[1:]):
                parts += [a, '"%s"' % p]
            rep = 'verif_write%d(%s, %s)' % (len(args), fvar, ', '.join(parts))
            t = t[:i] + rep + t[j + 1:]
            pos = i + len(rep)
            n += 1
        return t, n

    def r17(t):
        pat = re.compile(r'for \((\w+), (\w+)\) in (self\.\w+)\.iter\(\)\.enumerate\(\) \{')
        k = [0]
        def f(m):
            k[0] += 1
            return 'let mut verif_i%d: usize = 0;\n        for %s in verif_it%d: %s.iter() {\n            let %s = verif_i%d;' % (k[0], m.group(2), k[0], m.group(3), m.group(1), k[0])
        return pat.sub(f, t), k[0]

    def display_unit(ty, src, contract, hints=None, loops=None):
        def u():
            sl = fn_in_impl(src, r'^impl fmt::Display for %s \{' % ty, 'fmt', '%s::fmt (Display)' % ty)
            t, n = write_calls(sl.text)
            sl.rewrites += ['R9 trait method body lifted to inherent fn display_fmt', "R10' %d write!(..) invocations -> verif_writeN (A16)" % n]
            t = t.replace('fmt::', 'std::fmt::').replace('fn fmt(', 'fn display_fmt(')
            if loops:
                t, nl = r17(t)
                if nl != len(loops):
                    raise AnchorLost('%s::fmt: %d `for (i, x) in self.<field>.iter().enumerate()` loops expected' % (ty, len(loops)))
                if re.search(r'\bcontinue\b', t):
                    raise AnchorLost('%s::fmt: `continue` inside an enumerate loop (R17 would skip the counter)' % ty)
                sl.rewrites.append('R17 %d enumerate loops -> counter + for over iter()' % nl)
                # invariants and the counter increment at the end of each loop body
                for idx, inv in enumerate(loops, 1):
                    head = 'for %s in verif_it%d: ' % ('%s', idx)
                    mm = re.search(r'for (\w+) in verif_it%d: (self\.\w+)\.iter\(\) \{' % idx, t)
                    ob = mm.end() - 1
                    e = match_brace(t, ob)
                    body_end = e - 1
                    t = t[:body_end] + '    verif_i%d = verif_i%d + 1;\n        ' % (idx, idx) + t[body_end:]
                    t = t[:ob] + '\n            invariant ' + inv.replace('$IT', 'verif_it%d' % idx).replace('$I', 'verif_i%d' % idx) + '\n        ' + t[ob:]
            sl.text = t
            kw = dict(ret='r', contract=contract)
            if hints:
                kw['entry'] = hints
            g.emit('m_fmt', 'impl %s {\n' % ty + g.inj(sl, '%s::display_fmt' % ty, 'm_fmt', kw, make_pub=True) + '\n}')
        g.unit('%s::display_fmt' % ty, u)
    display_unit('Identifier', LIB, K.DISPLAY_CONTRACT, hints=K.IDENT_FMT_HINT)
    display_unit('VersionDiff', LIB, K.DISPLAY_CONTRACT, hints=K.DIFF_HINT)
    display_unit('Version', LIB, K.DISPLAY_CONTRACT, hints=K.VERSION_FMT_HINT, loops=K.VERSION_FMT_LOOPS)

    def u_display():
        # R9 / R10': Display for BoundSet lifted to an inherent fn; every write! goes through the write! model (A16)
        dsl = fn_in_impl(RNG, r'^impl fmt::Display for BoundSet \{', 'fmt', 'BoundSet::fmt (Display)')
        t, n = write_calls(dsl.text)
        if n == 0:
            raise AnchorLost('write! invocations of Display for BoundSet')
        dsl.text = t.replace('fmt::', 'std::fmt::').replace('fn fmt(', 'fn display_fmt(')
        dsl.rewrites += ['R9 trait method body lifted to inherent fn display_fmt', "R10' %d write!(..) invocations -> verif_writeN (A16)" % n]
        g.emit('m_fmt', 'impl BoundSet {\n' + g.inj(dsl, 'BoundSet::display_fmt', 'm_fmt', dict(ret='r', contract='    requires bs_wf(*self),\n' + K.DISPLAY_CONTRACT.replace('        ensures', '    ensures'), entry=K.BS_FMT_HINT), make_pub=True) + '\n}')
    g.unit('BoundSet::display_fmt', u_display)
    display_unit('Operation', RNG, K.DISPLAY_CONTRACT, hints=K.BS_FMT_HINT)
    display_unit('Range', RNG, K.DISPLAY_CONTRACT.replace('        ensures', '        requires rwf(*self),\n        ensures'), hints=K.RANGE_FMT_HINT, loops=K.RANGE_FMT_LOOPS)
    g.emit('m_c12', P('c12_props.rs'))

    g.shape = source_shape(g, LIB, RNG)

    # ---------------------------------------------------------------- m_props / m_canary
    g.emit('m_props', P('props.rs'))
    g.emit('m_props', K.cover_lemmas())
    g.emit('m_canary', P('canaries.rs'))

    # ---------------------------------------------------------------- assemble
    out = ['\n'.join(root)]
    for mod in g.order:
        if mod not in getattr(g, 'private_mods', ()):
            out.append('pub use %s::*;' % mod)
    for mod in g.order:
        out.append('pub mod %s {\nuse super::*;\n%s\n} // mod %s\n' % (mod, '\n'.join(g.mods[mod]), mod))
    out.append('} // verus!\nfn main() {}\n')
    text = '\n'.join(out)
    path = os.path.join(outdir, 'semver_verus.rs')
    open(path, 'w').write(text)

    # clause map: line -> clause id ; function start lines
    clauses = {}
    for i, line in enumerate(text.split('\n'), 1):
        m = re.search(r'//\s*@(\S.*?)\s*$', line)
        if m:
            clauses[i] = m.group(1)
    trusted = scan_trusted(text)
    # which extracted functions call a helper that has no contract (their own proof may then fail for lack of one)
    calls = {}
    callgraph = {}
    short = {}
    for oid in g.texts:
        nm = re.split(r'::|@', oid.split('@')[0])[-1]
        if oid.startswith('primitive_desugar_') or oid.endswith('_desugar'):
            continue    # lifted closures are not called by name
        short.setdefault(nm, []).append(oid)
    for oid, t in g.texts.items():
        hit = [u for u in g.uncontracted if u != oid and re.search(r'\b' + re.escape(u.split('::')[-1]) + r'\s*\(', t)]
        if hit:
            calls[oid] = hit
        cg = set()
        for nm, oids in short.items():
            if re.search(r'\b' + re.escape(nm) + r'\s*(::<[^>]*>)?\(', t):
                cg.update(o for o in oids if o != oid)
        # operators and conversions that dispatch to extracted impls (the grammar functions compare integers and characters only)
        if oid in K.GRAMMAR_ORDER or oid in ('Version::parse_str', 'Extras::values'):
            callgraph[oid] = sorted((cg & (set(K.GRAMMAR_ORDER) | {'Extras::values'})) - {oid})
            continue
        if re.search(r'[^=!<>]=[=]|!=', t):
            cg.update(o for o in g.texts if o.endswith('::eq'))
        if re.search(r'<=|>=|[^-=]>[^=>]|[^<]<[^=<]', t) or 'max(' in t or 'min(' in t:
            cg.update(o for o in g.texts if o.endswith('::cmp') or o.endswith('::partial_cmp'))
        if '.into()' in t or 'Version::from(' in t or '::from(' in t:
            cg.update(o for o in g.texts if o.startswith('Version::from') or o.startswith('From<'))
        callgraph[oid] = sorted(cg - {oid})
    meta = {
        'file': path,
        'functions': g.functions,
        'inventory': inventory(repo, g.functions),
        'overrides': g.overrides,
        'source_shape': g.shape,
        'expected_clauses': sorted(set(m.group(1) for grid in ([K.grid_partial('p'), K.grid_caret('p'), K.grid_tilde('p'), K.grid_hyphen('lo', 'up')] + [K.grid_primitive(op, 'p') for op in K.OPS])
                                       for line in grid for line1 in line.split('\n') for m in [re.search(r'//\s*@(\S.*?)\s*$', line1)] if m) | {'range#empty-is-star'}),
        'unsafe': [('%s:%d' % (rel, i)) for rel in ('src/lib.rs', 'src/range.rs') if os.path.exists(os.path.join(repo, rel)) for i, l in enumerate(open(os.path.join(repo, rel)).read().split('\n'), 1) if re.search(r'\bunsafe\b', l.split('//')[0])],
        'clauses': clauses,
        'lost_hints': g.lost_hints,
        'lost_items': g.lost_items,
        'uncontracted': g.uncontracted,
        'calls_uncontracted': calls,
        'callgraph': callgraph,
        'stubbed': g.stubbed,
        'dropped': g.dropped,
        'pins': g.pins,
        'trusted': trusted,
        'modules': g.order,
        'sha256': hashlib.sha256(text.encode()).hexdigest(),
    }
    json.dump(meta, open(os.path.join(outdir, 'meta.json'), 'w'), indent=1)
    return meta


def inventory(repo, functions):
    """every non-test `fn` of src/lib.rs and src/range.rs, and how the framework covers it (mechanical, from line ranges)"""
    from xtract import match_brace
    cov = {}
    for f in functions:
        cov.setdefault(f['file'], []).append((f['lines'][0], f['lines'][1], f['id'], f.get('kind', 'fn')))
    out = []
    for rel in ('src/lib.rs', 'src/range.rs'):
        path = os.path.join(repo, rel)
        if not os.path.exists(path):
            continue
        from xtract import mask_code
        text = mask_code(open(path).read())
        cut = re.search(r'^#\[cfg\(test\)\]', text, re.M)
        body = text[:cut.start()] if cut else text
        for m in re.finditer(r'^[ \t]*(?:pub(?:\([^)]*\))?\s+)?(?:const\s+)?fn\s+(\w+)', body, re.M):
            l0 = body.count('\n', 0, m.start()) + 1
            ob = body.find('{', m.end())
            semi = body.find(';', m.end())
            if ob < 0 or (0 <= semi < ob):
                continue
            try:
                l1 = body.count('\n', 0, match_brace(body, ob)) + 1
            except Exception:
                l1 = l0
            whole = [c for c in cov.get(rel, []) if c[0] <= l0 and l1 <= c[1]]
            inner = [c for c in cov.get(rel, []) if l0 <= c[0] and c[1] <= l1 and not (c[0] <= l0 and l1 <= c[1])]
            if whole:
                st, by = 'under contract', [c[2] for c in whole]
            elif inner:
                st, by = 'closure(s) inside it under contract; the combinator shell around them is not', [c[2] for c in inner]
            else:
                st, by = 'not under contract', []
            mac = [mm for mm in re.finditer(r'^macro_rules!\s+impl_from_(?:un)?signed_for_version', body, re.M) if mm.start() < m.start() <= match_brace(body, body.find('{', mm.end()))]
            if mac and not whole:
                st, by = 'macro body: every integer instance is proved by the Kani harnesses of C18 (the u64 instance also by Verus)', ['tools/kani_c18.py']
            out.append({'file': rel, 'line': l0, 'end': l1, 'fn': m.group(1), 'status': st, 'by': sorted(set(by))})
    return out



# ---------------------------------------------------------------------------------------------------------------- source shape
# "The verified text is the code that runs" holds only in a closed world: the functions are cut out of two files by name, so what
# rustc compiles must be those files, those definitions, under one configuration, with no other code able to step in between a
# call and the extracted callee.  Everything below is syntactic, runs on the masked source (comments / literals blanked), and a
# deviation never alarms: it loses the unit `source-shape`, which leaves every property undecided (the stand-in still searches).
CORE_TYPES = ('Version', 'Identifier', 'VersionDiff', 'Predicate', 'Bound', 'BoundSet', 'Range', 'Partial', 'Operation')
_P = r'(?:::)?(?:std::|core::)?'
KNOWN_IMPL_HEADERS = [
    r'impl Diagnostic for SemverError', r'impl SemverError', r'impl<I: Clone \+ Stream> ParserError<I> for SemverParseError<I>',
    r'impl<I: Stream> AddContext<I> for SemverParseError<I>', r"impl<'a> FromExternalError<&'a str, SemverParseError<&'a str>> for SemverParseError<&'a str>",
    r'impl (?:' + _P + r'fmt::|fmt::)?Display for (?:Identifier|VersionDiff|Version|BoundSet|Operation|Range)',
    r'impl Serialize for (?:Version|Range)', r"impl<'de> Deserialize<'de> for (?:Version|Range)",
    r'impl (?:Version|Extras|BoundSet|Predicate|Bound|Range|Partial)',
    r'impl (?:' + _P + r'cmp::|cmp::)?(?:PartialEq|Eq|PartialOrd|Ord) for (?:Version|Identifier)', r'impl (?:' + _P + r'cmp::|cmp::)?(?:PartialOrd|Ord) for Bound',
    r'impl (?:' + _P + r'hash::|hash::)?Hash for Version', r'impl (?:' + _P + r'clone::|clone::)?Clone for (?:' + '|'.join(CORE_TYPES) + ')',
    r'impl (?:::)?(?:std::|core::)?(?:convert::)?From<\(\$t, \$t, \$t(?:, \$t)?\)> for Version', r'impl (?:' + _P + r'str::|str::)?FromStr for (?:Version|Range)',
    r'impl From<Partial> for Version',
]


def non_test_code(src):
    """masked source with every `#[cfg(test)] mod .. { .. }` blanked as well"""
    code = src.code
    out = list(code)
    for m in re.finditer(r'(?:#\[[^\]]*\]\s*)*#\[cfg\(test\)\]\s*(?:#\[[^\]]*\]\s*)*mod\s+\w+\s*\{', code):
        try:
            e = match_brace(code, m.end() - 1)
        except AnchorLost:
            e = len(code)
        for k in range(m.start(), e):
            if out[k] != '\n':
                out[k] = ' '
    # test-generating macros (bodies are only instantiated under cfg(test))
    for m in re.finditer(r'^macro_rules!\s+create_tests_for\s*\{', code, re.M):
        e = match_brace(code, m.end() - 1)
        for k in range(m.start(), e):
            if out[k] != '\n':
                out[k] = ' '
    return ''.join(out)


def source_shape(g, LIB, RNG):
    bad = []
    lib, rng = non_test_code(LIB), non_test_code(RNG)
    # S1 module wiring: lib.rs compiles src/range.rs as `range`, nothing else
    mods = re.findall(r'^\s*(?:pub(?:\([^)]*\))?\s+)?mod\s+(\w+)\s*[;{]', lib, re.M) + re.findall(r'^\s*(?:pub(?:\([^)]*\))?\s+)?mod\s+(\w+)\s*[;{]', rng, re.M)
    if mods != ['range']:
        bad.append('module declarations are %s, expected exactly `mod range;` in lib.rs' % mods)
    if re.search(r'#\[path\b|include!\s*\(', lib + rng):
        bad.append('`#[path]` / `include!` redirects what is compiled')
    # S2 one build configuration: the only conditional compilation is the serde feature on serde items (tests are blanked above)
    for (nm, code) in (('src/lib.rs', lib), ('src/range.rs', rng)):
        if re.search(r'\bcfg!\s*\(|\bcfg_attr\b|\bcfg_if\b', code):
            bad.append('%s: `cfg!` / `cfg_attr` makes the code depend on the build configuration (Verus sees one of them)' % nm)
        for m in re.finditer(r'#\[cfg\(([^\]]*)\)\]\s*(?:#\[[^\]]*\]\s*)*([^\n]*)', code):
            nxt = m.group(2).strip()
            if not re.match(r'(use\s|impl Serialize for|impl<\'de> Deserialize<\'de> for|mod\s)', nxt):
                bad.append('%s:%d: conditional compilation on `%s`' % (nm, code.count('\n', 0, m.start()) + 1, nxt[:50]))
    # S3 impls: only the ones the model knows may touch the core types (method resolution finds impls for Box<T>, &T, blanket impls first)
    for (nm, src, code) in (('src/lib.rs', LIB, lib), ('src/range.rs', RNG, rng)):
        for m in re.finditer(r'^[ \t]*(?:unsafe\s+)?(impl\b[^{;]*?)\s*\{', code, re.M):
            hdr = ' '.join(src.text[m.start(1):m.end(1)].split())
            if any(re.fullmatch(k, hdr) for k in KNOWN_IMPL_HEADERS):
                continue
            tgt = hdr.split(' for ')[-1] if ' for ' in hdr else hdr
            generic = re.match(r'impl<\s*(\w+)', hdr)
            if any(re.search(r'\b%s\b' % t, hdr) for t in CORE_TYPES) or re.search(r'\bBox\b|&|\bVec\b|\bOption\b', tgt) or (generic and re.fullmatch(r'%s' % generic.group(1), tgt.strip())):
                bad.append('%s:%d: an impl the model does not know: `%s`' % (nm, code.count('\n', 0, m.start()) + 1, hdr[:90]))
        for m in re.finditer(r'^[ \t]*(?:pub(?:\([^)]*\))?\s+)?(?:unsafe\s+)?trait\s+(\w+)', code, re.M):
            bad.append('%s:%d: a trait defined in the crate (`%s`): its methods can shadow the extracted ones' % (nm, code.count('\n', 0, m.start()) + 1, m.group(1)))
    # S5 no macro invocation at item level inside an impl block of a core type (it could expand to methods nobody extracts)
    for (nm, src, code) in (('src/lib.rs', LIB, lib), ('src/range.rs', RNG, rng)):
        for m in re.finditer(r'^impl\b[^{;]*\b(?:%s)\b[^{;]*\{' % '|'.join(CORE_TYPES), code, re.M):
            if '$t' in src.text[m.start():m.end()]:
                continue
            e = match_brace(code, m.end() - 1)
            for mm in re.finditer(r'^    (\w+)!\s*[\(\{\[]', code[m.end():e], re.M):
                bad.append('%s:%d: macro invocation `%s!` at item level inside `%s`' % (nm, code.count('\n', 0, m.end() + mm.start()) + 1, mm.group(1), ' '.join(src.text[m.start():m.end() - 1].split())[:60]))
    # S6 the shape of the core types (the structural equality model, `key()`, the field-wise contracts are written for these fields)
    want = {
        'Version': r'pub struct Version \{ pub major: u64, pub minor: u64, pub patch: u64, pub build: Vec<Identifier>, pub pre_release: Vec<Identifier>, \}',
        'Identifier': r'pub enum Identifier \{ Numeric\(u64\), AlphaNumeric\(String\), \}',
        'BoundSet': r'struct BoundSet \{ upper: Box<Bound>, lower: Box<Bound>, \}|struct BoundSet \{ lower: Box<Bound>, upper: Box<Bound>, \}',
        'Bound': r'enum Bound \{ Lower\(Predicate\), Upper\(Predicate\), \}',
        'Predicate': r'enum Predicate \{ Excluding\(Version\), Including\(Version\), Unbounded, \}',
        'Range': r'pub struct Range\(Vec<BoundSet>\);',
        'Partial': r'struct Partial \{ major: Option<u64>, minor: Option<u64>, patch: Option<u64>, pre_release: Vec<Identifier>, build: Vec<Identifier>, \}',
    }
    for ty, rx in want.items():
        src, code = (LIB, lib) if ty in ('Version', 'Identifier') else (RNG, rng)
        m = re.search(r'^(?:pub(?:\([^)]*\))?\s+)?(?:struct|enum)\s+%s\b' % ty, code, re.M)
        if not m:
            bad.append('type %s not found' % ty)
            continue
        ob = code.find('{', m.end())
        sc = code.find(';', m.end())
        e = sc + 1 if (0 <= sc and (ob < 0 or sc < ob)) else match_brace(code, ob)
        got = ' '.join(code[m.start():e].split())
        if not re.fullmatch(rx, got):
            bad.append('the definition of %s changed: `%s`' % (ty, got[:140]))
    # S7 every BoundSet / Range is built inside a function under contract
    spans = [(r['file'], r['lines'][0], r['lines'][1]) for r in g.functions if r.get('kind') in ('fn', 'closure', 'macro-instance')]
    for m in re.finditer(r'\bBoundSet::(?:new|at_least|at_most|exact)\s*\(|\bBoundSet\s*\{|\bRange\s*\(', rng):
        ln = rng.count('\n', 0, m.start()) + 1
        line = rng[rng.rfind('\n', 0, m.start()) + 1:rng.find('\n', m.start())]
        if re.match(r'\s*(?:pub\s+)?(?:struct|impl)\b', line):
            continue
        if not any(f == 'src/range.rs' and a <= ln <= b for (f, a, b) in spans):
            bad.append('[range] src/range.rs:%d: a BoundSet / Range is built outside the functions under contract (`%s`)' % (ln, line.strip()[:70]))

    # S12 every `impl` stands at item level (column 0) -- an impl inside a block (`const _: () = { impl Bound { .. } };`) is compiled but never
    # extracted --, there is one inherent impl per core type, and no inherent method has the name of a trait method the model relies on
    # (an inherent `clone` / `eq` / `cmp` / `fmt` / `to_string` wins over the trait's in method resolution)
    for (nm, code) in (('src/lib.rs', lib), ('src/range.rs', rng)):
        for m in re.finditer(r'^[ \t]+(?:unsafe\s+)?impl\b[^;{]*\{', code, re.M):
            if '$t' in m.group(0):
                continue    # the bodies of the two impl_from_*_for_version macros (pinned by S3 / proved per instance by Kani)
            bad.append('%s:%d: an `impl` that does not stand at item level: `%s`' % (nm, code.count('\n', 0, m.start()) + 1, ' '.join(m.group(0).split())[:60]))
        for ty in CORE_TYPES + ('Extras',):
            n_inh = len(re.findall(r'^impl(?:<[^>]*>)?\s+%s(?:<[^>]*>)?\s*\{' % ty, code, re.M))
            if n_inh > 1:
                bad.append('%s: %d inherent impl blocks for %s' % (nm, n_inh, ty))
        for m in re.finditer(r'^impl(?:<[^>]*>)?\s+(%s)(?:<[^>]*>)?\s*\{' % '|'.join(CORE_TYPES + ('Extras',)), code, re.M):
            e = match_brace(code, m.end() - 1)
            for mm in re.finditer(r'\bfn\s+(clone|clone_from|eq|ne|cmp|partial_cmp|lt|le|gt|ge|max|min|hash|fmt|to_string|from_str|from|into|default|borrow|as_ref|deref)\b', code[m.end():e]):
                bad.append('%s:%d: inherent method `%s` on %s has the name of a trait method the model relies on' % (nm, code.count('\n', 0, m.end() + mm.start()) + 1, mm.group(1), m.group(1)))
    # S2b the only conditional `use` is the serde import; S10 the only macros defined in the crate are the three known ones (a local
    # `macro_rules! write` / `vec` / `assert` would change what the verified text means), no #[macro_use]; S11 Cargo.toml does not redirect the library
    for (nm, code) in (('src/lib.rs', lib), ('src/range.rs', rng)):
        for m in re.finditer(r'#\[cfg\([^\]]*\)\]\s*(?:#\[[^\]]*\]\s*)*use\s+([^;]*);', code):
            if not re.fullmatch(r'serde::\{de::Deserializer, ser::Serializer, Deserialize, Serialize\}', ' '.join(m.group(1).split())):
                bad.append('%s: a conditional `use` other than the serde import: `%s`' % (nm, ' '.join(m.group(1).split())[:60]))
        for m in re.finditer(r'\bmacro_rules!\s*(\w+)', code):
            if m.group(1) not in ('impl_from_unsigned_for_version', 'impl_from_signed_for_version', 'create_tests_for'):
                bad.append('%s: a macro defined in the crate (`%s!`): it can shadow a std macro the extracted text uses' % (nm, m.group(1)))
        if re.search(r'#\[macro_use\]|\bmacro\s+\w+\s*\(', code):
            bad.append('%s: #[macro_use] / a `macro` item' % nm)
    n_lib, n_rng = len(re.findall(r'\buse\s+winnow\b', lib)), len(re.findall(r'\buse\s+winnow\b', rng))
    if n_lib != 6 or n_rng != 5:
        bad.append('the number of `use winnow..` items changed (lib.rs %d, range.rs %d; 6 and 5 expected): a combinator name may mean something else' % (n_lib, n_rng))
    try:
        cargo = open(os.path.join(g.repo, 'Cargo.toml')).read()
        mlib = re.search(r'^\[lib\](.*?)(?=^\[|\Z)', cargo, re.M | re.S)
        if mlib and re.search(r'^\s*path\s*=', mlib.group(1), re.M):
            bad.append('Cargo.toml redirects the library source (`[lib] path = ..`)')
        if re.search(r'^\s*build\s*=|^\[features\][^\[]*\bdefault\s*=\s*\[\s*"', cargo, re.M) and not re.search(r'^default\s*=\s*\[\s*\]', cargo, re.M):
            mdef = re.search(r'^default\s*=\s*\[([^\]]*)\]', cargo, re.M)
            if mdef and mdef.group(1).strip():
                bad.append('Cargo.toml: default features are not empty (`%s`): Verus and the stand-in see one configuration' % mdef.group(1).strip()[:40])
    except Exception:
        pass
    # S8 (version grammar, C05): the names the grammar functions call resolve to winnow's items (the assumed contracts A15 are about
    # those), the two limits have the values the reference grammar and the stand-in are written for, FromStr delegates to parse
    WINNOW_NAMES = {'ascii': ('digit1', 'space0'), 'combinator': ('alt', 'eof', 'opt', 'preceded', 'separated', 'terminated'), 'token': ('literal', 'take_while'), 'stream': ('AsChar',), '': ('PResult', 'Parser')}
    for sub, names in WINNOW_NAMES.items():
        m = re.search(r'^use winnow::%s\{([^}]*)\};' % ((sub + '::') if sub else ''), lib, re.M)
        got = set(x.strip() for x in m.group(1).split(',')) if m else set()
        for n in names:
            if n not in got:
                bad.append('[version-grammar] `%s` is not imported from winnow::%s: the combinator contracts (A15) are about winnow\'s items' % (n, sub))
    for n in [x for v in WINNOW_NAMES.values() for x in v] + ['ErrMode']:
        if re.search(r'^\s*(?:pub(?:\([^)]*\))?\s+)?(?:fn|struct|enum|trait|type|mod|macro_rules!)\s+%s\b' % n, lib, re.M):
            bad.append('[version-grammar] a local item named `%s` shadows the winnow item the contracts are about' % n)
    if len(re.findall(r'^use winnow\b', lib, re.M)) != 6 or re.search(r'\bas\s+\w+\s*[,}]', ' '.join(re.findall(r'^use winnow[^;]*;', lib, re.M))):
        bad.append('[version-grammar] the `use winnow::..` lines of src/lib.rs changed (an extra import or a renaming `as`): a combinator name may mean something else')
    # ... and the same for src/range.rs (its grammar functions are under contract too)
    RW = {'ascii': ('space0', 'space1'), 'combinator': ('alt', 'delimited', 'eof', 'opt', 'peek', 'preceded', 'repeat_till', 'separated', 'terminated'), 'token': ('any', 'literal'), '': ('PResult', 'Parser')}
    for sub, names in RW.items():
        m = re.search(r'^use winnow::%s\{([^}]*)\};' % ((sub + '::') if sub else ''), rng, re.M | re.S)
        got = set(x.strip() for x in m.group(1).split(',') if x.strip()) if m else set()
        for n in names:
            if n not in got:
                bad.append('[range] `%s` is not imported from winnow::%s in src/range.rs: the combinator contracts (A15) are about winnow\'s items' % (n, sub))
    m = re.search(r'^use crate::\{([^}]*)\};', rng, re.M | re.S)
    crate_names = set(x.strip() for x in m.group(1).split(',') if x.strip()) if m else set()
    for n in ('extras', 'number'):
        if n not in crate_names:
            bad.append('[range] `%s` is not imported from the crate root in src/range.rs' % n)
    for n in [x for v in RW.values() for x in v] + ['ErrMode', 'extras', 'number', 'version', 'identifier', 'build', 'pre_release', 'version_core']:
        if re.search(r'^(?:pub(?:\([^)]*\))?\s+)?(?:fn|struct|enum|trait|type|mod|macro_rules!)\s+%s\b' % n, rng, re.M):
            bad.append('[range] a local item named `%s` in src/range.rs shadows the item the contracts are about' % n)
    if re.search(r'\bas\s+\w+\s*[,}]', ' '.join(re.findall(r'^use (?:winnow|crate)[^;]*;', rng, re.M | re.S))):
        bad.append('[range] a renaming `use .. as ..` in src/range.rs: a name may mean something else')
    for n in K.GRAMMAR_ORDER:
        src_code = rng if K.GRAMMAR[n].get('src') == 'rng' else lib
        other = lib if src_code is rng else rng
        if n != 'parser' and re.search(r'^\s*(?:pub(?:\([^)]*\))?\s+)?fn\s+%s\b' % n, other, re.M):
            bad.append('a second function named `%s` in the other source file: which one a caller means is not what the contracts assume' % n)
    if not re.search(r'^pub const MAX_SAFE_INTEGER: u64 = 900_719_925_474_099;', lib, re.M):
        bad.append('[version-grammar] MAX_SAFE_INTEGER is not 900_719_925_474_099')
    if not re.search(r'^pub const MAX_LENGTH: usize = 256;', lib, re.M):
        bad.append('[version-grammar] MAX_LENGTH is not 256')
    if not re.search(r'impl (?:std::str::|str::)?FromStr for Version \{\s*type Err = SemverError;\s*fn from_str\(s: &str\) -> Result<Self, Self::Err> \{\s*Version::parse\(s\)\s*\}\s*\}', lib):
        bad.append('[version-grammar] `FromStr for Version` is not `Version::parse(s)`')

    # S9 (C12): the serde impls of Version delegate to Display / parse and nothing else
    if not re.search(r"impl Serialize for Version \{\s*fn serialize<S: Serializer>\(&self, s: S\) -> Result<S::Ok, S::Error> \{\s*s\.collect_str\(self\)\s*\}\s*\}", lib):
        bad.append('[version-serde] `Serialize for Version` is not `s.collect_str(self)`')
    if not re.search(r"impl<'de> Deserialize<'de> for Version \{\s*fn deserialize<D: Deserializer<'de>>\(d: D\) -> Result<Self, D::Error> \{\s*let s = String::deserialize\(d\)\?;\s*s\.parse\(\)\.map_err\(serde::de::Error::custom\)\s*\}\s*\}", lib):
        bad.append('[version-serde] `Deserialize for Version` is not `String::deserialize(d)?` + `s.parse().map_err(serde::de::Error::custom)`')
    for b in bad:
        # a deviation that can only concern the range layer leaves the properties about versions alone
        g.lost_items.append(('source-shape:range' if b.startswith('[range]') else ('source-shape:version-grammar' if b.startswith('[version-grammar]') else ('source-shape:version-serde' if b.startswith('[version-serde]') else 'source-shape')), b))
    return bad


def scan_trusted(text):
    """assumption scan of the generated file (DESIGN.md 2.4)"""
    out = []
    lines = text.split('\n')
    for i, line in enumerate(lines):
        s = line.strip()
        if s.startswith('//'):
            continue
        if 'assume_specification' in s:
            m = re.search(r'assume_specification.*?\[\s*(.*?)\s*\]', s)
            out.append('assume_specification ' + (m.group(1) if m else s[:80]))
        elif 'external_body' in s:
            j = i + 1
            while j < len(lines) and 'fn ' not in lines[j]:
                j += 1
            m = re.search(r'fn (\w+)', lines[j]) if j < len(lines) else None
            # find enclosing impl for readability
            k = i
            ctx = ''
            while k >= 0:
                mm = re.match(r'\s*impl(?:<[^>]*>)? (.*?) \{', lines[k])
                if mm and not lines[k].startswith(' ' * 8):
                    ctx = mm.group(1)
                    break
                if lines[k].startswith('pub mod ') or lines[k].startswith('fn '):
                    break
                k -= 1
            out.append('external_body fn %s%s' % (m.group(1) if m else '?', (' in impl ' + ctx) if ctx and 'clone' in (m.group(1) if m else '') else ''))
        elif re.search(r'\b(assume|admit)\s*\(', s):
            out.append('ASSUME/ADMIT: ' + s[:100])
        elif re.search(r'\baxiom fn\b', s):
            m = re.search(r'axiom fn (\w+)', s)
            out.append('axiom ' + m.group(1))
        elif '#[verifier::external]' in s:
            out.append('external: ' + s[:80])
    return out


if __name__ == '__main__':
    repo = sys.argv[1] if len(sys.argv) > 1 else '/repo'
    outdir = sys.argv[2] if len(sys.argv) > 2 else os.path.join(VERIF, 'gen', 'dev')
    try:
        meta = build(repo, outdir)
    except AnchorLost as e:
        print('ANCHOR-LOST:', e)
        sys.exit(2)
    print('generated', meta['file'], 'functions', len(meta['functions']), 'clauses', len(meta['clauses']), 'lost hints', meta['lost_hints'], 'lost items', meta['lost_items'])
