"""Mechanical extractor: slices items / functions / closure bodies out of /repo's source text.

Nothing here edits executable tokens except the documented rewrites (DESIGN.md section 2.2); every
extraction is recorded (file, line range, sha256 of the verbatim slice, rewrites applied) so the
evidence can show that the verified text is the code that runs.
"""
import re, hashlib


class AnchorLost(Exception):
    """an anchor (item header, function name, loop ordinal, snippet) is not in the source any more"""


def match_brace(s, i):
    """s[i] is the first char at or before an opening brace; return index one past its matching close"""
    depth = 0
    n = len(s)
    while i < n:
        c = s[i]
        if s.startswith('//', i):
            j = s.find('\n', i)
            i = n if j < 0 else j
            continue
        if s.startswith('/*', i):
            i = s.index('*/', i) + 2
            continue
        if c == '"':
            i += 1
            while s[i] != '"':
                if s[i] == '\\':
                    i += 1
                i += 1
            i += 1
            continue
        if c == "'":
            m = re.match(r"'(\\.|[^\\'])'", s[i:])
            if m:
                i += m.end()
                continue
        if c == '{':
            depth += 1
        elif c == '}':
            depth -= 1
            if depth == 0:
                return i + 1
        i += 1
    raise AnchorLost('unbalanced braces')


def mask_code(s):
    """the text with the contents of comments (line, nested block, doc) and of string / char literals blanked out, offsets and
    newlines preserved: anchors are searched in this, slices are cut from the real text.  Code left in a comment is not code."""
    out = list(s)
    n = len(s)
    i = 0

    def blank(a, b):
        for k in range(a, min(b, n)):
            if out[k] != '\n':
                out[k] = ' '
    while i < n:
        if s.startswith('//', i):
            j = s.find('\n', i)
            j = n if j < 0 else j
            blank(i, j)
            i = j
        elif s.startswith('/*', i):
            depth, j = 1, i + 2
            while j < n and depth:
                if s.startswith('/*', j):
                    depth += 1
                    j += 2
                elif s.startswith('*/', j):
                    depth -= 1
                    j += 2
                else:
                    j += 1
            blank(i, j)
            i = j
        elif s[i] in 'bc' and re.match(r'[bc]r#*"', s[i:]) and not (i > 0 and (s[i - 1].isalnum() or s[i - 1] == '_')):
            # raw byte / C string literals: br"..", br#".."#, cr".." -- no escapes inside
            m = re.match(r'[bc]r(#*)"', s[i:])
            close = '"' + m.group(1)
            a = i + m.end()
            j = s.find(close, a)
            j = n if j < 0 else j
            blank(a, j)
            i = j + len(close)
        elif s[i] == '"' or (s[i] == 'r' and re.match(r'r#*"', s[i:]) and not (i > 0 and (s[i - 1].isalnum() or s[i - 1] == '_'))):
            if s[i] == 'r':
                m = re.match(r'r(#*)"', s[i:])
                close = '"' + m.group(1)
                a = i + m.end()
                j = s.find(close, a)
                j = n if j < 0 else j
                blank(a, j)
                i = j + len(close)
            else:
                j = i + 1
                while j < n and s[j] != '"':
                    j += 2 if s[j] == '\\' else 1
                blank(i + 1, j)
                i = j + 1
        elif s[i] == "'":
            m = re.match(r"'(\\.[^']*|[^\\'])'", s[i:])
            if m:
                blank(i + 1, i + m.end() - 1)
                i += m.end()
            else:
                i += 1      # a lifetime
        else:
            i += 1
    return ''.join(out)


class Source:
    def __init__(self, path, rel):
        self.path = path
        self.rel = rel
        self.text = open(path).read()
        self.code = mask_code(self.text)
        assert len(self.code) == len(self.text)

    def line_of(self, off):
        return self.text.count('\n', 0, off) + 1


class Slice:
    """a verbatim slice of a source file plus the list of rewrites applied to it afterwards"""

    def __init__(self, src, start, end, what):
        self.src = src
        self.start = start
        self.end = end
        self.what = what
        self.verbatim = src.text[start:end]
        self.code = src.code[start:end]     # same span with comments and literals blanked (for syntactic pins)
        self.text = self.verbatim
        self.rewrites = []

    def record(self):
        return {
            'what': self.what,
            'file': self.src.rel,
            'lines': [self.src.line_of(self.start), self.src.line_of(self.end - 1)],
            'sha256': hashlib.sha256(self.verbatim.encode()).hexdigest(),
            'rewrites': self.rewrites,
        }


def item(src, header_re, what=None):
    """a top level item (struct/enum/macro) with the #[..] attribute lines directly above it (doc attributes dropped: R7)"""
    ms = list(re.finditer(header_re, src.code, re.M))
    if not ms:
        raise AnchorLost('item ' + header_re)
    if len(ms) > 1:
        raise AnchorLost('item %s is defined %d times (which one is compiled depends on attributes the extractor does not evaluate)' % (header_re, len(ms)))
    m = ms[0]
    start = m.start()
    # walk upwards over attribute lines
    a = start
    while True:
        prev_end = a - 1
        if prev_end <= 0:
            break
        prev_start = src.text.rfind('\n', 0, prev_end) + 1
        line = src.text[prev_start:prev_end]
        if line.strip().startswith('#[') and 'doc' not in line:
            a = prev_start
        else:
            break
    ob = src.code.index('{', m.end() - 1)
    sc = src.code.find(';', m.end() - 1)
    if sc != -1 and sc < ob:
        end = sc + 1
    else:
        end = match_brace(src.code, ob)
    return Slice(src, a, end, what or header_re)


def impl_span(src, impl_re):
    ms = list(re.finditer(impl_re, src.code, re.M))
    if not ms:
        raise AnchorLost('impl ' + impl_re)
    if len(ms) > 1:
        raise AnchorLost('%d blocks match `%s`: the extractor reads one of them, rustc may compile another (cfg) or merge them (a second inherent impl can shadow a trait method)' % (len(ms), impl_re))
    m = ms[0]
    ob = src.code.index('{', m.end() - 1)
    end = match_brace(src.code, ob)
    return ob, end


def fn_in(src, lo, hi, fn_name, what):
    body = src.code[lo:hi]
    fms = list(re.finditer(r'^[ \t]*(pub(\(crate\))? )?fn ' + re.escape(fn_name) + r'\b', body, re.M))
    if not fms:
        raise AnchorLost('fn ' + what)
    if len(fms) > 1:
        raise AnchorLost('fn %s is defined %d times in that block' % (what, len(fms)))
    fm = fms[0]
    fob = body.index('{', fm.end())
    fend = match_brace(body, fob)
    # skip leading indentation
    st = fm.start()
    return Slice(src, lo + st, lo + fend, what)


def fn_in_impl(src, impl_re, fn_name, what=None):
    lo, hi = impl_span(src, impl_re)
    return fn_in(src, lo, hi, fn_name, what or (impl_re + '::' + fn_name))


def top_fn(src, fn_name, what=None):
    ms = list(re.finditer(r'^(pub(\(crate\))? )?fn ' + re.escape(fn_name) + r'\b', src.code, re.M))
    if not ms:
        raise AnchorLost('fn ' + fn_name)
    if len(ms) > 1:
        raise AnchorLost('fn %s is defined %d times at top level' % (fn_name, len(ms)))
    m = ms[0]
    fob = src.code.index('{', m.end())
    fend = match_brace(src.code, fob)
    return Slice(src, m.start(), fend, what or fn_name)


def closure_match(src, fn_name, marker, what):
    """the `match <x> { ... }` expression that is the body of the closure `|<x>| match <x> {..}` inside fn `fn_name` (R5);
    the slice carries the closure's parameter name in `.param`"""
    f = top_fn(src, fn_name)
    body = f.code
    m = re.search(r'\|(\w+)\| match \1 \{', body)
    if not m:
        raise AnchorLost('closure `|x| match x {..}` in %s' % fn_name)
    j = body.index('match', m.start())
    k = body.index('{', j)
    e = match_brace(body, k)
    sl = Slice(src, f.start + j, f.start + e, what)
    sl.param = m.group(1)
    return sl


def between(src, fn_name, start_marker, end_marker, what):
    f = top_fn(src, fn_name)
    body = f.code
    i = body.find(start_marker)
    j = body.find(end_marker, i + 1) if i >= 0 else -1
    if i < 0 or j < 0:
        raise AnchorLost('block %s..%s in %s' % (start_marker, end_marker, fn_name))
    return Slice(src, f.start + i, f.start + j, what)


# ---------------------------------------------------------------- rewrites

def strip_derive(sl, drop):
    """R4: remove the listed derives (Clone is re-added as a specified impl, Hash on range types is dropped)"""
    def f(m):
        items = [x.strip() for x in m.group(1).split(',') if x.strip()]
        kept = [x for x in items if x not in drop]
        gone = [x for x in items if x in drop]
        if gone:
            sl.rewrites.append('R4 derive(%s) removed' % ','.join(gone))
        return '#[derive(' + ', '.join(kept) + ')]' if kept else ''
    sl.text = re.sub(r'#\[derive\(([^)]*)\)\]', f, sl.text)
    return sl


def clone_impl(ty):
    return ("impl Clone for %s {\n    #[verifier::external_body]\n    fn clone(&self) -> (r: Self) ensures r == *self { unimplemented!() }\n}\n" % ty)


def pubify(sl):
    """R7: widen visibility of extracted private types / fields"""
    t = sl.text
    t2 = re.sub(r'^(enum|struct) ', r'pub \1 ', t, flags=re.M)
    t2 = re.sub(r'^(\s+)([a-z_]+): ', r'\1pub \2: ', t2, flags=re.M)
    t2 = re.sub(r'^pub struct (\w+)\((\w)', r'pub struct \1(pub \2', t2, flags=re.M)
    if t2 != t:
        sl.rewrites.append('R7 visibility widened')
    sl.text = t2
    return sl


def r1_split_or_guard(sl):
    """R1: `P1 | P2 if g => e` becomes `P1 if g => e, P2 if g => e` (Verus rejects or-pattern + guard in one arm)"""
    pat = re.compile(r'(\n\s*)(\([^\n]*\))\n\s*\| (\([^\n]*\))\n(\s*if [^\n]*=>)\n(\s*\{\n\s*None\n\s*\})')
    t, n = pat.subn(lambda m: f'{m.group(1)}{m.group(2)}\n{m.group(4)}\n{m.group(5)}{m.group(1)}{m.group(3)}\n{m.group(4)}\n{m.group(5)}', sl.text)
    if n:
        sl.rewrites.append('R1 or-pattern with guard split (%d)' % n)
    sl.text = t
    return sl


def r13_asserts(sl):
    """R13: `debug_assert!(c, msg..)` / `assert!(c, msg..)` -> `assert!(c)`.  Verus compiles without debug assertions, while the
    crate's tests and C06's statement run with them: the condition becomes a proof obligation either way; the message (a
    `format_args!`, outside Verus's reach) is dropped"""
    t = sl.text
    out = []
    i = 0
    n = 0
    for m in re.finditer(r'\b(debug_assert|assert)!\s*\(', t):
        if m.start() < i:
            continue
        a = m.end() - 1
        depth = 0
        j = a
        comma = None
        while j < len(t):
            c = t[j]
            if c == '"':
                j += 1
                while t[j] != '"':
                    j += 2 if t[j] == '\\' else 1
            elif c in '([{':
                depth += 1
            elif c in ')]}':
                depth -= 1
                if depth == 0:
                    break
            elif c == ',' and depth == 1 and comma is None:
                comma = j
            j += 1
        cond = t[a + 1:(comma if comma is not None else j)]
        out.append(t[i:m.start()] + 'assert!(' + cond.strip() + ')')
        i = j + 1
        if m.group(1) == 'debug_assert' or comma is not None:
            n += 1
    out.append(t[i:])
    if n:
        sl.text = ''.join(out)
        sl.rewrites.append('R13 debug_assert!/assert! with message -> assert!(cond) (%d)' % n)
    return sl


def inject(sl, ret=None, contract='', entry='', loops=(), closures=(), after=(), loop_entry=(), loop_end=(), before=(), rename=None, make_pub=False, loop_over=()):
    """Splice annotations into a function slice; executable tokens are untouched.
    ret: name for the return value; contract: requires/ensures/decreases text; entry: ghost text at body start;
    loops: (ordinal, iterator name, invariant text); closures: (exact closure text, annotated replacement);
    after / before: (snippet, ghost text); loop_entry / loop_end: (ordinal, ghost text).
    Returns (text, lost) where lost lists hint anchors that were not found (the hint is then left out)."""
    r13_asserts(sl)
    fn_text = sl.text
    lost = []
    ob = fn_text.index('{')
    head = fn_text[:ob]
    body = fn_text[ob:]
    if make_pub and not head.lstrip().startswith('pub'):
        head = re.sub(r'^(\s*)fn ', r'\1pub fn ', head, count=1)
        sl.rewrites.append('R7 visibility widened')
    if rename:
        head = re.sub(r'\bfn ' + rename[0] + r'\b', 'fn ' + rename[1], head, count=1)
    if ret:
        head2 = re.sub(r'->\s*(.+?)\s*$', lambda m: '-> (' + ret + ': ' + m.group(1) + ')\n', head.rstrip() + ' ')
        if head2 == head.rstrip() + ' ':
            raise AnchorLost('return type of ' + sl.what)
        head = head2
    pos = [m for m in re.finditer(r'\bfor (\w+) in ([^{\n]+?) \{', body)]
    # annotations name locals through placeholders, so that renaming a local does not detach the proof from the code:
    #   $L<n> = variable of the n-th `for` loop, $M<n> = n-th `let mut` variable
    loopvars = [m.group(1) for m in pos]
    letmuts = [m.group(1) for m in re.finditer(r'\blet mut (\w+)', body)]
    #   $P<n> = n-th parameter of the function (self not counted)
    sig = head[head.index('('):] if '(' in head else ''
    depth = 0
    cur = ''
    parts = []
    for ch in sig[1:]:
        if ch in '(<[':
            depth += 1
        if ch in ')>]':
            if depth == 0:
                break
            depth -= 1
        if ch == ',' and depth == 0:
            parts.append(cur)
            cur = ''
        else:
            cur += ch
    if cur.strip():
        parts.append(cur)
    params = []
    for prt in parts:
        mm = re.match(r'\s*(?:mut\s+)?(\w+)\s*:', prt)
        if mm and mm.group(1) != 'self':
            params.append(mm.group(1))

    def subst(txt):
        def f(m):
            arr = {'L': loopvars, 'M': letmuts, 'P': params}[m.group(1)]
            i = int(m.group(2))
            if i >= len(arr):
                raise AnchorLost('%s: local %s%d of an annotation does not exist any more' % (sl.what, m.group(1), i))
            return arr[i]
        return re.sub(r'\$([LMP])(\d)', f, txt)
    entry = subst(entry)
    contract = subst(contract)
    closures = [(a, subst(b)) for (a, b) in closures]
    loops = [(o, it, subst(inv)) for (o, it, inv) in loops]
    loop_entry = [(o, subst(t)) for (o, t) in loop_entry]
    loop_end = [(o, subst(t)) for (o, t) in loop_end]
    after = [(subst(a), subst(b)) for (a, b) in after]
    before = [(subst(a), subst(b)) for (a, b) in before]
    edits = []
    # an invariant belongs to the loop over a particular collection (`&self.0`, `&other.0`, ...): when the n-th loop runs over
    # something else (nest interchanged, loop replaced), the annotation has lost its anchor
    for (ordinal, over) in loop_over:
        if ordinal >= len(pos):
            raise AnchorLost('loop %d of %s' % (ordinal, sl.what))
        got = re.sub(r'\s+', '', pos[ordinal].group(2))
        if not re.fullmatch(subst(over), got):
            raise AnchorLost('loop %d of %s runs over `%s`, the invariant was written for `%s`' % (ordinal, sl.what, got, subst(over)))
    for (ordinal, itname, inv) in loops:
        if ordinal >= len(pos):
            raise AnchorLost('loop %d of %s' % (ordinal, sl.what))
        m = pos[ordinal]
        edits.append((m.start(), m.end(), f'for {m.group(1)} in {itname}: {m.group(2)}\n    invariant {inv}\n{{'))
    for (ordinal, txt) in loop_entry:
        if ordinal >= len(pos):
            raise AnchorLost('loop %d of %s' % (ordinal, sl.what))
        m = pos[ordinal]
        edits.append((m.end(), m.end(), '\n' + txt + '\n'))
    for (ordinal, txt) in loop_end:
        if ordinal >= len(pos):
            raise AnchorLost('loop %d of %s' % (ordinal, sl.what))
        m = pos[ordinal]
        ob2 = m.end() - 1
        e = match_brace(body, ob2)
        # R8: a unit tail expression of the loop body gets a `;` so that ghost code can follow it
        k = e - 2
        while body[k] in ' \n\t':
            k -= 1
        semi = '' if body[k] in ';}{' else ';'
        if semi:
            sl.rewrites.append('R8 `;` after unit tail expression of loop %d' % ordinal)
        edits.append((e - 1, e - 1, semi + '\n' + txt + '\n'))
    edits.sort(key=lambda x: (x[0], x[1]), reverse=True)
    for (a, b, t) in edits:
        body = body[:a] + t + body[b:]
    for (old, new) in closures:
        if old not in body:
            raise AnchorLost('closure `%s` in %s' % (old, sl.what))
        body = body.replace(old, new)
    for (snip, ghost) in before:
        if snip not in body:
            lost.append('%s: before `%s`' % (sl.what, snip.strip()))
            continue
        body = body.replace(snip, ghost + '\n' + snip, 1)
    for (snip, ghost) in after:
        if snip not in body:
            lost.append('%s: after `%s`' % (sl.what, snip.strip()))
            continue
        body = body.replace(snip, snip + '\n' + ghost + '\n', 1)
    if entry:
        body = '{\n' + entry + '\n' + body[1:]
    return head + contract + '\n' + body, lost
