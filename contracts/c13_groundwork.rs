// ===================== C13 groundwork (NOT an obligation of any claimed property yet) =====================
// One alternative whose printed form is a single comparator `<op><version>`: what `range` returns for that text (by its contract) is one
// interval whose lower / upper cut is the one the comparator denotes, up to the text of the identifiers.
pub open spec fn ends_alternative(tail: Seq<char>) -> bool { tail.len() == 0 || starts2(tail, '|', '|') }
pub proof fn lemma_alt_reads_ge<'s>(v: Version, tail: Seq<char>, i: &'s str, o: Vec<BoundSet>, rest: &'s str)
    requires wf_version(v), ends_alternative(tail), i@ == op_text(Operation::GreaterThanEquals) + (ver_text(v) + tail), range_acc(i, o, rest),
    ensures
        rest@ == tail, o@.len() == 1,
        forall|w: VKey| #![trigger within(o@[0], w)] within(o@[0], w) <==> kcmp(key(v), w) != Ordering::Greater,
{
    broadcast use winnow_defs, grammar_defs;
    reveal_strlit(">=");
    let op = Operation::GreaterThanEquals;
    let e: Seq<char> = i@;
    lemma_primitive_reads_printed(op, v, tail);
    assert(stops_version(tail));
    // the text starts with `>`: not an empty alternative, not a hyphen range
    assert(e[0] == '>');
    lemma_span_unique(e, |c: char| ws_char(c), 0);
    assert(skip_ws(e) =~= e);
    assert(!empty_alt(e));
    assert(g_partial(e) is None) by {
        assert(skip_lv(e) == e);
        assert(g_xr(e) is None);
        lemma_span_unique(e, |c: char| dg_char(c), 0);
    }
    assert(g_hyphen_ast(e) is None);
    assert(at_term(tail));
    let outs = choose|outs: Seq<Option<BoundSet>>| #[trigger] sep_all::<&'s str, Option<BoundSet>, &'s str, SemverParseError<&'s str>, _, _>(simple, space1::<SemverParseError<&'s str>>, i, outs, rest) && all_elem_ok(outs) && conj_post(outs, o@);
    assert(outs.len() > 0);
    let m = choose|m: &'s str| #[trigger] Parser::<&'s str, Option<BoundSet>, SemverParseError<&'s str>>::accepts(&simple, i, outs[0], m) && sep_tail::<&'s str, Option<BoundSet>, &'s str, SemverParseError<&'s str>, _, _>(simple, space1::<SemverParseError<&'s str>>, m, outs.drop_first(), rest);
    assert(simple_acc(i, outs[0], m));
    assert(primitive_acc(i, outs[0], m));
    assert(m@ == tail);
    // nothing follows: a further element would need a blank first
    lemma_span_unique(tail, |c: char| ws_char(c), 0);
    assert(outs.drop_first().len() == 0);
    assert(rest == m);
    let x = choose|x: (Operation, Partial)| #[trigger] primitive_post(x, outs[0]) && x.0 == op && partial_is(x.1, full_pspec(v)) && wf_partial(x.1);
    reveal(cut_cmp);
    assert(outs[0] is Some);
    assert(outs =~= seq![outs[0]]);
    let b = outs[0]->Some_0;
    assert(o@[0] == b);
    lemma_texts_read_back(v.pre_release@);
    lemma_idents_are_same(x.1.pre_release@, v.pre_release@, full_pspec(v).pre);
    let kx = k4(pM(x.1), pm(x.1), pp(x.1), x.1.pre_release@);
    assert forall|w: VKey| #![trigger within(b, w)] within(b, w) <==> kcmp(key(v), w) != Ordering::Greater by {
        lemma_same_key_same_order(kx, key(v), w);
    }
}
// the same for every operator: `>v`, `>=v`, `<v`, `<=v`
pub open spec fn op_admits(op: Operation, kv: VKey, w: VKey) -> bool {
    match op {
        Operation::GreaterThanEquals => kcmp(kv, w) != Ordering::Greater,
        Operation::GreaterThan => kcmp(kv, w) == Ordering::Less,
        Operation::LessThan => kcmp(w, kv) == Ordering::Less,
        Operation::LessThanEquals => kcmp(w, kv) != Ordering::Greater,
        Operation::Exact => kcmp(kv, w) == Ordering::Equal,
    }
}
pub proof fn lemma_alt_reads_primitive<'s>(op: Operation, v: Version, tail: Seq<char>, i: &'s str, o: Vec<BoundSet>, rest: &'s str)
    requires op != Operation::Exact, wf_version(v), ends_alternative(tail), i@ == op_text(op) + (ver_text(v) + tail), range_acc(i, o, rest),
    ensures
        rest@ == tail, o@.len() == 1,
        forall|w: VKey| #![trigger within(o@[0], w)] within(o@[0], w) <==> op_admits(op, key(v), w),
{
    broadcast use winnow_defs, grammar_defs;
    reveal_strlit(">="); reveal_strlit(">"); reveal_strlit("<="); reveal_strlit("<");
    let e: Seq<char> = i@;
    lemma_primitive_reads_printed(op, v, tail);
    assert(stops_version(tail));
    assert(e[0] == '>' || e[0] == '<');
    lemma_span_unique(e, |c: char| ws_char(c), 0);
    assert(skip_ws(e) =~= e);
    assert(!empty_alt(e));
    assert(g_partial(e) is None) by {
        assert(skip_lv(e) == e);
        assert(g_xr(e) is None);
        lemma_span_unique(e, |c: char| dg_char(c), 0);
    }
    assert(g_hyphen_ast(e) is None);
    assert(at_term(tail));
    let outs = choose|outs: Seq<Option<BoundSet>>| #[trigger] sep_all::<&'s str, Option<BoundSet>, &'s str, SemverParseError<&'s str>, _, _>(simple, space1::<SemverParseError<&'s str>>, i, outs, rest) && all_elem_ok(outs) && conj_post(outs, o@);
    assert(outs.len() > 0);
    let m = choose|m: &'s str| #[trigger] Parser::<&'s str, Option<BoundSet>, SemverParseError<&'s str>>::accepts(&simple, i, outs[0], m) && sep_tail::<&'s str, Option<BoundSet>, &'s str, SemverParseError<&'s str>, _, _>(simple, space1::<SemverParseError<&'s str>>, m, outs.drop_first(), rest);
    assert(simple_acc(i, outs[0], m));
    assert(primitive_acc(i, outs[0], m));
    assert(m@ == tail);
    lemma_span_unique(tail, |c: char| ws_char(c), 0);
    assert(outs.drop_first().len() == 0);
    assert(rest == m);
    let x = choose|x: (Operation, Partial)| #[trigger] primitive_post(x, outs[0]) && x.0 == op && partial_is(x.1, full_pspec(v)) && wf_partial(x.1);
    reveal(cut_cmp);
    assert(outs[0] is Some);
    assert(outs =~= seq![outs[0]]);
    let b = outs[0]->Some_0;
    assert(o@[0] == b);
    lemma_texts_read_back(v.pre_release@);
    lemma_idents_are_same(x.1.pre_release@, v.pre_release@, full_pspec(v).pre);
    let kx = k4(pM(x.1), pm(x.1), pp(x.1), x.1.pre_release@);
    assert forall|w: VKey| #![trigger within(b, w)] within(b, w) <==> op_admits(op, key(v), w) by {
        lemma_same_key_same_order(kx, key(v), w);
        lemma_k_flip(kx, w); lemma_k_flip(key(v), w);
    }
}
// two comparators: `<op1>v <op2>w` (the printed form of a two-sided interval).  First the structure: the list winnow returned has exactly two
// elements, each what `primitive` returns for its comparator; then what that means for bounds membership.
pub open spec fn two_text(op1: Operation, v: Version, op2: Operation, w: Version, tail: Seq<char>) -> Seq<char> {
    op_text(op1) + (ver_text(v) + (ch1(' ') + (op_text(op2) + (ver_text(w) + tail))))
}
pub open spec fn reads_cmp(op: Operation, v: Version, o: Option<BoundSet>) -> bool {
    exists|x: (Operation, Partial)| #[trigger] primitive_post(x, o) && x.0 == op && partial_is(x.1, full_pspec(v)) && wf_partial(x.1)
}
// one element of the list: `simple` on a printed comparator followed by a terminator
pub proof fn lemma_simple_reads_printed<'s>(op: Operation, v: Version, tail: Seq<char>, i: &'s str, o: Option<BoundSet>, m: &'s str)
    requires op != Operation::Exact, wf_version(v), stops_version(tail), at_term(tail), i@ == op_text(op) + (ver_text(v) + tail), simple_acc(i, o, m),
    ensures m@ == tail, reads_cmp(op, v, o),
{
    reveal_strlit(">="); reveal_strlit(">"); reveal_strlit("<="); reveal_strlit("<");
    let e: Seq<char> = i@;
    lemma_primitive_reads_printed(op, v, tail);
    assert(e[0] == '>' || e[0] == '<');
    lemma_span_unique(e, |c: char| ws_char(c), 0);
    assert(g_partial(e) is None) by { assert(skip_lv(e) == e); assert(skip_ws(e) =~= e); assert(g_xr(e) is None); lemma_span_unique(e, |c: char| dg_char(c), 0); }
    assert(g_hyphen_ast(e) is None);
    assert(primitive_acc(i, o, m));
}
pub proof fn lemma_alt_two_structure<'s>(op1: Operation, v: Version, op2: Operation, w: Version, tail: Seq<char>, i: &'s str, outs: Seq<Option<BoundSet>>, rest: &'s str)
    requires op1 != Operation::Exact, op2 != Operation::Exact, wf_version(v), wf_version(w), ends_alternative(tail),
        i@ == two_text(op1, v, op2, w, tail),
        sep_all::<&'s str, Option<BoundSet>, &'s str, SemverParseError<&'s str>, _, _>(simple, space1::<SemverParseError<&'s str>>, i, outs, rest),
    ensures rest@ == tail, outs.len() == 2, reads_cmp(op1, v, outs[0]), reads_cmp(op2, w, outs[1]),
{
    broadcast use def_simple_acc, def_simple_rej, def_space1_acc, def_space1_rej;
    reveal_strlit(">="); reveal_strlit(">"); reveal_strlit("<="); reveal_strlit("<");
    let t2 = op_text(op2) + (ver_text(w) + tail);
    let tail1 = ch1(' ') + t2;
    assert(tail1[0] == ' ');
    assert(t2[0] == '>' || t2[0] == '<');
    assert(outs.len() > 0);
    let m = choose|m: &'s str| #[trigger] Parser::<&'s str, Option<BoundSet>, SemverParseError<&'s str>>::accepts(&simple, i, outs[0], m) && sep_tail::<&'s str, Option<BoundSet>, &'s str, SemverParseError<&'s str>, _, _>(simple, space1::<SemverParseError<&'s str>>, m, outs.drop_first(), rest);
    lemma_simple_reads_printed(op1, v, tail1, i, outs[0], m);
    lemma_span_unique(tail1, |c: char| ws_char(c), 1);
    let r1 = outs.drop_first();
    assert(r1.len() > 0);
    let (sx, m2, m3) = choose|sx: &'s str, m2: &'s str, m3: &'s str| #[trigger] Parser::<&'s str, &'s str, SemverParseError<&'s str>>::accepts(&space1::<SemverParseError<&'s str>>, m, sx, m2) && #[trigger] Parser::<&'s str, Option<BoundSet>, SemverParseError<&'s str>>::accepts(&simple, m2, r1[0], m3) && sep_tail::<&'s str, Option<BoundSet>, &'s str, SemverParseError<&'s str>, _, _>(simple, space1::<SemverParseError<&'s str>>, m3, r1.drop_first(), rest);
    assert(m2@ =~= t2);
    lemma_simple_reads_printed(op2, w, tail, m2, r1[0], m3);
    lemma_span_unique(tail, |c: char| ws_char(c), 0);
    assert(r1.drop_first().len() == 0);
    assert(outs[1] == r1[0]);
}
pub proof fn lemma_cmp_within(op: Operation, v: Version, o: Option<BoundSet>)
    requires op != Operation::Exact, wf_version(v), reads_cmp(op, v, o),
    ensures o is Some, forall|x: VKey| #![trigger within(o->Some_0, x)] within(o->Some_0, x) <==> op_admits(op, key(v), x),
{
    let xx = choose|x: (Operation, Partial)| #[trigger] primitive_post(x, o) && x.0 == op && partial_is(x.1, full_pspec(v)) && wf_partial(x.1);
    reveal(cut_cmp);
    lemma_texts_read_back(v.pre_release@);
    lemma_idents_are_same(xx.1.pre_release@, v.pre_release@, full_pspec(v).pre);
    let k1 = k4(pM(xx.1), pm(xx.1), pp(xx.1), xx.1.pre_release@);
    assert(o is Some);
    let b = o->Some_0;
    assert forall|x: VKey| #![trigger within(b, x)] within(b, x) <==> op_admits(op, key(v), x) by {
        lemma_same_key_same_order(k1, key(v), x); lemma_k_flip(k1, x); lemma_k_flip(key(v), x);
    }
}
pub proof fn lemma_alt_reads_two<'s>(op1: Operation, v: Version, op2: Operation, w: Version, tail: Seq<char>, i: &'s str, o: Vec<BoundSet>, rest: &'s str)
    requires op1 != Operation::Exact, op2 != Operation::Exact, wf_version(v), wf_version(w), ends_alternative(tail),
        i@ == two_text(op1, v, op2, w, tail), range_acc(i, o, rest),
    ensures
        rest@ == tail,
        forall|x: VKey| #![trigger any_within(o@, o@.len() as int, x)] any_within(o@, o@.len() as int, x) <==> (op_admits(op1, key(v), x) && op_admits(op2, key(w), x)),
{
    reveal_strlit(">="); reveal_strlit(">"); reveal_strlit("<="); reveal_strlit("<");
    let e: Seq<char> = i@;
    assert(e[0] == '>' || e[0] == '<');
    lemma_span_unique(e, |c: char| ws_char(c), 0);
    assert(skip_ws(e) =~= e);
    assert(!empty_alt(e));
    let outs = choose|outs: Seq<Option<BoundSet>>| #[trigger] sep_all::<&'s str, Option<BoundSet>, &'s str, SemverParseError<&'s str>, _, _>(simple, space1::<SemverParseError<&'s str>>, i, outs, rest) && all_elem_ok(outs) && conj_post(outs, o@);
    lemma_alt_two_structure(op1, v, op2, w, tail, i, outs, rest);
    lemma_cmp_within(op1, v, outs[0]);
    lemma_cmp_within(op2, w, outs[1]);
    let b1 = outs[0]->Some_0; let b2 = outs[1]->Some_0;
    assert forall|x: VKey| #![trigger any_within(o@, o@.len() as int, x)] any_within(o@, o@.len() as int, x) <==> (op_admits(op1, key(v), x) && op_admits(op2, key(w), x)) by {
        assert(all_within(outs, 2, x) <==> (within(b1, x) && within(b2, x))) by {
            if within(b1, x) && within(b2, x) { assert forall|j: int| 0 <= j < 2 && j < outs.len() implies ((#[trigger] outs[j]) matches Some(b) ==> within(b, x)) by { if j == 0 { } else { assert(j == 1); } } }
            if all_within(outs, 2, x) { assert(outs[0] matches Some(b) ==> within(b, x)); assert(outs[1] matches Some(b) ==> within(b, x)); }
        }
        assert(has_some(outs, 2)) by { assert(outs[0] is Some); }
        if o@.len() == 1 { assert(any_within(o@, 1, x) <==> within(o@[0], x)); }
    }
}
// an exact version: the alternative `v` (printed when both ends of the interval are the same version)
pub proof fn lemma_alt_reads_exact<'s>(v: Version, tail: Seq<char>, i: &'s str, o: Vec<BoundSet>, rest: &'s str)
    requires wf_version(v), ends_alternative(tail), i@ == ver_text(v) + tail, range_acc(i, o, rest),
    ensures
        rest@ == tail, o@.len() == 1,
        forall|w: VKey| #![trigger within(o@[0], w)] within(o@[0], w) <==> kcmp(key(v), w) == Ordering::Equal,
{
    broadcast use def_simple_acc, def_simple_rej, def_space1_acc, def_space1_rej, ax_dec_text;
    let e: Seq<char> = i@;
    assert(stops_version(tail));
    assert(at_term(tail));
    lemma_partial_reads_printed_version(v, tail);
    lemma_ver_text_is_canonical(v);
    let ma = dec_text(v.major as nat);
    assert(e[0] == ma[0]) by {
        assert(ver_text(v) =~= ma + (ch1('.') + (dec_text(v.minor as nat) + (ch1('.') + (dec_text(v.patch as nat) + (pre_text(texts(v.pre_release@)) + build_text(texts(v.build@))))))));
    }
    assert(dg_char(e[0]));
    lemma_span_unique(e, |c: char| ws_char(c), 0);
    assert(skip_ws(e) =~= e);
    assert(!empty_alt(e));
    lemma_span_unique(tail, |c: char| ws_char(c), 0);
    assert(g_hyphen_ast(e) is None);
    assert(g_operation(e) is None);
    assert(g_primitive_ast(e) is None);
    let outs = choose|outs: Seq<Option<BoundSet>>| #[trigger] sep_all::<&'s str, Option<BoundSet>, &'s str, SemverParseError<&'s str>, _, _>(simple, space1::<SemverParseError<&'s str>>, i, outs, rest) && all_elem_ok(outs) && conj_post(outs, o@);
    assert(outs.len() > 0);
    let m = choose|m: &'s str| #[trigger] Parser::<&'s str, Option<BoundSet>, SemverParseError<&'s str>>::accepts(&simple, i, outs[0], m) && sep_tail::<&'s str, Option<BoundSet>, &'s str, SemverParseError<&'s str>, _, _>(simple, space1::<SemverParseError<&'s str>>, m, outs.drop_first(), rest);
    assert(simple_acc(i, outs[0], m));
    assert(partial_acc(i, outs[0], m));
    assert(m@ == tail);
    assert(outs.drop_first().len() == 0);
    assert(rest == m);
    let x = choose|x: Partial| #[trigger] partial_post(x, outs[0]) && partial_is(x, full_pspec(v)) && wf_partial(x);
    reveal(cut_cmp);
    lemma_texts_read_back(v.pre_release@);
    lemma_idents_are_same(x.pre_release@, v.pre_release@, full_pspec(v).pre);
    let kx = k4(pM(x), pm(x), pp(x), x.pre_release@);
    lemma_k_refl(kx);
    assert(outs[0] is Some);
    assert(outs =~= seq![outs[0]]);
    let b = outs[0]->Some_0;
    assert(o@[0] == b);
    assert forall|w: VKey| #![trigger within(b, w)] within(b, w) <==> kcmp(key(v), w) == Ordering::Equal by {
        lemma_same_key_same_order(kx, key(v), w); lemma_k_flip(kx, w); lemma_k_flip(key(v), w);
    }
}
// ... and the prerelease gate of that interval is the gate of the comparator: opt-in exactly on v's tuple, and only if v carries a tag
pub proof fn lemma_cmp_gate(op: Operation, v: Version, o: Option<BoundSet>)
    requires op != Operation::Exact, wf_version(v), reads_cmp(op, v, o),
    ensures o is Some, forall|x: VKey| #![trigger gate(o->Some_0, x)] gate(o->Some_0, x) <==> (x.pre.len() == 0 || (v.pre_release@.len() > 0 && same_tuple(key(v), x))),
{
    let xx = choose|x: (Operation, Partial)| #[trigger] primitive_post(x, o) && x.0 == op && partial_is(x.1, full_pspec(v)) && wf_partial(x.1);
    reveal(cut_cmp);
    lemma_texts_read_back(v.pre_release@);
    lemma_idents_are_same(xx.1.pre_release@, v.pre_release@, full_pspec(v).pre);
    assert(o is Some);
    let b = o->Some_0;
    assert(bs_wf(b));
    assert forall|x: VKey| #![trigger gate(b, x)] gate(b, x) <==> (x.pre.len() == 0 || (v.pre_release@.len() > 0 && same_tuple(key(v), x))) by {
        match op {
            Operation::GreaterThan | Operation::GreaterThanEquals => {
                assert(bound_version(*b.upper) is None);
                assert(bound_version(*b.lower) matches Some(w) && key(w).pre.len() == v.pre_release@.len() && same_tuple(key(w), key(v)));
            },
            _ => {
                assert(bound_version(*b.lower) is None);
                assert(bound_version(*b.upper) matches Some(w) && key(w).pre.len() == v.pre_release@.len() && same_tuple(key(w), key(v)));
            },
        }
    }
}
// per printed interval shape (one lemma each: as a single lemma over all shapes the dispatcher exceeds the resource limit)
pub open spec fn version_ok(b: Bound) -> bool { bound_version(b) matches Some(v) ==> wf_version(v) }
pub proof fn lemma_alt_reads_upper_only<'s>(bs: BoundSet, tail: Seq<char>, i: &'s str, o: Vec<BoundSet>, rest: &'s str)
    requires bs_wf(bs), version_ok(*bs.upper), *bs.lower == Bound::Lower(Predicate::Unbounded), *bs.upper != Bound::Upper(Predicate::Unbounded),
        ends_alternative(tail), i@ == bs_text(bs) + tail, range_acc(i, o, rest),
    ensures rest@ == tail, o@.len() == 1, forall|x: VKey| #![trigger within(o@[0], x)] within(o@[0], x) <==> within(bs, x),
{
    reveal_strlit("<="); reveal_strlit("<");
    broadcast use lemma_k_flip;
    match *bs.upper {
        Bound::Upper(Predicate::Including(v)) => { assert(i@ =~= op_text(Operation::LessThanEquals) + (ver_text(v) + tail)); lemma_alt_reads_primitive(Operation::LessThanEquals, v, tail, i, o, rest); },
        Bound::Upper(Predicate::Excluding(v)) => { assert(i@ =~= op_text(Operation::LessThan) + (ver_text(v) + tail)); lemma_alt_reads_primitive(Operation::LessThan, v, tail, i, o, rest); },
        _ => {},
    }
}
pub proof fn lemma_alt_reads_lower_only<'s>(bs: BoundSet, tail: Seq<char>, i: &'s str, o: Vec<BoundSet>, rest: &'s str)
    requires bs_wf(bs), version_ok(*bs.lower), *bs.upper == Bound::Upper(Predicate::Unbounded), *bs.lower != Bound::Lower(Predicate::Unbounded),
        ends_alternative(tail), i@ == bs_text(bs) + tail, range_acc(i, o, rest),
    ensures rest@ == tail, o@.len() == 1, forall|x: VKey| #![trigger within(o@[0], x)] within(o@[0], x) <==> within(bs, x),
{
    reveal_strlit(">="); reveal_strlit(">");
    broadcast use lemma_k_flip;
    match *bs.lower {
        Bound::Lower(Predicate::Including(v)) => { assert(i@ =~= op_text(Operation::GreaterThanEquals) + (ver_text(v) + tail)); lemma_alt_reads_primitive(Operation::GreaterThanEquals, v, tail, i, o, rest); },
        Bound::Lower(Predicate::Excluding(v)) => { assert(i@ =~= op_text(Operation::GreaterThan) + (ver_text(v) + tail)); lemma_alt_reads_primitive(Operation::GreaterThan, v, tail, i, o, rest); },
        _ => {},
    }
}
// the printed two-sided form is the two-comparator text (pure sequence algebra, kept apart: inside the shape lemma it is what exhausts the solver)
pub proof fn lemma_pair_text_is_two_text(op1: Operation, v: Version, sp2: Seq<char>, op2: Operation, w: Version, tail: Seq<char>)
    requires sp2 == ch1(' ') + op_text(op2),
    ensures pair_text(op_text(op1), v, sp2, w) + tail == two_text(op1, v, op2, w, tail),
{
    assert(pair_text(op_text(op1), v, sp2, w) + tail =~= two_text(op1, v, op2, w, tail));
}
pub proof fn lemma_alt_reads_ge_lt<'s>(v: Version, w: Version, tail: Seq<char>, i: &'s str, o: Vec<BoundSet>, rest: &'s str)
    requires wf_version(v), wf_version(w), ends_alternative(tail), i@ == pair_text(">="@, v, " <"@, w) + tail, range_acc(i, o, rest),
    ensures rest@ == tail,
        forall|x: VKey| #![trigger any_within(o@, o@.len() as int, x)] any_within(o@, o@.len() as int, x) <==> (kcmp(key(v), x) != Ordering::Greater && kcmp(x, key(w)) == Ordering::Less),
{
    reveal_strlit(">="); reveal_strlit("<"); reveal_strlit(" <");
    assert(" <"@ =~= ch1(' ') + op_text(Operation::LessThan));
    lemma_pair_text_is_two_text(Operation::GreaterThanEquals, v, " <"@, Operation::LessThan, w, tail);
    lemma_alt_reads_two(Operation::GreaterThanEquals, v, Operation::LessThan, w, tail, i, o, rest);
}
pub proof fn lemma_alt_reads_ge_le<'s>(v: Version, w: Version, tail: Seq<char>, i: &'s str, o: Vec<BoundSet>, rest: &'s str)
    requires wf_version(v), wf_version(w), ends_alternative(tail), i@ == pair_text(">="@, v, " <="@, w) + tail, range_acc(i, o, rest),
    ensures rest@ == tail,
        forall|x: VKey| #![trigger any_within(o@, o@.len() as int, x)] any_within(o@, o@.len() as int, x) <==> (kcmp(key(v), x) != Ordering::Greater && kcmp(x, key(w)) != Ordering::Greater),
{
    reveal_strlit(">="); reveal_strlit("<="); reveal_strlit(" <=");
    assert(" <="@ =~= ch1(' ') + op_text(Operation::LessThanEquals));
    lemma_pair_text_is_two_text(Operation::GreaterThanEquals, v, " <="@, Operation::LessThanEquals, w, tail);
    lemma_alt_reads_two(Operation::GreaterThanEquals, v, Operation::LessThanEquals, w, tail, i, o, rest);
}
pub proof fn lemma_alt_reads_gt_lt<'s>(v: Version, w: Version, tail: Seq<char>, i: &'s str, o: Vec<BoundSet>, rest: &'s str)
    requires wf_version(v), wf_version(w), ends_alternative(tail), i@ == pair_text(">"@, v, " <"@, w) + tail, range_acc(i, o, rest),
    ensures rest@ == tail,
        forall|x: VKey| #![trigger any_within(o@, o@.len() as int, x)] any_within(o@, o@.len() as int, x) <==> (kcmp(key(v), x) == Ordering::Less && kcmp(x, key(w)) == Ordering::Less),
{
    reveal_strlit(">"); reveal_strlit("<"); reveal_strlit(" <");
    assert(" <"@ =~= ch1(' ') + op_text(Operation::LessThan));
    lemma_pair_text_is_two_text(Operation::GreaterThan, v, " <"@, Operation::LessThan, w, tail);
    lemma_alt_reads_two(Operation::GreaterThan, v, Operation::LessThan, w, tail, i, o, rest);
}
pub proof fn lemma_alt_reads_gt_le<'s>(v: Version, w: Version, tail: Seq<char>, i: &'s str, o: Vec<BoundSet>, rest: &'s str)
    requires wf_version(v), wf_version(w), ends_alternative(tail), i@ == pair_text(">"@, v, " <="@, w) + tail, range_acc(i, o, rest),
    ensures rest@ == tail,
        forall|x: VKey| #![trigger any_within(o@, o@.len() as int, x)] any_within(o@, o@.len() as int, x) <==> (kcmp(key(v), x) == Ordering::Less && kcmp(x, key(w)) != Ordering::Greater),
{
    reveal_strlit(">"); reveal_strlit("<="); reveal_strlit(" <=");
    assert(" <="@ =~= ch1(' ') + op_text(Operation::LessThanEquals));
    lemma_pair_text_is_two_text(Operation::GreaterThan, v, " <="@, Operation::LessThanEquals, w, tail);
    lemma_alt_reads_two(Operation::GreaterThan, v, Operation::LessThanEquals, w, tail, i, o, rest);
}
// the four two-sided shapes against the interval that was printed
pub proof fn lemma_alt_reads_two_sided<'s>(bs: BoundSet, tail: Seq<char>, i: &'s str, o: Vec<BoundSet>, rest: &'s str)
    requires bs_wf(bs), version_ok(*bs.lower), version_ok(*bs.upper), *bs.lower != Bound::Lower(Predicate::Unbounded), *bs.upper != Bound::Upper(Predicate::Unbounded),
        // (the shape `v`, printed when both ends are the same version, is lemma_alt_reads_exact)
        !(*bs.lower matches Bound::Lower(Predicate::Including(v)) && *bs.upper matches Bound::Upper(Predicate::Including(w)) && ver_cmp(v, w) == Ordering::Equal),
        ends_alternative(tail), i@ == bs_text(bs) + tail, range_acc(i, o, rest),
    ensures rest@ == tail, forall|x: VKey| #![trigger any_within(o@, o@.len() as int, x)] any_within(o@, o@.len() as int, x) <==> within(bs, x),
{
    broadcast use lemma_k_flip;
    match (*bs.lower, *bs.upper) {
        (Bound::Lower(Predicate::Including(v)), Bound::Upper(Predicate::Including(w))) => { lemma_alt_reads_ge_le(v, w, tail, i, o, rest); },
        (Bound::Lower(Predicate::Including(v)), Bound::Upper(Predicate::Excluding(w))) => { lemma_alt_reads_ge_lt(v, w, tail, i, o, rest); },
        (Bound::Lower(Predicate::Excluding(v)), Bound::Upper(Predicate::Including(w))) => { lemma_alt_reads_gt_le(v, w, tail, i, o, rest); },
        (Bound::Lower(Predicate::Excluding(v)), Bound::Upper(Predicate::Excluding(w))) => { lemma_alt_reads_gt_lt(v, w, tail, i, o, rest); },
        _ => {},
    }
}
// the printed range, read from the left: first alternative, then `||` and the rest (Display builds it the other way round, alts_text)
pub open spec fn range_text_r(s: Seq<BoundSet>) -> Seq<char>
    decreases s.len()
{
    if s.len() == 0 { Seq::<char>::empty() } else if s.len() == 1 { bs_text(s[0]) } else { bs_text(s[0]) + ("||"@ + range_text_r(s.drop_first())) }
}
pub proof fn lemma_alts_text_step(s: Seq<BoundSet>, k: int)
    requires 1 <= k <= s.len(),
    ensures alts_text(s, k) == range_text_r(s.take(k)),
    decreases k,
{
    if k == 1 {
        assert(alts_text(s, 0) =~= Seq::<char>::empty());
        assert(s.take(1)[0] == s[0]);
        assert(alts_text(s, 1) =~= bs_text(s[0]));
    } else {
        lemma_alts_text_step(s, k - 1);
        lemma_range_text_push(s.take(k - 1), s[k - 1]);
        assert(s.take(k) =~= s.take(k - 1).push(s[k - 1]));
    }
}
pub proof fn lemma_range_text_push(s: Seq<BoundSet>, b: BoundSet)
    requires s.len() >= 1,
    ensures range_text_r(s.push(b)) == range_text_r(s) + "||"@ + bs_text(b),
    decreases s.len(),
{
    let q = s.push(b);
    if s.len() == 1 {
        assert(q.drop_first() =~= seq![b]);
        assert(range_text_r(q.drop_first()) == bs_text(b)) by { assert(q.drop_first()[0] == b); }
        assert(range_text_r(q) =~= range_text_r(s) + "||"@ + bs_text(b));
    } else {
        assert(q.drop_first() =~= s.drop_first().push(b));
        lemma_range_text_push(s.drop_first(), b);
        assert(range_text_r(q) =~= range_text_r(s) + "||"@ + bs_text(b));
    }
}
// satisfaction (bounds AND the prerelease gate) for the two-comparator alternative
pub open spec fn tag_on(v: Version, x: VKey) -> bool { v.pre_release@.len() > 0 && same_tuple(key(v), x) }
pub proof fn lemma_alt_two_sat<'s>(op1: Operation, v: Version, op2: Operation, w: Version, tail: Seq<char>, i: &'s str, o: Vec<BoundSet>, rest: &'s str)
    requires op1 != Operation::Exact, op2 != Operation::Exact, wf_version(v), wf_version(w), ends_alternative(tail),
        i@ == two_text(op1, v, op2, w, tail), range_acc(i, o, rest),
    ensures
        forall|x: VKey| #![trigger any_sat(o@, o@.len() as int, x)] any_sat(o@, o@.len() as int, x) <==>
            (op_admits(op1, key(v), x) && op_admits(op2, key(w), x) && (x.pre.len() == 0 || tag_on(v, x) || tag_on(w, x))),
{
    reveal_strlit(">="); reveal_strlit(">"); reveal_strlit("<="); reveal_strlit("<");
    let e: Seq<char> = i@;
    assert(e[0] == '>' || e[0] == '<');
    lemma_span_unique(e, |c: char| ws_char(c), 0);
    assert(skip_ws(e) =~= e);
    assert(!empty_alt(e));
    let outs = choose|outs: Seq<Option<BoundSet>>| #[trigger] sep_all::<&'s str, Option<BoundSet>, &'s str, SemverParseError<&'s str>, _, _>(simple, space1::<SemverParseError<&'s str>>, i, outs, rest) && all_elem_ok(outs) && conj_post(outs, o@);
    lemma_alt_two_structure(op1, v, op2, w, tail, i, outs, rest);
    lemma_cmp_within(op1, v, outs[0]); lemma_cmp_within(op2, w, outs[1]);
    lemma_cmp_gate(op1, v, outs[0]); lemma_cmp_gate(op2, w, outs[1]);
    let b1 = outs[0]->Some_0; let b2 = outs[1]->Some_0;
    assert forall|x: VKey| #![trigger any_sat(o@, o@.len() as int, x)] any_sat(o@, o@.len() as int, x) <==>
            (op_admits(op1, key(v), x) && op_admits(op2, key(w), x) && (x.pre.len() == 0 || tag_on(v, x) || tag_on(w, x))) by {
        assert(all_within(outs, 2, x) <==> (within(b1, x) && within(b2, x))) by {
            if within(b1, x) && within(b2, x) { assert forall|j: int| 0 <= j < 2 && j < outs.len() implies ((#[trigger] outs[j]) matches Some(b) ==> within(b, x)) by { if j == 0 { } else { assert(j == 1); } } }
            if all_within(outs, 2, x) { assert(outs[0] matches Some(b) ==> within(b, x)); assert(outs[1] matches Some(b) ==> within(b, x)); }
        }
        assert(some_gate(outs, 2, x) <==> (gate(b1, x) || gate(b2, x))) by {
            if gate(b1, x) { assert(outs[0] matches Some(b) && gate(b, x)); }
            if gate(b2, x) { assert(outs[1] matches Some(b) && gate(b, x)); }
            if some_gate(outs, 2, x) { let j = choose|j: int| 0 <= j < 2 && j < outs.len() && ((#[trigger] outs[j]) matches Some(b) && gate(b, x)); if j == 0 { } else { assert(j == 1); } }
        }
        assert(has_some(outs, 2)) by { assert(outs[0] is Some); }
        if o@.len() == 1 { assert(any_sat(o@, 1, x) <==> sat(o@[0], x)); }
    }
}
