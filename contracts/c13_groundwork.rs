// ===================== C13 groundwork (NOT an obligation of any claimed property yet) =====================
// One alternative whose printed form is a single comparator `<op><version>`: what `range` returns for that text (by its contract) is one
// interval whose lower / upper cut is the one the comparator denotes, up to the text of the identifiers.
pub open spec fn ends_alternative(tail: Seq<char>) -> bool { tail.len() == 0 || starts2(tail, '|', '|') }
pub proof fn lemma_alt_reads_ge<'s>(v: Version, tail: Seq<char>, i: &'s str, o: Vec<BoundSet>, rest: &'s str)
    requires wf_version(v), ends_alternative(tail), i@ == op_text(Operation::GreaterThanEquals) + (ver_text(v) + tail), range_acc(i, o, rest),
    ensures
        rest@ == tail, o@.len() == 1,
        forall|w: VKey| #![trigger within(o@[0], w)] within(o@[0], w) <==> kcmp(key(v), w) != Ordering::Greater,
{
    broadcast use winnow_defs, grammar_defs;
    reveal_strlit(">=");
    let op = Operation::GreaterThanEquals;
    let e: Seq<char> = i@;
    lemma_primitive_reads_printed(op, v, tail);
    assert(stops_version(tail));
    // the text starts with `>`: not an empty alternative, not a hyphen range
    assert(e[0] == '>');
    lemma_span_unique(e, |c: char| ws_char(c), 0);
    assert(skip_ws(e) =~= e);
    assert(!empty_alt(e));
    assert(g_partial(e) is None) by {
        assert(skip_lv(e) == e);
        assert(g_xr(e) is None);
        lemma_span_unique(e, |c: char| dg_char(c), 0);
    }
    assert(g_hyphen_ast(e) is None);
    assert(at_term(tail));
    let outs = choose|outs: Seq<Option<BoundSet>>| #[trigger] sep_all::<&'s str, Option<BoundSet>, &'s str, SemverParseError<&'s str>, _, _>(simple, space1::<SemverParseError<&'s str>>, i, outs, rest) && all_elem_ok(outs) && conj_post(outs, o@);
    assert(outs.len() > 0);
    let m = choose|m: &'s str| #[trigger] Parser::<&'s str, Option<BoundSet>, SemverParseError<&'s str>>::accepts(&simple, i, outs[0], m) && sep_tail::<&'s str, Option<BoundSet>, &'s str, SemverParseError<&'s str>, _, _>(simple, space1::<SemverParseError<&'s str>>, m, outs.drop_first(), rest);
    assert(simple_acc(i, outs[0], m));
    assert(primitive_acc(i, outs[0], m));
    assert(m@ == tail);
    // nothing follows: a further element would need a blank first
    lemma_span_unique(tail, |c: char| ws_char(c), 0);
    assert(outs.drop_first().len() == 0);
    assert(rest == m);
    let x = choose|x: (Operation, Partial)| #[trigger] primitive_post(x, outs[0]) && x.0 == op && partial_is(x.1, full_pspec(v)) && wf_partial(x.1);
    reveal(cut_cmp);
    assert(outs[0] is Some);
    assert(outs =~= seq![outs[0]]);
    let b = outs[0]->Some_0;
    assert(o@[0] == b);
    lemma_texts_read_back(v.pre_release@);
    lemma_idents_are_same(x.1.pre_release@, v.pre_release@, full_pspec(v).pre);
    let kx = k4(pM(x.1), pm(x.1), pp(x.1), x.1.pre_release@);
    assert forall|w: VKey| #![trigger within(b, w)] within(b, w) <==> kcmp(key(v), w) != Ordering::Greater by {
        lemma_same_key_same_order(kx, key(v), w);
    }
}
// the same for every operator: `>v`, `>=v`, `<v`, `<=v`
pub open spec fn op_admits(op: Operation, kv: VKey, w: VKey) -> bool {
    match op {
        Operation::GreaterThanEquals => kcmp(kv, w) != Ordering::Greater,
        Operation::GreaterThan => kcmp(kv, w) == Ordering::Less,
        Operation::LessThan => kcmp(w, kv) == Ordering::Less,
        Operation::LessThanEquals => kcmp(w, kv) != Ordering::Greater,
        Operation::Exact => kcmp(kv, w) == Ordering::Equal,
    }
}
pub proof fn lemma_alt_reads_primitive<'s>(op: Operation, v: Version, tail: Seq<char>, i: &'s str, o: Vec<BoundSet>, rest: &'s str)
    requires op != Operation::Exact, wf_version(v), ends_alternative(tail), i@ == op_text(op) + (ver_text(v) + tail), range_acc(i, o, rest),
    ensures
        rest@ == tail, o@.len() == 1,
        forall|w: VKey| #![trigger within(o@[0], w)] within(o@[0], w) <==> op_admits(op, key(v), w),
{
    broadcast use winnow_defs, grammar_defs;
    reveal_strlit(">="); reveal_strlit(">"); reveal_strlit("<="); reveal_strlit("<");
    let e: Seq<char> = i@;
    lemma_primitive_reads_printed(op, v, tail);
    assert(stops_version(tail));
    assert(e[0] == '>' || e[0] == '<');
    lemma_span_unique(e, |c: char| ws_char(c), 0);
    assert(skip_ws(e) =~= e);
    assert(!empty_alt(e));
    assert(g_partial(e) is None) by {
        assert(skip_lv(e) == e);
        assert(g_xr(e) is None);
        lemma_span_unique(e, |c: char| dg_char(c), 0);
    }
    assert(g_hyphen_ast(e) is None);
    assert(at_term(tail));
    let outs = choose|outs: Seq<Option<BoundSet>>| #[trigger] sep_all::<&'s str, Option<BoundSet>, &'s str, SemverParseError<&'s str>, _, _>(simple, space1::<SemverParseError<&'s str>>, i, outs, rest) && all_elem_ok(outs) && conj_post(outs, o@);
    assert(outs.len() > 0);
    let m = choose|m: &'s str| #[trigger] Parser::<&'s str, Option<BoundSet>, SemverParseError<&'s str>>::accepts(&simple, i, outs[0], m) && sep_tail::<&'s str, Option<BoundSet>, &'s str, SemverParseError<&'s str>, _, _>(simple, space1::<SemverParseError<&'s str>>, m, outs.drop_first(), rest);
    assert(simple_acc(i, outs[0], m));
    assert(primitive_acc(i, outs[0], m));
    assert(m@ == tail);
    lemma_span_unique(tail, |c: char| ws_char(c), 0);
    assert(outs.drop_first().len() == 0);
    assert(rest == m);
    let x = choose|x: (Operation, Partial)| #[trigger] primitive_post(x, outs[0]) && x.0 == op && partial_is(x.1, full_pspec(v)) && wf_partial(x.1);
    reveal(cut_cmp);
    assert(outs[0] is Some);
    assert(outs =~= seq![outs[0]]);
    let b = outs[0]->Some_0;
    assert(o@[0] == b);
    lemma_texts_read_back(v.pre_release@);
    lemma_idents_are_same(x.1.pre_release@, v.pre_release@, full_pspec(v).pre);
    let kx = k4(pM(x.1), pm(x.1), pp(x.1), x.1.pre_release@);
    assert forall|w: VKey| #![trigger within(b, w)] within(b, w) <==> op_admits(op, key(v), w) by {
        lemma_same_key_same_order(kx, key(v), w);
        lemma_k_flip(kx, w); lemma_k_flip(key(v), w);
    }
}
