// ===================== spec: SemVer 2.0.0 section 11 precedence =====================
pub open spec fn flip(o: Ordering) -> Ordering {
    match o { Ordering::Less => Ordering::Greater, Ordering::Equal => Ordering::Equal, Ordering::Greater => Ordering::Less }
}
pub open spec fn int_cmp(a: int, b: int) -> Ordering {
    if a < b { Ordering::Less } else if a == b { Ordering::Equal } else { Ordering::Greater }
}
// Rust: String Ord is lexicographic by bytes == by code points (UTF-8 is order preserving); ASCII order on [0-9A-Za-z-]
pub open spec fn str_cmp(a: Seq<char>, b: Seq<char>) -> Ordering
    decreases a.len()
{
    if a.len() == 0 && b.len() == 0 { Ordering::Equal }
    else if a.len() == 0 { Ordering::Less }
    else if b.len() == 0 { Ordering::Greater }
    else if a[0] != b[0] { int_cmp(a[0] as int, b[0] as int) }
    else { str_cmp(a.drop_first(), b.drop_first()) }
}
pub open spec fn ident_cmp(a: Identifier, b: Identifier) -> Ordering {
    match (a, b) {
        (Identifier::Numeric(x), Identifier::Numeric(y)) => int_cmp(x as int, y as int),
        (Identifier::Numeric(_), Identifier::AlphaNumeric(_)) => Ordering::Less,
        (Identifier::AlphaNumeric(_), Identifier::Numeric(_)) => Ordering::Greater,
        (Identifier::AlphaNumeric(x), Identifier::AlphaNumeric(y)) => str_cmp(x@, y@),
    }
}
pub open spec fn pre_cmp(a: Seq<Identifier>, b: Seq<Identifier>) -> Ordering
    decreases a.len()
{
    if a.len() == 0 && b.len() == 0 { Ordering::Equal }
    else if a.len() == 0 { Ordering::Less }
    else if b.len() == 0 { Ordering::Greater }
    else if ident_cmp(a[0], b[0]) != Ordering::Equal { ident_cmp(a[0], b[0]) }
    else { pre_cmp(a.drop_first(), b.drop_first()) }
}
pub struct VKey { pub major: int, pub minor: int, pub patch: int, pub pre: Seq<Identifier> }
pub open spec fn key(v: Version) -> VKey { VKey { major: v.major as int, minor: v.minor as int, patch: v.patch as int, pre: v.pre_release@ } }
pub open spec fn kcmp(a: VKey, b: VKey) -> Ordering {
    if a.major != b.major { int_cmp(a.major, b.major) }
    else if a.minor != b.minor { int_cmp(a.minor, b.minor) }
    else if a.patch != b.patch { int_cmp(a.patch, b.patch) }
    else if a.pre.len() == 0 && b.pre.len() == 0 { Ordering::Equal }
    else if a.pre.len() == 0 { Ordering::Greater }
    else if b.pre.len() == 0 { Ordering::Less }
    else { pre_cmp(a.pre, b.pre) }
}
pub open spec fn ver_cmp(a: Version, b: Version) -> Ordering { kcmp(key(a), key(b)) }
pub open spec fn klt(a: VKey, b: VKey) -> bool { kcmp(a, b) == Ordering::Less }
pub open spec fn kle(a: VKey, b: VKey) -> bool { kcmp(a, b) != Ordering::Greater }
pub open spec fn keq(a: VKey, b: VKey) -> bool { kcmp(a, b) == Ordering::Equal }
// ---- lemmas: total order ----
pub proof fn lemma_str_refl(a: Seq<char>) ensures str_cmp(a, a) == Ordering::Equal decreases a.len()
{ if a.len() > 0 { lemma_str_refl(a.drop_first()); } }
pub proof fn lemma_str_flip(a: Seq<char>, b: Seq<char>) ensures str_cmp(a, b) == flip(str_cmp(b, a)) decreases a.len()
{ if a.len() > 0 && b.len() > 0 { lemma_str_flip(a.drop_first(), b.drop_first()); } }
pub proof fn lemma_str_eq(a: Seq<char>, b: Seq<char>) ensures (str_cmp(a, b) == Ordering::Equal) <==> a =~= b decreases a.len()
{
    if a.len() > 0 && b.len() > 0 {
        lemma_str_eq(a.drop_first(), b.drop_first());
        assert(a =~= seq![a[0]] + a.drop_first());
        assert(b =~= seq![b[0]] + b.drop_first());
    }
}
pub proof fn lemma_str_trans(a: Seq<char>, b: Seq<char>, c: Seq<char>)
    requires str_cmp(a, b) != Ordering::Greater, str_cmp(b, c) != Ordering::Greater
    ensures str_cmp(a, c) != Ordering::Greater,
            (str_cmp(a, b) == Ordering::Less || str_cmp(b, c) == Ordering::Less) ==> str_cmp(a, c) == Ordering::Less
    decreases a.len()
{
    if a.len() > 0 && b.len() > 0 && c.len() > 0 && a[0] == b[0] && b[0] == c[0] {
        lemma_str_trans(a.drop_first(), b.drop_first(), c.drop_first());
    }
}
pub proof fn lemma_ident_flip(a: Identifier, b: Identifier) ensures ident_cmp(a, b) == flip(ident_cmp(b, a))
{ match (a, b) { (Identifier::AlphaNumeric(x), Identifier::AlphaNumeric(y)) => lemma_str_flip(x@, y@), _ => {} } }
pub proof fn lemma_ident_refl(a: Identifier) ensures ident_cmp(a, a) == Ordering::Equal
{ match a { Identifier::AlphaNumeric(x) => lemma_str_refl(x@), _ => {} } }
pub proof fn lemma_ident_trans(a: Identifier, b: Identifier, c: Identifier)
    requires ident_cmp(a, b) != Ordering::Greater, ident_cmp(b, c) != Ordering::Greater
    ensures ident_cmp(a, c) != Ordering::Greater,
            (ident_cmp(a, b) == Ordering::Less || ident_cmp(b, c) == Ordering::Less) ==> ident_cmp(a, c) == Ordering::Less
{
    match (a, b, c) {
        (Identifier::AlphaNumeric(x), Identifier::AlphaNumeric(y), Identifier::AlphaNumeric(z)) => lemma_str_trans(x@, y@, z@),
        _ => {}
    }
}
pub proof fn lemma_pre_refl(a: Seq<Identifier>) ensures pre_cmp(a, a) == Ordering::Equal decreases a.len()
{ if a.len() > 0 { lemma_ident_refl(a[0]); lemma_pre_refl(a.drop_first()); } }
pub proof fn lemma_pre_flip(a: Seq<Identifier>, b: Seq<Identifier>) ensures pre_cmp(a, b) == flip(pre_cmp(b, a)) decreases a.len()
{ if a.len() > 0 && b.len() > 0 { lemma_ident_flip(a[0], b[0]); lemma_pre_flip(a.drop_first(), b.drop_first()); } }
pub proof fn lemma_pre_trans(a: Seq<Identifier>, b: Seq<Identifier>, c: Seq<Identifier>)
    requires pre_cmp(a, b) != Ordering::Greater, pre_cmp(b, c) != Ordering::Greater
    ensures pre_cmp(a, c) != Ordering::Greater,
            (pre_cmp(a, b) == Ordering::Less || pre_cmp(b, c) == Ordering::Less) ==> pre_cmp(a, c) == Ordering::Less
    decreases a.len()
{
    if a.len() > 0 && b.len() > 0 && c.len() > 0 {
        lemma_ident_trans(a[0], b[0], c[0]);
        lemma_ident_flip(a[0], b[0]); lemma_ident_flip(b[0], c[0]); lemma_ident_flip(a[0], c[0]);
        if ident_cmp(a[0], b[0]) == Ordering::Equal && ident_cmp(b[0], c[0]) == Ordering::Equal {
            lemma_pre_trans(a.drop_first(), b.drop_first(), c.drop_first());
        } else {
            if ident_cmp(a[0], b[0]) == Ordering::Equal { lemma_ident_trans(b[0], a[0], c[0]); }
            if ident_cmp(b[0], c[0]) == Ordering::Equal { lemma_ident_trans(a[0], c[0], b[0]); }
        }
    }
}

pub broadcast proof fn lemma_k_refl(a: VKey) ensures #[trigger] kcmp(a, a) == Ordering::Equal
{ lemma_pre_refl(a.pre); }
pub broadcast proof fn lemma_k_flip(a: VKey, b: VKey) ensures #[trigger] kcmp(a, b) == flip(kcmp(b, a))
{ lemma_pre_flip(a.pre, b.pre); }
pub broadcast proof fn lemma_k_trans(a: VKey, b: VKey, c: VKey)
    requires #[trigger] kcmp(a, b) != Ordering::Greater, #[trigger] kcmp(b, c) != Ordering::Greater
    ensures kcmp(a, c) != Ordering::Greater,
            (kcmp(a, b) == Ordering::Less || kcmp(b, c) == Ordering::Less) ==> kcmp(a, c) == Ordering::Less
{
    if a.pre.len() > 0 && b.pre.len() > 0 && c.pre.len() > 0 {
        if a.major == b.major && b.major == c.major && a.minor == b.minor && b.minor == c.minor && a.patch == b.patch && b.patch == c.patch {
            lemma_pre_trans(a.pre, b.pre, c.pre);
        }
    }
}
pub broadcast group group_k_order { lemma_k_refl, lemma_k_flip, lemma_k_trans }
// ===================== spec: bounds as cuts in the version order =====================
