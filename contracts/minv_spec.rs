// ===================== proof side: successors in the version order (for min_version) =====================
pub proof fn lemma_least_pre0(s: Seq<Identifier>)
    requires s.len() > 0
    ensures pre_cmp(pre0(), s) != Ordering::Greater
{
    reveal_with_fuel(pre_cmp, 3);
    assert(pre0().drop_first().len() == 0);
}
/// appending `.0` gives the immediate successor of a prerelease tag
pub proof fn lemma_push0(p: Seq<Identifier>, q: Seq<Identifier>)
    requires pre_cmp(p, q) == Ordering::Less
    ensures pre_cmp(p.push(Identifier::Numeric(0)), q) != Ordering::Greater
    decreases p.len()
{
    let p0 = p.push(Identifier::Numeric(0));
    if p.len() == 0 {
        assert(p0 =~= pre0());
        lemma_least_pre0(q);
    } else {
        assert(p0[0] == p[0]);
        assert(p0.drop_first() =~= p.drop_first().push(Identifier::Numeric(0)));
        if q.len() > 0 && ident_cmp(p[0], q[0]) == Ordering::Equal {
            lemma_push0(p.drop_first(), q.drop_first());
        }
    }
}
pub proof fn lemma_push0_greater(p: Seq<Identifier>)
    ensures pre_cmp(p, p.push(Identifier::Numeric(0))) == Ordering::Less
    decreases p.len()
{
    let p0 = p.push(Identifier::Numeric(0));
    if p.len() > 0 {
        assert(p0[0] == p[0]);
        assert(p0.drop_first() =~= p.drop_first().push(Identifier::Numeric(0)));
        lemma_ident_refl(p[0]);
        lemma_push0_greater(p.drop_first());
    }
}
pub open spec fn wfk0(v: VKey) -> bool { 0 <= v.major && 0 <= v.minor && 0 <= v.patch }
/// successor of a prerelease key
pub proof fn lemma_succ_pre(a: VKey, w: VKey)
    requires a.pre.len() > 0, kcmp(a, w) == Ordering::Less
    ensures kcmp(VKey { pre: a.pre.push(Identifier::Numeric(0)), ..a }, w) != Ordering::Greater,
            kcmp(a, VKey { pre: a.pre.push(Identifier::Numeric(0)), ..a }) == Ordering::Less
{
    lemma_push0_greater(a.pre);
    if a.major == w.major && a.minor == w.minor && a.patch == w.patch && w.pre.len() > 0 { lemma_push0(a.pre, w.pre); }
}
/// successor of a release key is the `-0` prerelease of the next patch
pub proof fn lemma_succ_release(a: VKey, w: VKey)
    requires a.pre.len() == 0, kcmp(a, w) == Ordering::Less
    ensures kcmp(VKey { major: a.major, minor: a.minor, patch: a.patch + 1, pre: pre0() }, w) != Ordering::Greater
{
    if w.major == a.major && w.minor == a.minor && w.patch == a.patch + 1 && w.pre.len() > 0 { lemma_least_pre0(w.pre); }
}
pub proof fn lemma_least_key(w: VKey)
    requires wfk0(w)
    ensures kcmp(VKey { major: 0, minor: 0, patch: 0, pre: pre0() }, w) != Ordering::Greater
{
    if w.major == 0 && w.minor == 0 && w.patch == 0 && w.pre.len() > 0 { lemma_least_pre0(w.pre); }
}

pub proof fn lemma_below_down(u: Cut, a: VKey, k: VKey)
    requires kcmp(a, k) != Ordering::Greater, below(u, k)
    ensures below(u, a)
{ broadcast use group_k_order; }
pub proof fn lemma_above_up(l: Cut, a: VKey, k: VKey)
    requires kcmp(a, k) != Ordering::Greater, above(l, a)
    ensures above(l, k)
{ broadcast use group_k_order; }
/// postcondition of min_version on one interval
pub open spec fn minv_post(bs: BoundSet, r: Option<Version>) -> bool {
    match r {
        Some(m) => sat(bs, key(m)) && forall|k: VKey| #![trigger sat(bs, k)] wfk0(k) && sat(bs, k) ==> kcmp(key(m), k) != Ordering::Greater,
        None => forall|k: VKey| #![trigger sat(bs, k)] wfk0(k) ==> !sat(bs, k),
    }
}
pub open spec fn lower_excl(b: Bound) -> bool { b matches Bound::Lower(Predicate::Excluding(_)) }
/// C11: the result satisfies the range and nothing lower does; `None` only when nothing satisfies it
pub open spec fn rminv_post(a: Range, r: Option<Version>) -> bool {
    match r {
        Some(m) => rsat(a, key(m)) && forall|k: VKey| #![trigger rsat(a, k)] wfk0(k) && rsat(a, k) ==> kcmp(key(m), k) != Ordering::Greater,
        None => forall|k: VKey| #![trigger rsat(a, k)] wfk0(k) ==> !rsat(a, k),
    }
}
