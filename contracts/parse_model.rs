// ===================== text shell: the little that is needed to state contracts on its two pure closures =====================
#[verifier::external_type_specification]
#[verifier::external_body]
pub struct ExParseIntError(std::num::ParseIntError);
#[verifier::external_trait_specification]
pub trait ExFromStr: Sized {
    type ExternalTraitSpecificationFor: core::str::FromStr;
    type Err;
    fn from_str(s: &str) -> Result<Self, Self::Err>;
}
// nothing is assumed about what `str::parse` returns (only that it returns)
pub assume_specification<F: std::str::FromStr>[ str::parse::<F> ](s: &str) -> (r: Result<F, <F as std::str::FromStr>::Err>);
