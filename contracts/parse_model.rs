// ===================== text shell: the little that is needed to state contracts on its two pure closures =====================
#[verifier::external_type_specification]
#[verifier::external_body]
pub struct ExParseIntError(std::num::ParseIntError);
#[verifier::external_trait_specification]
pub trait ExFromStr: Sized {
    type ExternalTraitSpecificationFor: core::str::FromStr;
    type Err;
    fn from_str(s: &str) -> Result<Self, Self::Err>;
}
// A13: `parse_spec` is only a NAME for what std's `str::parse::<F>` answers on a text (which texts are numbers is not modelled)
pub uninterp spec fn parse_spec<F>(s: Seq<char>) -> Option<F>;
pub assume_specification<F: std::str::FromStr>[ str::parse::<F> ](s: &str) -> (r: Result<F, <F as std::str::FromStr>::Err>)
    ensures (r matches Ok(v) ==> parse_spec::<F>(s@) == Some(v)), (r is Err ==> parse_spec::<F>(s@) is None);
// A14: Result::unwrap_or_else (std docs)
pub assume_specification<T, E, F: FnOnce(E) -> T>[ Result::<T, E>::unwrap_or_else ](r: Result<T, E>, f: F) -> (o: T)
    requires r matches Err(e) ==> call_requires(f, (e,)),
    ensures r matches Ok(v) ==> o == v, r matches Err(e) ==> call_ensures(f, (e,), o);
// std: Option<Option<T>>::flatten (used by partial_version)
pub assume_specification<T>[ Option::<Option<T>>::flatten ](o: Option<Option<T>>) -> (r: Option<T>)
    ensures r == (match o { Some(x) => x, None => None::<T> });
