// ===================== A16: core::fmt, as far as `write!(f, "..{}..", args)` with plain `{}` placeholders is concerned =====================
// `fmt_out(f)` is the text written to the formatter so far.  write!(f, "p0{}p1{}p2", a, b) appends p0 + disp(a) + p1 + disp(b) + p2 when it
// returns Ok (an Err comes only from the underlying writer; nothing is said about the output then).  `disp` is what `{}` prints for a type:
// decimal digits for u64 (dec_text: std's integer formatting), the characters of a str / String, and for the crate's own types the text
// their lifted `display_fmt` is PROVED to write (modular: `{}` on a value of type T calls T's Display::fmt).
pub uninterp spec fn fmt_out<'a>(f: std::fmt::Formatter<'a>) -> Seq<char>;
// the underlying writer has failed: the only way a `write!` returns Err -- and the only excuse for a Display impl to return Err
pub uninterp spec fn fmt_failed<'a>(f: std::fmt::Formatter<'a>) -> bool;
pub trait DispSpec { spec fn disp(&self) -> Seq<char>; }
pub uninterp spec fn dec_text(n: nat) -> Seq<char>;
// std prints a u64 as its decimal digits (at least one), and reading them back gives the number
pub broadcast axiom fn ax_dec_text(n: nat)
    ensures (#[trigger] dec_text(n)).len() > 0, all_digits(dec_text(n)), dec_val(dec_text(n)) == n;
impl DispSpec for u64 { open spec fn disp(&self) -> Seq<char> { dec_text(*self as nat) } }
impl DispSpec for String { open spec fn disp(&self) -> Seq<char> { self@ } }
impl<T: DispSpec> DispSpec for &T { open spec fn disp(&self) -> Seq<char> { (**self).disp() } }
impl DispSpec for Identifier {
    open spec fn disp(&self) -> Seq<char> { match self { Identifier::Numeric(n) => dec_text(*n as nat), Identifier::AlphaNumeric(s) => s@ } }
}
pub open spec fn diff_name(d: VersionDiff) -> Seq<char> {
    match d {
        VersionDiff::Major => "major"@, VersionDiff::Minor => "minor"@, VersionDiff::Patch => "patch"@, VersionDiff::PreMajor => "premajor"@,
        VersionDiff::PreMinor => "preminor"@, VersionDiff::PrePatch => "prepatch"@, VersionDiff::PreRelease => "prerelease"@,
    }
}
impl DispSpec for VersionDiff { open spec fn disp(&self) -> Seq<char> { diff_name(*self) } }
// the first k identifiers of a list as printed: `lead` before the first one, a dot before each of the others
pub open spec fn ids_text(ids: Seq<Identifier>, k: int, lead: char) -> Seq<char>
    decreases k
{
    if k <= 0 { Seq::<char>::empty() } else { ids_text(ids, k - 1, lead) + ch1(if k == 1 { lead } else { '.' }) + ids[k - 1].disp() }
}
pub open spec fn ver_text(v: Version) -> Seq<char> {
    dec_text(v.major as nat) + ch1('.') + dec_text(v.minor as nat) + ch1('.') + dec_text(v.patch as nat)
        + ids_text(v.pre_release@, v.pre_release@.len() as int, '-') + ids_text(v.build@, v.build@.len() as int, '+')
}
impl DispSpec for Version { open spec fn disp(&self) -> Seq<char> { ver_text(*self) } }

#[verifier::external_body]
pub fn verif_write0(f: &mut std::fmt::Formatter<'_>, p0: &str) -> (r: std::fmt::Result)
    ensures r is Ok ==> fmt_out(*final(f)) == fmt_out(*old(f)) + p0@,
        r is Err ==> fmt_failed(*final(f)), r is Ok ==> fmt_failed(*final(f)) == fmt_failed(*old(f)),
{ unimplemented!() }
#[verifier::external_body]
pub fn verif_write1<A: DispSpec>(f: &mut std::fmt::Formatter<'_>, p0: &str, a: A, p1: &str) -> (r: std::fmt::Result)
    ensures r is Ok ==> fmt_out(*final(f)) == fmt_out(*old(f)) + p0@ + a.disp() + p1@,
        r is Err ==> fmt_failed(*final(f)), r is Ok ==> fmt_failed(*final(f)) == fmt_failed(*old(f)),
{ unimplemented!() }
#[verifier::external_body]
pub fn verif_write2<A: DispSpec, B: DispSpec>(f: &mut std::fmt::Formatter<'_>, p0: &str, a: A, p1: &str, b: B, p2: &str) -> (r: std::fmt::Result)
    ensures r is Ok ==> fmt_out(*final(f)) == fmt_out(*old(f)) + p0@ + a.disp() + p1@ + b.disp() + p2@,
        r is Err ==> fmt_failed(*final(f)), r is Ok ==> fmt_failed(*final(f)) == fmt_failed(*old(f)),
{ unimplemented!() }
#[verifier::external_body]
pub fn verif_write3<A: DispSpec, B: DispSpec, C: DispSpec>(f: &mut std::fmt::Formatter<'_>, p0: &str, a: A, p1: &str, b: B, p2: &str, c: C, p3: &str) -> (r: std::fmt::Result)
    ensures r is Ok ==> fmt_out(*final(f)) == fmt_out(*old(f)) + p0@ + a.disp() + p1@ + b.disp() + p2@ + c.disp() + p3@,
        r is Err ==> fmt_failed(*final(f)), r is Ok ==> fmt_failed(*final(f)) == fmt_failed(*old(f)),
{ unimplemented!() }
// std: a Vec never holds more than isize::MAX elements
pub broadcast axiom fn ax_vec_len_fits<T>(v: Vec<T>)
    ensures #[trigger] v@.len() <= usize::MAX;

// ---- what Display for BoundSet / Range writes (the printed form of an interval, by shape; alternatives joined by `||`)
pub open spec fn pair_text(a: Seq<char>, v: Version, b: Seq<char>, w: Version) -> Seq<char> { a + ver_text(v) + b + ver_text(w) }
pub open spec fn bs_text(bs: BoundSet) -> Seq<char> {
    match (*bs.lower, *bs.upper) {
        (Bound::Lower(Predicate::Unbounded), Bound::Upper(Predicate::Unbounded)) => "*"@,
        (Bound::Lower(Predicate::Unbounded), Bound::Upper(Predicate::Including(v))) => "<="@ + ver_text(v),
        (Bound::Lower(Predicate::Unbounded), Bound::Upper(Predicate::Excluding(v))) => "<"@ + ver_text(v),
        (Bound::Lower(Predicate::Including(v)), Bound::Upper(Predicate::Unbounded)) => ">="@ + ver_text(v),
        (Bound::Lower(Predicate::Excluding(v)), Bound::Upper(Predicate::Unbounded)) => ">"@ + ver_text(v),
        (Bound::Lower(Predicate::Including(v)), Bound::Upper(Predicate::Including(w))) => if ver_cmp(v, w) == Ordering::Equal { ver_text(v) } else { pair_text(">="@, v, " <="@, w) },
        (Bound::Lower(Predicate::Including(v)), Bound::Upper(Predicate::Excluding(w))) => pair_text(">="@, v, " <"@, w),
        (Bound::Lower(Predicate::Excluding(v)), Bound::Upper(Predicate::Including(w))) => pair_text(">"@, v, " <="@, w),
        (Bound::Lower(Predicate::Excluding(v)), Bound::Upper(Predicate::Excluding(w))) => pair_text(">"@, v, " <"@, w),
        _ => Seq::<char>::empty(),
    }
}
impl DispSpec for BoundSet { open spec fn disp(&self) -> Seq<char> { bs_text(*self) } }
pub open spec fn alts_text(s: Seq<BoundSet>, k: int) -> Seq<char>
    decreases k
{
    if k <= 0 { Seq::<char>::empty() } else { alts_text(s, k - 1) + (if k == 1 { Seq::<char>::empty() } else { "||"@ }) + bs_text(s[k - 1]) }
}
impl DispSpec for Range { open spec fn disp(&self) -> Seq<char> { alts_text(self.0@, self.0@.len() as int) } }

pub open spec fn op_text(o: Operation) -> Seq<char> {
    match o { Operation::Exact => ""@, Operation::GreaterThan => ">"@, Operation::GreaterThanEquals => ">="@, Operation::LessThan => "<"@, Operation::LessThanEquals => "<="@ }
}
impl DispSpec for Operation { open spec fn disp(&self) -> Seq<char> { op_text(*self) } }
