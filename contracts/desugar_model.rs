impl FromSpecImpl<Partial> for Version { open spec fn obeys_from_spec() -> bool { false } open spec fn from_spec(v: Partial) -> Self { arbitrary() } }
