pub enum Cut { NegInf, At(VKey, bool), PosInf }   // At(v, after): false = just before v, true = just after v

pub open spec fn cut_of(b: Bound) -> Cut {
    match b {
        Bound::Lower(Predicate::Unbounded) => Cut::NegInf,
        Bound::Upper(Predicate::Unbounded) => Cut::PosInf,
        Bound::Lower(Predicate::Including(v)) => Cut::At(key(v), false),
        Bound::Lower(Predicate::Excluding(v)) => Cut::At(key(v), true),
        Bound::Upper(Predicate::Including(v)) => Cut::At(key(v), true),
        Bound::Upper(Predicate::Excluding(v)) => Cut::At(key(v), false),
    }
}
#[verifier::opaque]
pub open spec fn cut_cmp(a: Cut, b: Cut) -> Ordering {
    match (a, b) {
        (Cut::NegInf, Cut::NegInf) => Ordering::Equal,
        (Cut::PosInf, Cut::PosInf) => Ordering::Equal,
        (Cut::NegInf, _) => Ordering::Less,
        (_, Cut::PosInf) => Ordering::Less,
        (Cut::PosInf, _) => Ordering::Greater,
        (_, Cut::NegInf) => Ordering::Greater,
        (Cut::At(v, s), Cut::At(w, t)) =>
            if kcmp(v, w) != Ordering::Equal { kcmp(v, w) }
            else if s == t { Ordering::Equal } else if !s { Ordering::Less } else { Ordering::Greater },
    }
}
pub open spec fn is_lower(b: Bound) -> bool { b is Lower }
pub open spec fn is_upper(b: Bound) -> bool { b is Upper }

/// canonical total order on bounds: by cut; at equal cuts an Upper sorts before a Lower
pub open spec fn bound_cmp(a: Bound, b: Bound) -> Ordering {
    let c = cut_cmp(cut_of(a), cut_of(b));
    if c != Ordering::Equal { c }
    else if is_lower(a) == is_lower(b) { Ordering::Equal }
    else if is_upper(a) { Ordering::Less } else { Ordering::Greater }
}
/// v lies above the cut / below the cut
pub open spec fn above(c: Cut, v: VKey) -> bool {
    match c { Cut::NegInf => true, Cut::PosInf => false, Cut::At(w, after) => if after { klt(w, v) } else { kle(w, v) } }
}
pub open spec fn below(c: Cut, v: VKey) -> bool {
    match c { Cut::PosInf => true, Cut::NegInf => false, Cut::At(w, after) => if after { kle(v, w) } else { klt(v, w) } }
}
pub open spec fn bs_wf(bs: BoundSet) -> bool {
    is_lower(*bs.lower) && is_upper(*bs.upper) && cut_cmp(cut_of(*bs.lower), cut_of(*bs.upper)) == Ordering::Less
}
pub open spec fn within(bs: BoundSet, v: VKey) -> bool {
    above(cut_of(*bs.lower), v) && below(cut_of(*bs.upper), v)
}
pub open spec fn same_tuple(a: VKey, b: VKey) -> bool { a.major == b.major && a.minor == b.minor && a.patch == b.patch }
pub open spec fn bound_version(b: Bound) -> Option<Version> {
    match b {
        Bound::Lower(Predicate::Including(v)) | Bound::Lower(Predicate::Excluding(v))
        | Bound::Upper(Predicate::Including(v)) | Bound::Upper(Predicate::Excluding(v)) => Some(v),
        _ => None,
    }
}
// ---- representation invariant, numeric part (DESIGN.md section 3): every version stored in a bound has components <= MAX_SAFE_INTEGER + 1
// (`+ 1` comes from `minor + 1` etc. in the desugaring); it keeps `patch += 1` in min_version far from u64::MAX
pub open spec fn ver_small(v: Version) -> bool { v.major <= MAX_SAFE_INTEGER + 1 && v.minor <= MAX_SAFE_INTEGER + 1 && v.patch <= MAX_SAFE_INTEGER + 1 }
pub open spec fn bound_small(b: Bound) -> bool { bound_version(b) matches Some(w) ==> ver_small(w) }
pub open spec fn bs_small(bs: BoundSet) -> bool { bound_small(*bs.lower) && bound_small(*bs.upper) }
pub open spec fn ssmall(s: Seq<BoundSet>) -> bool { forall|i: int| 0 <= i < s.len() ==> bs_small(#[trigger] s[i]) }
pub open spec fn optin(b: Bound, v: VKey) -> bool {
    bound_version(b) matches Some(w) && w.pre_release@.len() > 0 && same_tuple(key(w), v)
}
/// npm: a prerelease only satisfies a comparator set if some comparator carries a prerelease on the same tuple
pub open spec fn gate(bs: BoundSet, v: VKey) -> bool {
    v.pre.len() == 0 || optin(*bs.lower, v) || optin(*bs.upper, v)
}
pub open spec fn sat(bs: BoundSet, v: VKey) -> bool { within(bs, v) && gate(bs, v) }


// derived PartialEq on Predicate / Bound / BoundSet: structural, with Version::eq at the leaves (trusted derive semantics)
pub open spec fn pred_eq(a: Predicate, b: Predicate) -> bool {
    match (a, b) {
        (Predicate::Excluding(v), Predicate::Excluding(w)) => keq(key(v), key(w)),
        (Predicate::Including(v), Predicate::Including(w)) => keq(key(v), key(w)),
        (Predicate::Unbounded, Predicate::Unbounded) => true,
        _ => false,
    }
}
pub open spec fn bound_eq(a: Bound, b: Bound) -> bool {
    match (a, b) {
        (Bound::Lower(p), Bound::Lower(q)) => pred_eq(p, q),
        (Bound::Upper(p), Bound::Upper(q)) => pred_eq(p, q),
        _ => false,
    }
}

// ---- lemmas about cuts ----
pub proof fn lemma_cut_mono_above(c: Cut, d: Cut, v: VKey)
    requires cut_cmp(c, d) != Ordering::Greater, above(d, v)
    ensures above(c, v)
{ reveal(cut_cmp); broadcast use group_k_order; }
pub proof fn lemma_cut_mono_below(c: Cut, d: Cut, v: VKey)
    requires cut_cmp(c, d) != Ordering::Greater, below(c, v)
    ensures below(d, v)
{ reveal(cut_cmp); broadcast use group_k_order; }
pub proof fn lemma_cut_between(c: Cut, d: Cut, v: VKey)
    requires above(c, v), below(d, v)
    ensures cut_cmp(c, d) == Ordering::Less
{ reveal(cut_cmp); broadcast use group_k_order; }
/// v is either below or above any cut, never both
pub proof fn lemma_cut_side(c: Cut, v: VKey)
    ensures above(c, v) != below(c, v)
{ broadcast use group_k_order; }
pub proof fn lemma_cut_refl(c: Cut) ensures cut_cmp(c, c) == Ordering::Equal
{ reveal(cut_cmp); broadcast use group_k_order; }
pub proof fn lemma_cut_total(c: Cut, d: Cut)
    ensures cut_cmp(c, d) == flip(cut_cmp(d, c))
{ reveal(cut_cmp); broadcast use group_k_order; }
pub proof fn lemma_cut_trans(c: Cut, d: Cut, e: Cut)
    ensures (cut_cmp(c, d) != Ordering::Greater && cut_cmp(d, e) != Ordering::Greater) ==> cut_cmp(c, e) != Ordering::Greater,
        (cut_cmp(c, d) != Ordering::Greater && cut_cmp(d, e) != Ordering::Greater && (cut_cmp(c, d) == Ordering::Less || cut_cmp(d, e) == Ordering::Less)) ==> cut_cmp(c, e) == Ordering::Less,
        (cut_cmp(c, d) == Ordering::Equal && cut_cmp(d, e) == Ordering::Equal) ==> cut_cmp(c, e) == Ordering::Equal,
{ reveal(cut_cmp); broadcast use group_k_order; }
pub proof fn lemma_cut_eq_congr(c: Cut, d: Cut, e: Cut)
    requires cut_cmp(c, d) == Ordering::Equal
    ensures cut_cmp(c, e) == cut_cmp(d, e), cut_cmp(e, c) == cut_cmp(e, d)
{ reveal(cut_cmp); broadcast use group_k_order; }
pub proof fn lemma_cut_inf(c: Cut)
    ensures cut_cmp(c, Cut::NegInf) != Ordering::Less, cut_cmp(Cut::PosInf, c) != Ordering::Less,
            (c != Cut::NegInf) ==> cut_cmp(Cut::NegInf, c) == Ordering::Less, (c != Cut::PosInf) ==> cut_cmp(c, Cut::PosInf) == Ordering::Less
{ reveal(cut_cmp); }
/// all order facts among four cuts
pub proof fn lemma_cut4(a: Cut, b: Cut, c: Cut, d: Cut)
    ensures
        cut_cmp(a, a) == Ordering::Equal, cut_cmp(b, b) == Ordering::Equal, cut_cmp(c, c) == Ordering::Equal, cut_cmp(d, d) == Ordering::Equal,
        cut_cmp(a, b) == flip(cut_cmp(b, a)), cut_cmp(a, c) == flip(cut_cmp(c, a)), cut_cmp(a, d) == flip(cut_cmp(d, a)),
        cut_cmp(b, c) == flip(cut_cmp(c, b)), cut_cmp(b, d) == flip(cut_cmp(d, b)), cut_cmp(c, d) == flip(cut_cmp(d, c)),
        forall|x: Cut, y: Cut, z: Cut| #![trigger cut_cmp(x, y), cut_cmp(y, z)]
            (x == a || x == b || x == c || x == d) && (y == a || y == b || y == c || y == d) && (z == a || z == b || z == c || z == d) ==> {
                &&& (cut_cmp(x, y) != Ordering::Greater && cut_cmp(y, z) != Ordering::Greater) ==> cut_cmp(x, z) != Ordering::Greater
                &&& (cut_cmp(x, y) != Ordering::Greater && cut_cmp(y, z) != Ordering::Greater && (cut_cmp(x, y) == Ordering::Less || cut_cmp(y, z) == Ordering::Less)) ==> cut_cmp(x, z) == Ordering::Less
            },
{
    lemma_cut_refl(a); lemma_cut_refl(b); lemma_cut_refl(c); lemma_cut_refl(d);
    lemma_cut_total(a, b); lemma_cut_total(a, c); lemma_cut_total(a, d); lemma_cut_total(b, c); lemma_cut_total(b, d); lemma_cut_total(c, d);
    assert forall|x: Cut, y: Cut, z: Cut| #![trigger cut_cmp(x, y), cut_cmp(y, z)]
            (x == a || x == b || x == c || x == d) && (y == a || y == b || y == c || y == d) && (z == a || z == b || z == c || z == d) implies {
                &&& (cut_cmp(x, y) != Ordering::Greater && cut_cmp(y, z) != Ordering::Greater) ==> cut_cmp(x, z) != Ordering::Greater
                &&& (cut_cmp(x, y) != Ordering::Greater && cut_cmp(y, z) != Ordering::Greater && (cut_cmp(x, y) == Ordering::Less || cut_cmp(y, z) == Ordering::Less)) ==> cut_cmp(x, z) == Ordering::Less
            } by { lemma_cut_trans(x, y, z); }
}
/// derived equality of bounds implies equal cuts and same kind
pub proof fn lemma_bound_eq_cut(a: Bound, b: Bound)
    ensures bound_eq(a, b) <==> (cut_cmp(cut_of(a), cut_of(b)) == Ordering::Equal && is_lower(a) == is_lower(b))
{ reveal(cut_cmp); broadcast use group_k_order; }
pub open spec fn boverlap(a: BoundSet, b: BoundSet) -> bool {
    cut_cmp(cut_of(*a.lower), cut_of(*b.upper)) == Ordering::Less && cut_cmp(cut_of(*b.lower), cut_of(*a.upper)) == Ordering::Less
}
pub open spec fn ballows_all(a: BoundSet, b: BoundSet) -> bool {
    cut_cmp(cut_of(*a.lower), cut_of(*b.lower)) != Ordering::Greater && cut_cmp(cut_of(*b.upper), cut_of(*a.upper)) != Ordering::Greater
}
pub proof fn lemma_boverlap_none(a: BoundSet, b: BoundSet, v: VKey)
    requires !boverlap(a, b)
    ensures !(within(a, v) && within(b, v))
{
    if within(a, v) && within(b, v) {
        lemma_cut_between(cut_of(*a.lower), cut_of(*b.upper), v);
        lemma_cut_between(cut_of(*b.lower), cut_of(*a.upper), v);
    }
}
pub proof fn lemma_ballows_all(a: BoundSet, b: BoundSet, v: VKey)
    requires ballows_all(a, b), within(b, v)
    ensures within(a, v)
{
    lemma_cut_mono_above(cut_of(*a.lower), cut_of(*b.lower), v);
    lemma_cut_mono_below(cut_of(*b.upper), cut_of(*a.upper), v);
}
impl PartialEqSpecImpl for Predicate {
    open spec fn obeys_eq_spec() -> bool { true }
    open spec fn eq_spec(&self, other: &Self) -> bool { pred_eq(*self, *other) }
}
impl PartialEqSpecImpl for Bound {
    open spec fn obeys_eq_spec() -> bool { true }
    open spec fn eq_spec(&self, other: &Self) -> bool { bound_eq(*self, *other) }
}
impl PartialEqSpecImpl for BoundSet {
    open spec fn obeys_eq_spec() -> bool { true }
    open spec fn eq_spec(&self, other: &Self) -> bool { bound_eq(*self.upper, *other.upper) && bound_eq(*self.lower, *other.lower) }
}
impl PartialOrdSpecImpl for Bound {
    open spec fn obeys_partial_cmp_spec() -> bool { true }
    open spec fn partial_cmp_spec(&self, other: &Self) -> Option<Ordering> { Some(bound_cmp(*self, *other)) }
}
impl OrdSpecImpl for Bound {
    open spec fn obeys_cmp_spec() -> bool { true }
    open spec fn cmp_spec(&self, other: &Self) -> Ordering { bound_cmp(*self, *other) }
}
