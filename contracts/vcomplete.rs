// ===================== "Every string of that canonical shape is accepted", with the denoted fields =====================
// canon(M, m, p, pre, build) is the text `M.m.p[-pre1.pre2…][+b1.b2…]`; the lemmas read it back with the reference grammar.
pub open spec fn wf_num(t: Seq<char>) -> bool { t.len() > 0 && all_digits(t) && dec_val(t) <= MAX_SAFE_INTEGER }
pub open spec fn wf_id(t: Seq<char>) -> bool { t.len() > 0 && all_id_chars(t) }
pub open spec fn wf_ids(parts: Seq<Seq<char>>) -> bool { forall|k: int| 0 <= k < parts.len() ==> wf_id(#[trigger] parts[k]) }
pub open spec fn dotted(parts: Seq<Seq<char>>) -> Seq<char>
    decreases parts.len()
{
    if parts.len() == 0 { Seq::<char>::empty() } else { ch1('.') + parts[0] + dotted(parts.drop_first()) }
}
pub open spec fn join_dots(parts: Seq<Seq<char>>) -> Seq<char> {
    if parts.len() == 0 { Seq::<char>::empty() } else { parts[0] + dotted(parts.drop_first()) }
}
pub open spec fn classify_all(parts: Seq<Seq<char>>) -> Seq<ISpec> { Seq::new(parts.len(), |k: int| classify(parts[k])) }
pub open spec fn pre_text(pre: Seq<Seq<char>>) -> Seq<char> { if pre.len() > 0 { ch1('-') + join_dots(pre) } else { Seq::<char>::empty() } }
pub open spec fn build_text(build: Seq<Seq<char>>) -> Seq<char> { if build.len() > 0 { ch1('+') + join_dots(build) } else { Seq::<char>::empty() } }
pub open spec fn canon(ma: Seq<char>, mi: Seq<char>, pa: Seq<char>, pre: Seq<Seq<char>>, build: Seq<Seq<char>>) -> Seq<char> {
    ma + (ch1('.') + (mi + (ch1('.') + (pa + (pre_text(pre) + build_text(build))))))
}
// what may follow a number / an identifier list without being read into it
pub open spec fn stops_digits(tail: Seq<char>) -> bool { tail.len() == 0 || !dg_char(tail[0]) }
pub open spec fn stops_ident(tail: Seq<char>) -> bool { tail.len() == 0 || !id_char(tail[0]) }
pub open spec fn stops_idents(tail: Seq<char>) -> bool { tail.len() == 0 || (!id_char(tail[0]) && tail[0] != '.') }

pub proof fn lemma_read_number(t: Seq<char>, tail: Seq<char>)
    requires wf_num(t), stops_digits(tail),
    ensures g_number(t + tail) == Some((dec_val(t), tail)),
{
    let s = t + tail;
    assert forall|k: int| 0 <= k < t.len() implies dg_char(#[trigger] s[k]) by { assert(s[k] == t[k]); }
    if t.len() < s.len() { assert(s[t.len() as int] == tail[0]); }
    lemma_span_unique(s, |c: char| dg_char(c), t.len() as int);
    assert(s.take(t.len() as int) =~= t);
    assert(s.skip(t.len() as int) =~= tail);
}
pub proof fn lemma_read_char(c: char, tail: Seq<char>)
    ensures eat(ch1(c) + tail, c) == Some(tail),
{
    assert((ch1(c) + tail).skip(1) =~= tail);
    assert((ch1(c) + tail)[0] == c);
}
pub proof fn lemma_no_char(s: Seq<char>, c: char)
    requires s.len() == 0 || s[0] != c,
    ensures eat(s, c) is None,
{
}
pub proof fn lemma_read_ident(t: Seq<char>, tail: Seq<char>)
    requires wf_id(t), stops_ident(tail),
    ensures g_ident(t + tail) == Some((classify(t), tail)),
{
    let s = t + tail;
    assert forall|k: int| 0 <= k < t.len() implies id_char(#[trigger] s[k]) by { assert(s[k] == t[k]); }
    if t.len() < s.len() { assert(s[t.len() as int] == tail[0]); }
    lemma_span_unique(s, |c: char| id_char(c), t.len() as int);
    assert(s.take(t.len() as int) =~= t);
    assert(s.skip(t.len() as int) =~= tail);
}
pub proof fn lemma_no_ident(s: Seq<char>)
    requires stops_ident(s),
    ensures g_ident(s) is None,
{
}
pub proof fn lemma_read_more(parts: Seq<Seq<char>>, tail: Seq<char>)
    requires wf_ids(parts), stops_idents(tail),
    ensures g_idents_more(dotted(parts) + tail) == (classify_all(parts), tail),
    decreases parts.len(),
{
    if parts.len() == 0 {
        assert(dotted(parts) + tail =~= tail);
        assert(classify_all(parts) =~= Seq::<ISpec>::empty());
        if tail.len() > 0 { lemma_no_char(tail, '.'); }
    } else {
        let rest = parts.drop_first();
        let after = dotted(rest) + tail;
        let s = dotted(parts) + tail;
        assert(s =~= ch1('.') + (parts[0] + after));
        lemma_read_char('.', parts[0] + after);
        // what follows parts[0] is either a dot (more parts) or the tail
        assert(stops_ident(after)) by {
            if rest.len() > 0 { assert(after[0] == '.'); } else { assert(after =~= tail); }
        }
        assert(wf_id(parts[0]));
        lemma_read_ident(parts[0], after);
        assert(wf_ids(rest)) by { assert forall|k: int| 0 <= k < rest.len() implies wf_id(#[trigger] rest[k]) by { assert(rest[k] == parts[k + 1]); } }
        lemma_read_more(rest, tail);
        assert(after.len() < s.len());
        assert(classify_all(parts) =~= seq![classify(parts[0])] + classify_all(rest)) by {
            assert forall|k: int| 0 <= k < parts.len() implies classify_all(parts)[k] == (seq![classify(parts[0])] + classify_all(rest))[k] by {
                if k > 0 { assert(rest[k - 1] == parts[k]); }
            }
        }
    }
}
pub proof fn lemma_read_idents(parts: Seq<Seq<char>>, tail: Seq<char>)
    requires parts.len() >= 1, wf_ids(parts), stops_idents(tail),
    ensures g_idents(join_dots(parts) + tail) == Some((classify_all(parts), tail)),
{
    let rest = parts.drop_first();
    let after = dotted(rest) + tail;
    let s = join_dots(parts) + tail;
    assert(s =~= parts[0] + after);
    assert(stops_ident(after)) by {
        if rest.len() > 0 { assert(after[0] == '.'); } else { assert(after =~= tail); }
    }
    assert(wf_id(parts[0]));
    lemma_read_ident(parts[0], after);
    assert(wf_ids(rest)) by { assert forall|k: int| 0 <= k < rest.len() implies wf_id(#[trigger] rest[k]) by { assert(rest[k] == parts[k + 1]); } }
    lemma_read_more(rest, tail);
    assert(after.len() < s.len());
    assert(classify_all(parts) =~= seq![classify(parts[0])] + classify_all(rest)) by {
        assert forall|k: int| 0 <= k < parts.len() implies classify_all(parts)[k] == (seq![classify(parts[0])] + classify_all(rest))[k] by {
            if k > 0 { assert(rest[k - 1] == parts[k]); }
        }
    }
}
pub proof fn lemma_read_extras(pre: Seq<Seq<char>>, build: Seq<Seq<char>>)
    requires wf_ids(pre), wf_ids(build),
    ensures g_extras(pre_text(pre) + build_text(build)) == ((classify_all(pre), classify_all(build)), Seq::<char>::empty()),
{
    let e = Seq::<char>::empty();
    let bt = build_text(build);
    let s = pre_text(pre) + bt;
    assert(classify_all(Seq::<Seq<char>>::empty()) =~= Seq::<ISpec>::empty());
    assert(stops_idents(bt)) by { if build.len() > 0 { assert(bt[0] == '+'); } }
    // reading the build part (from bt)
    if build.len() > 0 {
        assert(bt =~= ch1('+') + (join_dots(build) + e));
        lemma_read_char('+', join_dots(build) + e);
        lemma_read_idents(build, e);
        assert(g_build(bt) == Some((classify_all(build), e)));
    } else {
        assert(g_build(bt) is None);
    }
    if pre.len() > 0 {
        assert(s =~= ch1('-') + (join_dots(pre) + bt));
        lemma_read_char('-', join_dots(pre) + bt);
        lemma_read_idents(pre, bt);
        assert(g_pre(s) == Some((classify_all(pre), bt)));
    } else {
        assert(s =~= bt);
        assert(pre =~= Seq::<Seq<char>>::empty());
        // no hyphen, and what stands there is not an identifier
        if bt.len() > 0 { lemma_no_char(bt, '-'); }
        lemma_no_ident(bt);
        assert(g_pre(s) is None);
        if build.len() == 0 { assert(build =~= Seq::<Seq<char>>::empty()); }
    }
}
pub proof fn lemma_c05_canonical_accepted(ma: Seq<char>, mi: Seq<char>, pa: Seq<char>, pre: Seq<Seq<char>>, build: Seq<Seq<char>>)
    requires wf_num(ma), wf_num(mi), wf_num(pa), wf_ids(pre), wf_ids(build),
    ensures
        ref_parse(canon(ma, mi, pa, pre, build)) == Some(VSpec { major: dec_val(ma), minor: dec_val(mi), patch: dec_val(pa), pre: classify_all(pre), build: classify_all(build) }),
{
    let ex = pre_text(pre) + build_text(build);
    let s = canon(ma, mi, pa, pre, build);
    let t1 = ch1('.') + (mi + (ch1('.') + (pa + ex)));
    let t2 = mi + (ch1('.') + (pa + ex));
    let t3 = ch1('.') + (pa + ex);
    let t4 = pa + ex;
    // no prefix, no blanks: the text starts with a digit
    assert(s[0] == ma[0]);
    assert(dg_char(ma[0]));
    assert(skip_v(s) == s);
    lemma_span_unique(s, |c: char| ws_char(c), 0);
    assert(skip_ws(s) =~= s);
    assert(stops_digits(t1)) by { assert(t1[0] == '.'); }
    lemma_read_number(ma, t1);
    lemma_read_char('.', t2);
    assert(stops_digits(t3)) by { assert(t3[0] == '.'); }
    lemma_read_number(mi, t3);
    lemma_read_char('.', t4);
    assert(stops_digits(ex)) by {
        if pre.len() > 0 { assert(ex[0] == '-'); } else if build.len() > 0 { assert(ex =~= build_text(build)); assert(ex[0] == '+'); } else { assert(ex =~= Seq::<char>::empty()); }
    }
    lemma_read_number(pa, ex);
    assert(g_core(s) == Some(((dec_val(ma), dec_val(mi), dec_val(pa)), ex)));
    lemma_read_extras(pre, build);
}
