// property level lemmas
