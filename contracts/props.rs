// ===================== property level lemmas: the statements of properties.jsonl over the contracts =====================
// Each lemma takes the *postcondition relations* (rinter_post, rdiff_post, conj_post, ...) as hypotheses, so it holds for any
// implementation meeting the contracts; the exec functions are proved against those relations in m_bound / m_range / m_conj.

/// membership in an optional result (None = the empty set)
pub open spec fn rin(r: Option<Range>, v: VKey) -> bool { r matches Some(x) && rwithin(x, v) }
pub open spec fn rsat_in(r: Option<Range>, v: VKey) -> bool { r matches Some(x) && rsat(x, v) }

// ---------------------------------------------------------------- C04
pub proof fn lemma_c04_total_order(a: Version, b: Version, c: Version)
    ensures
        ver_cmp(a, a) == Ordering::Equal,                                   // reflexive
        ver_cmp(a, b) == flip(ver_cmp(b, a)),                               // antisymmetric + total (three-valued)
        (ver_cmp(a, b) != Ordering::Greater && ver_cmp(b, c) != Ordering::Greater) ==> ver_cmp(a, c) != Ordering::Greater,   // transitive
        (ver_cmp(a, b) != Ordering::Greater && ver_cmp(b, c) != Ordering::Greater && (ver_cmp(a, b) == Ordering::Less || ver_cmp(b, c) == Ordering::Less)) ==> ver_cmp(a, c) == Ordering::Less,
        (ver_cmp(a, b) == Ordering::Equal && ver_cmp(b, c) == Ordering::Equal) ==> ver_cmp(a, c) == Ordering::Equal,
{
    lemma_k_refl(key(a)); lemma_k_flip(key(a), key(b)); lemma_k_flip(key(b), key(c)); lemma_k_flip(key(a), key(c));
    if ver_cmp(a, b) != Ordering::Greater && ver_cmp(b, c) != Ordering::Greater { lemma_k_trans(key(a), key(b), key(c)); }
    if ver_cmp(a, b) == Ordering::Equal && ver_cmp(b, c) == Ordering::Equal { lemma_k_trans(key(c), key(b), key(a)); }
}
/// `==` (the spec `Version::eq` is proved against) holds exactly when the comparison is Equal, and then the hash feed agrees
pub proof fn lemma_c04_eq_iff_equal(a: Version, b: Version)
    ensures PartialEqSpec::eq_spec(&a, &b) <==> ver_cmp(a, b) == Ordering::Equal,
            PartialEqSpec::eq_spec(&a, &b) ==> hash_feed(key(a)) == hash_feed(key(b)),
            PartialOrdSpec::partial_cmp_spec(&a, &b) == Some(OrdSpec::cmp_spec(&a, &b)),
{ if ver_cmp(a, b) == Ordering::Equal { lemma_eq_same_feed(a, b); } }
/// build metadata: two versions that differ only in `build` are Equal, hash alike, and compare identically to everything
pub proof fn lemma_c04_build_irrelevant(a: Version, b: Version, c: Version)
    requires a.major == b.major, a.minor == b.minor, a.patch == b.patch, a.pre_release@ == b.pre_release@,
    ensures ver_cmp(a, b) == Ordering::Equal, ver_cmp(a, c) == ver_cmp(b, c), ver_cmp(c, a) == ver_cmp(c, b), hash_feed(key(a)) == hash_feed(key(b)),
{ lemma_k_refl(key(a)); assert(key(a) == key(b)); }
/// the spec functions say what SemVer 2.0.0 section 11 says (sanity of the specification itself)
pub proof fn lemma_c04_spec_examples(x: u64, y: u64, s: String, t: String, p: Seq<Identifier>, i: Identifier, a: VKey)
    ensures
        ident_cmp(Identifier::Numeric(x), Identifier::AlphaNumeric(s)) == Ordering::Less,                 // numeric < alphanumeric
        ident_cmp(Identifier::Numeric(x), Identifier::Numeric(y)) == int_cmp(x as int, y as int),          // numerics by value
        ident_cmp(Identifier::AlphaNumeric(s), Identifier::AlphaNumeric(t)) == str_cmp(s@, t@),            // alphanumerics lexically
        pre_cmp(p, p.push(i)) == Ordering::Less,                                                           // a strict prefix is lower
        a.pre.len() > 0 ==> kcmp(a, VKey { pre: Seq::empty(), ..a }) == Ordering::Less,                    // a release is above its prereleases
{ lemma_prefix_lower(p, i); }
pub proof fn lemma_prefix_lower(p: Seq<Identifier>, i: Identifier)
    ensures pre_cmp(p, p.push(i)) == Ordering::Less
    decreases p.len()
{
    let q = p.push(i);
    if p.len() > 0 {
        assert(q[0] == p[0]);
        assert(q.drop_first() =~= p.drop_first().push(i));
        lemma_ident_refl(p[0]);
        lemma_prefix_lower(p.drop_first(), i);
    }
}

// ---------------------------------------------------------------- C16
pub proof fn lemma_c16_build_irrelevant(a: Version, a2: Version, b: Version)
    requires a.major == a2.major, a.minor == a2.minor, a.patch == a2.patch, a.pre_release@ == a2.pre_release@,
    ensures diff_spec(key(a), key(b)) == diff_spec(key(a2), key(b)), diff_spec(key(b), key(a)) == diff_spec(key(b), key(a2)),
{ assert(key(a) == key(a2)); }

// ---------------------------------------------------------------- C03
pub proof fn lemma_c03_release_unaffected(bs: BoundSet, v: VKey)
    requires v.pre.len() == 0
    ensures sat(bs, v) == within(bs, v)
{}
/// build metadata on the version never changes the answer (every spec is a function of `key`, which has no build field),
/// and build metadata on a bound does not either: two intervals whose bounds have the same keys admit the same versions
pub proof fn lemma_c03_build_irrelevant(bs: BoundSet, bs2: BoundSet, a: Version, b: Version)
    requires key(a) == key(b), cut_of(*bs.lower) == cut_of(*bs2.lower), cut_of(*bs.upper) == cut_of(*bs2.upper),
    ensures sat(bs, key(a)) == sat(bs, key(b)), sat(bs, key(a)) == sat(bs2, key(a)),
{
    let v = key(a);
    assert(optin(*bs.lower, v) == optin(*bs2.lower, v)) by { lemma_optin_by_cut(*bs.lower, *bs2.lower, v); }
    assert(optin(*bs.upper, v) == optin(*bs2.upper, v)) by { lemma_optin_by_cut(*bs.upper, *bs2.upper, v); }
}
pub proof fn lemma_optin_by_cut(a: Bound, b: Bound, v: VKey)
    requires cut_of(a) == cut_of(b)
    ensures optin(a, v) == optin(b, v)
{}
/// a prerelease satisfies an interval only through a bound that carries a prerelease tag on the same major.minor.patch,
/// and (repr) that is exactly npm's rule over the comparators as written
pub proof fn lemma_c03_gate_needs_same_tuple(bs: BoundSet, cs: Seq<KCmp>, v: VKey)
    requires v.pre.len() > 0, sat(bs, v)
    ensures optin(*bs.lower, v) || optin(*bs.upper, v),
            repr(bs, cs) && wfk(v) ==> exists|i: int| 0 <= i < cs.len() && (#[trigger] cs[i]).k.pre.len() > 0 && same_tuple(cs[i].k, v),
{
    if repr(bs, cs) && wfk(v) { lemma_repr_sat(bs, cs, v); }
}
/// "when such a comparator exists, satisfaction is decided by the bounds alone" -- at the level of the comparators as written
pub proof fn lemma_c03_tagged_then_bounds_decide(bs: BoundSet, cs: Seq<KCmp>, v: VKey)
    requires repr(bs, cs), wfk(v), v.pre.len() > 0, tagged(cs, v)
    ensures sat(bs, v) == within(bs, v)
{
    assert(set_gate(cs, v));
}
/// "... inside one alternative whose bounds it meets": a prerelease that satisfies a range does so through one alternative that
/// contains it and carries a tag on its tuple
pub proof fn lemma_c03_one_alternative(r: Range, v: VKey)
    requires rsat(r, v), v.pre.len() > 0
    ensures exists|i: int| 0 <= i < r.0@.len() && within(#[trigger] r.0@[i], v) && (optin(*r.0@[i].lower, v) || optin(*r.0@[i].upper, v))
{
    let i = choose|i: int| 0 <= i < r.0@.len() && i < r.0@.len() && sat(#[trigger] r.0@[i], v);
    assert(within(r.0@[i], v) && (optin(*r.0@[i].lower, v) || optin(*r.0@[i].upper, v)));
}

// ---------------------------------------------------------------- C07
pub proof fn lemma_rin_inter(a: Range, b: Range, r: Option<Range>, v: VKey)
    requires rinter_post(a, b, r)
    ensures rin(r, v) <==> (rwithin(a, v) && rwithin(b, v))
{}
pub proof fn lemma_rin_diff(a: Range, b: Range, r: Option<Range>, v: VKey)
    requires rdiff_post(a, b, r)
    ensures rin(r, v) <==> (rwithin(a, v) && !rwithin(b, v))
{}
pub proof fn lemma_roverlap_sym(a: Range, b: Range)
    ensures roverlap(a, b) == roverlap(b, a)
{
    if roverlap(a, b) {
        let (i, j) = choose|i: int, j: int| 0 <= i < a.0@.len() && 0 <= j < b.0@.len() && boverlap(#[trigger] a.0@[i], #[trigger] b.0@[j]);
        assert(boverlap(b.0@[j], a.0@[i]));
    }
    if roverlap(b, a) {
        let (i, j) = choose|i: int, j: int| 0 <= i < b.0@.len() && 0 <= j < a.0@.len() && boverlap(#[trigger] b.0@[i], #[trigger] a.0@[j]);
        assert(boverlap(a.0@[j], b.0@[i]));
    }
}
pub proof fn lemma_c07_commutes(a: Range, b: Range, r1: Option<Range>, r2: Option<Range>, v: VKey)
    requires rinter_post(a, b, r1), rinter_post(b, a, r2)
    ensures (r1 is Some) == (r2 is Some), rin(r1, v) == rin(r2, v), rsat_in(r1, v) == rsat_in(r2, v),
{
    lemma_roverlap_sym(a, b);
    lemma_pairs_sym(a.0@, b.0@, v);
    lemma_any_pair_sat_all(a.0@, b.0@, v); lemma_any_pair_sat_all(b.0@, a.0@, v);
}
pub proof fn lemma_c07_idempotent(a: Range, r: Option<Range>, v: VKey)
    requires rwf(a), a.0@.len() > 0, rinter_post(a, a, r)
    ensures r is Some, rin(r, v) == rwithin(a, v), rsat_in(r, v) == rsat(a, v),
{
    let x = a.0@[0];
    assert(bs_wf(x));
    assert(boverlap(x, x));
    assert(roverlap(a, a));
    lemma_any_pair_sat_all(a.0@, a.0@, v);
    // sat: a pair (i, j) with v within both and a gate open on one side; take (i, i) resp. the side whose gate is open
    if rsat(a, v) { let i = choose|i: int| 0 <= i < a.0@.len() && i < a.0@.len() && sat(#[trigger] a.0@[i], v); assert(pair_sat(a.0@[i], a.0@[i], v)); }
    if rsat_in(r, v) {
        let (i, j) = choose|i: int, j: int| 0 <= i < a.0@.len() && 0 <= j < a.0@.len() && pair_sat(#[trigger] a.0@[i], #[trigger] a.0@[j], v);
        if gate(a.0@[i], v) { assert(sat(a.0@[i], v)); } else { assert(sat(a.0@[j], v)); }
    }
}
/// for release versions the result is satisfied exactly when both operands are
pub proof fn lemma_c07_release_sat(a: Range, b: Range, r: Option<Range>, v: VKey)
    requires rinter_post(a, b, r), v.pre.len() == 0
    ensures rsat_in(r, v) <==> (rsat(a, v) && rsat(b, v))
{
    lemma_rsat_release(a, v); lemma_rsat_release(b, v);
    if r is Some { lemma_rsat_release(r->0, v); }
}
/// a prerelease satisfying both also satisfies the result; one satisfying the result lies within both and satisfies at least one
pub proof fn lemma_c07_prerelease(a: Range, b: Range, r: Option<Range>, v: VKey)
    requires rinter_post(a, b, r)
    ensures (rsat(a, v) && rsat(b, v)) ==> rsat_in(r, v),
            rsat_in(r, v) ==> rwithin(a, v) && rwithin(b, v) && (rsat(a, v) || rsat(b, v)),
{
    lemma_any_pair_sat_all(a.0@, b.0@, v);
    if rsat(a, v) && rsat(b, v) {
        let i = choose|i: int| 0 <= i < a.0@.len() && i < a.0@.len() && sat(#[trigger] a.0@[i], v);
        let j = choose|j: int| 0 <= j < b.0@.len() && j < b.0@.len() && sat(#[trigger] b.0@[j], v);
        assert(pair_sat(a.0@[i], b.0@[j], v));
        assert(boverlap(a.0@[i], b.0@[j])) by { if !boverlap(a.0@[i], b.0@[j]) { lemma_boverlap_none(a.0@[i], b.0@[j], v); } }
    }
    if rsat_in(r, v) {
        let (i, j) = choose|i: int, j: int| 0 <= i < a.0@.len() && 0 <= j < b.0@.len() && pair_sat(#[trigger] a.0@[i], #[trigger] b.0@[j], v);
        assert(within(a.0@[i], v) && within(b.0@[j], v));
        if gate(a.0@[i], v) { assert(sat(a.0@[i], v)); } else { assert(sat(b.0@[j], v)); }
    }
}
pub proof fn lemma_rsat_release(a: Range, v: VKey)
    requires v.pre.len() == 0
    ensures rsat(a, v) == rwithin(a, v)
{
    if rsat(a, v) { let i = choose|i: int| 0 <= i < a.0@.len() && i < a.0@.len() && sat(#[trigger] a.0@[i], v); assert(within(a.0@[i], v)); }
    if rwithin(a, v) { let i = choose|i: int| 0 <= i < a.0@.len() && i < a.0@.len() && within(#[trigger] a.0@[i], v); assert(sat(a.0@[i], v)); }
}
pub proof fn lemma_pairs_sym(s: Seq<BoundSet>, t: Seq<BoundSet>, v: VKey)
    ensures all_pairs_sat(s, t, v) == all_pairs_sat(t, s, v)
{
    if all_pairs_sat(s, t, v) {
        let (i, j) = choose|i: int, j: int| 0 <= i < s.len() && 0 <= j < t.len() && pair_sat(#[trigger] s[i], #[trigger] t[j], v);
        assert(pair_sat(t[j], s[i], v));
    }
    if all_pairs_sat(t, s, v) {
        let (i, j) = choose|i: int, j: int| 0 <= i < t.len() && 0 <= j < s.len() && pair_sat(#[trigger] t[i], #[trigger] s[j], v);
        assert(pair_sat(s[j], t[i], v));
    }
}

// ---------------------------------------------------------------- C08
pub proof fn lemma_c08_partition(a: Range, b: Range, i: Option<Range>, d: Option<Range>, v: VKey)
    requires rinter_post(a, b, i), rdiff_post(a, b, d)
    ensures rwithin(a, v) <==> (rin(i, v) || rin(d, v)), !(rin(i, v) && rin(d, v)),
{}
pub proof fn lemma_c08_release_sat(a: Range, b: Range, d: Option<Range>, v: VKey)
    requires rdiff_post(a, b, d), v.pre.len() == 0
    ensures rsat_in(d, v) <==> (rsat(a, v) && !rsat(b, v))
{
    lemma_rsat_release(a, v); lemma_rsat_release(b, v);
    if d is Some { lemma_rsat_release(d->0, v); }
}
pub proof fn lemma_c08_disjoint_from_b(a: Range, b: Range, d: Option<Range>, v: VKey)
    requires rdiff_post(a, b, d)
    ensures !(rin(d, v) && rwithin(b, v)), d is None ==> (rwithin(a, v) ==> rwithin(b, v)),
{}

// ---------------------------------------------------------------- C09
pub proof fn lemma_c09_symmetric(a: Range, b: Range, r: Option<Range>)
    requires rinter_post(a, b, r)
    ensures roverlap(a, b) == roverlap(b, a), roverlap(a, b) == (r is Some),      // allows_any == intersect.is_some() == the reverse
{ lemma_roverlap_sym(a, b); }
/// whenever it is false no version lies within (hence none satisfies) both
pub proof fn lemma_c09_disjoint(a: Range, b: Range, v: VKey)
    requires !roverlap(a, b)
    ensures !(rwithin(a, v) && rwithin(b, v)), !(rsat(a, v) && rsat(b, v)),
{
    lemma_rsat_within(a, v); lemma_rsat_within(b, v);
    if rwithin(a, v) && rwithin(b, v) {
        let i = choose|i: int| 0 <= i < a.0@.len() && i < a.0@.len() && within(#[trigger] a.0@[i], v);
        let j = choose|j: int| 0 <= j < b.0@.len() && j < b.0@.len() && within(#[trigger] b.0@[j], v);
        if !boverlap(a.0@[i], b.0@[j]) { lemma_boverlap_none(a.0@[i], b.0@[j], v); }
    }
}
pub proof fn lemma_c09_common_version(a: Range, b: Range, v: VKey)
    requires rsat(a, v) && rsat(b, v) || rwithin(a, v) && rwithin(b, v)
    ensures roverlap(a, b)
{ if !roverlap(a, b) { lemma_c09_disjoint(a, b, v); } }
pub proof fn lemma_rsat_within(a: Range, v: VKey)
    ensures rsat(a, v) ==> rwithin(a, v)
{ if rsat(a, v) { let i = choose|i: int| 0 <= i < a.0@.len() && i < a.0@.len() && sat(#[trigger] a.0@[i], v); assert(within(a.0@[i], v)); } }
/// ranges that merely touch at an excluded endpoint do not overlap; ranges sharing an included endpoint do
pub proof fn lemma_c09_touching(lt: BoundSet, le: BoundSet, gt: BoundSet, ge: BoundSet, v: Version)
    requires
        *lt.lower == Bound::Lower(Predicate::Unbounded), *lt.upper == Bound::Upper(Predicate::Excluding(v)),
        *le.lower == Bound::Lower(Predicate::Unbounded), *le.upper == Bound::Upper(Predicate::Including(v)),
        *gt.lower == Bound::Lower(Predicate::Excluding(v)), *gt.upper == Bound::Upper(Predicate::Unbounded),
        *ge.lower == Bound::Lower(Predicate::Including(v)), *ge.upper == Bound::Upper(Predicate::Unbounded),
    ensures !boverlap(lt, gt), !boverlap(lt, ge), !boverlap(le, gt), boverlap(le, ge),
            !boverlap(gt, lt), !boverlap(ge, lt), !boverlap(gt, le), boverlap(ge, le),
{ reveal(cut_cmp); lemma_k_refl(key(v)); }

// ---------------------------------------------------------------- C10
pub proof fn lemma_c10_contained(a: Range, b: Range, v: VKey)
    requires rallows_all(a, b), b.0@.len() == 1, rwithin(b, v)
    ensures rwithin(a, v)
{
    let (i, j) = choose|i: int, j: int| 0 <= i < a.0@.len() && 0 <= j < b.0@.len() && ballows_all(#[trigger] a.0@[i], #[trigger] b.0@[j]);
    let k = choose|k: int| 0 <= k < b.0@.len() && k < b.0@.len() && within(#[trigger] b.0@[k], v);
    assert(j == 0 && k == 0);
    lemma_ballows_all(a.0@[i], b.0@[0], v);
}
pub proof fn lemma_c10_implies_any(a: Range, b: Range)
    requires rallows_all(a, b), rwf(a), rwf(b)
    ensures roverlap(a, b)
{
    let (i, j) = choose|i: int, j: int| 0 <= i < a.0@.len() && 0 <= j < b.0@.len() && ballows_all(#[trigger] a.0@[i], #[trigger] b.0@[j]);
    let x = a.0@[i]; let y = b.0@[j];
    lemma_cut4(cut_of(*x.lower), cut_of(*x.upper), cut_of(*y.lower), cut_of(*y.upper));
    assert(boverlap(x, y));
}
pub proof fn lemma_c10_reflexive(a: Range)
    requires rwf(a), a.0@.len() > 0
    ensures rallows_all(a, a)
{
    let x = a.0@[0];
    lemma_cut_refl(cut_of(*x.lower)); lemma_cut_refl(cut_of(*x.upper));
    assert(ballows_all(x, x));
}
/// single alternatives on both sides: allows_all(A, B) is true exactly when B.difference(A) is None
pub proof fn lemma_c10_difference_none(a: Range, b: Range, d: Option<Range>)
    requires rwf(a), rwf(b), a.0@.len() == 1, b.0@.len() == 1, rdiff_post(b, a, d)
    ensures rallows_all(a, b) <==> d is None
{
    let x = a.0@[0]; let y = b.0@[0];
    lemma_cut4(cut_of(*x.lower), cut_of(*x.upper), cut_of(*y.lower), cut_of(*y.upper));
    if rallows_all(a, b) {
        let (i, j) = choose|i: int, j: int| 0 <= i < a.0@.len() && 0 <= j < b.0@.len() && ballows_all(#[trigger] a.0@[i], #[trigger] b.0@[j]);
        assert(i == 0 && j == 0);
    }
    if bdiff_none(y, x) { assert(ballows_all(a.0@[0], b.0@[0])); }
}

// ---------------------------------------------------------------- C14
/// the answer depends on the list only as a set, up to precedence-equal elements
pub proof fn lemma_c14_order_independent(r: Range, s1: Seq<Version>, s2: Seq<Version>, m1: Version, m2: Version)
    requires
        forall|i: int| 0 <= i < s1.len() ==> exists|j: int| 0 <= j < s2.len() && #[trigger] s1[i] == #[trigger] s2[j],
        forall|j: int| 0 <= j < s2.len() ==> exists|i: int| 0 <= i < s1.len() && #[trigger] s2[j] == #[trigger] s1[i],
        rsat(r, key(m1)), exists|k: int| 0 <= k < s1.len() && m1 == #[trigger] s1[k],
        rsat(r, key(m2)), exists|k: int| 0 <= k < s2.len() && m2 == #[trigger] s2[k],
        forall|j: int| 0 <= j < s1.len() && rsat(r, key(#[trigger] s1[j])) ==> ver_cmp(s1[j], m1) != Ordering::Greater,
        forall|j: int| 0 <= j < s2.len() && rsat(r, key(#[trigger] s2[j])) ==> ver_cmp(s2[j], m2) != Ordering::Greater,
    ensures ver_cmp(m1, m2) == Ordering::Equal
{
    let k1 = choose|k: int| 0 <= k < s1.len() && m1 == #[trigger] s1[k];
    let k2 = choose|k: int| 0 <= k < s2.len() && m2 == #[trigger] s2[k];
    let j2 = choose|j: int| 0 <= j < s2.len() && s1[k1] == #[trigger] s2[j];
    let j1 = choose|i: int| 0 <= i < s1.len() && s2[k2] == #[trigger] s1[i];
    assert(ver_cmp(s2[j2], m2) != Ordering::Greater);
    assert(ver_cmp(s1[j1], m1) != Ordering::Greater);
    lemma_k_flip(key(m1), key(m2));
}

// ---------------------------------------------------------------- C15 (pure logic over the two postcondition relations)
pub proof fn lemma_c15_commutative(a: Range, b: Range, ab: Option<Range>, ba: Option<Range>, v: VKey)
    requires rinter_post(a, b, ab), rinter_post(b, a, ba)
    ensures rin(ab, v) == rin(ba, v)
{}
/// (a ∩ b) ∩ c == a ∩ (b ∩ c); an empty intermediate result ends the computation with the empty set on that side
pub proof fn lemma_c15_associative(a: Range, b: Range, c: Range, ab: Option<Range>, ab_c: Option<Range>, bc: Option<Range>, a_bc: Option<Range>, v: VKey)
    requires rinter_post(a, b, ab), rinter_post(b, c, bc),
        ab matches Some(x) ==> rinter_post(x, c, ab_c), ab is None ==> ab_c is None,
        bc matches Some(y) ==> rinter_post(a, y, a_bc), bc is None ==> a_bc is None,
    ensures rin(ab_c, v) == rin(a_bc, v), rin(ab_c, v) == (rwithin(a, v) && rwithin(b, v) && rwithin(c, v)),
{
    lemma_rin_inter(a, b, ab, v); lemma_rin_inter(b, c, bc, v);
    if ab is Some { lemma_rin_inter(ab->0, c, ab_c, v); }
    if bc is Some { lemma_rin_inter(a, bc->0, a_bc, v); }
}
pub proof fn lemma_c15_idempotent(a: Range, aa: Option<Range>, v: VKey)
    requires rinter_post(a, a, aa)
    ensures rin(aa, v) == rwithin(a, v)
{}
pub proof fn lemma_c15_a_minus_a(a: Range, d: Option<Range>, v: VKey)
    requires rdiff_post(a, a, d)
    ensures !rin(d, v)
{}
/// (A minus B) intersect B is empty
pub proof fn lemma_c15_diff_disjoint(a: Range, b: Range, d: Option<Range>, db: Option<Range>, v: VKey)
    requires rdiff_post(a, b, d), d matches Some(x) ==> rinter_post(x, b, db), d is None ==> db is None,
    ensures !rin(db, v)
{}
/// A is the disjoint union of A intersect B and A minus B
pub proof fn lemma_c15_partition(a: Range, b: Range, i: Option<Range>, d: Option<Range>, v: VKey)
    requires rinter_post(a, b, i), rdiff_post(a, b, d)
    ensures rwithin(a, v) == (rin(i, v) || rin(d, v)), !(rin(i, v) && rin(d, v)),
{}
/// A minus (A minus B) equals A intersect B
pub proof fn lemma_c15_double_difference(a: Range, b: Range, d: Option<Range>, dd: Option<Range>, i: Option<Range>, v: VKey)
    requires rdiff_post(a, b, d), rinter_post(a, b, i),
        d matches Some(x) ==> rdiff_post(a, x, dd),
        d is None ==> dd == Some(a),     // nothing to remove
    ensures rin(dd, v) == rin(i, v)
{}
/// results are valid operands again (closure of the representation invariant): the quantifier "all expression trees" is
/// discharged by the contracts being inductive, with no depth bound
pub proof fn lemma_c06_rwf_closed(a: Range, b: Range, i: Option<Range>, d: Option<Range>)
    requires rinter_post(a, b, i), rdiff_post(a, b, d)
    ensures i matches Some(x) ==> rwf(x), d matches Some(x) ==> rwf(x),
            (rsmall(a) && rsmall(b)) ==> (i matches Some(x) ==> rsmall(x)) && (d matches Some(x) ==> rsmall(x)),
{}

// ---------------------------------------------------------------- C01 / C02
pub open spec fn flat(css: Seq<Seq<KCmp>>) -> Seq<KCmp> decreases css.len()
{ if css.len() == 0 { Seq::empty() } else { flat(css.drop_last()) + css.last() } }
pub proof fn lemma_flat_ok(css: Seq<Seq<KCmp>>, v: VKey)
    ensures set_ok(flat(css), v) <==> forall|i: int| 0 <= i < css.len() ==> set_ok(#[trigger] css[i], v)
    decreases css.len()
{
    if css.len() > 0 {
        let init = css.drop_last();
        lemma_flat_ok(init, v);
        lemma_set_ok_concat(flat(init), css.last(), v);
        if forall|i: int| 0 <= i < css.len() ==> set_ok(#[trigger] css[i], v) {
            assert forall|i: int| 0 <= i < init.len() implies set_ok(#[trigger] init[i], v) by { assert(init[i] == css[i]); }
            assert(set_ok(css[css.len() - 1], v));
        }
        if set_ok(flat(css), v) {
            assert forall|i: int| 0 <= i < css.len() implies set_ok(#[trigger] css[i], v) by { if i < css.len() - 1 { assert(init[i] == css[i]); } }
        }
    }
}
pub open spec fn tagged(cs: Seq<KCmp>, v: VKey) -> bool { exists|i: int| 0 <= i < cs.len() && (#[trigger] cs[i]).k.pre.len() > 0 && same_tuple(cs[i].k, v) }
pub proof fn lemma_flat_tagged(css: Seq<Seq<KCmp>>, v: VKey)
    ensures tagged(flat(css), v) <==> exists|i: int| 0 <= i < css.len() && tagged(#[trigger] css[i], v)
    decreases css.len()
{
    if css.len() > 0 {
        let init = css.drop_last(); let last = css.last(); let f = flat(init); let t = f + last;
        lemma_flat_tagged(init, v);
        if tagged(t, v) {
            let i = choose|i: int| 0 <= i < t.len() && (#[trigger] t[i]).k.pre.len() > 0 && same_tuple(t[i].k, v);
            if i < f.len() { assert(t[i] == f[i]); assert(tagged(f, v)); let k = choose|k: int| 0 <= k < init.len() && tagged(#[trigger] init[k], v); assert(init[k] == css[k]); assert(tagged(css[k], v)); }
            else { assert(t[i] == last[i - f.len()]); assert(tagged(last, v)); assert(tagged(css[css.len() - 1], v)); }
        }
        if exists|i: int| 0 <= i < css.len() && tagged(#[trigger] css[i], v) {
            let k = choose|k: int| 0 <= k < css.len() && tagged(#[trigger] css[k], v);
            if k < css.len() - 1 {
                assert(init[k] == css[k]); assert(tagged(f, v));
                let i = choose|i: int| 0 <= i < f.len() && (#[trigger] f[i]).k.pre.len() > 0 && same_tuple(f[i].k, v); assert(t[i] == f[i]);
            } else {
                let i = choose|i: int| 0 <= i < last.len() && (#[trigger] last[i]).k.pre.len() > 0 && same_tuple(last[i].k, v); assert(t[i + f.len()] == last[i]);
            }
        }
    } else { assert(flat(css) =~= Seq::<KCmp>::empty()); }
}
/// C01/C02 for one alternative: the interval `intersect_all` returns represents the whole comparator list as npm reads it
/// (garbage tokens carry no comparator); an empty result means npm admits nothing either (or there was no comparator at all)
pub proof fn lemma_c01_alternative(s: Seq<Option<BoundSet>>, css: Seq<Seq<KCmp>>, r: Seq<BoundSet>)
    requires s.len() == css.len(), conj_post(s, r),
        forall|i: int| 0 <= i < s.len() ==> ((#[trigger] s[i]) matches Some(b) ==> bs_wf(b) && repr(b, css[i])),
        forall|i: int| 0 <= i < s.len() ==> ((#[trigger] s[i]) is None ==> css[i].len() == 0),
    ensures
        r.len() == 1 ==> repr(r[0], flat(css)) && forall|v: VKey| wfk(v) ==> (sat(r[0], v) <==> #[trigger] npm_sat(flat(css), v)),
        r.len() == 0 && has_some(s, s.len() as int) ==> forall|v: VKey| wfk(v) ==> !#[trigger] set_ok(flat(css), v),
{
    let n = s.len() as int;
    assert forall|v: VKey| wfk(v) implies (all_within(s, n, v) <==> #[trigger] set_ok(flat(css), v)) by {
        lemma_flat_ok(css, v);
        if all_within(s, n, v) {
            assert forall|i: int| 0 <= i < css.len() implies set_ok(#[trigger] css[i], v) by {
                match s[i] { Some(b) => { assert(within(b, v)); }, None => { assert(css[i] =~= Seq::<KCmp>::empty()); } }
            }
        }
        if set_ok(flat(css), v) {
            assert forall|i: int| 0 <= i < n && i < s.len() implies ((#[trigger] s[i]) matches Some(b) ==> within(b, v)) by {
                match s[i] { Some(b) => { assert(set_ok(css[i], v)); assert(within(b, v)); }, None => {} }
            }
        }
    }
    if r.len() == 1 {
        let a = r[0];
        assert forall|v: VKey| #![trigger within(a, v)] wfk(v) implies (within(a, v) <==> set_ok(flat(css), v)) && (within(a, v) ==> (gate(a, v) <==> set_gate(flat(css), v))) by {
            assert(all_within(s, n, v) <==> set_ok(flat(css), v));
            if within(a, v) && v.pre.len() > 0 {
                lemma_flat_tagged(css, v);
                assert(set_gate(flat(css), v) == tagged(flat(css), v));
                if some_gate(s, n, v) {
                    let i = choose|i: int| 0 <= i < n && i < s.len() && ((#[trigger] s[i]) matches Some(b) && gate(b, v));
                    let b = s[i]->0;
                    assert(within(b, v));
                    assert(set_gate(css[i], v));
                    assert(tagged(css[i], v));
                }
                if tagged(flat(css), v) {
                    let k = choose|k: int| 0 <= k < css.len() && tagged(#[trigger] css[k], v);
                    match s[k] { Some(b) => { assert(within(b, v)); assert(set_gate(css[k], v)); assert(gate(b, v)); assert(some_gate(s, n, v)); }, None => { assert(css[k].len() == 0); } }
                }
            }
            if within(a, v) && v.pre.len() == 0 { assert(gate(a, v)); }
        }
        assert forall|v: VKey| wfk(v) implies (sat(r[0], v) <==> #[trigger] npm_sat(flat(css), v)) by { lemma_repr_sat(a, flat(css), v); }
    }
}
/// C01/C02 for a whole range: `||` alternatives unite
pub proof fn lemma_c01_range(r: Range, cs: Seq<Seq<KCmp>>, v: VKey)
    requires r.0@.len() == cs.len(), wfk(v), forall|k: int| 0 <= k < cs.len() ==> repr(#[trigger] r.0@[k], cs[k])
    ensures rsat(r, v) <==> exists|k: int| 0 <= k < cs.len() && npm_sat(#[trigger] cs[k], v)
{
    if rsat(r, v) { let i = choose|i: int| 0 <= i < r.0@.len() && i < r.0@.len() && sat(#[trigger] r.0@[i], v); lemma_repr_sat(r.0@[i], cs[i], v); }
    if exists|k: int| 0 <= k < cs.len() && npm_sat(#[trigger] cs[k], v) {
        let k = choose|k: int| 0 <= k < cs.len() && npm_sat(#[trigger] cs[k], v);
        lemma_repr_sat(r.0@[k], cs[k], v);
        assert(sat(r.0@[k], v));
    }
}
/// `a || b`: satisfied by exactly the versions that satisfy a or b
pub proof fn lemma_c02_union(a: Seq<BoundSet>, b: Seq<BoundSet>, v: VKey)
    ensures any_sat(a + b, (a + b).len() as int, v) == (any_sat(a, a.len() as int, v) || any_sat(b, b.len() as int, v))
{
    let t = a + b;
    if any_sat(t, t.len() as int, v) {
        let i = choose|i: int| 0 <= i < t.len() && i < t.len() && sat(#[trigger] t[i], v);
        if i < a.len() { assert(t[i] == a[i]); assert(any_sat(a, a.len() as int, v)); } else { assert(t[i] == b[i - a.len()]); assert(any_sat(b, b.len() as int, v)); }
    }
    if any_sat(a, a.len() as int, v) { let i = choose|i: int| 0 <= i < a.len() && i < a.len() && sat(#[trigger] a[i], v); assert(t[i] == a[i]); }
    if any_sat(b, b.len() as int, v) { let i = choose|i: int| 0 <= i < b.len() && i < b.len() && sat(#[trigger] b[i], v); assert(t[i + a.len()] == b[i]); }
}
/// order of comparators never matters, and `a b` is the conjunction of `a` and `b`:
/// release: satisfies both; prerelease: within the bounds of both and satisfies at least one; empty when nothing is within both
pub proof fn lemma_c02_order_irrelevant(s1: Seq<Option<BoundSet>>, s2: Seq<Option<BoundSet>>, r1: Seq<BoundSet>, r2: Seq<BoundSet>, v: VKey)
    requires conj_post(s1, r1), conj_post(s2, r2),
        forall|i: int| 0 <= i < s1.len() ==> exists|j: int| 0 <= j < s2.len() && #[trigger] s1[i] == #[trigger] s2[j],
        forall|j: int| 0 <= j < s2.len() ==> exists|i: int| 0 <= i < s1.len() && #[trigger] s2[j] == #[trigger] s1[i],
    ensures (r1.len() == 1 && sat(r1[0], v)) <==> (r2.len() == 1 && sat(r2[0], v)),
            (r1.len() == 1 && within(r1[0], v)) <==> (r2.len() == 1 && within(r2[0], v)),
{
    let n1 = s1.len() as int; let n2 = s2.len() as int;
    lemma_perm_conj(s1, s2, v); lemma_perm_conj(s2, s1, v);
    if r1.len() == 0 && has_some(s1, n1) { assert(!all_within(s1, n1, v)); }
    if r2.len() == 0 && has_some(s2, n2) { assert(!all_within(s2, n2, v)); }
    if r1.len() == 1 { assert(within(r1[0], v) <==> all_within(s1, n1, v)); assert(within(r1[0], v) ==> (gate(r1[0], v) <==> some_gate(s1, n1, v))); }
    if r2.len() == 1 { assert(within(r2[0], v) <==> all_within(s2, n2, v)); assert(within(r2[0], v) ==> (gate(r2[0], v) <==> some_gate(s2, n2, v))); }
}
pub proof fn lemma_perm_conj(s1: Seq<Option<BoundSet>>, s2: Seq<Option<BoundSet>>, v: VKey)
    requires forall|i: int| 0 <= i < s1.len() ==> exists|j: int| 0 <= j < s2.len() && #[trigger] s1[i] == #[trigger] s2[j],
    ensures all_within(s2, s2.len() as int, v) ==> all_within(s1, s1.len() as int, v),
            some_gate(s1, s1.len() as int, v) ==> some_gate(s2, s2.len() as int, v),
            has_some(s1, s1.len() as int) ==> has_some(s2, s2.len() as int),
{
    if all_within(s2, s2.len() as int, v) {
        assert forall|i: int| 0 <= i < s1.len() && i < s1.len() implies ((#[trigger] s1[i]) matches Some(b) ==> within(b, v)) by {
            let j = choose|j: int| 0 <= j < s2.len() && s1[i] == #[trigger] s2[j];
            assert(s2[j] matches Some(b) ==> within(b, v));
        }
    }
    if some_gate(s1, s1.len() as int, v) {
        let i = choose|i: int| 0 <= i < s1.len() && i < s1.len() && ((#[trigger] s1[i]) matches Some(b) && gate(b, v));
        let j = choose|j: int| 0 <= j < s2.len() && s1[i] == #[trigger] s2[j];
        assert(s2[j] matches Some(b) && gate(b, v));
    }
    if has_some(s1, s1.len() as int) {
        let i = choose|i: int| 0 <= i < s1.len() && i < s1.len() && (#[trigger] s1[i]) is Some;
        let j = choose|j: int| 0 <= j < s2.len() && s1[i] == #[trigger] s2[j];
        assert(s2[j] is Some);
    }
}
/// C01 "parsing may fail only when the text contains no valid comparator or when no version at all could satisfy it":
/// `range_set_check` fails exactly when no alternative is left, and an alternative contributes nothing only if it has no comparator
/// or nothing lies within all of its comparators
pub proof fn lemma_c01_parse_failure(alts: Seq<Seq<Option<BoundSet>>>, rs: Seq<Seq<BoundSet>>, k: int, v: VKey)
    requires alts.len() == rs.len(), 0 <= k < alts.len(),
        forall|i: int| 0 <= i < alts.len() ==> conj_post(#[trigger] alts[i], rs[i]),
        forall|i: int| 0 <= i < rs.len() ==> (#[trigger] rs[i]).len() == 0,      // the flattened list of alternatives is empty
    ensures !has_some(alts[k], alts[k].len() as int) || !all_within(alts[k], alts[k].len() as int, v)
{
    assert(conj_post(alts[k], rs[k]));
}

// ---------------------------------------------------------------- reachability (vacuity guard, positive side): the invariants have inhabitants
pub proof fn reach_bs_wf() ensures exists|bs: BoundSet| bs_wf(bs) && bs_small(bs) && (forall|v: VKey| within(bs, v))
{
    let bs = BoundSet { lower: Box::new(Bound::Lower(Predicate::Unbounded)), upper: Box::new(Bound::Upper(Predicate::Unbounded)) };
    reveal(cut_cmp);
    assert(bs_wf(bs) && bs_small(bs) && (forall|v: VKey| within(bs, v)));
}
/// two overlapping intervals with a proper intersection exist (the relations binter_post / bdiff_post are not about an empty world)
pub proof fn reach_overlap(v: Version, w: Version)
    requires ver_cmp(v, w) == Ordering::Less
    ensures exists|a: BoundSet, b: BoundSet| bs_wf(a) && bs_wf(b) && boverlap(a, b) && !ballows_all(a, b) && !ballows_all(b, a)
{
    let a = BoundSet { lower: Box::new(Bound::Lower(Predicate::Unbounded)), upper: Box::new(Bound::Upper(Predicate::Including(w))) };
    let b = BoundSet { lower: Box::new(Bound::Lower(Predicate::Including(v))), upper: Box::new(Bound::Upper(Predicate::Unbounded)) };
    reveal(cut_cmp);
    lemma_k_flip(key(v), key(w));
    assert(bs_wf(a) && bs_wf(b) && boverlap(a, b) && !ballows_all(a, b) && !ballows_all(b, a));
}

/// a desugaring closure may return `None` only for a comparator pair nothing can enter (`2.0.0 - 1.0.0`): npm's reading of it
/// admits no version either, so dropping it like a garbage token loses nothing ("parsing may fail only when ... no version at all
/// could satisfy it")
pub proof fn lemma_shape_none_is_empty(c: CSet, v: VKey)
    requires shape_ok_c(None, c), wfk(v), c is Two ==> ((c->Two_0.op is Ge || c->Two_0.op is Gt) && (c->Two_1.op is Lt || c->Two_1.op is Le)),
    ensures !set_ok(cset_seq(c), v)
{
    broadcast use group_sets, group_k_order;
    reveal(cut_cmp);
    let lo = cset_lo(c); let hi = cset_hi(c);
    if set_ok(cset_seq(c), v) {
        match c {
            CSet::Zero => {},
            CSet::One(a) => { lemma_set1(a, v); },
            CSet::Two(a, b) => { lemma_set2(a, b, v); },
        }
        assert(above(lo, v) && below(hi, v));
        lemma_cut_between(lo, hi, v);
    }
}

/// the link from the shape clauses of the desugaring functions to the representation invariant: an interval whose two cuts are those
/// of npm's comparators represents them (same bounds membership, same prerelease opt-in inside the bounds)
pub proof fn lemma_shape_c_repr(bs: BoundSet, c: CSet)
    requires shape_ok_c(Some(bs), c), c is Two ==> ((c->Two_0.op is Ge || c->Two_0.op is Gt) && (c->Two_1.op is Lt || c->Two_1.op is Le)),
    ensures repr(bs, cset_seq(c))
{
    let cs = cset_seq(c);
    match c {
        CSet::Zero => { assert(cs.len() == 0); },
        CSet::One(a) => { assert(cs.len() == 1 && cs[0] == a); },
        CSet::Two(a, b) => { assert(cs.len() == 2 && cs[0] == a && cs[1] == b); },
    }
    assert(lower_cut(cs) == cset_lo(c) && upper_cut(cs) == cset_hi(c));
    lemma_repr_from_shape(bs, cs);
}
/// ... and the same for the two forms the crate writes differently (`<=M` as `<=M.MAX.MAX`)
pub proof fn lemma_shape_equiv_repr(bs: BoundSet, c: CSet)
    requires shape_equiv_c(Some(bs), c), c is One, c->One_0.op is Lt || c->One_0.op is Le
    ensures repr(bs, cset_seq(c))
{
    broadcast use group_sets, group_k_order;
    let a = c->One_0;
    assert forall|v: VKey| #![trigger within(bs, v)] wfk(v) implies (within(bs, v) <==> set_ok(cset_seq(c), v)) && (within(bs, v) ==> (gate(bs, v) <==> set_gate(cset_seq(c), v))) by {
        lemma_set1(a, v);
        assert(above(cset_lo(c), v));
    }
}

/// C02's central sentence: for comparator lists a and b, `a b` is satisfied by a release exactly when it satisfies both, and by a
/// prerelease exactly when it lies within the bounds of both and satisfies at least one of them; it never widens
pub proof fn lemma_c02_concat(sa: Seq<Option<BoundSet>>, sb: Seq<Option<BoundSet>>, ra: Seq<BoundSet>, rb: Seq<BoundSet>, r: Seq<BoundSet>, v: VKey)
    requires conj_post(sa, ra), conj_post(sb, rb), conj_post(sa + sb, r), ra.len() == 1, rb.len() == 1
    ensures (r.len() == 1 && within(r[0], v)) <==> (within(ra[0], v) && within(rb[0], v)),
            (r.len() == 1 && sat(r[0], v)) <==> (within(ra[0], v) && within(rb[0], v) && (sat(ra[0], v) || sat(rb[0], v))),
            v.pre.len() == 0 ==> ((r.len() == 1 && sat(r[0], v)) <==> (sat(ra[0], v) && sat(rb[0], v))),
{
    let s = sa + sb; let n = s.len() as int; let na = sa.len() as int; let nb = sb.len() as int;
    // all_within / some_gate / has_some distribute over concatenation
    assert(all_within(s, n, v) <==> (all_within(sa, na, v) && all_within(sb, nb, v))) by {
        if all_within(s, n, v) {
            assert forall|i: int| 0 <= i < na && i < sa.len() implies ((#[trigger] sa[i]) matches Some(b) ==> within(b, v)) by { assert(s[i] == sa[i]); }
            assert forall|i: int| 0 <= i < nb && i < sb.len() implies ((#[trigger] sb[i]) matches Some(b) ==> within(b, v)) by { assert(s[i + na] == sb[i]); }
        }
        if all_within(sa, na, v) && all_within(sb, nb, v) {
            assert forall|i: int| 0 <= i < n && i < s.len() implies ((#[trigger] s[i]) matches Some(b) ==> within(b, v)) by { if i < na { assert(s[i] == sa[i]); } else { assert(s[i] == sb[i - na]); } }
        }
    }
    assert(some_gate(s, n, v) <==> (some_gate(sa, na, v) || some_gate(sb, nb, v))) by {
        if some_gate(s, n, v) {
            let i = choose|i: int| 0 <= i < n && i < s.len() && ((#[trigger] s[i]) matches Some(b) && gate(b, v));
            if i < na { assert(s[i] == sa[i]); assert(some_gate(sa, na, v)); } else { assert(s[i] == sb[i - na]); assert(some_gate(sb, nb, v)); }
        }
        if some_gate(sa, na, v) { let i = choose|i: int| 0 <= i < na && i < sa.len() && ((#[trigger] sa[i]) matches Some(b) && gate(b, v)); assert(s[i] == sa[i]); }
        if some_gate(sb, nb, v) { let i = choose|i: int| 0 <= i < nb && i < sb.len() && ((#[trigger] sb[i]) matches Some(b) && gate(b, v)); assert(s[i + na] == sb[i]); }
    }
    assert(has_some(s, n)) by {
        let i = choose|i: int| 0 <= i < na && i < sa.len() && (#[trigger] sa[i]) is Some; assert(s[i] == sa[i]);
    }
    assert(within(ra[0], v) <==> all_within(sa, na, v));
    assert(within(rb[0], v) <==> all_within(sb, nb, v));
    if r.len() == 1 { assert(within(r[0], v) <==> all_within(s, n, v)); }
    if r.len() == 0 { assert(!all_within(s, n, v)); }
}
/// twin of lemma_c14_order_independent for min_satisfying
pub proof fn lemma_c14_order_independent_min(r: Range, s1: Seq<Version>, s2: Seq<Version>, m1: Version, m2: Version)
    requires
        forall|i: int| 0 <= i < s1.len() ==> exists|j: int| 0 <= j < s2.len() && #[trigger] s1[i] == #[trigger] s2[j],
        forall|j: int| 0 <= j < s2.len() ==> exists|i: int| 0 <= i < s1.len() && #[trigger] s2[j] == #[trigger] s1[i],
        rsat(r, key(m1)), exists|k: int| 0 <= k < s1.len() && m1 == #[trigger] s1[k],
        rsat(r, key(m2)), exists|k: int| 0 <= k < s2.len() && m2 == #[trigger] s2[k],
        forall|j: int| 0 <= j < s1.len() && rsat(r, key(#[trigger] s1[j])) ==> ver_cmp(s1[j], m1) != Ordering::Less,
        forall|j: int| 0 <= j < s2.len() && rsat(r, key(#[trigger] s2[j])) ==> ver_cmp(s2[j], m2) != Ordering::Less,
    ensures ver_cmp(m1, m2) == Ordering::Equal
{
    let k1 = choose|k: int| 0 <= k < s1.len() && m1 == #[trigger] s1[k];
    let k2 = choose|k: int| 0 <= k < s2.len() && m2 == #[trigger] s2[k];
    let j2 = choose|j: int| 0 <= j < s2.len() && s1[k1] == #[trigger] s2[j];
    let j1 = choose|i: int| 0 <= i < s1.len() && s2[k2] == #[trigger] s1[i];
    assert(ver_cmp(s2[j2], m2) != Ordering::Less);
    assert(ver_cmp(s1[j1], m1) != Ordering::Less);
    lemma_k_flip(key(m1), key(m2));
}
/// C16, stated independently of the order of the branches in diff.js: outside the prerelease-to-release special cases the result names
/// the most significant differing field, with the `pre` prefix exactly when the higher version is a prerelease
pub proof fn lemma_c16_most_significant(a: VKey, b: VKey)
    requires kcmp(a, b) != Ordering::Equal
    ensures ({
        let hi = if kcmp(a, b) == Ordering::Greater { a } else { b };
        let lo = if kcmp(a, b) == Ordering::Greater { b } else { a };
        let special = lo.pre.len() > 0 && hi.pre.len() == 0;
        let pre = hi.pre.len() > 0;
        &&& !special && a.major != b.major ==> diff_spec(a, b) == Some(if pre { VersionDiff::PreMajor } else { VersionDiff::Major })
        &&& !special && a.major == b.major && a.minor != b.minor ==> diff_spec(a, b) == Some(if pre { VersionDiff::PreMinor } else { VersionDiff::Minor })
        &&& !special && a.major == b.major && a.minor == b.minor && a.patch != b.patch ==> diff_spec(a, b) == Some(if pre { VersionDiff::PrePatch } else { VersionDiff::Patch })
        &&& !special && same_tuple(a, b) ==> diff_spec(a, b) == Some(VersionDiff::PreRelease)
        // the documented special cases (node-semver 7.6.2 functions/diff.js) when going from a prerelease to a release
        &&& special && lo.patch == 0 && lo.minor == 0 ==> diff_spec(a, b) == Some(VersionDiff::Major)
        &&& special && !(lo.patch == 0 && lo.minor == 0) && hi.patch != 0 ==> diff_spec(a, b) == Some(VersionDiff::Patch)
        &&& special && !(lo.patch == 0 && lo.minor == 0) && hi.patch == 0 && hi.minor != 0 ==> diff_spec(a, b) == Some(VersionDiff::Minor)
        &&& special && !(lo.patch == 0 && lo.minor == 0) && hi.patch == 0 && hi.minor == 0 ==> diff_spec(a, b) == Some(VersionDiff::Major)
    })
{ broadcast use group_k_order; }
