// ===================== C02, the `||` clause, over the contract of bound_sets / range_set / Range::parse =====================
// Range::parse(text) holds exactly flat_sets(alts), the concatenation of what `range` returned for the `||` separated alternatives.  A
// version satisfies (lies within) the concatenation exactly when it satisfies (lies within) one of the alternatives: `a || b` is the union.
pub proof fn lemma_flat_sets_member(alts: Seq<Vec<BoundSet>>, j: int)
    requires 0 <= j < flat_sets(alts).len(),
    ensures exists|k: int, m: int| 0 <= k < alts.len() && 0 <= m < alts[k]@.len() && flat_sets(alts)[j] == #[trigger] alts[k]@[m],
    decreases alts.len(),
{
    let head = flat_sets(alts.drop_last());
    if j < head.len() {
        lemma_flat_sets_member(alts.drop_last(), j);
        let (k, m) = choose|k: int, m: int| 0 <= k < alts.drop_last().len() && 0 <= m < alts.drop_last()[k]@.len() && head[j] == #[trigger] alts.drop_last()[k]@[m];
        assert(alts.drop_last()[k] == alts[k]);
    } else {
        let k = alts.len() - 1;
        assert(flat_sets(alts)[j] == alts[k]@[j - head.len()]);
    }
}
pub proof fn lemma_flat_sets_contains(alts: Seq<Vec<BoundSet>>, k: int, m: int)
    requires 0 <= k < alts.len(), 0 <= m < alts[k]@.len(),
    ensures exists|j: int| 0 <= j < flat_sets(alts).len() && #[trigger] flat_sets(alts)[j] == alts[k]@[m],
    decreases alts.len(),
{
    let head = flat_sets(alts.drop_last());
    if k < alts.len() - 1 {
        lemma_flat_sets_contains(alts.drop_last(), k, m);
        assert(alts.drop_last()[k] == alts[k]);
        let j = choose|j: int| 0 <= j < head.len() && #[trigger] head[j] == alts[k]@[m];
        assert(flat_sets(alts)[j] == head[j]);
    } else {
        assert(flat_sets(alts)[head.len() + m] == alts[k]@[m]);
    }
}
pub proof fn lemma_c02_alternatives_unite(alts: Seq<Vec<BoundSet>>, v: VKey)
    ensures
        any_sat(flat_sets(alts), flat_sets(alts).len() as int, v) <==> exists|k: int| 0 <= k < alts.len() && any_sat((#[trigger] alts[k])@, alts[k]@.len() as int, v),
        any_within(flat_sets(alts), flat_sets(alts).len() as int, v) <==> exists|k: int| 0 <= k < alts.len() && any_within((#[trigger] alts[k])@, alts[k]@.len() as int, v),
{
    let f = flat_sets(alts);
    if any_sat(f, f.len() as int, v) {
        let j = choose|j: int| 0 <= j < f.len() && j < f.len() && sat(#[trigger] f[j], v);
        lemma_flat_sets_member(alts, j);
        let (k, m) = choose|k: int, m: int| 0 <= k < alts.len() && 0 <= m < alts[k]@.len() && f[j] == #[trigger] alts[k]@[m];
        assert(sat(alts[k]@[m], v));
        assert(any_sat(alts[k]@, alts[k]@.len() as int, v));
    }
    if exists|k: int| 0 <= k < alts.len() && any_sat((#[trigger] alts[k])@, alts[k]@.len() as int, v) {
        let k = choose|k: int| 0 <= k < alts.len() && any_sat((#[trigger] alts[k])@, alts[k]@.len() as int, v);
        let m = choose|m: int| 0 <= m < alts[k]@.len() && m < alts[k]@.len() && sat(#[trigger] alts[k]@[m], v);
        lemma_flat_sets_contains(alts, k, m);
        let j = choose|j: int| 0 <= j < f.len() && #[trigger] f[j] == alts[k]@[m];
        assert(sat(f[j], v));
    }
    if any_within(f, f.len() as int, v) {
        let j = choose|j: int| 0 <= j < f.len() && j < f.len() && within(#[trigger] f[j], v);
        lemma_flat_sets_member(alts, j);
        let (k, m) = choose|k: int, m: int| 0 <= k < alts.len() && 0 <= m < alts[k]@.len() && f[j] == #[trigger] alts[k]@[m];
        assert(within(alts[k]@[m], v));
        assert(any_within(alts[k]@, alts[k]@.len() as int, v));
    }
    if exists|k: int| 0 <= k < alts.len() && any_within((#[trigger] alts[k])@, alts[k]@.len() as int, v) {
        let k = choose|k: int| 0 <= k < alts.len() && any_within((#[trigger] alts[k])@, alts[k]@.len() as int, v);
        let m = choose|m: int| 0 <= m < alts[k]@.len() && m < alts[k]@.len() && within(#[trigger] alts[k]@[m], v);
        lemma_flat_sets_contains(alts, k, m);
        let j = choose|j: int| 0 <= j < f.len() && #[trigger] f[j] == alts[k]@[m];
        assert(within(f[j], v));
    }
}

// ===================== C01, per comparator: what a comparator function returns REPRESENTS npm's comparators for the AST it read ==========
// (function contract: text -> AST and <form>_post(AST, result); these lemmas: <form>_post => `repr` / "nothing satisfies it", outside the two
// known findings `<M` and `^0`.  With lemma_c01_alternative / lemma_c01_range this is the chain text -> npm semantics, comparator by comparator.)
pub open spec fn represents(r: Option<BoundSet>, c: CSet) -> bool {
    match r {
        Some(b) => bs_wf(b) && repr(b, cset_seq(c)),
        None => forall|v: VKey| wfk(v) ==> !#[trigger] set_ok(cset_seq(c), v),
    }
}
pub proof fn lemma_shape_represents(r: Option<BoundSet>, c: CSet)
    requires shape_ok_c(r, c), c is Two ==> ((c->Two_0.op is Ge || c->Two_0.op is Gt) && (c->Two_1.op is Lt || c->Two_1.op is Le)),
    ensures represents(r, c),
{
    match r {
        Some(b) => { lemma_shape_c_repr(b, c); },
        None => { assert forall|v: VKey| wfk(v) implies !#[trigger] set_ok(cset_seq(c), v) by { lemma_shape_none_is_empty(c, v); } },
    }
}
pub proof fn lemma_plain_represents(p: Partial, r: Option<BoundSet>)
    requires wf_partial(p), partial_post(p, r),
    ensures represents(r, npm_plain_c(p)),
{
    cover_plain(p);
    lemma_shape_represents(r, npm_plain_c(p));
}
pub proof fn lemma_tilde_represents(x: (Option<&str>, Partial), r: Option<BoundSet>)
    requires wf_partial(x.1), tilde_post(x, r),
    ensures represents(r, npm_tilde_c(x.1)),
{
    cover_tilde(x);
    lemma_shape_represents(r, npm_tilde_c(x.1));
}
pub proof fn lemma_caret_represents(p: Partial, r: Option<BoundSet>)
    requires wf_partial(p), caret_post(p, r),
        // outside the known finding `^0`
        !(p.major is Some && p.minor is None && pM(p) == 0),
    ensures represents(r, npm_caret_c(p)),
{
    cover_caret(p);
    lemma_shape_represents(r, npm_caret_c(p));
}
pub proof fn lemma_primitive_represents(x: (Operation, Partial), r: Option<BoundSet>)
    requires wf_partial(x.1), primitive_post(x, r),
        // outside the known finding `<M`
        !(x.0 == Operation::LessThan && x.1.major is Some && x.1.minor is None),
    ensures represents(r, npm_primitive_c(x.0, x.1)),
{
    let c = npm_primitive_c(x.0, x.1);
    match x.0 {
        Operation::Exact => { cover_primitive_Exact(x); },
        Operation::GreaterThan => { cover_primitive_GreaterThan(x); },
        Operation::GreaterThanEquals => { cover_primitive_GreaterThanEquals(x); },
        Operation::LessThan => { cover_primitive_LessThan(x); },
        Operation::LessThanEquals => { cover_primitive_LessThanEquals(x); },
    }
    if x.0 == Operation::LessThanEquals && x.1.major is Some && x.1.patch is None {
        // `<=M`, `<=M.m`: written with MAX_SAFE_INTEGER components, same admitted versions
        lemma_shape_equiv_repr(r->Some_0, c);
    } else {
        lemma_shape_represents(r, c);
    }
}
pub proof fn lemma_hyphen_represents(lo: Option<Partial>, up: Partial, r: Option<BoundSet>)
    requires wf_partial(up), lo matches Some(f) ==> wf_partial(f), hyphen_post(lo, up, r),
    ensures represents(r, match lo { Some(f) => npm_hyphen_c(f, up), None => npm_hyphen_to_only_c(up) }),
{
    cover_hyphen(lo, up);
    let c = match lo { Some(f) => npm_hyphen_c(f, up), None => npm_hyphen_to_only_c(up) };
    assert(c is Two ==> ((c->Two_0.op is Ge || c->Two_0.op is Gt) && (c->Two_1.op is Lt || c->Two_1.op is Le))) by {
        if let Some(f) = lo {
            assert(npm_hyphen_from(f) matches Some(a) ==> a.op is Ge);
            assert(npm_hyphen_to(up) matches Some(b) ==> (b.op is Lt || b.op is Le));
        }
    }
    assert(shape_ok_c(r, c)) by {
        match lo {
            None => { assert(shape_ok_c(r, npm_hyphen_to_only_c(up))); },
            Some(f) => { assert(lo->0 == f); assert(shape_ok_c(r, npm_hyphen_c(lo->0, up))); },
        }
    }
    lemma_shape_represents(r, c);
}

// ===================== groundwork for C13: the reference reader of the range grammar reads a PRINTED version back =====================
// g_partial(ver_text(v) + tail) is the full partial of v when what follows cannot continue the version (a terminator: blank, `|`, the end)
pub open spec fn stops_version(tail: Seq<char>) -> bool { tail.len() == 0 || tail[0] == ' ' || tail[0] == '\t' || tail[0] == '|' }
pub proof fn lemma_read_extras_tail(pre: Seq<Seq<char>>, build: Seq<Seq<char>>, tail: Seq<char>)
    requires wf_ids(pre), wf_ids(build), stops_version(tail),
    ensures g_extras(pre_text(pre) + (build_text(build) + tail)) == ((classify_all(pre), classify_all(build)), tail),
{
    let bt = build_text(build) + tail;
    let s = pre_text(pre) + bt;
    assert(classify_all(Seq::<Seq<char>>::empty()) =~= Seq::<ISpec>::empty());
    assert(stops_idents(tail));
    assert(stops_idents(bt)) by { if build.len() > 0 { assert(bt[0] == '+'); } else { assert(bt =~= tail); } }
    if build.len() > 0 {
        assert(bt =~= ch1('+') + (join_dots(build) + tail));
        lemma_read_char('+', join_dots(build) + tail);
        lemma_read_idents(build, tail);
        assert(g_build(bt) == Some((classify_all(build), tail)));
    } else {
        assert(bt =~= tail);
        assert(g_build(bt) is None) by { if tail.len() > 0 { lemma_no_char(tail, '+'); } }
    }
    if pre.len() > 0 {
        assert(s =~= ch1('-') + (join_dots(pre) + bt));
        lemma_read_char('-', join_dots(pre) + bt);
        lemma_read_idents(pre, bt);
        assert(g_pre(s) == Some((classify_all(pre), bt)));
    } else {
        assert(s =~= bt);
        assert(pre =~= Seq::<Seq<char>>::empty());
        if bt.len() > 0 { lemma_no_char(bt, '-'); }
        lemma_no_ident(bt);
        assert(g_pre(s) is None);
        if build.len() == 0 { assert(build =~= Seq::<Seq<char>>::empty()); }
    }
}
pub open spec fn full_pspec(v: Version) -> PSpec {
    PSpec { major: Some(v.major as nat), minor: Some(v.minor as nat), patch: Some(v.patch as nat), pre: classify_all(texts(v.pre_release@)), build: classify_all(texts(v.build@)) }
}
// the three components `M.m.p` followed by something that is not a digit
pub proof fn lemma_components_read(ma: Seq<char>, mi: Seq<char>, pa: Seq<char>, ex: Seq<char>)
    requires wf_num(ma), wf_num(mi), wf_num(pa), stops_digits(ex),
    ensures ({
        let s = ma + (ch1('.') + (mi + (ch1('.') + (pa + ex))));
        let t1 = ch1('.') + (mi + (ch1('.') + (pa + ex)));
        let t3 = ch1('.') + (pa + ex);
        &&& skip_ws(skip_lv(s)) == s
        &&& g_component(s) == Some((Some(dec_val(ma)), t1))
        &&& g_dot_component(t1) == (Some(Some(dec_val(mi))), t3)
        &&& g_dot_component(t3) == (Some(Some(dec_val(pa))), ex)
    }),
{
    let t4 = pa + ex;
    let t3 = ch1('.') + t4;
    let t2 = mi + t3;
    let t1 = ch1('.') + t2;
    let s = ma + t1;
    assert(s[0] == ma[0]);
    assert(dg_char(ma[0]));
    assert(skip_lv(s) == s);
    lemma_span_unique(s, |c: char| ws_char(c), 0);
    assert(skip_ws(s) =~= s);
    assert(g_xr(s) is None);
    assert(stops_digits(t1)) by { assert(t1[0] == '.'); }
    lemma_read_number(ma, t1);
    lemma_read_char('.', t2);
    assert(t2[0] == mi[0]); assert(dg_char(mi[0]));
    assert(g_xr(t2) is None);
    assert(stops_digits(t3)) by { assert(t3[0] == '.'); }
    lemma_read_number(mi, t3);
    lemma_read_char('.', t4);
    assert(t4[0] == pa[0]); assert(dg_char(pa[0]));
    assert(g_xr(t4) is None);
    lemma_read_number(pa, ex);
}
pub proof fn lemma_partial_reads_printed_version(v: Version, tail: Seq<char>)
    requires wf_version(v), stops_version(tail),
    ensures g_partial(ver_text(v) + tail) == Some((full_pspec(v), tail)),
{
    broadcast use ax_dec_text;
    lemma_ver_text_is_canonical(v);
    lemma_texts_read_back(v.pre_release@);
    lemma_texts_read_back(v.build@);
    let ma = dec_text(v.major as nat); let mi = dec_text(v.minor as nat); let pa = dec_text(v.patch as nat);
    let pre = texts(v.pre_release@); let build = texts(v.build@);
    let ex = pre_text(pre) + (build_text(build) + tail);
    let s = ver_text(v) + tail;
    assert(s =~= ma + (ch1('.') + (mi + (ch1('.') + (pa + ex)))));
    assert(stops_digits(ex)) by {
        if pre.len() > 0 { assert(ex[0] == '-'); } else if build.len() > 0 { assert(ex =~= build_text(build) + tail); assert(ex[0] == '+'); } else { assert(ex =~= tail); }
    }
    lemma_components_read(ma, mi, pa, ex);
    lemma_read_extras_tail(pre, build, tail);
    let raw = PSpec { major: Some(dec_val(ma)), minor: Some(dec_val(mi)), patch: Some(dec_val(pa)), pre: classify_all(pre), build: classify_all(build) };
    assert(norm(raw) == raw);
}
// a printed comparator `<op><version>` is read back as (op, the full partial of that version)
pub proof fn lemma_primitive_reads_printed(op: Operation, v: Version, tail: Seq<char>)
    requires wf_version(v), stops_version(tail), op != Operation::Exact,
    ensures g_primitive_ast(op_text(op) + (ver_text(v) + tail)) == Some(((op, full_pspec(v)), tail)),
{
    broadcast use ax_dec_text;
    reveal_strlit(">"); reveal_strlit(">="); reveal_strlit("<"); reveal_strlit("<=");
    let vt = ver_text(v) + tail;
    let s = op_text(op) + vt;
    lemma_partial_reads_printed_version(v, tail);
    // the version text starts with a digit: neither `=` nor a blank follows the operator
    lemma_ver_text_is_canonical(v);
    let ma = dec_text(v.major as nat);
    assert(vt[0] == ma[0]) by {
        assert(ver_text(v) =~= ma + (ch1('.') + (dec_text(v.minor as nat) + (ch1('.') + (dec_text(v.patch as nat) + (pre_text(texts(v.pre_release@)) + build_text(texts(v.build@))))))));
    }
    assert(dg_char(vt[0]));
    lemma_span_unique(vt, |c: char| ws_char(c), 0);
    assert(skip_ws(vt) =~= vt);
    match op {
        Operation::GreaterThan => { assert(s =~= ch1('>') + vt); assert(s.skip(1) =~= vt); assert(!starts2(s, '>', '=')); },
        Operation::GreaterThanEquals => { assert(s =~= ch2('>', '=') + vt); assert(s.skip(2) =~= vt); assert(starts2(s, '>', '=')); },
        Operation::LessThan => { assert(s =~= ch1('<') + vt); assert(s.skip(1) =~= vt); assert(!starts2(s, '<', '=')); },
        Operation::LessThanEquals => { assert(s =~= ch2('<', '=') + vt); assert(s.skip(2) =~= vt); assert(starts2(s, '<', '=')); },
        Operation::Exact => {},
    }
}

// ---- groundwork for C13: values read back from a printed text are the same *up to the characters of their strings*; that is enough for the
// order (identifiers compare through their text), so bounds membership and the prerelease gate cannot tell the two apart
pub proof fn lemma_idents_same_equal(a: Seq<Identifier>, b: Seq<Identifier>)
    requires idents_same(a, b),
    ensures pre_cmp(a, b) == Ordering::Equal,
    decreases a.len(),
{
    if a.len() > 0 {
        assert(ident_same(a[0], b[0]));
        match (a[0], b[0]) {
            (Identifier::AlphaNumeric(s), Identifier::AlphaNumeric(t)) => { lemma_str_refl(s@); },
            _ => {},
        }
        assert(idents_same(a.drop_first(), b.drop_first())) by {
            assert forall|k: int| 0 <= k < a.drop_first().len() implies ident_same(#[trigger] a.drop_first()[k], b.drop_first()[k]) by { assert(ident_same(a[k + 1], b[k + 1])); }
        }
        lemma_idents_same_equal(a.drop_first(), b.drop_first());
    }
}
pub proof fn lemma_same_key_same_order(k1: VKey, k2: VKey, w: VKey)
    requires k1.major == k2.major, k1.minor == k2.minor, k1.patch == k2.patch, idents_same(k1.pre, k2.pre),
    ensures kcmp(k1, w) == kcmp(k2, w), kcmp(w, k1) == kcmp(w, k2), kcmp(k1, k2) == Ordering::Equal,
{
    lemma_idents_same_equal(k1.pre, k2.pre);
    assert(kcmp(k1, k2) == Ordering::Equal);
    lemma_k_flip(k1, k2);
    lemma_k_flip(k1, w); lemma_k_flip(k2, w);
    if kcmp(k1, w) != Ordering::Greater {
        lemma_k_trans(k2, k1, w);
        if kcmp(k1, w) == Ordering::Equal { lemma_k_trans(w, k1, k2); }
    } else {
        lemma_k_trans(w, k1, k2);
    }
}
