// ===================== C02, the `||` clause, over the contract of bound_sets / range_set / Range::parse =====================
// Range::parse(text) holds exactly flat_sets(alts), the concatenation of what `range` returned for the `||` separated alternatives.  A
// version satisfies (lies within) the concatenation exactly when it satisfies (lies within) one of the alternatives: `a || b` is the union.
pub proof fn lemma_flat_sets_member(alts: Seq<Vec<BoundSet>>, j: int)
    requires 0 <= j < flat_sets(alts).len(),
    ensures exists|k: int, m: int| 0 <= k < alts.len() && 0 <= m < alts[k]@.len() && flat_sets(alts)[j] == #[trigger] alts[k]@[m],
    decreases alts.len(),
{
    let head = flat_sets(alts.drop_last());
    if j < head.len() {
        lemma_flat_sets_member(alts.drop_last(), j);
        let (k, m) = choose|k: int, m: int| 0 <= k < alts.drop_last().len() && 0 <= m < alts.drop_last()[k]@.len() && head[j] == #[trigger] alts.drop_last()[k]@[m];
        assert(alts.drop_last()[k] == alts[k]);
    } else {
        let k = alts.len() - 1;
        assert(flat_sets(alts)[j] == alts[k]@[j - head.len()]);
    }
}
pub proof fn lemma_flat_sets_contains(alts: Seq<Vec<BoundSet>>, k: int, m: int)
    requires 0 <= k < alts.len(), 0 <= m < alts[k]@.len(),
    ensures exists|j: int| 0 <= j < flat_sets(alts).len() && #[trigger] flat_sets(alts)[j] == alts[k]@[m],
    decreases alts.len(),
{
    let head = flat_sets(alts.drop_last());
    if k < alts.len() - 1 {
        lemma_flat_sets_contains(alts.drop_last(), k, m);
        assert(alts.drop_last()[k] == alts[k]);
        let j = choose|j: int| 0 <= j < head.len() && #[trigger] head[j] == alts[k]@[m];
        assert(flat_sets(alts)[j] == head[j]);
    } else {
        assert(flat_sets(alts)[head.len() + m] == alts[k]@[m]);
    }
}
pub proof fn lemma_c02_alternatives_unite(alts: Seq<Vec<BoundSet>>, v: VKey)
    ensures
        any_sat(flat_sets(alts), flat_sets(alts).len() as int, v) <==> exists|k: int| 0 <= k < alts.len() && any_sat((#[trigger] alts[k])@, alts[k]@.len() as int, v),
        any_within(flat_sets(alts), flat_sets(alts).len() as int, v) <==> exists|k: int| 0 <= k < alts.len() && any_within((#[trigger] alts[k])@, alts[k]@.len() as int, v),
{
    let f = flat_sets(alts);
    if any_sat(f, f.len() as int, v) {
        let j = choose|j: int| 0 <= j < f.len() && j < f.len() && sat(#[trigger] f[j], v);
        lemma_flat_sets_member(alts, j);
        let (k, m) = choose|k: int, m: int| 0 <= k < alts.len() && 0 <= m < alts[k]@.len() && f[j] == #[trigger] alts[k]@[m];
        assert(sat(alts[k]@[m], v));
        assert(any_sat(alts[k]@, alts[k]@.len() as int, v));
    }
    if exists|k: int| 0 <= k < alts.len() && any_sat((#[trigger] alts[k])@, alts[k]@.len() as int, v) {
        let k = choose|k: int| 0 <= k < alts.len() && any_sat((#[trigger] alts[k])@, alts[k]@.len() as int, v);
        let m = choose|m: int| 0 <= m < alts[k]@.len() && m < alts[k]@.len() && sat(#[trigger] alts[k]@[m], v);
        lemma_flat_sets_contains(alts, k, m);
        let j = choose|j: int| 0 <= j < f.len() && #[trigger] f[j] == alts[k]@[m];
        assert(sat(f[j], v));
    }
    if any_within(f, f.len() as int, v) {
        let j = choose|j: int| 0 <= j < f.len() && j < f.len() && within(#[trigger] f[j], v);
        lemma_flat_sets_member(alts, j);
        let (k, m) = choose|k: int, m: int| 0 <= k < alts.len() && 0 <= m < alts[k]@.len() && f[j] == #[trigger] alts[k]@[m];
        assert(within(alts[k]@[m], v));
        assert(any_within(alts[k]@, alts[k]@.len() as int, v));
    }
    if exists|k: int| 0 <= k < alts.len() && any_within((#[trigger] alts[k])@, alts[k]@.len() as int, v) {
        let k = choose|k: int| 0 <= k < alts.len() && any_within((#[trigger] alts[k])@, alts[k]@.len() as int, v);
        let m = choose|m: int| 0 <= m < alts[k]@.len() && m < alts[k]@.len() && within(#[trigger] alts[k]@[m], v);
        lemma_flat_sets_contains(alts, k, m);
        let j = choose|j: int| 0 <= j < f.len() && #[trigger] f[j] == alts[k]@[m];
        assert(within(f[j], v));
    }
}
