// ===================== C12: printing a version and parsing it back =====================
// Chain, all over contracts: Version::parse's postcondition  =>  the value is well formed (wf_version)  =>  Version::display_fmt writes
// ver_text(v) (proved above)  =>  ver_text(v) is the canonical text of v's fields  =>  the reference grammar reads it back to the same fields
// (lemma_c05_canonical_accepted)  =>  Version::parse on that text returns a version equal in all five fields, unless the text is too long.
pub open spec fn texts(ids: Seq<Identifier>) -> Seq<Seq<char>> { Seq::new(ids.len(), |k: int| ids[k].disp()) }
pub open spec fn wf_ident(id: Identifier) -> bool {
    match id { Identifier::Numeric(_) => true, Identifier::AlphaNumeric(s) => wf_id(s@) && classify(s@) == ISpec::Alpha(s@) }
}
pub open spec fn wf_idents(ids: Seq<Identifier>) -> bool { forall|k: int| 0 <= k < ids.len() ==> wf_ident(#[trigger] ids[k]) }
pub open spec fn wf_version(v: Version) -> bool {
    v.major <= MAX_SAFE_INTEGER && v.minor <= MAX_SAFE_INTEGER && v.patch <= MAX_SAFE_INTEGER && wf_idents(v.pre_release@) && wf_idents(v.build@)
}
pub open spec fn ident_same(a: Identifier, b: Identifier) -> bool {
    match (a, b) {
        (Identifier::Numeric(x), Identifier::Numeric(y)) => x == y,
        (Identifier::AlphaNumeric(s), Identifier::AlphaNumeric(t)) => s@ == t@,
        _ => false,
    }
}
pub open spec fn idents_same(a: Seq<Identifier>, b: Seq<Identifier>) -> bool { a.len() == b.len() && forall|k: int| 0 <= k < a.len() ==> ident_same(#[trigger] a[k], b[k]) }
// equal in all five fields, build metadata included
pub open spec fn same_fields(v: Version, w: Version) -> bool {
    v.major == w.major && v.minor == w.minor && v.patch == w.patch && idents_same(v.pre_release@, w.pre_release@) && idents_same(v.build@, w.build@)
}

pub proof fn lemma_dotted_push(parts: Seq<Seq<char>>, x: Seq<char>)
    ensures dotted(parts.push(x)) == dotted(parts) + ch1('.') + x,
    decreases parts.len(),
{
    if parts.len() == 0 {
        let q = parts.push(x);
        assert(q.drop_first() =~= Seq::<Seq<char>>::empty());
        assert(q[0] == x);
        assert(dotted(q.drop_first()) =~= Seq::<char>::empty());
        assert(dotted(parts) =~= Seq::<char>::empty());
        assert(dotted(q) == ch1('.') + q[0] + dotted(q.drop_first()));
        assert(dotted(q) =~= dotted(parts) + ch1('.') + x);
    } else {
        assert(parts.push(x).drop_first() =~= parts.drop_first().push(x));
        lemma_dotted_push(parts.drop_first(), x);
        assert(dotted(parts.push(x)) =~= dotted(parts) + ch1('.') + x);
    }
}
// the left-to-right text the Display loop builds is lead + the dot-joined identifier texts
pub proof fn lemma_ids_text(ids: Seq<Identifier>, k: int, lead: char)
    requires 1 <= k <= ids.len(),
    ensures ids_text(ids, k, lead) == ch1(lead) + join_dots(texts(ids).take(k)),
    decreases k,
{
    let t = texts(ids);
    if k == 1 {
        assert(ids_text(ids, 0, lead) =~= Seq::<char>::empty());
        assert(t.take(1).drop_first() =~= Seq::<Seq<char>>::empty());
        assert(ids_text(ids, 1, lead) =~= ch1(lead) + join_dots(t.take(1)));
    } else {
        lemma_ids_text(ids, k - 1, lead);
        let a = t.take(k - 1);
        assert(t.take(k) =~= a.push(ids[k - 1].disp()));
        assert(t.take(k).drop_first() =~= a.drop_first().push(ids[k - 1].disp()));
        lemma_dotted_push(a.drop_first(), ids[k - 1].disp());
        assert(ids_text(ids, k, lead) =~= ch1(lead) + join_dots(t.take(k)));
    }
}
pub proof fn lemma_ver_text_is_canonical(v: Version)
    ensures ver_text(v) == canon(dec_text(v.major as nat), dec_text(v.minor as nat), dec_text(v.patch as nat), texts(v.pre_release@), texts(v.build@)),
{
    let pre = v.pre_release@;
    let build = v.build@;
    if pre.len() > 0 { lemma_ids_text(pre, pre.len() as int, '-'); assert(texts(pre).take(pre.len() as int) =~= texts(pre)); }
    if build.len() > 0 { lemma_ids_text(build, build.len() as int, '+'); assert(texts(build).take(build.len() as int) =~= texts(build)); }
    assert(ver_text(v) =~= canon(dec_text(v.major as nat), dec_text(v.minor as nat), dec_text(v.patch as nat), texts(pre), texts(build)));
}
pub proof fn lemma_ident_text_reads_back(id: Identifier)
    requires wf_ident(id),
    ensures wf_id(id.disp()), ident_is(id, classify(id.disp())),
{
    broadcast use ax_dec_text;
    match id {
        Identifier::Numeric(n) => {
            let t = dec_text(n as nat);
            assert forall|k: int| 0 <= k < t.len() implies id_char(#[trigger] t[k]) by { assert(dg_char(t[k])); }
        },
        Identifier::AlphaNumeric(s) => {},
    }
}
pub proof fn lemma_texts_read_back(ids: Seq<Identifier>)
    requires wf_idents(ids),
    ensures wf_ids(texts(ids)), idents_are(ids, classify_all(texts(ids))),
{
    assert forall|k: int| 0 <= k < ids.len() implies wf_id(#[trigger] texts(ids)[k]) && ident_is(#[trigger] ids[k], classify_all(texts(ids))[k]) by {
        lemma_ident_text_reads_back(ids[k]);
    }
}
// the printed text of a well formed version is read back, by the reference grammar, to exactly its fields
pub proof fn lemma_c12_printed_text_reads_back(v: Version)
    requires wf_version(v),
    ensures ref_parse(ver_text(v)) matches Some(s) && version_is(v, s),
{
    broadcast use ax_dec_text;
    lemma_ver_text_is_canonical(v);
    lemma_texts_read_back(v.pre_release@);
    lemma_texts_read_back(v.build@);
    lemma_c05_canonical_accepted(dec_text(v.major as nat), dec_text(v.minor as nat), dec_text(v.patch as nat), texts(v.pre_release@), texts(v.build@));
}
pub proof fn lemma_idents_are_same(a: Seq<Identifier>, b: Seq<Identifier>, s: Seq<ISpec>)
    requires idents_are(a, s), idents_are(b, s),
    ensures idents_same(a, b),
{
    assert forall|k: int| 0 <= k < a.len() implies ident_same(#[trigger] a[k], b[k]) by { assert(ident_is(a[k], s[k]) && ident_is(b[k], s[k])); }
}
// a version returned by Version::parse is well formed
pub proof fn lemma_c12_parsed_is_wf(text: &str, v: Version)
    requires parse_post(text, Ok(v)),
    ensures wf_version(v),
{
    lemma_c05_accepted_text_is_a_version(text@);
    let sp = ref_parse(text@).unwrap();
    let (lead, ma, mi, pa, hy, pre, build, trail) = choose|lead: Seq<char>, ma: Seq<char>, mi: Seq<char>, pa: Seq<char>, hy: bool, pre: Seq<Seq<char>>, build: Seq<Seq<char>>, trail: Seq<char>|
        #[trigger] loose_text(lead, ma, mi, pa, hy, pre, build, trail) == text@
        && lead_ok(lead) && all_blank(trail) && wf_num(ma) && wf_num(mi) && wf_num(pa) && wf_ids(pre) && wf_ids(build)
        && ref_parse(text@) == Some(VSpec { major: dec_val(ma), minor: dec_val(mi), patch: dec_val(pa), pre: classify_all(pre), build: classify_all(build) });
    assert forall|k: int| 0 <= k < v.pre_release@.len() implies wf_ident(#[trigger] v.pre_release@[k]) by {
        assert(ident_is(v.pre_release@[k], classify_all(pre)[k]));
        assert(wf_id(pre[k]));
    }
    assert forall|k: int| 0 <= k < v.build@.len() implies wf_ident(#[trigger] v.build@[k]) by {
        assert(ident_is(v.build@[k], classify_all(build)[k]));
        assert(wf_id(build[k]));
    }
}
// C12, first sentence: parse(print(v)) is equal to v in all five fields -- provided the printed text is within MAX_LENGTH
pub proof fn lemma_c12_round_trip(v: Version, printed: &str, r: Result<Version, SemverError>)
    requires wf_version(v), printed@ == ver_text(v), parse_post(printed, r), !too_long(printed),
    ensures r matches Ok(w) && same_fields(v, w) && ver_text(w) == ver_text(v),
{
    lemma_c12_printed_text_reads_back(v);
    let w = r->Ok_0;
    let s = ref_parse(printed@).unwrap();
    lemma_idents_are_same(v.pre_release@, w.pre_release@, s.pre);
    lemma_idents_are_same(v.build@, w.build@, s.build);
    lemma_same_fields_same_text(v, w);
}
pub proof fn lemma_same_ids_text(a: Seq<Identifier>, b: Seq<Identifier>, k: int, lead: char)
    requires idents_same(a, b), 0 <= k <= a.len(),
    ensures ids_text(a, k, lead) == ids_text(b, k, lead),
    decreases k,
{
    if k > 0 {
        lemma_same_ids_text(a, b, k - 1, lead);
        assert(ident_same(a[k - 1], b[k - 1]));
    }
}
// "the printed form is a fixed point": equal fields print the same text
pub proof fn lemma_same_fields_same_text(v: Version, w: Version)
    requires same_fields(v, w),
    ensures ver_text(v) == ver_text(w),
{
    lemma_same_ids_text(v.pre_release@, w.pre_release@, v.pre_release@.len() as int, '-');
    lemma_same_ids_text(v.build@, w.build@, v.build@.len() as int, '+');
}

// ===================== C18, the text half: a version built from a tuple prints as `a.b.c` / `a.b.c-d` and that text parses to it ==========
// (what `Version::from` returns is stated by its contract: key(r) == k3(a, b, c) resp. k4(a, b, c, [Numeric(d)]), no build metadata)
pub proof fn lemma_c18_tuple_prints_and_parses(v: Version, a: u64, b: u64, c: u64)
    requires key(v) == k3(a as int, b as int, c as int), v.build@.len() == 0, a <= MAX_SAFE_INTEGER, b <= MAX_SAFE_INTEGER, c <= MAX_SAFE_INTEGER,
    ensures
        ver_text(v) == dec_text(a as nat) + ch1('.') + dec_text(b as nat) + ch1('.') + dec_text(c as nat),
        ref_parse(ver_text(v)) matches Some(s) && version_is(v, s) && s.major == a && s.minor == b && s.patch == c && s.pre.len() == 0 && s.build.len() == 0,
{
    assert(v.pre_release@.len() == 0);
    assert(wf_version(v));
    lemma_c12_printed_text_reads_back(v);
    assert(ver_text(v) =~= dec_text(a as nat) + ch1('.') + dec_text(b as nat) + ch1('.') + dec_text(c as nat));
}
pub proof fn lemma_c18_quadruple_prints_and_parses(v: Version, a: u64, b: u64, c: u64, d: u64)
    requires key(v).major == a, key(v).minor == b, key(v).patch == c, key(v).pre =~= seq![Identifier::Numeric(d)], v.build@.len() == 0,
        a <= MAX_SAFE_INTEGER, b <= MAX_SAFE_INTEGER, c <= MAX_SAFE_INTEGER,
    ensures
        ver_text(v) == dec_text(a as nat) + ch1('.') + dec_text(b as nat) + ch1('.') + dec_text(c as nat) + ch1('-') + dec_text(d as nat),
        ref_parse(ver_text(v)) matches Some(s) && version_is(v, s) && s.major == a && s.minor == b && s.patch == c && s.pre == seq![ISpec::Num(d as nat)] && s.build.len() == 0,
{
    broadcast use ax_dec_text;
    assert(v.pre_release@[0] == Identifier::Numeric(d));
    assert(wf_version(v));
    lemma_c12_printed_text_reads_back(v);
    assert(ids_text(v.pre_release@, 0, '-') =~= Seq::<char>::empty());
    assert(ids_text(v.pre_release@, 1, '-') =~= ch1('-') + dec_text(d as nat));
    assert(ver_text(v) =~= dec_text(a as nat) + ch1('.') + dec_text(b as nat) + ch1('.') + dec_text(c as nat) + ch1('-') + dec_text(d as nat));
    let s = ref_parse(ver_text(v)).unwrap();
    assert(ident_is(v.pre_release@[0], s.pre[0]));
    assert(s.pre =~= seq![ISpec::Num(d as nat)]) by {
        lemma_ident_text_reads_back(v.pre_release@[0]);
        lemma_ver_text_is_canonical(v);
        lemma_texts_read_back(v.pre_release@);
        lemma_texts_read_back(v.build@);
        lemma_c05_canonical_accepted(dec_text(v.major as nat), dec_text(v.minor as nat), dec_text(v.patch as nat), texts(v.pre_release@), texts(v.build@));
        assert(classify_all(texts(v.pre_release@))[0] == classify(dec_text(d as nat)));
    }
}
