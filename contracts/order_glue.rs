// ===================== glue: std / derive models  ->  the SemVer spec =====================
/// the derived order on Identifier (A6, generated from the enum text) is the SemVer identifier order
pub proof fn lemma_ident_derive_is_semver(a: Identifier, b: Identifier)
    ensures derived_ident_cmp(a, b) == ident_cmp(a, b)
{}
pub proof fn lemma_vec_lex_is_pre_cmp(a: Seq<Identifier>, b: Seq<Identifier>)
    ensures vec_lex::<Identifier>(a, b) == pre_cmp(a, b) decreases a.len()
{ if a.len() > 0 && b.len() > 0 { lemma_ident_derive_is_semver(a[0], b[0]); lemma_vec_lex_is_pre_cmp(a.drop_first(), b.drop_first()); } }
/// element-wise equality of identifier lists (vstd's Vec == Vec) is `pre_cmp == Equal`
pub proof fn lemma_pre_eq(a: Seq<Identifier>, b: Seq<Identifier>)
    ensures (pre_cmp(a, b) == Ordering::Equal) <==> (a.len() == b.len() && forall|i: int| 0 <= i < a.len() ==> derived_ident_cmp(#[trigger] a[i], b[i]) == Ordering::Equal)
    decreases a.len()
{
    assert forall|x: Identifier, y: Identifier| derived_ident_cmp(x, y) == ident_cmp(x, y) by { lemma_ident_derive_is_semver(x, y); }
    if a.len() > 0 && b.len() > 0 {
        lemma_pre_eq(a.drop_first(), b.drop_first());
        if pre_cmp(a, b) == Ordering::Equal {
            assert forall|i: int| 0 <= i < a.len() implies derived_ident_cmp(#[trigger] a[i], b[i]) == Ordering::Equal by {
                if i > 0 { assert(a[i] == a.drop_first()[i-1]); assert(b[i] == b.drop_first()[i-1]); }
            }
        } else if a.len() == b.len() && ident_cmp(a[0], b[0]) == Ordering::Equal {
            assert(!(forall|i: int| 0 <= i < a.drop_first().len() ==> derived_ident_cmp(#[trigger] a.drop_first()[i], b.drop_first()[i]) == Ordering::Equal));
            let j = choose|j: int| 0 <= j < a.drop_first().len() && derived_ident_cmp(#[trigger] a.drop_first()[j], b.drop_first()[j]) != Ordering::Equal;
            assert(a[j+1] == a.drop_first()[j]); assert(b[j+1] == b.drop_first()[j]);
        }
    }
}
