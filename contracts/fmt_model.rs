// ===================== A10: the formatting machinery returns without panicking; nothing is assumed about its result =====================
pub assume_specification<'a>[ std::fmt::Formatter::<'a>::write_fmt ](f: &mut std::fmt::Formatter<'a>, args: std::fmt::Arguments<'_>) -> (r: Result<(), std::fmt::Error>);
impl std::fmt::Display for Version {
    #[verifier::external_body]
    fn fmt(&self, f: &mut std::fmt::Formatter<'_>) -> std::fmt::Result { unimplemented!() }
}
#[verifier::external_body]
pub fn verif_fmt_stub(f: &mut std::fmt::Formatter<'_>) -> std::fmt::Result { unimplemented!() }
