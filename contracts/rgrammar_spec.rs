// ===================== reference grammar of range texts, leaves: operators, x-ranges, partial versions =====================
// Written from the grammar in node-semver's README (and the comments of src/range.rs): partial ::= xr ( '.' xr ( '.' xr qualifier ? )? )?,
// xr ::= 'x' | 'X' | '*' | nr; loose mode: a `v` prefix, blanks after it, leading zeros; a wildcard makes everything after it a wildcard.
pub struct PSpec { pub major: Option<nat>, pub minor: Option<nat>, pub patch: Option<nat>, pub pre: Seq<ISpec>, pub build: Seq<ISpec> }
pub open spec fn opt_num_is(o: Option<u64>, s: Option<nat>) -> bool {
    match (o, s) { (Some(x), Some(y)) => x == y, (None, None) => true, _ => false }
}
pub open spec fn partial_is(p: Partial, s: PSpec) -> bool {
    opt_num_is(p.major, s.major) && opt_num_is(p.minor, s.minor) && opt_num_is(p.patch, s.patch) && idents_are(p.pre_release@, s.pre) && idents_are(p.build@, s.build)
}
pub open spec fn g_xr(s: Seq<char>) -> Option<Seq<char>> { if s.len() > 0 && (s[0] == 'x' || s[0] == 'X' || s[0] == '*') { Some(s.skip(1)) } else { None } }
pub open spec fn g_component(s: Seq<char>) -> Option<(Option<nat>, Seq<char>)> {
    match g_xr(s) {
        Some(r) => Some((None::<nat>, r)),
        None => match g_number(s) { Some((n, r)) => Some((Some(n), r)), None => None },
    }
}
// ( '.' xr )? -- a dot that is not followed by a component is not read
pub open spec fn g_dot_component(s: Seq<char>) -> (Option<Option<nat>>, Seq<char>) {
    match eat(s, '.') {
        Some(r) => match g_component(r) { Some((c, r2)) => (Some(c), r2), None => (None::<Option<nat>>, s) },
        None => (None::<Option<nat>>, s),
    }
}
pub open spec fn skip_lv(s: Seq<char>) -> Seq<char> { if s.len() > 0 && s[0] == 'v' { s.skip(1) } else { s } }
pub open spec fn oflat(o: Option<Option<nat>>) -> Option<nat> { match o { Some(x) => x, None => None } }
pub open spec fn norm(p: PSpec) -> PSpec {
    let minor = if p.major is Some { p.minor } else { None };
    let patch = if minor is Some { p.patch } else { None };
    PSpec { major: p.major, minor, patch, pre: if patch is Some { p.pre } else { Seq::<ISpec>::empty() }, build: if patch is Some { p.build } else { Seq::<ISpec>::empty() } }
}
pub open spec fn g_partial(s: Seq<char>) -> Option<(PSpec, Seq<char>)> {
    match g_component(skip_ws(skip_lv(s))) {
        None => None,
        Some((ma, r1)) => {
            let (mi, r2) = g_dot_component(r1);
            let (pa, r3) = g_dot_component(r2);
            // the qualifier is read only after a third component (also when that component is a wildcard)
            let (ex, r4) = if pa is Some { g_extras(r3) } else { ((Seq::<ISpec>::empty(), Seq::<ISpec>::empty()), r3) };
            Some((norm(PSpec { major: ma, minor: oflat(mi), patch: oflat(pa), pre: ex.0, build: ex.1 }), r4))
        },
    }
}
// operators: the longer spelling first
pub open spec fn starts2(s: Seq<char>, a: char, b: char) -> bool { s.len() >= 2 && s[0] == a && s[1] == b }
pub open spec fn g_operation(s: Seq<char>) -> Option<(Operation, Seq<char>)> {
    if starts2(s, '>', '=') { Some((Operation::GreaterThanEquals, s.skip(2))) }
    else if s.len() > 0 && s[0] == '>' { Some((Operation::GreaterThan, s.skip(1))) }
    else if s.len() > 0 && s[0] == '=' { Some((Operation::Exact, s.skip(1))) }
    else if starts2(s, '<', '=') { Some((Operation::LessThanEquals, s.skip(2))) }
    else if s.len() > 0 && s[0] == '<' { Some((Operation::LessThan, s.skip(1))) }
    else { None }
}
// '~' blanks '>'? blanks
pub open spec fn g_tilde_gt(s: Seq<char>) -> Option<(bool, Seq<char>)> {
    match eat(s, '~') {
        None => None,
        Some(r) => { let r1 = skip_ws(r); match eat(r1, '>') { Some(r2) => Some((true, skip_ws(r2))), None => Some((false, skip_ws(r1))) } },
    }
}
// blanks '||' blanks
pub open spec fn g_or(s: Seq<char>) -> Option<Seq<char>> {
    let r = skip_ws(s);
    if starts2(r, '|', '|') { Some(skip_ws(r.skip(2))) } else { None }
}
pub proof fn lemma_prefix2(a: char, b: char)
    ensures forall|i: Seq<char>| #[trigger] ch2(a, b).is_prefix_of(i) <==> starts2(i, a, b),
{
    assert forall|i: Seq<char>| #[trigger] ch2(a, b).is_prefix_of(i) <==> starts2(i, a, b) by {
        if starts2(i, a, b) { assert(ch2(a, b) =~= i.subrange(0, 2)); }
        if ch2(a, b).is_prefix_of(i) { assert(i.subrange(0, 2)[0] == ch2(a, b)[0]); assert(i.subrange(0, 2)[1] == ch2(a, b)[1]); }
    }
}
// a partial version read from a text is well formed: its numbers are within MAX_SAFE_INTEGER and it is normalised
pub proof fn lemma_partial_is_wf(p: Partial, s: Seq<char>)
    requires g_partial(s) matches Some((ps, r)) && partial_is(p, ps),
    ensures wf_partial(p),
{
}
// ---- comparators: what the text denotes, as (operator, partial) / (tilde flavour, partial) / partial
pub open spec fn g_primitive_ast(s: Seq<char>) -> Option<((Operation, PSpec), Seq<char>)> {
    match g_operation(s) { None => None, Some((op, r)) => match g_partial(skip_ws(r)) { None => None, Some((ps, r2)) => Some(((op, ps), r2)) } }
}
pub open spec fn g_tilde_ast(s: Seq<char>) -> Option<((bool, PSpec), Seq<char>)> {
    match g_tilde_gt(s) { None => None, Some((gt, r)) => match g_partial(r) { None => None, Some((ps, r2)) => Some(((gt, ps), r2)) } }
}
pub open spec fn g_caret_ast(s: Seq<char>) -> Option<(PSpec, Seq<char>)> {
    match eat(s, '^') { None => None, Some(r) => g_partial(skip_ws(r)) }
}
// ---- hyphen ranges: partial? blanks+ '-' blanks+ partial
pub open spec fn g_hyphen_ast(s: Seq<char>) -> Option<((Option<PSpec>, PSpec), Seq<char>)> {
    let (lo, r0) = match g_partial(s) { Some((ps, r)) => (Some(ps), r), None => (None::<PSpec>, s) };
    if ws_span(r0) == 0 { None } else {
        match eat(skip_ws(r0), '-') {
            None => None,
            Some(r2) => if ws_span(r2) == 0 { None } else {
                match g_partial(skip_ws(r2)) { None => None, Some((up, r4)) => Some(((lo, up), r4)) }
            },
        }
    }
}
pub open spec fn lower_is(p: Option<Partial>, s: Option<PSpec>) -> bool {
    match (p, s) { (Some(x), Some(y)) => partial_is(x, y) && wf_partial(x), (None, None) => true, _ => false }
}
// ---- what ends a comparator: blanks, `||`, or the end of the text
pub open spec fn at_term(s: Seq<char>) -> bool { s.len() == 0 || ws_char(s[0]) || starts2(s, '|', '|') }
// garbage: everything up to the next terminator
pub open spec fn term_pos(s: Seq<char>) -> nat
    decreases s.len()
{
    if at_term(s) { 0 } else { 1 + term_pos(s.skip(1)) }
}
pub proof fn lemma_term_pos(s: Seq<char>)
    ensures term_pos(s) <= s.len(), at_term(s.skip(term_pos(s) as int)),
    decreases s.len(),
{
    if at_term(s) { assert(s.skip(0) =~= s); } else {
        lemma_term_pos(s.skip(1));
        assert(s.skip(1).skip(term_pos(s.skip(1)) as int) =~= s.skip(term_pos(s) as int));
    }
}
// repeat_till(0.., any, <terminator>) skips exactly term_pos characters (induction over the number of characters skipped)
pub open spec fn is_any_parser<'s, E, F: Parser<&'s str, char, E>>(f: F) -> bool {
    &&& forall|a: &'s str, o: char, b: &'s str| #[trigger] f.accepts(a, o, b) ==> (a@.len() > 0 && b@ == a@.skip(1))
    &&& forall|a: &'s str| #[trigger] f.rejects(a) ==> a@.len() == 0
}
pub open spec fn is_term_parser<'s, E, G: Parser<&'s str, &'s str, E>>(g: G) -> bool {
    &&& forall|a: &'s str, o: &'s str, b: &'s str| #[trigger] g.accepts(a, o, b) ==> (at_term(a@) && b@ == a@)
    &&& forall|a: &'s str| #[trigger] g.rejects(a) ==> !at_term(a@)
}
pub proof fn lemma_rt_garbage<'s, E, F: Parser<&'s str, char, E>, G: Parser<&'s str, &'s str, E>>(f: F, g: G, i: &'s str, n: nat, o2: &'s str, rest: &'s str)
    requires is_any_parser::<E, F>(f), is_term_parser::<E, G>(g), rt_acc::<&'s str, char, &'s str, E, F, G>(f, g, i, n, o2, rest),
    ensures rest@ == i@.skip(term_pos(i@) as int), n == term_pos(i@),
    decreases n,
{
    if n == 0 {
        assert(i@.skip(0) =~= i@);
    } else {
        let (x, m) = choose|x: char, m: &'s str| #[trigger] f.accepts(i, x, m) && rt_acc::<&'s str, char, &'s str, E, F, G>(f, g, m, (n - 1) as nat, o2, rest);
        assert(g.rejects(i));
        assert(!at_term(i@));
        lemma_rt_garbage::<E, F, G>(f, g, m, (n - 1) as nat, o2, rest);
        lemma_term_pos(i@.skip(1));
        assert(term_pos(i@) == 1 + term_pos(i@.skip(1)));
        assert(i@.skip(1).skip(term_pos(i@.skip(1)) as int) =~= i@.skip(term_pos(i@) as int));
    }
}
pub proof fn lemma_rt_garbage_never_fails<'s, E, F: Parser<&'s str, char, E>, G: Parser<&'s str, &'s str, E>>(f: F, g: G, i: &'s str, n: nat)
    requires is_any_parser::<E, F>(f), is_term_parser::<E, G>(g), rt_rej::<&'s str, char, &'s str, E, F, G>(f, g, i, n),
    ensures false,
    decreases n,
{
    if n == 0 {
    } else {
        let (x, m) = choose|x: char, m: &'s str| #[trigger] f.accepts(i, x, m) && rt_rej::<&'s str, char, &'s str, E, F, G>(f, g, m, (n - 1) as nat);
        lemma_rt_garbage_never_fails::<E, F, G>(f, g, m, (n - 1) as nat);
    }
}
// ---- an alternative (`range`): nothing at all (blanks, then `||` or the end) is `*`; otherwise comparators separated by blanks
pub open spec fn empty_alt(s: Seq<char>) -> bool { let r = skip_ws(s); r.len() == 0 || starts2(r, '|', '|') }
pub open spec fn elem_ok(o: Option<BoundSet>) -> bool { o matches Some(b) ==> bs_wf(b) && bs_small(b) }
pub open spec fn all_elem_ok(s: Seq<Option<BoundSet>>) -> bool { forall|k: int| 0 <= k < s.len() ==> elem_ok(#[trigger] s[k]) }
// every element of a separated list satisfies what the element parser guarantees (induction over the list)
pub proof fn lemma_sep_tail_elems<'s, E, P: Parser<&'s str, Option<BoundSet>, E>, S: Parser<&'s str, &'s str, E>>(p: P, s: S, m: &'s str, out: Seq<Option<BoundSet>>, rest: &'s str)
    requires forall|a: &'s str, o: Option<BoundSet>, b: &'s str| #[trigger] p.accepts(a, o, b) ==> elem_ok(o), sep_tail::<&'s str, Option<BoundSet>, &'s str, E, P, S>(p, s, m, out, rest),
    ensures all_elem_ok(out),
    decreases out.len(),
{
    if out.len() > 0 {
        let (x, m2, m3) = choose|x: &'s str, m2: &'s str, m3: &'s str| #[trigger] s.accepts(m, x, m2) && #[trigger] p.accepts(m2, out[0], m3) && sep_tail::<&'s str, Option<BoundSet>, &'s str, E, P, S>(p, s, m3, out.drop_first(), rest);
        lemma_sep_tail_elems::<E, P, S>(p, s, m3, out.drop_first(), rest);
        assert forall|k: int| 0 <= k < out.len() implies elem_ok(#[trigger] out[k]) by { if k > 0 { assert(out[k] == out.drop_first()[k - 1]); } }
    }
}
pub proof fn lemma_sep_all_elems<'s, E, P: Parser<&'s str, Option<BoundSet>, E>, S: Parser<&'s str, &'s str, E>>(p: P, s: S, i: &'s str, out: Seq<Option<BoundSet>>, rest: &'s str)
    requires forall|a: &'s str, o: Option<BoundSet>, b: &'s str| #[trigger] p.accepts(a, o, b) ==> elem_ok(o), sep_all::<&'s str, Option<BoundSet>, &'s str, E, P, S>(p, s, i, out, rest),
    ensures all_elem_ok(out),
{
    if out.len() > 0 {
        let m = choose|m: &'s str| #[trigger] p.accepts(i, out[0], m) && sep_tail::<&'s str, Option<BoundSet>, &'s str, E, P, S>(p, s, m, out.drop_first(), rest);
        lemma_sep_tail_elems::<E, P, S>(p, s, m, out.drop_first(), rest);
        assert forall|k: int| 0 <= k < out.len() implies elem_ok(#[trigger] out[k]) by { if k > 0 { assert(out[k] == out.drop_first()[k - 1]); } }
    }
}
// all alternatives of a text, flattened (what `bound_sets` collects)
pub open spec fn flat_sets(alts: Seq<Vec<BoundSet>>) -> Seq<BoundSet>
    decreases alts.len()
{
    if alts.len() == 0 { Seq::<BoundSet>::empty() } else { flat_sets(alts.drop_last()) + alts.last()@ }
}
pub proof fn lemma_or_consumes(a: Seq<char>)
    ensures g_or(a) matches Some(b) ==> b.len() < a.len(),
{
    lemma_span_le(a, |c: char| ws_char(c));
    let r = skip_ws(a);
    if starts2(r, '|', '|') { lemma_span_le(r.skip(2), |c: char| ws_char(c)); }
}
