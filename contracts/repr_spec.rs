// ===================== proof side: intervals represent npm comparator lists =====================
pub proof fn lemma_set_ok_concat(a: Seq<KCmp>, b: Seq<KCmp>, v: VKey)
    ensures set_ok(a + b, v) == (set_ok(a, v) && set_ok(b, v))
{
    let t = a + b;
    if set_ok(a, v) && set_ok(b, v) {
        assert forall|i: int| 0 <= i < t.len() implies kcmp_ok(#[trigger] t[i], v) by { if i < a.len() { assert(t[i] == a[i]); } else { assert(t[i] == b[i - a.len()]); } }
    }
    if set_ok(t, v) {
        assert forall|i: int| 0 <= i < a.len() implies kcmp_ok(#[trigger] a[i], v) by { assert(t[i] == a[i]); }
        assert forall|i: int| 0 <= i < b.len() implies kcmp_ok(#[trigger] b[i], v) by { assert(t[i + a.len()] == b[i]); }
    }
}
pub proof fn lemma_set_gate_concat(a: Seq<KCmp>, b: Seq<KCmp>, v: VKey)
    ensures set_gate(a + b, v) == (set_gate(a, v) || set_gate(b, v))
{
    let t = a + b;
    if v.pre.len() > 0 {
        if set_gate(t, v) {
            let i = choose|i: int| 0 <= i < t.len() && (#[trigger] t[i]).k.pre.len() > 0 && same_tuple(t[i].k, v);
            if i < a.len() { assert(t[i] == a[i]); assert(set_gate(a, v)); } else { assert(t[i] == b[i - a.len()]); assert(set_gate(b, v)); }
        }
        if set_gate(a, v) { let i = choose|i: int| 0 <= i < a.len() && (#[trigger] a[i]).k.pre.len() > 0 && same_tuple(a[i].k, v); assert(t[i] == a[i]); }
        if set_gate(b, v) { let i = choose|i: int| 0 <= i < b.len() && (#[trigger] b[i]).k.pre.len() > 0 && same_tuple(b[i].k, v); assert(t[i + a.len()] == b[i]); }
    }
}
/// between two prereleases of one tuple lie only prereleases of that tuple
pub proof fn lemma_between_pre(w1: VKey, w2: VKey, v: VKey)
    requires same_tuple(w1, v), w1.pre.len() > 0, v.pre.len() > 0,
        (kcmp(w1, w2) != Ordering::Greater && kcmp(w2, v) != Ordering::Greater) || (kcmp(v, w2) != Ordering::Greater && kcmp(w2, w1) != Ordering::Greater)
    ensures same_tuple(w2, v), w2.pre.len() > 0
{}
/// the opt-in of an intersection, seen from a version inside it, is the union of the operands' opt-ins
/// the bounds of an intersection: one of the operands' lower bounds, not below either; one of their upper bounds, not above either
/// (which operand's bound is kept at a tie -- same version and inclusivity -- is left open: no property depends on it)
pub open spec fn inter_bounds(b1: BoundSet, b2: BoundSet, b: BoundSet) -> bool {
    &&& (*b.lower == *b1.lower || *b.lower == *b2.lower) && (*b.upper == *b1.upper || *b.upper == *b2.upper)
    &&& cut_cmp(cut_of(*b.lower), cut_of(*b1.lower)) != Ordering::Less && cut_cmp(cut_of(*b.lower), cut_of(*b2.lower)) != Ordering::Less
    &&& cut_cmp(cut_of(*b.upper), cut_of(*b1.upper)) != Ordering::Greater && cut_cmp(cut_of(*b.upper), cut_of(*b2.upper)) != Ordering::Greater
}
/// a lower bound that is not kept opts v in only if the kept one (between it and v) does too
proof fn lemma_gate_lower_kept(kept: Bound, lost: Bound, v: VKey)
    requires is_lower(kept), is_lower(lost), cut_cmp(cut_of(lost), cut_of(kept)) != Ordering::Greater, above(cut_of(kept), v), v.pre.len() > 0, optin(lost, v)
    ensures optin(kept, v)
{
    reveal(cut_cmp);
    let w1 = key(bound_version(lost)->0);
    match bound_version(kept) { Some(w2) => { lemma_k_flip(w1, key(w2)); lemma_between_pre(w1, key(w2), v); }, None => {} }
}
proof fn lemma_gate_upper_kept(kept: Bound, lost: Bound, v: VKey)
    requires is_upper(kept), is_upper(lost), cut_cmp(cut_of(kept), cut_of(lost)) != Ordering::Greater, below(cut_of(kept), v), v.pre.len() > 0, optin(lost, v), below(cut_of(lost), v)
    ensures optin(kept, v)
{
    reveal(cut_cmp);
    let w1 = key(bound_version(lost)->0);
    match bound_version(kept) { Some(w2) => { lemma_k_flip(w1, key(w2)); lemma_k_flip(key(w2), v); lemma_between_pre(w1, key(w2), v); }, None => {} }
}
pub proof fn lemma_gate_intersect(b1: BoundSet, b2: BoundSet, b: BoundSet, v: VKey)
    requires bs_wf(b1), bs_wf(b2), bs_wf(b), within(b1, v), within(b2, v), within(b, v), inter_bounds(b1, b2, b),
    ensures gate(b, v) == (gate(b1, v) || gate(b2, v))
{
    lemma_cut_total(cut_of(*b.lower), cut_of(*b1.lower)); lemma_cut_total(cut_of(*b.lower), cut_of(*b2.lower));
    if v.pre.len() > 0 {
        if optin(*b1.lower, v) { lemma_gate_lower_kept(*b.lower, *b1.lower, v); }
        if optin(*b2.lower, v) { lemma_gate_lower_kept(*b.lower, *b2.lower, v); }
        if optin(*b1.upper, v) { lemma_gate_upper_kept(*b.upper, *b1.upper, v); }
        if optin(*b2.upper, v) { lemma_gate_upper_kept(*b.upper, *b2.upper, v); }
    }
}
pub proof fn lemma_repr_intersect(b1: BoundSet, c1: Seq<KCmp>, b2: BoundSet, c2: Seq<KCmp>, b: BoundSet)
    requires bs_wf(b1), bs_wf(b2), bs_wf(b), repr(b1, c1), repr(b2, c2),
        forall|v: VKey| #![trigger within(b, v)] (within(b, v) <==> (within(b1, v) && within(b2, v))),
        inter_bounds(b1, b2, b),
    ensures repr(b, c1 + c2)
{
    assert forall|v: VKey| #![trigger within(b, v)] wfk(v) implies (within(b, v) <==> set_ok(c1 + c2, v)) && (within(b, v) ==> (gate(b, v) <==> set_gate(c1 + c2, v))) by {
        lemma_set_ok_concat(c1, c2, v); lemma_set_gate_concat(c1, c2, v);
        assert(within(b1, v) <==> set_ok(c1, v)); assert(within(b2, v) <==> set_ok(c2, v));
        if within(b, v) { lemma_gate_intersect(b1, b2, b, v); }
    }
}
pub proof fn lemma_repr_empty_intersect(b1: BoundSet, c1: Seq<KCmp>, b2: BoundSet, c2: Seq<KCmp>)
    requires bs_wf(b1), bs_wf(b2), repr(b1, c1), repr(b2, c2), !boverlap(b1, b2)
    ensures forall|v: VKey| wfk(v) ==> !#[trigger] set_ok(c1 + c2, v)
{
    assert forall|v: VKey| wfk(v) implies !#[trigger] set_ok(c1 + c2, v) by {
        lemma_set_ok_concat(c1, c2, v); lemma_boverlap_none(b1, b2, v);
        assert(within(b1, v) <==> set_ok(c1, v)); assert(within(b2, v) <==> set_ok(c2, v));
    }
}
pub proof fn lemma_repr_sat(bs: BoundSet, cs: Seq<KCmp>, v: VKey)
    requires repr(bs, cs), wfk(v) ensures sat(bs, v) == npm_sat(cs, v)
{ assert(within(bs, v) <==> set_ok(cs, v)); }
/// an interval whose two cuts are those of a one- or two-comparator list represents it
pub proof fn lemma_repr_from_shape(bs: BoundSet, cs: Seq<KCmp>)
    requires bs_wf(bs), cs.len() <= 2, cut_of(*bs.lower) == lower_cut(cs), cut_of(*bs.upper) == upper_cut(cs),
        cs.len() == 2 ==> (cs[0].op is Ge || cs[0].op is Gt) && (cs[1].op is Lt || cs[1].op is Le),
    ensures repr(bs, cs)
{
    broadcast use group_k_order;
    assert forall|v: VKey| #![trigger within(bs, v)] wfk(v) implies (within(bs, v) <==> set_ok(cs, v)) && (within(bs, v) ==> (gate(bs, v) <==> set_gate(cs, v))) by {
        if cs.len() == 0 { assert(cs =~= Seq::<KCmp>::empty()); lemma_set0(v); }
        else if cs.len() == 1 { assert(cs =~= s1(cs[0])); lemma_set1(cs[0], v); }
        else { assert(cs =~= s2(cs[0], cs[1])); lemma_set2(cs[0], cs[1], v); }
    }
}
