// ===================== C02: a space separated comparator list is the conjunction of its comparators =====================
/// postcondition of BoundSet::intersect as a relation
pub open spec fn binter_post(a: BoundSet, b: BoundSet, r: Option<BoundSet>) -> bool {
    &&& (r is Some) <==> boverlap(a, b)
    &&& r matches Some(x) ==> bs_wf(x)
            // the greater of the two lower cuts and the lesser of the two upper cuts; at a tie (same version and inclusivity, possibly
            // different build metadata) either operand's bound will do: the property does not say which
            && inter_bounds(a, b, x)
            && forall|v: VKey| #![trigger within(x, v)] (within(x, v) <==> (within(a, v) && within(b, v)))
    &&& (bs_small(a) && bs_small(b)) ==> (r matches Some(x) ==> bs_small(x))
    &&& r is None ==> forall|v: VKey| #![trigger within(a, v), within(b, v)] !(within(a, v) && within(b, v))
}
/// every comparator among the first n (garbage tokens are `None`) has v within its bounds
pub open spec fn all_within(s: Seq<Option<BoundSet>>, n: int, v: VKey) -> bool {
    forall|i: int| 0 <= i < n && i < s.len() ==> ((#[trigger] s[i]) matches Some(b) ==> within(b, v))
}
/// some comparator among the first n opts the prerelease v in
pub open spec fn some_gate(s: Seq<Option<BoundSet>>, n: int, v: VKey) -> bool {
    exists|i: int| 0 <= i < n && i < s.len() && ((#[trigger] s[i]) matches Some(b) && gate(b, v))
}
pub open spec fn has_some(s: Seq<Option<BoundSet>>, n: int) -> bool {
    exists|i: int| 0 <= i < n && i < s.len() && (#[trigger] s[i]) is Some
}
/// (P) C02: the list admits exactly what all of its comparators admit; a prerelease needs the bounds of all and the opt-in of one;
/// when nothing lies within all of them the list contributes no alternative (it never widens)
pub open spec fn conj_post(s: Seq<Option<BoundSet>>, r: Seq<BoundSet>) -> bool {
    let n = s.len() as int;
    &&& r.len() <= 1
    &&& r.len() == 1 ==> bs_wf(r[0]) && has_some(s, n)
            && (forall|v: VKey| #![trigger within(r[0], v)] within(r[0], v) <==> all_within(s, n, v))
            && (forall|v: VKey| #![trigger gate(r[0], v)] within(r[0], v) ==> (gate(r[0], v) <==> some_gate(s, n, v)))
    &&& r.len() == 0 ==> !has_some(s, n) || forall|v: VKey| !#[trigger] all_within(s, n, v)
    &&& all_small(s) ==> ssmall(r)
    // a list with a single comparator is that comparator
    &&& (s.len() == 1 && s[0] is Some) ==> r.len() == 1 && r[0] == s[0]->0
}
pub open spec fn all_small(s: Seq<Option<BoundSet>>) -> bool { forall|i: int| 0 <= i < s.len() ==> ((#[trigger] s[i]) matches Some(b) ==> bs_small(b)) }
/// loop invariant of `intersect_all` after n comparators
pub open spec fn conj_inv(s: Seq<Option<BoundSet>>, n: int, acc: Option<BoundSet>) -> bool {
    &&& (n == 1 && s.len() >= 1 && s[0] is Some) ==> acc == s[0]
    &&& match acc {
        None => !has_some(s, n),
        Some(a) => bs_wf(a) && has_some(s, n) && (all_small(s) ==> bs_small(a))
            && (forall|v: VKey| #![trigger within(a, v)] within(a, v) <==> all_within(s, n, v))
            && (forall|v: VKey| #![trigger gate(a, v)] within(a, v) ==> (gate(a, v) <==> some_gate(s, n, v))),
    }
}
pub broadcast proof fn lemma_all_within_step(s: Seq<Option<BoundSet>>, n: int, v: VKey)
    requires 0 <= n < s.len()
    ensures #[trigger] all_within(s, n + 1, v) == (all_within(s, n, v) && (s[n] matches Some(b) ==> within(b, v)))
{
    if all_within(s, n, v) && (s[n] matches Some(b) ==> within(b, v)) {
        assert forall|i: int| 0 <= i < n + 1 && i < s.len() implies ((#[trigger] s[i]) matches Some(b) ==> within(b, v)) by { if i < n { } else { assert(i == n); } }
    }
    if all_within(s, n + 1, v) { assert(s[n] matches Some(b) ==> within(b, v)); }
}
pub broadcast proof fn lemma_some_gate_step(s: Seq<Option<BoundSet>>, n: int, v: VKey)
    requires 0 <= n < s.len()
    ensures #[trigger] some_gate(s, n + 1, v) == (some_gate(s, n, v) || (s[n] matches Some(b) && gate(b, v)))
{
    if some_gate(s, n + 1, v) { let i = choose|i: int| 0 <= i < n + 1 && i < s.len() && ((#[trigger] s[i]) matches Some(b) && gate(b, v)); if i < n { assert(some_gate(s, n, v)); } }
    if some_gate(s, n, v) { let i = choose|i: int| 0 <= i < n && i < s.len() && ((#[trigger] s[i]) matches Some(b) && gate(b, v)); assert(0 <= i < n + 1); }
    if s[n] matches Some(b) && gate(b, v) { assert(0 <= n < n + 1 && (s[n] matches Some(b) && gate(b, v))); }
}
pub broadcast proof fn lemma_has_some_step(s: Seq<Option<BoundSet>>, n: int)
    requires 0 <= n < s.len()
    ensures #[trigger] has_some(s, n + 1) == (has_some(s, n) || s[n] is Some)
{
    if has_some(s, n + 1) { let i = choose|i: int| 0 <= i < n + 1 && i < s.len() && (#[trigger] s[i]) is Some; if i < n { assert(has_some(s, n)); } }
    if has_some(s, n) { let i = choose|i: int| 0 <= i < n && i < s.len() && (#[trigger] s[i]) is Some; assert(0 <= i < n + 1); }
    if s[n] is Some { assert(0 <= n < n + 1 && s[n] is Some); }
}
pub broadcast proof fn lemma_conj_zero(s: Seq<Option<BoundSet>>, v: VKey)
    ensures #[trigger] all_within(s, 0, v), !#[trigger] some_gate(s, 0, v), !has_some(s, 0)
{}
pub broadcast group g_conj { lemma_all_within_step, lemma_some_gate_step, lemma_has_some_step, lemma_conj_zero }

/// one loop iteration: `acc` is what `intersect_all` holds after looking at comparator n
pub proof fn lemma_conj_inv_step(s: Seq<Option<BoundSet>>, n: int, old_acc: Option<BoundSet>, acc: Option<BoundSet>)
    requires 0 <= n < s.len(), conj_inv(s, n, old_acc),
        s[n] matches Some(b) ==> bs_wf(b),
        match s[n] {
            None => acc == old_acc,
            Some(b) => match old_acc { None => acc == Some(b), Some(a) => acc is Some && binter_post(a, b, acc) },
        },
    ensures conj_inv(s, n + 1, acc)
{
    broadcast use g_conj;
    match s[n] {
        None => {
            match acc { Some(a) => {
                assert forall|v: VKey| #![trigger within(a, v)] within(a, v) <==> all_within(s, n + 1, v) by { lemma_all_within_step(s, n, v); }
                assert forall|v: VKey| #![trigger gate(a, v)] within(a, v) ==> (gate(a, v) <==> some_gate(s, n + 1, v)) by { lemma_some_gate_step(s, n, v); }
            }, None => {} }
        },
        Some(b) => {
            match old_acc {
                None => {
                    assert forall|v: VKey| #![trigger within(b, v)] within(b, v) <==> all_within(s, n + 1, v) by {
                        lemma_all_within_step(s, n, v);
                        assert forall|i: int| 0 <= i < n && i < s.len() implies ((#[trigger] s[i]) matches Some(x) ==> within(x, v)) by { if s[i] is Some { assert(has_some(s, n)); } }
                    }
                    assert forall|v: VKey| #![trigger gate(b, v)] within(b, v) ==> (gate(b, v) <==> some_gate(s, n + 1, v)) by {
                        lemma_some_gate_step(s, n, v);
                        if some_gate(s, n, v) { let i = choose|i: int| 0 <= i < n && i < s.len() && ((#[trigger] s[i]) matches Some(x) && gate(x, v)); assert(has_some(s, n)); }
                    }
                },
                Some(a) => {
                    let c = acc->0;
                    assert forall|v: VKey| #![trigger within(c, v)] within(c, v) <==> all_within(s, n + 1, v) by { lemma_all_within_step(s, n, v); }
                    assert forall|v: VKey| #![trigger gate(c, v)] within(c, v) ==> (gate(c, v) <==> some_gate(s, n + 1, v)) by {
                        lemma_some_gate_step(s, n, v);
                        if within(c, v) { lemma_gate_intersect(a, b, c, v); }
                    }
                },
            }
        },
    }
}
/// early exit: the comparators seen so far already have nothing in common
pub proof fn lemma_conj_inv_empty(s: Seq<Option<BoundSet>>, n: int, acc: Option<BoundSet>)
    requires 0 <= n < s.len(), conj_inv(s, n, acc), acc is Some, s[n] is Some, !boverlap(acc->0, s[n]->0)
    ensures conj_post(s, Seq::<BoundSet>::empty())
{
    let a = acc->0; let b = s[n]->0;
    assert forall|v: VKey| !#[trigger] all_within(s, s.len() as int, v) by {
        if all_within(s, s.len() as int, v) {
            assert(all_within(s, n, v));
            assert(s[n] matches Some(x) ==> within(x, v));
            lemma_boverlap_none(a, b, v);
        }
    }
}
pub proof fn lemma_conj_post_from_inv(s: Seq<Option<BoundSet>>, acc: Option<BoundSet>, r: Seq<BoundSet>)
    requires conj_inv(s, s.len() as int, acc), match acc { Some(a) => r.len() == 1 && r[0] == a, None => r.len() == 0 }
    ensures conj_post(s, r)
{}
