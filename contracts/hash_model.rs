// ===================== A11: abstract model of std hashing =====================
pub enum Tok { U64(u64), VecKey(int) }
pub uninterp spec fn fed<H>(h: &H) -> Seq<Tok>;
/// Eq-class representative of an identifier list as far as Hash/Eq are concerned (derived Hash/Eq on Identifier agree: trusted)
pub uninterp spec fn vec_hash_key<T>(s: Seq<T>) -> int;
/// std: `k1 == k2 ==> hash(k1) == hash(k2)` for Vec<T> when it holds for T; derived Hash/Eq on Identifier agree (trusted)
pub axiom fn axiom_idents_key(a: Seq<Identifier>, b: Seq<Identifier>)
    requires pre_cmp(a, b) == Ordering::Equal
    ensures vec_hash_key(a) == vec_hash_key(b);
pub assume_specification<H: std::hash::Hasher>[ <u64 as std::hash::Hash>::hash::<H> ](x: &u64, state: &mut H)
    ensures fed(final(state)) == fed(old(state)).push(Tok::U64(*x));
pub assume_specification<T: std::hash::Hash, A: core::alloc::Allocator, H: std::hash::Hasher>[ <Vec<T, A> as std::hash::Hash>::hash::<H> ](x: &Vec<T, A>, state: &mut H)
    ensures fed(final(state)) == fed(old(state)).push(Tok::VecKey(vec_hash_key(x@)));
pub open spec fn hash_feed(k: VKey) -> Seq<Tok> { seq![Tok::U64(k.major as u64), Tok::U64(k.minor as u64), Tok::U64(k.patch as u64), Tok::VecKey(vec_hash_key(k.pre))] }
/// C04: versions that compare Equal feed the hasher identically
pub proof fn lemma_eq_same_feed(a: Version, b: Version)
    requires ver_cmp(a, b) == Ordering::Equal
    ensures hash_feed(key(a)) == hash_feed(key(b))
{ if a.pre_release@.len() > 0 && b.pre_release@.len() > 0 { axiom_idents_key(a.pre_release@, b.pre_release@); } else { assert(a.pre_release@ =~= b.pre_release@); } }
