// ===================== spec: npm comparator sets (node-semver README / range.js, includePrerelease = false) =====================
pub enum Op { Lt, Le, Gt, Ge, Eq }
pub struct KCmp { pub op: Op, pub k: VKey }
pub open spec fn kcmp_ok(c: KCmp, v: VKey) -> bool {
    match c.op { Op::Lt => klt(v, c.k), Op::Le => kle(v, c.k), Op::Gt => klt(c.k, v), Op::Ge => kle(c.k, v), Op::Eq => keq(v, c.k) }
}
pub open spec fn set_ok(cs: Seq<KCmp>, v: VKey) -> bool { forall|i: int| 0 <= i < cs.len() ==> kcmp_ok(#[trigger] cs[i], v) }
pub open spec fn set_gate(cs: Seq<KCmp>, v: VKey) -> bool {
    v.pre.len() == 0 || exists|i: int| 0 <= i < cs.len() && (#[trigger] cs[i]).k.pre.len() > 0 && same_tuple(cs[i].k, v)
}
pub open spec fn npm_sat(cs: Seq<KCmp>, v: VKey) -> bool { set_ok(cs, v) && set_gate(cs, v) }
pub open spec fn wfk(v: VKey) -> bool { 0 <= v.major <= MAX_SAFE_INTEGER && 0 <= v.minor <= MAX_SAFE_INTEGER && 0 <= v.patch <= MAX_SAFE_INTEGER }
/// the interval represents the comparator set: same bounds membership, and same prerelease opt-in inside the bounds
pub open spec fn repr(bs: BoundSet, cs: Seq<KCmp>) -> bool {
    forall|v: VKey| #![trigger within(bs, v)] wfk(v) ==> (within(bs, v) <==> set_ok(cs, v)) && (within(bs, v) ==> (gate(bs, v) <==> set_gate(cs, v)))
}
pub open spec fn s1(a: KCmp) -> Seq<KCmp> { Seq::<KCmp>::empty().push(a) }
pub open spec fn s2(a: KCmp, b: KCmp) -> Seq<KCmp> { Seq::<KCmp>::empty().push(a).push(b) }
pub broadcast proof fn lemma_set0(v: VKey)
    ensures #[trigger] set_ok(Seq::<KCmp>::empty(), v), #[trigger] set_gate(Seq::<KCmp>::empty(), v) == (v.pre.len() == 0)
{}
pub broadcast proof fn lemma_set1(a: KCmp, v: VKey)
    ensures #[trigger] set_ok(s1(a), v) == kcmp_ok(a, v),
            #[trigger] set_gate(s1(a), v) == (v.pre.len() == 0 || (a.k.pre.len() > 0 && same_tuple(a.k, v)))
{
    let s = s1(a);
    assert(s[0] == a);
    if a.k.pre.len() > 0 && same_tuple(a.k, v) { assert(s[0].k.pre.len() > 0 && same_tuple(s[0].k, v)); }
}
pub broadcast proof fn lemma_set2(a: KCmp, b: KCmp, v: VKey)
    ensures #[trigger] set_ok(s2(a, b), v) == (kcmp_ok(a, v) && kcmp_ok(b, v)),
            #[trigger] set_gate(s2(a, b), v) == (v.pre.len() == 0 || (a.k.pre.len() > 0 && same_tuple(a.k, v)) || (b.k.pre.len() > 0 && same_tuple(b.k, v)))
{
    let s = s2(a, b);
    assert(s[0] == a && s[1] == b);
    if a.k.pre.len() > 0 && same_tuple(a.k, v) { assert(s[0].k.pre.len() > 0 && same_tuple(s[0].k, v)); }
    if b.k.pre.len() > 0 && same_tuple(b.k, v) { assert(s[1].k.pre.len() > 0 && same_tuple(s[1].k, v)); }
}
pub broadcast group group_sets { lemma_set0, lemma_set1, lemma_set2 }
pub open spec fn k3(a: int, b: int, c: int) -> VKey { VKey { major: a, minor: b, patch: c, pre: Seq::empty() } }
pub open spec fn k4(a: int, b: int, c: int, p: Seq<Identifier>) -> VKey { VKey { major: a, minor: b, patch: c, pre: p } }
pub open spec fn pre0() -> Seq<Identifier> { seq![Identifier::Numeric(0)] }
pub open spec fn ge(k: VKey) -> KCmp { KCmp { op: Op::Ge, k } }
pub open spec fn lt(k: VKey) -> KCmp { KCmp { op: Op::Lt, k } }
pub open spec fn eqc(k: VKey) -> KCmp { KCmp { op: Op::Eq, k } }

pub open spec fn gt(k: VKey) -> KCmp { KCmp { op: Op::Gt, k } }
pub open spec fn le(k: VKey) -> KCmp { KCmp { op: Op::Le, k } }
/// node-semver isX(): a component that is missing or a wildcard.  A wildcard minor makes the patch a wildcard too.
pub open spec fn xM(p: Partial) -> bool { p.major is None }
pub open spec fn xm(p: Partial) -> bool { xM(p) || p.minor is None }
pub open spec fn xp(p: Partial) -> bool { xm(p) || p.patch is None }
pub open spec fn pM(p: Partial) -> int { p.major->0 as int }
pub open spec fn pm(p: Partial) -> int { p.minor->0 as int }
pub open spec fn pp(p: Partial) -> int { p.patch->0 as int }
pub open spec fn any_set() -> Seq<KCmp> { s1(ge(k3(0, 0, 0))) }           // README: `*` := `>=0.0.0`
pub open spec fn null_set() -> Seq<KCmp> { s1(lt(k4(0, 0, 0, pre0()))) }  // range.js: `<0.0.0-0`

/// README "Caret Ranges", range.js replaceCaret
pub open spec fn npm_caret(p: Partial) -> Seq<KCmp> {
    let pre = p.pre_release@;
    if xM(p) { any_set() }
    else if xm(p) { s2(ge(k3(pM(p), 0, 0)), lt(k4(pM(p) + 1, 0, 0, pre0()))) }
    else if xp(p) { if pM(p) == 0 { s2(ge(k3(0, pm(p), 0)), lt(k4(0, pm(p) + 1, 0, pre0()))) } else { s2(ge(k3(pM(p), pm(p), 0)), lt(k4(pM(p) + 1, 0, 0, pre0()))) } }
    else if pM(p) == 0 && pm(p) == 0 { s2(ge(k4(0, 0, pp(p), pre)), lt(k4(0, 0, pp(p) + 1, pre0()))) }
    else if pM(p) == 0 { s2(ge(k4(0, pm(p), pp(p), pre)), lt(k4(0, pm(p) + 1, 0, pre0()))) }
    else { s2(ge(k4(pM(p), pm(p), pp(p), pre)), lt(k4(pM(p) + 1, 0, 0, pre0()))) }
}
/// README "Tilde Ranges", range.js replaceTilde (`~>` is the same as `~`)
pub open spec fn npm_tilde(p: Partial) -> Seq<KCmp> {
    let pre = p.pre_release@;
    if xM(p) { any_set() }
    else if xm(p) { s2(ge(k3(pM(p), 0, 0)), lt(k4(pM(p) + 1, 0, 0, pre0()))) }
    else if xp(p) { s2(ge(k3(pM(p), pm(p), 0)), lt(k4(pM(p), pm(p) + 1, 0, pre0()))) }
    else { s2(ge(k4(pM(p), pm(p), pp(p), pre)), lt(k4(pM(p), pm(p) + 1, 0, pre0()))) }
}
/// README "X-Ranges", range.js replaceXRange without operator
pub open spec fn npm_plain(p: Partial) -> Seq<KCmp> {
    let pre = p.pre_release@;
    if xM(p) { any_set() }
    else if xm(p) { s2(ge(k3(pM(p), 0, 0)), lt(k4(pM(p) + 1, 0, 0, pre0()))) }
    else if xp(p) { s2(ge(k3(pM(p), pm(p), 0)), lt(k4(pM(p), pm(p) + 1, 0, pre0()))) }
    else { s1(eqc(k4(pM(p), pm(p), pp(p), pre))) }
}
/// range.js replaceXRange with an operator
pub open spec fn npm_primitive(op: Operation, p: Partial) -> Seq<KCmp> {
    let pre = p.pre_release@;
    if xM(p) { match op { Operation::GreaterThan | Operation::LessThan => null_set(), _ => any_set() } }
    else if xm(p) { match op {
        Operation::GreaterThan => s1(ge(k3(pM(p) + 1, 0, 0))),
        Operation::GreaterThanEquals => s1(ge(k3(pM(p), 0, 0))),
        Operation::LessThan => s1(lt(k4(pM(p), 0, 0, pre0()))),
        Operation::LessThanEquals => s1(lt(k4(pM(p) + 1, 0, 0, pre0()))),
        Operation::Exact => s2(ge(k3(pM(p), 0, 0)), lt(k4(pM(p) + 1, 0, 0, pre0()))),
    } }
    else if xp(p) { match op {
        Operation::GreaterThan => s1(ge(k3(pM(p), pm(p) + 1, 0))),
        Operation::GreaterThanEquals => s1(ge(k3(pM(p), pm(p), 0))),
        Operation::LessThan => s1(lt(k4(pM(p), pm(p), 0, pre0()))),
        Operation::LessThanEquals => s1(lt(k4(pM(p), pm(p) + 1, 0, pre0()))),
        Operation::Exact => s2(ge(k3(pM(p), pm(p), 0)), lt(k4(pM(p), pm(p) + 1, 0, pre0()))),
    } }
    else { let k = k4(pM(p), pm(p), pp(p), pre); match op {
        Operation::GreaterThan => s1(gt(k)), Operation::GreaterThanEquals => s1(ge(k)), Operation::LessThan => s1(lt(k)), Operation::LessThanEquals => s1(le(k)), Operation::Exact => s1(eqc(k)),
    } }
}
/// README "Hyphen Ranges", range.js hyphenReplace: lower part / upper part (None = no comparator on that side)
pub open spec fn npm_hyphen_from(p: Partial) -> Option<KCmp> {
    if xM(p) { None } else if xm(p) { Some(ge(k3(pM(p), 0, 0))) } else if xp(p) { Some(ge(k3(pM(p), pm(p), 0))) } else { Some(ge(k4(pM(p), pm(p), pp(p), p.pre_release@))) }
}
pub open spec fn npm_hyphen_to(p: Partial) -> Option<KCmp> {
    if xM(p) { None } else if xm(p) { Some(lt(k4(pM(p) + 1, 0, 0, pre0()))) } else if xp(p) { Some(lt(k4(pM(p), pm(p) + 1, 0, pre0()))) } else { Some(le(k4(pM(p), pm(p), pp(p), p.pre_release@))) }
}
pub open spec fn npm_hyphen(f: Partial, t: Partial) -> Seq<KCmp> {
    match (npm_hyphen_from(f), npm_hyphen_to(t)) {
        (Some(a), Some(b)) => s2(a, b), (Some(a), None) => s1(a), (None, Some(b)) => s1(b), (None, None) => Seq::empty(),
    }
}
/// what `number()` guarantees for every parsed component
pub open spec fn partial_nums_ok(p: Partial) -> bool {
    (p.major matches Some(x) ==> x <= MAX_SAFE_INTEGER) && (p.minor matches Some(x) ==> x <= MAX_SAFE_INTEGER) && (p.patch matches Some(x) ==> x <= MAX_SAFE_INTEGER)
}
pub open spec fn wf_partial(p: Partial) -> bool {
    partial_nums_ok(p)
    // normalised where it is built (partial_version): a wildcard makes everything after it a wildcard
    && (p.major is None ==> p.minor is None) && (p.minor is None ==> p.patch is None) && (p.patch is None ==> p.pre_release@.len() == 0 && p.build@.len() == 0)
}
pub open spec fn lower_cut(cs: Seq<KCmp>) -> Cut { if cs.len() == 0 { Cut::NegInf } else { match cs[0].op { Op::Ge => Cut::At(cs[0].k, false), Op::Gt => Cut::At(cs[0].k, true), Op::Eq => Cut::At(cs[0].k, false), _ => Cut::NegInf } } }
pub open spec fn upper_cut(cs: Seq<KCmp>) -> Cut { if cs.len() == 0 { Cut::PosInf } else { let c = cs[cs.len() - 1]; match c.op { Op::Le => Cut::At(c.k, true), Op::Lt => Cut::At(c.k, false), Op::Eq => Cut::At(c.k, true), _ => Cut::PosInf } } }
/// the interval the code built has exactly the two cuts of npm's comparator list
pub open spec fn shape_ok(r: Option<BoundSet>, cs: Seq<KCmp>) -> bool {
    match r {
        Some(bs) => bs_wf(bs) && cut_of(*bs.lower) == lower_cut(cs) && cut_of(*bs.upper) == upper_cut(cs),
        // an interval nothing can enter is dropped
        None => cut_cmp(lower_cut(cs), upper_cut(cs)) != Ordering::Less,
    }
}

// ---- Seq-free form used by the exec-side shape contracts ----
pub enum CSet { Zero, One(KCmp), Two(KCmp, KCmp) }
pub open spec fn lc(c: KCmp) -> Cut { match c.op { Op::Ge => Cut::At(c.k, false), Op::Gt => Cut::At(c.k, true), Op::Eq => Cut::At(c.k, false), _ => Cut::NegInf } }
pub open spec fn uc(c: KCmp) -> Cut { match c.op { Op::Le => Cut::At(c.k, true), Op::Lt => Cut::At(c.k, false), Op::Eq => Cut::At(c.k, true), _ => Cut::PosInf } }
pub open spec fn cset_lo(c: CSet) -> Cut { match c { CSet::Zero => Cut::NegInf, CSet::One(a) => lc(a), CSet::Two(a, _) => lc(a) } }
pub open spec fn cset_hi(c: CSet) -> Cut { match c { CSet::Zero => Cut::PosInf, CSet::One(a) => uc(a), CSet::Two(_, b) => uc(b) } }
pub open spec fn cset_seq(c: CSet) -> Seq<KCmp> { match c { CSet::Zero => Seq::empty(), CSet::One(a) => s1(a), CSet::Two(a, b) => s2(a, b) } }
pub open spec fn shape_ok_c(r: Option<BoundSet>, c: CSet) -> bool {
    match r {
        Some(bs) => bs_wf(bs) && cut_of(*bs.lower) == cset_lo(c) && cut_of(*bs.upper) == cset_hi(c),
        None => cut_cmp(cset_lo(c), cset_hi(c)) != Ordering::Less,
    }
}
pub open spec fn any_c() -> CSet { CSet::One(ge(k3(0, 0, 0))) }
pub open spec fn null_c() -> CSet { CSet::One(lt(k4(0, 0, 0, pre0()))) }
pub open spec fn npm_tilde_c(p: Partial) -> CSet {
    let pre = p.pre_release@;
    if xM(p) { any_c() }
    else if xm(p) { CSet::Two(ge(k3(pM(p), 0, 0)), lt(k4(pM(p) + 1, 0, 0, pre0()))) }
    else if xp(p) { CSet::Two(ge(k3(pM(p), pm(p), 0)), lt(k4(pM(p), pm(p) + 1, 0, pre0()))) }
    else { CSet::Two(ge(k4(pM(p), pm(p), pp(p), pre)), lt(k4(pM(p), pm(p) + 1, 0, pre0()))) }
}
pub open spec fn npm_caret_c(p: Partial) -> CSet {
    let pre = p.pre_release@;
    if xM(p) { any_c() }
    else if xm(p) { CSet::Two(ge(k3(pM(p), 0, 0)), lt(k4(pM(p) + 1, 0, 0, pre0()))) }
    else if xp(p) { if pM(p) == 0 { CSet::Two(ge(k3(0, pm(p), 0)), lt(k4(0, pm(p) + 1, 0, pre0()))) } else { CSet::Two(ge(k3(pM(p), pm(p), 0)), lt(k4(pM(p) + 1, 0, 0, pre0()))) } }
    else if pM(p) == 0 && pm(p) == 0 { CSet::Two(ge(k4(0, 0, pp(p), pre)), lt(k4(0, 0, pp(p) + 1, pre0()))) }
    else if pM(p) == 0 { CSet::Two(ge(k4(0, pm(p), pp(p), pre)), lt(k4(0, pm(p) + 1, 0, pre0()))) }
    else { CSet::Two(ge(k4(pM(p), pm(p), pp(p), pre)), lt(k4(pM(p) + 1, 0, 0, pre0()))) }
}
pub open spec fn npm_plain_c(p: Partial) -> CSet {
    let pre = p.pre_release@;
    if xM(p) { any_c() }
    else if xm(p) { CSet::Two(ge(k3(pM(p), 0, 0)), lt(k4(pM(p) + 1, 0, 0, pre0()))) }
    else if xp(p) { CSet::Two(ge(k3(pM(p), pm(p), 0)), lt(k4(pM(p), pm(p) + 1, 0, pre0()))) }
    else { CSet::One(eqc(k4(pM(p), pm(p), pp(p), pre))) }
}
pub open spec fn npm_primitive_c(op: Operation, p: Partial) -> CSet {
    let pre = p.pre_release@;
    if xM(p) { match op { Operation::GreaterThan | Operation::LessThan => null_c(), _ => any_c() } }
    else if xm(p) { match op {
        Operation::GreaterThan => CSet::One(ge(k3(pM(p) + 1, 0, 0))),
        Operation::GreaterThanEquals => CSet::One(ge(k3(pM(p), 0, 0))),
        Operation::LessThan => CSet::One(lt(k4(pM(p), 0, 0, pre0()))),
        Operation::LessThanEquals => CSet::One(lt(k4(pM(p) + 1, 0, 0, pre0()))),
        Operation::Exact => CSet::Two(ge(k3(pM(p), 0, 0)), lt(k4(pM(p) + 1, 0, 0, pre0()))),
    } }
    else if xp(p) { match op {
        Operation::GreaterThan => CSet::One(ge(k3(pM(p), pm(p) + 1, 0))),
        Operation::GreaterThanEquals => CSet::One(ge(k3(pM(p), pm(p), 0))),
        Operation::LessThan => CSet::One(lt(k4(pM(p), pm(p), 0, pre0()))),
        Operation::LessThanEquals => CSet::One(lt(k4(pM(p), pm(p) + 1, 0, pre0()))),
        Operation::Exact => CSet::Two(ge(k3(pM(p), pm(p), 0)), lt(k4(pM(p), pm(p) + 1, 0, pre0()))),
    } }
    else { let k = k4(pM(p), pm(p), pp(p), pre); match op {
        Operation::GreaterThan => CSet::One(gt(k)), Operation::GreaterThanEquals => CSet::One(ge(k)), Operation::LessThan => CSet::One(lt(k)), Operation::LessThanEquals => CSet::One(le(k)), Operation::Exact => CSet::One(eqc(k)),
    } }
}
pub open spec fn npm_hyphen_c(f: Partial, t: Partial) -> CSet {
    match (npm_hyphen_from(f), npm_hyphen_to(t)) {
        (Some(a), Some(b)) => CSet::Two(a, b), (Some(a), None) => CSet::One(a), (None, Some(b)) => CSet::One(b), (None, None) => CSet::Zero,
    }
}
/// loose ` - 10`: no lower side at all
pub open spec fn npm_hyphen_to_only_c(t: Partial) -> CSet {
    match npm_hyphen_to(t) { Some(b) => CSet::One(b), None => CSet::Zero }
}
/// same admitted versions (components within MAX_SAFE_INTEGER) although the bounds are written differently
pub open spec fn shape_equiv_c(r: Option<BoundSet>, c: CSet) -> bool {
    r matches Some(bs) && bs_wf(bs) && forall|v: VKey| #![trigger within(bs, v)] wfk(v) ==>
        (above(cut_of(*bs.lower), v) <==> above(cset_lo(c), v)) && (below(cut_of(*bs.upper), v) <==> below(cset_hi(c), v))
        && (within(bs, v) ==> (gate(bs, v) <==> set_gate(cset_seq(c), v)))
}
