// ===================== "succeeds only if the entire input is `major.minor.patch[-prerelease][+build]`" in the words of the statement ==========
// If the reference reader accepts a text, the text IS lead + M.m.p + [[-]pre] + [+build] + trail for well formed pieces, and the value read
// is what the pieces denote.
pub open spec fn lead_ok(lead: Seq<char>) -> bool {
    all_blank(lead) || (lead.len() > 0 && (lead[0] == 'v' || lead[0] == 'V') && all_blank(lead.skip(1)))
}
pub open spec fn pre_text_h(hy: bool, pre: Seq<Seq<char>>) -> Seq<char> {
    if pre.len() > 0 { (if hy { ch1('-') } else { Seq::<char>::empty() }) + join_dots(pre) } else { Seq::<char>::empty() }
}
pub open spec fn loose_text(lead: Seq<char>, ma: Seq<char>, mi: Seq<char>, pa: Seq<char>, hy: bool, pre: Seq<Seq<char>>, build: Seq<Seq<char>>, trail: Seq<char>) -> Seq<char> {
    lead + (ma + (ch1('.') + (mi + (ch1('.') + (pa + (pre_text_h(hy, pre) + (build_text(build) + trail)))))))
}
// the pieces, read off the text with the same left-to-right reading
pub open spec fn num_text(s: Seq<char>) -> Seq<char> { s.take(dg_span(s)) }
pub open spec fn id_text(s: Seq<char>) -> Seq<char> { s.take(span(s, |c: char| id_char(c)) as int) }
pub open spec fn parts_more(r: Seq<char>) -> Seq<Seq<char>>
    decreases r.len()
{
    match eat(r, '.') {
        None => Seq::<Seq<char>>::empty(),
        Some(r1) => match g_ident(r1) {
            None => Seq::<Seq<char>>::empty(),
            Some((id, r2)) => if r2.len() < r.len() { seq![id_text(r1)] + parts_more(r2) } else { Seq::<Seq<char>>::empty() },
        },
    }
}
pub open spec fn parts_of(s: Seq<char>) -> Seq<Seq<char>> {
    match g_ident(s) { None => Seq::<Seq<char>>::empty(), Some((id, r)) => seq![id_text(s)] + parts_more(r) }
}
pub proof fn lemma_number_split(s: Seq<char>)
    requires g_number(s) is Some,
    ensures s == num_text(s) + g_number(s).unwrap().1, wf_num(num_text(s)), g_number(s).unwrap().0 == dec_val(num_text(s)),
{
    lemma_span_props(s, |c: char| dg_char(c));
    assert(s =~= s.take(dg_span(s)) + s.skip(dg_span(s)));
}
pub proof fn lemma_ident_split(s: Seq<char>)
    requires g_ident(s) is Some,
    ensures s == id_text(s) + g_ident(s).unwrap().1, wf_id(id_text(s)), g_ident(s).unwrap().0 == classify(id_text(s)), g_ident(s).unwrap().1.len() < s.len(),
{
    lemma_span_props(s, |c: char| id_char(c));
    let n = span(s, |c: char| id_char(c)) as int;
    assert(s =~= s.take(n) + s.skip(n));
}
pub proof fn lemma_eat_split(s: Seq<char>, c: char)
    requires eat(s, c) is Some,
    ensures s == ch1(c) + eat(s, c).unwrap(),
{
    assert(s =~= ch1(c) + s.skip(1));
}
pub proof fn lemma_more_split(r: Seq<char>)
    ensures
        r == dotted(parts_more(r)) + g_idents_more(r).1,
        wf_ids(parts_more(r)),
        g_idents_more(r).0 == classify_all(parts_more(r)),
    decreases r.len(),
{
    let e = Seq::<Seq<char>>::empty();
    assert(classify_all(e) =~= Seq::<ISpec>::empty());
    assert(dotted(e) + r =~= r);
    if let Some(r1) = eat(r, '.') {
        lemma_eat_split(r, '.');
        if let Some((id, r2)) = g_ident(r1) {
            lemma_ident_split(r1);
            if r2.len() < r.len() {
                lemma_more_split(r2);
                let parts = parts_more(r);
                let rest = parts_more(r2);
                assert(parts.drop_first() =~= rest);
                assert(parts[0] == id_text(r1));
                assert(dotted(parts) == ch1('.') + parts[0] + dotted(rest));
                assert(r =~= dotted(parts) + g_idents_more(r).1);
                assert forall|k: int| 0 <= k < parts.len() implies wf_id(#[trigger] parts[k]) by { if k > 0 { assert(parts[k] == rest[k - 1]); } }
                assert(g_idents_more(r).0 =~= classify_all(parts)) by {
                    assert forall|k: int| 0 <= k < parts.len() implies g_idents_more(r).0[k] == classify_all(parts)[k] by { if k > 0 { assert(parts[k] == rest[k - 1]); } }
                }
            }
        }
    }
}
pub proof fn lemma_idents_split(s: Seq<char>)
    requires g_idents(s) is Some,
    ensures
        parts_of(s).len() >= 1,
        s == join_dots(parts_of(s)) + g_idents(s).unwrap().1,
        wf_ids(parts_of(s)),
        g_idents(s).unwrap().0 == classify_all(parts_of(s)),
{
    lemma_ident_split(s);
    let r = g_ident(s).unwrap().1;
    lemma_more_split(r);
    let parts = parts_of(s);
    let rest = parts_more(r);
    assert(parts.drop_first() =~= rest);
    assert(parts[0] == id_text(s));
    assert(s =~= join_dots(parts) + g_idents(s).unwrap().1);
    assert forall|k: int| 0 <= k < parts.len() implies wf_id(#[trigger] parts[k]) by { if k > 0 { assert(parts[k] == rest[k - 1]); } }
    assert(g_idents(s).unwrap().0 =~= classify_all(parts)) by {
        assert forall|k: int| 0 <= k < parts.len() implies g_idents(s).unwrap().0[k] == classify_all(parts)[k] by { if k > 0 { assert(parts[k] == rest[k - 1]); } }
    }
}
pub proof fn lemma_lead_split(s: Seq<char>)
    ensures
        s == s.take(s.len() - skip_ws(skip_v(s)).len()) + skip_ws(skip_v(s)),
        lead_ok(s.take(s.len() - skip_ws(skip_v(s)).len())),
{
    let s1 = skip_v(s);
    let s2 = skip_ws(s1);
    lemma_span_props(s1, |c: char| ws_char(c));
    let lead = s.take(s.len() - s2.len());
    let w = ws_span(s1);
    if s1 == s {
        assert(lead =~= s.take(w));
        assert(s =~= s.take(w) + s.skip(w));
    } else {
        assert(s1 == s.skip(1));
        assert(s2 =~= s.skip(1 + w));
        assert(lead =~= s.take(1 + w));
        assert(s =~= s.take(1 + w) + s.skip(1 + w));
        assert(lead.skip(1) =~= s1.take(w));
    }
}
pub proof fn lemma_core_split(s: Seq<char>)
    requires g_core(s) is Some,
    ensures
        exists|ma: Seq<char>, mi: Seq<char>, pa: Seq<char>|
            #[trigger] core_text(ma, mi, pa, g_core(s).unwrap().1) == s && wf_num(ma) && wf_num(mi) && wf_num(pa)
            && g_core(s).unwrap().0 == (dec_val(ma), dec_val(mi), dec_val(pa)),
{
    lemma_number_split(s);
    let ma = num_text(s);
    let r1 = g_number(s).unwrap().1;
    lemma_eat_split(r1, '.');
    let r2 = eat(r1, '.').unwrap();
    lemma_number_split(r2);
    let mi = num_text(r2);
    let r3 = g_number(r2).unwrap().1;
    lemma_eat_split(r3, '.');
    let r4 = eat(r3, '.').unwrap();
    lemma_number_split(r4);
    let pa = num_text(r4);
    assert(core_text(ma, mi, pa, g_core(s).unwrap().1) == s);
}
pub open spec fn core_text(ma: Seq<char>, mi: Seq<char>, pa: Seq<char>, rest: Seq<char>) -> Seq<char> {
    ma + (ch1('.') + (mi + (ch1('.') + (pa + rest))))
}
pub proof fn lemma_extras_split(r: Seq<char>)
    ensures
        exists|hy: bool, pre: Seq<Seq<char>>, build: Seq<Seq<char>>|
            #[trigger] extras_text(hy, pre, build, g_extras(r).1) == r && wf_ids(pre) && wf_ids(build)
            && g_extras(r).0 == (classify_all(pre), classify_all(build)),
{
    let e = Seq::<Seq<char>>::empty();
    assert(classify_all(e) =~= Seq::<ISpec>::empty());
    let trail = g_extras(r).1;
    let hy = g_pre(r) is Some && eat(r, '-') is Some;
    let pre = if g_pre(r) is Some { match eat(r, '-') { Some(x) => parts_of(x), None => parts_of(r) } } else { e };
    let after_pre = match g_pre(r) { Some((p, x)) => x, None => r };
    if g_pre(r) is Some {
        match eat(r, '-') {
            Some(x) => { lemma_eat_split(r, '-'); lemma_idents_split(x); },
            None => { lemma_idents_split(r); },
        }
    }
    assert(r =~= pre_text_h(hy, pre) + after_pre);
    let build = if g_build(after_pre) is Some { parts_of(eat(after_pre, '+').unwrap()) } else { e };
    if g_build(after_pre) is Some {
        lemma_eat_split(after_pre, '+');
        lemma_idents_split(eat(after_pre, '+').unwrap());
    }
    assert(after_pre =~= build_text(build) + trail);
    assert(extras_text(hy, pre, build, trail) =~= r);
}
pub open spec fn extras_text(hy: bool, pre: Seq<Seq<char>>, build: Seq<Seq<char>>, trail: Seq<char>) -> Seq<char> {
    pre_text_h(hy, pre) + (build_text(build) + trail)
}
pub proof fn lemma_c05_accepted_text_is_a_version(s: Seq<char>)
    requires ref_parse(s) is Some,
    ensures
        exists|lead: Seq<char>, ma: Seq<char>, mi: Seq<char>, pa: Seq<char>, hy: bool, pre: Seq<Seq<char>>, build: Seq<Seq<char>>, trail: Seq<char>|
            #[trigger] loose_text(lead, ma, mi, pa, hy, pre, build, trail) == s
            && lead_ok(lead) && all_blank(trail) && wf_num(ma) && wf_num(mi) && wf_num(pa) && wf_ids(pre) && wf_ids(build)
            && ref_parse(s) == Some(VSpec { major: dec_val(ma), minor: dec_val(mi), patch: dec_val(pa), pre: classify_all(pre), build: classify_all(build) }),
{
    let s2 = skip_ws(skip_v(s));
    let lead = s.take(s.len() - s2.len());
    lemma_lead_split(s);
    lemma_core_split(s2);
    let r5 = g_core(s2).unwrap().1;
    let (ma, mi, pa) = choose|ma: Seq<char>, mi: Seq<char>, pa: Seq<char>| #[trigger] core_text(ma, mi, pa, r5) == s2 && wf_num(ma) && wf_num(mi) && wf_num(pa) && g_core(s2).unwrap().0 == (dec_val(ma), dec_val(mi), dec_val(pa));
    lemma_extras_split(r5);
    let trail = g_extras(r5).1;
    let (hy, pre, build) = choose|hy: bool, pre: Seq<Seq<char>>, build: Seq<Seq<char>>| #[trigger] extras_text(hy, pre, build, trail) == r5 && wf_ids(pre) && wf_ids(build) && g_extras(r5).0 == (classify_all(pre), classify_all(build));
    assert(loose_text(lead, ma, mi, pa, hy, pre, build, trail) == s);
}
