// ===================== canaries: every function here must FAIL to verify =====================
pub proof fn canary_false() ensures false {}
