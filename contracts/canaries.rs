// ===================== canaries: every function here must FAIL to verify (vacuity guard, checked on every run) =====================
// (1) the verifier is alive
pub proof fn canary_false() ensures false {}
// (2) each precondition / postcondition relation used by the contracts is satisfiable: assuming it must not prove `false`
pub proof fn canary_pre_bs_wf(bs: BoundSet) requires bs_wf(bs), bs_small(bs) ensures false {}
pub proof fn canary_pre_rwf(r: Range) requires rwf(r), rsmall(r), r.0@.len() > 1 ensures false {}
pub proof fn canary_pre_wf_partial(p: Partial) requires wf_partial(p), p.major is Some, p.minor is Some, p.patch is Some, p.pre_release@.len() > 0 ensures false {}
pub proof fn canary_pre_wf_partial_wild(p: Partial) requires wf_partial(p), p.major is None ensures false {}
pub proof fn canary_rel_binter(a: BoundSet, b: BoundSet, r: Option<BoundSet>) requires bs_wf(a), bs_wf(b), binter_post(a, b, r), r is Some ensures false {}
pub proof fn canary_rel_binter_none(a: BoundSet, b: BoundSet, r: Option<BoundSet>) requires bs_wf(a), bs_wf(b), binter_post(a, b, r), r is None ensures false {}
pub proof fn canary_rel_bdiff(a: BoundSet, b: BoundSet, r: Option<Vec<BoundSet>>) requires bs_wf(a), bs_wf(b), bdiff_post(a, b, r), r matches Some(vs) && vs@.len() == 2 ensures false {}
pub proof fn canary_rel_rinter(a: Range, b: Range, r: Option<Range>) requires rwf(a), rwf(b), rinter_post(a, b, r), r is Some ensures false {}
pub proof fn canary_rel_rdiff(a: Range, b: Range, r: Option<Range>) requires rwf(a), rwf(b), rdiff_post(a, b, r), r is Some ensures false {}
pub proof fn canary_rel_rdiff_none(a: Range, b: Range, r: Option<Range>) requires rwf(a), rwf(b), a.0@.len() > 0, rdiff_post(a, b, r), r is None ensures false {}
pub proof fn canary_rel_conj(s: Seq<Option<BoundSet>>, r: Seq<BoundSet>) requires conj_post(s, r), r.len() == 1, s.len() == 3 ensures false {}
pub proof fn canary_rel_conj_empty(s: Seq<Option<BoundSet>>, r: Seq<BoundSet>) requires conj_post(s, r), r.len() == 0, has_some(s, s.len() as int) ensures false {}
pub proof fn canary_rel_minv(bs: BoundSet, r: Option<Version>) requires bs_wf(bs), minv_post(bs, r), r is Some ensures false {}
pub proof fn canary_rel_minv_none(bs: BoundSet, r: Option<Version>) requires bs_wf(bs), minv_post(bs, r), r is None ensures false {}
pub proof fn canary_rel_shape(r: Option<BoundSet>, c: CSet) requires shape_ok_c(r, c), r is Some ensures false {}
pub proof fn canary_rel_repr(bs: BoundSet, cs: Seq<KCmp>) requires bs_wf(bs), repr(bs, cs), cs.len() == 2 ensures false {}
// (3) one deliberately false statement per spec file: the specs are not so weak that anything follows
pub proof fn canary_spec_order_symmetric(a: Version, b: Version) ensures ver_cmp(a, b) == ver_cmp(b, a) {}
pub proof fn canary_spec_order_build_matters(a: Version, b: Version) requires key(a) == key(b) ensures a.build@ == b.build@ {}
pub proof fn canary_spec_bound_within_always(bs: BoundSet, v: VKey) requires bs_wf(bs) ensures within(bs, v) {}
pub proof fn canary_spec_bound_gate_always(bs: BoundSet, v: VKey) requires bs_wf(bs), within(bs, v) ensures sat(bs, v) {}
pub proof fn canary_spec_range_inter_is_union(a: Range, b: Range, r: Option<Range>, v: VKey) requires rinter_post(a, b, r), rwithin(a, v) ensures r matches Some(x) && rwithin(x, v) {}
pub proof fn canary_spec_range_diff_keeps_b(a: Range, b: Range, r: Option<Range>, v: VKey) requires rdiff_post(a, b, r), rwithin(a, v) ensures r matches Some(x) && rwithin(x, v) {}
pub proof fn canary_spec_npm_sat_always(cs: Seq<KCmp>, v: VKey) requires wfk(v) ensures npm_sat(cs, v) {}
pub proof fn canary_spec_npm_caret_is_tilde(p: Partial) requires wf_partial(p) ensures npm_caret_c(p) == npm_tilde_c(p) {}
pub proof fn canary_spec_repr_trivial(bs: BoundSet, cs: Seq<KCmp>) requires bs_wf(bs) ensures repr(bs, cs) {}
pub proof fn canary_spec_diff_none(a: VKey, b: VKey) ensures diff_spec(a, b) is None {}
pub proof fn canary_spec_diff_major_only(a: VKey, b: VKey) requires kcmp(a, b) != Ordering::Equal ensures diff_spec(a, b) == Some(VersionDiff::Major) {}
pub proof fn canary_spec_minv_any(bs: BoundSet, m: Version) requires bs_wf(bs) ensures minv_post(bs, Some(m)) {}
pub proof fn canary_spec_conj_any(s: Seq<Option<BoundSet>>) ensures conj_post(s, Seq::<BoundSet>::empty()) {}
pub proof fn canary_spec_small_always(bs: BoundSet) requires bs_wf(bs) ensures bs_small(bs) {}
// (4) the cover lemmas of the clause grids (m_props::cover_*) are not trivially true: with one shape left out they fail
pub proof fn canary_cover_missing_shape(p: Partial) requires wf_partial(p) ensures p.major is None || (p.major is Some && p.minor is None) || (p.major is Some && p.minor is Some && p.patch is Some) {}
pub proof fn canary_c02_concat_widens(sa: Seq<Option<BoundSet>>, sb: Seq<Option<BoundSet>>, ra: Seq<BoundSet>, r: Seq<BoundSet>, v: VKey) requires conj_post(sa, ra), conj_post(sa + sb, r), ra.len() == 1, within(ra[0], v) ensures r.len() == 1 && within(r[0], v) {}
