// ===================== reference grammar of version strings (C05), written from the property statement =====================
// `major.minor.patch[-prerelease][+build]`, decimal components not above MAX_SAFE_INTEGER, non-empty dot separated identifiers over
// [0-9A-Za-z-]; loose spellings the crate accepts and C12's quantifier names: an optional v/V, blanks, leading zeros, a prerelease
// without its hyphen.  The functions read a Seq<char> left to right and return what they denote plus the unread rest.
pub open spec fn id_char(c: char) -> bool { ('0' <= c && c <= '9') || ('a' <= c && c <= 'z') || ('A' <= c && c <= 'Z') || c == '-' }
pub open spec fn all_digits(s: Seq<char>) -> bool { forall|k: int| 0 <= k < s.len() ==> dg_char(#[trigger] s[k]) }
pub open spec fn all_id_chars(s: Seq<char>) -> bool { forall|k: int| 0 <= k < s.len() ==> id_char(#[trigger] s[k]) }
pub open spec fn all_blank(s: Seq<char>) -> bool { forall|k: int| 0 <= k < s.len() ==> ws_char(#[trigger] s[k]) }
pub open spec fn dec_val(s: Seq<char>) -> nat
    decreases s.len()
{
    if s.len() == 0 { 0 } else { dec_val(s.drop_last()) * 10 + ((s.last() as int) - ('0' as int)) as nat }
}
// A13': what std's `str::parse::<u64>` answers (core::num: an optional `+`, then ASCII digits, no overflow)
pub broadcast axiom fn ax_parse_u64_digits(s: Seq<char>)
    requires s.len() > 0, all_digits(s),
    ensures #[trigger] parse_spec::<u64>(s) == (if dec_val(s) <= u64::MAX { Some(dec_val(s) as u64) } else { None::<u64> });
pub broadcast axiom fn ax_parse_u64_nondigit(s: Seq<char>, k: int)
    requires 0 <= k < s.len(), !dg_char(s[k]), s[k] != '+',
    ensures #[trigger] parse_spec::<u64>(s) is None, #[trigger] s[k] == s[k];

pub enum ISpec { Num(nat), Alpha(Seq<char>) }
pub open spec fn classify(t: Seq<char>) -> ISpec {
    if all_digits(t) && dec_val(t) <= u64::MAX { ISpec::Num(dec_val(t)) } else { ISpec::Alpha(t) }
}
pub open spec fn ident_is(id: Identifier, s: ISpec) -> bool {
    match s {
        ISpec::Num(n) => id == Identifier::Numeric(n as u64),
        ISpec::Alpha(t) => id matches Identifier::AlphaNumeric(x) && x@ == t,
    }
}
pub open spec fn idents_are(ids: Seq<Identifier>, s: Seq<ISpec>) -> bool {
    ids.len() == s.len() && forall|k: int| 0 <= k < ids.len() ==> ident_is(#[trigger] ids[k], s[k])
}
pub struct VSpec { pub major: nat, pub minor: nat, pub patch: nat, pub pre: Seq<ISpec>, pub build: Seq<ISpec> }
pub open spec fn version_is(v: Version, s: VSpec) -> bool {
    v.major == s.major && v.minor == s.minor && v.patch == s.patch && idents_are(v.pre_release@, s.pre) && idents_are(v.build@, s.build)
}

pub open spec fn g_number(s: Seq<char>) -> Option<(nat, Seq<char>)> {
    let n = dg_span(s);
    if n == 0 || dec_val(s.take(n)) > MAX_SAFE_INTEGER { None } else { Some((dec_val(s.take(n)), s.skip(n))) }
}
pub open spec fn eat(s: Seq<char>, c: char) -> Option<Seq<char>> { if s.len() > 0 && s[0] == c { Some(s.skip(1)) } else { None } }
pub open spec fn g_core(s: Seq<char>) -> Option<((nat, nat, nat), Seq<char>)> {
    match g_number(s) { None => None, Some((a, r1)) =>
    match eat(r1, '.') { None => None, Some(r2) =>
    match g_number(r2) { None => None, Some((b, r3)) =>
    match eat(r3, '.') { None => None, Some(r4) =>
    match g_number(r4) { None => None, Some((c, r5)) => Some(((a, b, c), r5)) } } } } }
}
pub open spec fn g_ident(s: Seq<char>) -> Option<(ISpec, Seq<char>)> {
    let n = span(s, |c: char| id_char(c)) as int;
    if n == 0 { None } else { Some((classify(s.take(n)), s.skip(n))) }
}
// id ("." id)*  -- a dot that is not followed by an identifier is not read
pub open spec fn g_idents(s: Seq<char>) -> Option<(Seq<ISpec>, Seq<char>)>
    decreases s.len()
{
    match g_ident(s) {
        None => None,
        Some((id, r)) => if r.len() < s.len() { match g_idents_more(r) { (ids, r2) => Some((seq![id] + ids, r2)) } } else { None },
    }
}
pub open spec fn g_idents_more(r: Seq<char>) -> (Seq<ISpec>, Seq<char>)
    decreases r.len()
{
    match eat(r, '.') {
        None => (Seq::<ISpec>::empty(), r),
        Some(r1) => match g_ident(r1) {
            None => (Seq::<ISpec>::empty(), r),
            Some((id, r2)) => if r2.len() < r.len() { match g_idents_more(r2) { (ids, r3) => (seq![id] + ids, r3) } } else { (Seq::<ISpec>::empty(), r) },
        },
    }
}
pub open spec fn g_pre(s: Seq<char>) -> Option<(Seq<ISpec>, Seq<char>)> {
    match eat(s, '-') { Some(r) => g_idents(r), None => g_idents(s) }
}
pub open spec fn g_build(s: Seq<char>) -> Option<(Seq<ISpec>, Seq<char>)> {
    match eat(s, '+') { Some(r) => g_idents(r), None => None }
}
pub open spec fn g_extras(s: Seq<char>) -> ((Seq<ISpec>, Seq<ISpec>), Seq<char>) {
    match g_pre(s) {
        Some((p, r)) => match g_build(r) { Some((b, r2)) => ((p, b), r2), None => ((p, Seq::<ISpec>::empty()), r) },
        None => match g_build(s) { Some((b, r)) => ((Seq::<ISpec>::empty(), b), r), None => ((Seq::<ISpec>::empty(), Seq::<ISpec>::empty()), s) },
    }
}
pub open spec fn skip_v(s: Seq<char>) -> Seq<char> { if s.len() > 0 && (s[0] == 'v' || s[0] == 'V') { s.skip(1) } else { s } }
pub open spec fn skip_ws(s: Seq<char>) -> Seq<char> { s.skip(ws_span(s)) }
pub open spec fn g_version(s: Seq<char>) -> Option<(VSpec, Seq<char>)> {
    match g_core(skip_ws(skip_v(s))) {
        None => None,
        Some(((a, b, c), r)) => match g_extras(r) { ((p, bd), r2) => Some((VSpec { major: a, minor: b, patch: c, pre: p, build: bd }, r2)) },
    }
}

// ---- lemmas about span
pub proof fn lemma_span_le(s: Seq<char>, f: spec_fn(char) -> bool)
    ensures span(s, f) <= s.len(),
    decreases s.len(),
{
    if s.len() > 0 && f(s[0]) { lemma_span_le(s.drop_first(), f); }
}
// a split point "everything before satisfies f, the next one does not" is the span
pub proof fn lemma_span_unique(s: Seq<char>, f: spec_fn(char) -> bool, n: int)
    requires 0 <= n <= s.len(), forall|k: int| 0 <= k < n ==> f(#[trigger] s[k]), n < s.len() ==> !f(s[n]),
    ensures span(s, f) == n,
    decreases s.len(),
{
    if n > 0 {
        assert(f(s[0]));
        let t = s.drop_first();
        assert forall|k: int| 0 <= k < n - 1 implies f(#[trigger] t[k]) by { assert(t[k] == s[k + 1]); }
        lemma_span_unique(t, f, n - 1);
    } else {
        if s.len() > 0 { assert(!f(s[0])); }
    }
}
pub proof fn lemma_span_props(s: Seq<char>, f: spec_fn(char) -> bool)
    ensures
        span(s, f) <= s.len(),
        forall|k: int| 0 <= k < span(s, f) ==> f(#[trigger] s[k]),
        span(s, f) < s.len() ==> !f(s[span(s, f) as int]),
    decreases s.len(),
{
    if s.len() > 0 && f(s[0]) {
        let t = s.drop_first();
        lemma_span_props(t, f);
        assert forall|k: int| 0 <= k < span(s, f) implies f(#[trigger] s[k]) by { if k > 0 { assert(s[k] == t[k - 1]); } }
        if span(s, f) < s.len() { assert(s[span(s, f) as int] == t[span(t, f) as int]); }
    }
}
// ---- one-character literals: `literal("c")` reads exactly the character c
pub open spec fn ch1(c: char) -> Seq<char> { seq![c] }
pub open spec fn ch2(c: char, d: char) -> Seq<char> { seq![c, d] }
pub proof fn lemma_prefix1(c: char)
    ensures forall|i: Seq<char>| #[trigger] ch1(c).is_prefix_of(i) <==> (i.len() > 0 && i[0] == c),
{
    assert forall|i: Seq<char>| #[trigger] ch1(c).is_prefix_of(i) <==> (i.len() > 0 && i[0] == c) by {
        if i.len() > 0 && i[0] == c { assert(ch1(c) =~= i.subrange(0, 1)); }
        if ch1(c).is_prefix_of(i) { assert(i.subrange(0, 1)[0] == ch1(c)[0]); }
    }
}
// ---- `separated(1.., identifier, literal("."))` reads what g_idents reads (induction over the list winnow returns)
pub open spec fn is_ident_parser<'s, E, P: Parser<&'s str, Identifier, E>>(p: P) -> bool {
    &&& forall|a: &'s str, o: Identifier, b: &'s str| #[trigger] p.accepts(a, o, b) <==> (g_ident(a@) matches Some((x, r)) && ident_is(o, x) && r == b@)
    &&& forall|a: &'s str| #[trigger] p.rejects(a) <==> g_ident(a@) is None
}
pub open spec fn is_dot_parser<'s, E, S: Parser<&'s str, &'s str, E>>(s: S) -> bool {
    &&& forall|a: &'s str, o: &'s str, b: &'s str| #[trigger] s.accepts(a, o, b) ==> eat(a@, '.') == Some(b@)
    &&& forall|a: &'s str| #[trigger] s.rejects(a) ==> eat(a@, '.') is None
}
pub proof fn lemma_g_ident_consumes(s: Seq<char>)
    ensures g_ident(s) matches Some((x, r)) ==> r.len() < s.len(),
{
    lemma_span_le(s, |c: char| id_char(c));
}
pub proof fn lemma_sep_tail_idents<'s, E, P: Parser<&'s str, Identifier, E>, S: Parser<&'s str, &'s str, E>>(p: P, s: S, m: &'s str, out: Seq<Identifier>, rest: &'s str)
    requires is_ident_parser::<E, P>(p), is_dot_parser::<E, S>(s), sep_tail::<&'s str, Identifier, &'s str, E, P, S>(p, s, m, out, rest),
    ensures idents_are(out, g_idents_more(m@).0), g_idents_more(m@).1 == rest@,
    decreases out.len(),
{
    if out.len() == 0 {
    } else {
        let (x, m2, m3) = choose|x: &'s str, m2: &'s str, m3: &'s str| #[trigger] s.accepts(m, x, m2) && #[trigger] p.accepts(m2, out[0], m3) && sep_tail::<&'s str, Identifier, &'s str, E, P, S>(p, s, m3, out.drop_first(), rest);
        lemma_sep_tail_idents::<E, P, S>(p, s, m3, out.drop_first(), rest);
        lemma_g_ident_consumes(m2@);
        let t = g_idents_more(m3@).0;
        let id = g_ident(m2@).unwrap().0;
        assert(g_idents_more(m@).0 == seq![id] + t);
        assert forall|k: int| 0 <= k < out.len() implies ident_is(#[trigger] out[k], (seq![id] + t)[k]) by {
            if k > 0 { assert(out[k] == out.drop_first()[k - 1]); }
        }
    }
}
pub proof fn lemma_sep_all_idents<'s, E, P: Parser<&'s str, Identifier, E>, S: Parser<&'s str, &'s str, E>>(p: P, s: S, i: &'s str, out: Seq<Identifier>, rest: &'s str)
    requires is_ident_parser::<E, P>(p), is_dot_parser::<E, S>(s), out.len() >= 1, sep_all::<&'s str, Identifier, &'s str, E, P, S>(p, s, i, out, rest),
    ensures g_idents(i@) matches Some((x, r)) && idents_are(out, x) && r == rest@,
{
    let m = choose|m: &'s str| #[trigger] p.accepts(i, out[0], m) && sep_tail::<&'s str, Identifier, &'s str, E, P, S>(p, s, m, out.drop_first(), rest);
    lemma_sep_tail_idents::<E, P, S>(p, s, m, out.drop_first(), rest);
    lemma_g_ident_consumes(i@);
    let t = g_idents_more(m@).0;
    let id = g_ident(i@).unwrap().0;
    assert forall|k: int| 0 <= k < out.len() implies ident_is(#[trigger] out[k], (seq![id] + t)[k]) by {
        if k > 0 { assert(out[k] == out.drop_first()[k - 1]); }
    }
}
pub proof fn lemma_all_blank(s: Seq<char>)
    ensures all_blank(s) <==> ws_span(s) == s.len(), 0 <= ws_span(s) <= s.len(),
{
    lemma_span_props(s, |c: char| ws_char(c));
    if all_blank(s) && ws_span(s) < s.len() { assert(ws_char(s[ws_span(s)])); }
}

// ===================== C05, clause by clause, over the reference grammar =====================
// (ref_parse / too_long are defined next to Version::parse's contract: `Version::parse(text)` is Ok(v) exactly when ref_parse(text@)
// is Some(s) with version_is(v, s) and the text is not too long)
